// Package tmpl is the TMPL engine: static extraction of the Go backend's
// text/template bodies from the repository source, parsing with
// text/template/parse (the parser only, never the executor), abstract
// rendering under every valuation of a finite abstract domain, and analysis of
// the renderings with go/parser, go/types and go/cfg.
package tmpl

import (
	"fmt"
	"go/ast"
	"go/token"
	"go/types"
	"sort"
	"strings"
	"text/template/parse"

	"golang.org/x/tools/go/packages"

	"verif/checker/core"
)

// Set is one template set: the definitions visible when a file is rendered.
type Set struct {
	Name    string
	Sources []string               // names of the source variables, in parse order
	Defs    map[string]*parse.Tree // define name -> tree (later sources override earlier ones)
	Origin  map[string]string      // define name -> source variable
	Root    *parse.Tree            // the top-level (unnamed) template of single-file sets
}

// Extractor evaluates string-valued Go expressions of the templates packages statically.
type Extractor struct {
	prog *core.Program
	errs []string
}

const tplRel = "generator/golang/templates"

// Extract builds all template sets from the repository source.
func Extract(prog *core.Program) (map[string]*Set, error) {
	x := &Extractor{prog: prog}
	sets := map[string]*Set{}
	mk := func(name string, rel, fn string, extra ...[2]string) {
		var srcs []namedSrc
		s, err := x.stringList(rel, fn)
		if err != nil {
			x.errs = append(x.errs, fmt.Sprintf("%s: %v", name, err))
			return
		}
		srcs = append(srcs, s...)
		for _, e := range extra {
			s, err := x.stringList(e[0], e[1])
			if err != nil {
				x.errs = append(x.errs, fmt.Sprintf("%s: %v", name, err))
				return
			}
			srcs = append(srcs, s...)
		}
		set, err := parseSet(name, srcs)
		if err != nil {
			x.errs = append(x.errs, fmt.Sprintf("%s: %v", name, err))
			return
		}
		sets[name] = set
	}
	mk("default", tplRel, "Templates")
	mk("slim", tplRel, "Templates", [2]string{tplRel + "/slim", "Extension"})
	mk("raw_struct", tplRel, "Templates", [2]string{tplRel + "/raw_struct", "Extension"})
	mk("no_default_serdes", tplRel, "Templates", [2]string{tplRel + "/slim", "NoDefaultCodecExtension"})
	single := func(name, rel, v string) {
		s, err := x.stringVar(rel, v)
		if err != nil {
			x.errs = append(x.errs, fmt.Sprintf("%s: %v", name, err))
			return
		}
		set, err := parseSet(name, []namedSrc{{rel + "." + v, s}})
		if err != nil {
			x.errs = append(x.errs, fmt.Sprintf("%s: %v", name, err))
			return
		}
		sets[name] = set
	}
	single("ref", tplRel+"/ref", "File")
	single("reflection", tplRel+"/reflection", "File")
	single("reflection-ref", tplRel+"/reflection", "FileRef")
	if len(x.errs) > 0 {
		return sets, fmt.Errorf("%s", strings.Join(x.errs, "; "))
	}
	return sets, nil
}

type namedSrc struct{ name, text string }

func parseSet(name string, srcs []namedSrc) (*Set, error) {
	set := &Set{Name: name, Defs: map[string]*parse.Tree{}, Origin: map[string]string{}}
	for i, s := range srcs {
		trees := map[string]*parse.Tree{}
		t := parse.New(fmt.Sprintf("%s#%d", name, i))
		t.Mode = parse.SkipFuncCheck
		if _, err := t.Parse(s.text, "", "", trees); err != nil {
			return nil, fmt.Errorf("template source %s does not parse: %v", s.name, err)
		}
		set.Sources = append(set.Sources, s.name)
		var names []string
		for n := range trees {
			names = append(names, n)
		}
		sort.Strings(names)
		for _, n := range names {
			tr := trees[n]
			if n == t.Name {
				// top-level text of this source: text/template keeps it under the template's own name ("thrift");
				// a later non-empty top-level replaces an earlier one.
				if tr.Root != nil && !emptyTree(tr) {
					set.Root = tr
					set.Origin["<root>"] = s.name
				}
				continue
			}
			// text/template: a later empty definition does not replace an existing one
			if old, ok := set.Defs[n]; ok && emptyTree(tr) && !emptyTree(old) {
				continue
			}
			set.Defs[n] = tr
			set.Origin[n] = s.name
		}
	}
	return set, nil
}

func emptyTree(t *parse.Tree) bool {
	if t == nil || t.Root == nil {
		return true
	}
	for _, n := range t.Root.Nodes {
		if tn, ok := n.(*parse.TextNode); ok {
			if len(strings.TrimSpace(string(tn.Text))) == 0 {
				continue
			}
		}
		return false
	}
	return true
}

func (x *Extractor) pkg(rel string) *packages.Package { return x.prog.Pkg(rel) }

// stringVar evaluates package-level string variable v of package rel.
func (x *Extractor) stringVar(rel, v string) (string, error) {
	pk := x.pkg(rel)
	if pk == nil {
		return "", fmt.Errorf("package %s missing", rel)
	}
	obj := pk.Types.Scope().Lookup(v)
	if obj == nil {
		return "", fmt.Errorf("%s.%s missing", rel, v)
	}
	return x.evalObj(obj, 0)
}

func (x *Extractor) evalObj(obj types.Object, depth int) (string, error) {
	if depth > 20 {
		return "", fmt.Errorf("initialiser chain too deep at %s", obj.Name())
	}
	if k, ok := obj.(*types.Const); ok {
		return constString(k)
	}
	rel, ok := core.RelOf(obj.Pkg())
	if !ok {
		return "", fmt.Errorf("%s is outside the repository", obj.Name())
	}
	pk := x.pkg(rel)
	for _, f := range pk.Syntax {
		for _, d := range f.Decls {
			gd, ok := d.(*ast.GenDecl)
			if !ok || (gd.Tok != token.VAR && gd.Tok != token.CONST) {
				continue
			}
			for _, s := range gd.Specs {
				vs := s.(*ast.ValueSpec)
				for i, n := range vs.Names {
					if pk.TypesInfo.Defs[n] == obj {
						if i >= len(vs.Values) {
							return "", fmt.Errorf("%s has no initialiser", obj.Name())
						}
						return x.evalString(pk, vs.Values[i], nil, depth+1)
					}
				}
			}
		}
	}
	return "", fmt.Errorf("declaration of %s not found", obj.Name())
}

func constString(k *types.Const) (string, error) {
	v := k.Val()
	if v.Kind().String() != "String" {
		return "", fmt.Errorf("%s is not a string constant", k.Name())
	}
	s := v.ExactString()
	// ExactString is quoted
	var out string
	if _, err := fmt.Sscanf(s, "%q", &out); err != nil {
		return "", err
	}
	return out, nil
}

// evalString folds a string-valued expression: literals, constants, `+`, references to other
// package-level variables, and calls of pure single-return string helpers of the repository whose
// body uses only strings.ReplaceAll / concatenation over its parameters.
func (x *Extractor) evalString(pk *packages.Package, e ast.Expr, env map[types.Object]string, depth int) (string, error) {
	if depth > 30 {
		return "", fmt.Errorf("expression too deep")
	}
	info := pk.TypesInfo
	if tv, ok := info.Types[e]; ok && tv.Value != nil {
		var out string
		if _, err := fmt.Sscanf(tv.Value.ExactString(), "%q", &out); err == nil {
			return out, nil
		}
	}
	switch v := ast.Unparen(e).(type) {
	case *ast.BasicLit:
		var out string
		if v.Kind == token.STRING {
			if strings.HasPrefix(v.Value, "`") {
				return strings.Trim(v.Value, "`"), nil
			}
			if _, err := fmt.Sscanf(v.Value, "%q", &out); err == nil {
				return out, nil
			}
		}
		return "", fmt.Errorf("unsupported literal %s", v.Value)
	case *ast.BinaryExpr:
		if v.Op != token.ADD {
			return "", fmt.Errorf("unsupported operator %s", v.Op)
		}
		a, err := x.evalString(pk, v.X, env, depth+1)
		if err != nil {
			return "", err
		}
		b, err := x.evalString(pk, v.Y, env, depth+1)
		if err != nil {
			return "", err
		}
		return a + b, nil
	case *ast.Ident:
		obj := info.Uses[v]
		if obj == nil {
			obj = info.Defs[v]
		}
		if s, ok := env[obj]; ok {
			return s, nil
		}
		if obj == nil {
			return "", fmt.Errorf("unresolved identifier %s", v.Name)
		}
		if obj.Parent() != nil && obj.Parent() != obj.Pkg().Scope() {
			return "", fmt.Errorf("local variable %s has no folded value", v.Name)
		}
		return x.evalObj(obj, depth+1)
	case *ast.SelectorExpr:
		obj := info.Uses[v.Sel]
		if obj == nil {
			return "", fmt.Errorf("unresolved selector %s", v.Sel.Name)
		}
		return x.evalObj(obj, depth+1)
	case *ast.CallExpr:
		fn, _ := info.Uses[calleeIdent(v.Fun)].(*types.Func)
		if fn == nil {
			return "", fmt.Errorf("unsupported call %s", types.ExprString(v.Fun))
		}
		if fn.Pkg() != nil && fn.Pkg().Path() == "strings" && fn.Name() == "ReplaceAll" && len(v.Args) == 3 {
			var a [3]string
			for i := range a {
				s, err := x.evalString(pk, v.Args[i], env, depth+1)
				if err != nil {
					return "", err
				}
				a[i] = s
			}
			return strings.ReplaceAll(a[0], a[1], a[2]), nil
		}
		// repository helper: fold its body
		rel, ok := core.RelOf(fn.Pkg())
		if !ok {
			return "", fmt.Errorf("call of foreign function %s", fn.FullName())
		}
		fpk := x.pkg(rel)
		fd := x.prog.FuncDecl(rel, fn.Name())
		if fd == nil || fd.Body == nil {
			return "", fmt.Errorf("body of %s not found", fn.Name())
		}
		nenv := map[types.Object]string{}
		i := 0
		for _, fld := range fd.Type.Params.List {
			for _, nm := range fld.Names {
				if i >= len(v.Args) {
					return "", fmt.Errorf("arity mismatch calling %s", fn.Name())
				}
				s, err := x.evalString(pk, v.Args[i], env, depth+1)
				if err != nil {
					return "", err
				}
				nenv[fpk.TypesInfo.Defs[nm]] = s
				i++
			}
		}
		for _, st := range fd.Body.List {
			switch s := st.(type) {
			case *ast.AssignStmt:
				if len(s.Lhs) != 1 || len(s.Rhs) != 1 {
					return "", fmt.Errorf("%s: unsupported assignment", fn.Name())
				}
				val, err := x.evalString(fpk, s.Rhs[0], nenv, depth+1)
				if err != nil {
					return "", err
				}
				id, ok := s.Lhs[0].(*ast.Ident)
				if !ok {
					return "", fmt.Errorf("%s: unsupported assignment target", fn.Name())
				}
				o := fpk.TypesInfo.Defs[id]
				if o == nil {
					o = fpk.TypesInfo.Uses[id]
				}
				nenv[o] = val
			case *ast.ReturnStmt:
				if len(s.Results) != 1 {
					return "", fmt.Errorf("%s: unsupported return", fn.Name())
				}
				return x.evalString(fpk, s.Results[0], nenv, depth+1)
			default:
				return "", fmt.Errorf("%s: helper body is not a pure string computation", fn.Name())
			}
		}
		return "", fmt.Errorf("%s: no return", fn.Name())
	}
	return "", fmt.Errorf("unsupported expression %s", types.ExprString(e))
}

func calleeIdent(e ast.Expr) *ast.Ident {
	switch v := ast.Unparen(e).(type) {
	case *ast.Ident:
		return v
	case *ast.SelectorExpr:
		return v.Sel
	}
	return &ast.Ident{}
}

// stringList evaluates a function of package rel whose body is `return []string{...}` or
// `return append(f(), g()...)`.
func (x *Extractor) stringList(rel, fn string) ([]namedSrc, error) {
	pk := x.pkg(rel)
	if pk == nil {
		return nil, fmt.Errorf("package %s missing", rel)
	}
	fd := x.prog.FuncDecl(rel, fn)
	if fd == nil || fd.Body == nil || len(fd.Body.List) != 1 {
		return nil, fmt.Errorf("%s.%s: expected a single return statement", rel, fn)
	}
	rs, ok := fd.Body.List[0].(*ast.ReturnStmt)
	if !ok || len(rs.Results) != 1 {
		return nil, fmt.Errorf("%s.%s: expected a single return statement", rel, fn)
	}
	return x.listExpr(pk, rel, rs.Results[0])
}

func (x *Extractor) listExpr(pk *packages.Package, rel string, e ast.Expr) ([]namedSrc, error) {
	switch v := ast.Unparen(e).(type) {
	case *ast.CompositeLit:
		var out []namedSrc
		for _, el := range v.Elts {
			s, err := x.evalString(pk, el, nil, 0)
			if err != nil {
				return nil, fmt.Errorf("%s: %v", types.ExprString(el), err)
			}
			out = append(out, namedSrc{rel + "." + types.ExprString(el), s})
		}
		return out, nil
	case *ast.CallExpr:
		if id, ok := v.Fun.(*ast.Ident); ok && id.Name == "append" {
			var out []namedSrc
			for _, a := range v.Args {
				l, err := x.listExpr(pk, rel, a)
				if err != nil {
					return nil, err
				}
				out = append(out, l...)
			}
			return out, nil
		}
		fn, _ := pk.TypesInfo.Uses[calleeIdent(v.Fun)].(*types.Func)
		if fn == nil {
			return nil, fmt.Errorf("unsupported list call %s", types.ExprString(v.Fun))
		}
		r, ok := core.RelOf(fn.Pkg())
		if !ok {
			return nil, fmt.Errorf("foreign list function %s", fn.FullName())
		}
		return x.stringList(r, fn.Name())
	}
	return nil, fmt.Errorf("unsupported list expression %s", types.ExprString(e))
}
