package tmpl

import (
	"fmt"
	"go/ast"
	"go/constant"
	"go/types"
	"sort"
	"strings"

	"golang.org/x/tools/go/packages"

	"verif/checker/core"
)

// Config bounds the abstract domain.
type Config struct {
	Categories   []string // parser.Category_* names offered for a type at nesting depth < MaxDepth
	LeafCats     []string // categories offered at the depth bound (no containers)
	MaxDepth     int      // container nesting depth
	ListCounts   []int    // element counts tried for abstract slices of structs
	MaxRuns      int      // cap on renderings per unit
	FixedChoices map[string]int
	// TypedefRefs additionally offers, for every container type, the shape the semantic resolver leaves for a reference
	// to a typedef of a container: Category of the target, IsTypedef set, KeyType/ValueType nil (the element types are only
	// reachable through the read/write context's sub-contexts).
	TypedefRefs bool
}

// funcDecl is an interpretable repository function.
type funcDecl struct {
	Decl *ast.FuncDecl
	Pkg  *packages.Package
}

// World is the per-run abstract state.
type World struct {
	Prog   *core.Program
	Cfg    *Config
	Or     *Oracle
	decls  map[*types.Func]*funcDecl
	enums  map[*types.Named][]*types.Const
	Libs   map[string]bool // UseStdLibrary calls executed in this run
	Notes  map[string]bool // interpretation fall-backs (informational)
	TypeID map[int64]string
	fm     map[string]ast.Expr // BuildFuncMap: template function name -> Go expression
	fmPkg  *packages.Package
	steps  int
	globals map[string]Value
	Emitted []string // lines emitted through an interpreted codewriter
	tables  map[types.Object]map[string]Value
}

// Static is the part of the world that does not change between runs.
type Static struct {
	Prog   *core.Program
	decls  map[*types.Func]*funcDecl
	enums  map[*types.Named][]*types.Const
	TypeID map[int64]string
	fm     map[string]ast.Expr
	fmPkg  *packages.Package
	Sets   map[string]*Set
}

// NewStatic indexes the repository once.
func NewStatic(prog *core.Program) (*Static, error) {
	s := &Static{Prog: prog, decls: map[*types.Func]*funcDecl{}, enums: map[*types.Named][]*types.Const{}, TypeID: map[int64]string{}, fm: map[string]ast.Expr{}}
	for _, pk := range prog.Pkgs {
		for _, f := range pk.Syntax {
			for _, d := range f.Decls {
				if fd, ok := d.(*ast.FuncDecl); ok && fd.Body != nil {
					if fo, ok := pk.TypesInfo.Defs[fd.Name].(*types.Func); ok {
						s.decls[fo] = &funcDecl{fd, pk}
					}
				}
			}
		}
		sc := pk.Types.Scope()
		for _, n := range sc.Names() {
			if k, ok := sc.Lookup(n).(*types.Const); ok {
				if nt, ok := k.Type().(*types.Named); ok {
					if b, ok := nt.Underlying().(*types.Basic); ok && b.Info()&types.IsInteger != 0 {
						s.enums[nt] = append(s.enums[nt], k)
					}
				}
			}
		}
	}
	for _, ks := range s.enums {
		sort.Slice(ks, func(i, j int) bool {
			a, _ := constant.Int64Val(constant.ToInt(ks[i].Val()))
			b, _ := constant.Int64Val(constant.ToInt(ks[j].Val()))
			return a < b
		})
	}
	// category2TypeID table
	gp := prog.Pkg("generator/golang")
	if gp == nil {
		return nil, fmt.Errorf("package generator/golang missing")
	}
	s.fmPkg = gp
	found := false
	for _, f := range gp.Syntax {
		for _, d := range f.Decls {
			gd, ok := d.(*ast.GenDecl)
			if !ok {
				continue
			}
			for _, sp := range gd.Specs {
				vs, ok := sp.(*ast.ValueSpec)
				if !ok {
					continue
				}
				for i, n := range vs.Names {
					if n.Name == "category2TypeID" && i < len(vs.Values) {
						lit, ok := vs.Values[i].(*ast.CompositeLit)
						if !ok {
							return nil, fmt.Errorf("category2TypeID is not a literal")
						}
						for _, el := range lit.Elts {
							kv := el.(*ast.KeyValueExpr)
							ktv, vtv := gp.TypesInfo.Types[kv.Key], gp.TypesInfo.Types[kv.Value]
							if ktv.Value == nil || vtv.Value == nil {
								return nil, fmt.Errorf("category2TypeID has a non-constant entry")
							}
							k, _ := constant.Int64Val(constant.ToInt(ktv.Value))
							s.TypeID[k] = constant.StringVal(vtv.Value)
						}
						found = true
					}
				}
			}
		}
	}
	if !found {
		return nil, fmt.Errorf("category2TypeID not found")
	}
	// BuildFuncMap literal
	if fd := prog.FuncDecl("generator/golang", "CodeUtils.BuildFuncMap"); fd != nil {
		ast.Inspect(fd.Body, func(n ast.Node) bool {
			cl, ok := n.(*ast.CompositeLit)
			if !ok {
				return true
			}
			if _, isMap := gp.TypesInfo.Types[cl].Type.Underlying().(*types.Map); !isMap {
				return true
			}
			for _, el := range cl.Elts {
				if kv, ok := el.(*ast.KeyValueExpr); ok {
					if tv := gp.TypesInfo.Types[kv.Key]; tv.Value != nil && tv.Value.Kind() == constant.String {
						s.fm[constant.StringVal(tv.Value)] = kv.Value
					}
				}
			}
			return true
		})
	}
	if len(s.fm) < 20 {
		return nil, fmt.Errorf("BuildFuncMap literal not found (%d entries)", len(s.fm))
	}
	sets, err := Extract(prog)
	if err != nil {
		return nil, err
	}
	s.Sets = sets
	return s, nil
}

// FuncNames lists the template function names registered by BuildFuncMap (plus those added by the backend).
func (s *Static) FuncNames() map[string]ast.Expr { return s.fm }

// NewWorld creates the state of one run.
func (s *Static) NewWorld(cfg *Config, or *Oracle) *World {
	return &World{Prog: s.Prog, Cfg: cfg, Or: or, decls: s.decls, enums: s.enums, Libs: map[string]bool{}, Notes: map[string]bool{}, TypeID: s.TypeID, fm: s.fm, fmPkg: s.fmPkg}
}

// NamedType looks up a named type of the repository.
func (w *World) NamedType(rel, name string) *types.Named {
	pk := w.Prog.Pkg(rel)
	if pk == nil {
		return nil
	}
	tn, ok := pk.Types.Scope().Lookup(name).(*types.TypeName)
	if !ok {
		return nil
	}
	n, _ := tn.Type().(*types.Named)
	return n
}

// NewObj creates an abstract instance of a named struct type.
func (w *World) NewObj(t *types.Named, path string, ptr bool) *Obj {
	return &Obj{Type: t, Path: path, Fields: map[string]Value{}, Ptr: ptr}
}

func depthOf(path string) int {
	return strings.Count(path, ".KeyType") + strings.Count(path, ".ValueType")
}

// seed produces the lazily created value of a field of static type t at path.
func (w *World) seed(path string, t types.Type) Value {
	switch u := t.(type) {
	case *types.Pointer:
		if n, ok := u.Elem().(*types.Named); ok {
			if _, isStruct := n.Underlying().(*types.Struct); isStruct {
				if w.nilable(path, n) && !w.Or.Bool(path+"#set") {
					return Nil{}
				}
				return w.NewObj(n, path, true)
			}
		}
		if b, ok := u.Elem().Underlying().(*types.Basic); ok && b.Kind() == types.String {
			return Sym(path)
		}
		return &Opaque{path, t}
	case *types.Named:
		switch b := u.Underlying().(type) {
		case *types.Struct:
			return w.NewObj(u, path, false)
		case *types.Basic:
			if b.Info()&types.IsString != 0 {
				return Sym(path)
			}
			if b.Info()&types.IsInteger != 0 {
				if ks := w.enums[u]; len(ks) >= 2 {
					return w.enumChoice(path, u, ks)
				}
				return Sym(path)
			}
			if b.Kind() == types.Bool {
				return w.Or.Bool(path)
			}
		case *types.Slice, *types.Map, *types.Pointer:
			v := w.seed(path, u.Underlying())
			if l, ok := v.(*List); ok {
				l.Named = u
			}
			return v
		}
		return &Opaque{path, t}
	case *types.Basic:
		switch {
		case u.Kind() == types.Bool:
			return w.Or.Bool(path)
		case u.Info()&types.IsString != 0:
			return Sym(path)
		case u.Info()&types.IsNumeric != 0:
			return Sym(path)
		}
	case *types.Slice:
		counts := []int{0, 1}
		if el, ok := u.Elem().(*types.Pointer); ok {
			if _, ok := el.Elem().(*types.Named); ok {
				counts = w.Cfg.ListCounts
			}
		}
		k := counts[w.Or.Choose(path+"#len", len(counts))]
		l := &List{Path: path}
		for i := 0; i < k; i++ {
			l.Elems = append(l.Elems, w.seed(fmt.Sprintf("%s[%d]", path, i), u.Elem()))
		}
		return l
	case *types.Map:
		return &MapV{M: map[string]Value{}, Path: path}
	}
	return &Opaque{path, t}
}

// nilable: pointer fields whose nil-ness the templates test.
func (w *World) nilable(path string, n *types.Named) bool {
	switch n.Obj().Name() {
	case "ConstValue": // parser.Field.Default
		return true
	}
	return false
}

func (w *World) enumChoice(path string, n *types.Named, ks []*types.Const) Value {
	allowed := ks
	if n.Obj().Name() == "Category" && n.Obj().Pkg().Path() == core.Module+"/parser" {
		names := w.Cfg.Categories
		if depthOf(path) >= w.Cfg.MaxDepth {
			names = w.Cfg.LeafCats
		}
		allowed = nil
		// Go has no map type with a slice or map key, so a Thrift map whose key type is a container has no Go
		// representation at all (C01 carries a rule and a known finding for it); the abstract domain leaves those out
		isKey := strings.HasSuffix(strings.TrimSuffix(path, ".Category"), ".KeyType")
		for _, nm := range names {
			if isKey && (nm == "Map" || nm == "List" || nm == "Set") {
				continue
			}
			for _, k := range ks {
				if k.Name() == "Category_"+nm {
					allowed = append(allowed, k)
				}
			}
		}
	}
	if len(allowed) == 0 {
		return Sym(path)
	}
	k := allowed[w.Or.Choose(path, len(allowed))]
	v, _ := constant.Int64Val(constant.ToInt(k.Val()))
	return v
}

// FieldOf resolves obj.name through fields (incl. promoted ones); found=false if the type has no such field.
func (w *World) FieldOf(o *Obj, name string) (Value, bool) {
	var T types.Type = o.Type
	if o.Ptr {
		T = types.NewPointer(o.Type)
	}
	obj, index, _ := types.LookupFieldOrMethod(T, true, o.Type.Obj().Pkg(), name)
	v, ok := obj.(*types.Var)
	if !ok || !v.IsField() {
		return nil, false
	}
	cur := o
	for i, ix := range index {
		st, ok := cur.Type.Underlying().(*types.Struct)
		if !ok {
			return &Opaque{o.Path + "." + name, v.Type()}, true
		}
		f := st.Field(ix)
		val, have := cur.Fields[f.Name()]
		if !have {
			val = w.seed(cur.Path+"."+f.Name(), f.Type())
			cur.Fields[f.Name()] = val
		}
		if i == len(index)-1 {
			return val, true
		}
		next, ok := val.(*Obj)
		if !ok {
			return &Opaque{o.Path + "." + name, v.Type()}, true
		}
		cur = next
	}
	return nil, false
}

// SetField stores obj.name (through embedded fields).
func (w *World) SetField(o *Obj, name string, val Value) bool {
	var T types.Type = o.Type
	if o.Ptr {
		T = types.NewPointer(o.Type)
	}
	obj, index, _ := types.LookupFieldOrMethod(T, true, o.Type.Obj().Pkg(), name)
	v, ok := obj.(*types.Var)
	if !ok || !v.IsField() {
		return false
	}
	cur := o
	for i, ix := range index {
		st := cur.Type.Underlying().(*types.Struct)
		f := st.Field(ix)
		if i == len(index)-1 {
			cur.Fields[f.Name()] = val
			return true
		}
		nv, have := cur.Fields[f.Name()]
		if !have {
			nv = w.seed(cur.Path+"."+f.Name(), f.Type())
			cur.Fields[f.Name()] = nv
		}
		next, ok := nv.(*Obj)
		if !ok {
			return false
		}
		cur = next
	}
	return false
}

// MethodOf finds method name on the object's type.
func (w *World) MethodOf(o *Obj, name string) *types.Func {
	var T types.Type = types.NewPointer(o.Type)
	obj, _, _ := types.LookupFieldOrMethod(T, true, o.Type.Obj().Pkg(), name)
	f, _ := obj.(*types.Func)
	return f
}

// embeddedRecv walks to the embedded object that declares method fn (for promoted methods).
func (w *World) embeddedRecv(o *Obj, name string) *Obj {
	var T types.Type = types.NewPointer(o.Type)
	_, index, _ := types.LookupFieldOrMethod(T, true, o.Type.Obj().Pkg(), name)
	cur := o
	for _, ix := range index[:len(index)-1] {
		st, ok := cur.Type.Underlying().(*types.Struct)
		if !ok {
			return cur
		}
		f := st.Field(ix)
		val, have := cur.Fields[f.Name()]
		if !have {
			val = w.seed(cur.Path+"."+f.Name(), f.Type())
			cur.Fields[f.Name()] = val
		}
		next, ok := val.(*Obj)
		if !ok {
			return cur
		}
		cur = next
	}
	return cur
}

// Truth decides the truthiness text/template would compute.
func (w *World) Truth(v Value, key string) bool {
	switch x := v.(type) {
	case nil:
		return false
	case bool:
		return x
	case int64:
		return x != 0
	case Nil:
		return false
	case *Text:
		if s, ok := x.Known(); ok {
			return s != ""
		}
		// symbolic text: non-empty unless it is a single placeholder that may be empty
		if len(x.Parts) == 1 {
			return w.Or.Bool("nonempty:" + x.Parts[0].Sym)
		}
		return true
	case *Obj:
		return true
	case *List:
		return len(x.Elems) > 0
	case *MapV:
		return w.Or.Bool("nonempty:" + x.Path)
	case *Opaque:
		return w.Or.Bool("truth:" + x.Path)
	}
	return w.Or.Bool("truth:" + key)
}

// CategoryName returns the constant name of a category value.
func (w *World) CategoryName(v int64) string {
	n := w.NamedType("parser", "Category")
	for _, k := range w.enums[n] {
		if kv, _ := constant.Int64Val(constant.ToInt(k.Val())); kv == v {
			return strings.TrimPrefix(k.Name(), "Category_")
		}
	}
	return fmt.Sprint(v)
}

// EnumName returns the constant name of value v of the named integer type rel.typ.
func (w *World) EnumName(rel, typ string, v int64) string {
	n := w.NamedType(rel, typ)
	for _, k := range w.enums[n] {
		if kv, _ := constant.Int64Val(constant.ToInt(k.Val())); kv == v {
			return k.Name()
		}
	}
	return fmt.Sprint(v)
}

// pkgTable evaluates a package-level composite literal with constant keys and values (array or map) once.
func (w *World) pkgTable(pk *packages.Package, obj types.Object) map[string]Value {
	if obj == nil || obj.Pkg() == nil || obj.Parent() != obj.Pkg().Scope() {
		return nil
	}
	if w.tables == nil {
		w.tables = map[types.Object]map[string]Value{}
	}
	if t, ok := w.tables[obj]; ok {
		return t
	}
	var tab map[string]Value
	rel, ok := core.RelOf(obj.Pkg())
	if ok {
		if dp := w.Prog.Pkg(rel); dp != nil {
			for _, f := range dp.Syntax {
				for _, d := range f.Decls {
					gd, ok := d.(*ast.GenDecl)
					if !ok {
						continue
					}
					for _, sp := range gd.Specs {
						vs, ok := sp.(*ast.ValueSpec)
						if !ok {
							continue
						}
						for i, n := range vs.Names {
							if dp.TypesInfo.Defs[n] != obj || i >= len(vs.Values) {
								continue
							}
							lit, ok := vs.Values[i].(*ast.CompositeLit)
							if !ok {
								continue
							}
							t := map[string]Value{}
							good := true
							for _, el := range lit.Elts {
								kv, ok := el.(*ast.KeyValueExpr)
								if !ok {
									good = false
									break
								}
								ktv, vtv := dp.TypesInfo.Types[kv.Key], dp.TypesInfo.Types[kv.Value]
								if ktv.Value == nil || vtv.Value == nil {
									good = false
									break
								}
								var key string
								if ktv.Value.Kind() == constant.String {
									key = "s:" + constant.StringVal(ktv.Value)
								} else if n, ok := constant.Int64Val(constant.ToInt(ktv.Value)); ok {
									key = fmt.Sprint(n)
								} else {
									good = false
									break
								}
								val, err := constValue(vtv.Value)
								if err != nil {
									good = false
									break
								}
								t[key] = val
							}
							if good {
								tab = t
							}
						}
					}
				}
			}
		}
	}
	w.tables[obj] = tab
	return tab
}
