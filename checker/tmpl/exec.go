package tmpl

import (
	"fmt"
	"go/types"
	"strconv"
	"strings"
	"text/template/parse"
)

// EnumV is a value of a named integer type (keeps the type for method calls).
type EnumV struct {
	T *types.Named
	V int64
}

// Exec abstractly renders templates of one set.
type Exec struct {
	W      *World
	Set    *Set
	out    *strings.Builder
	vars   []tvar
	tdepth int
	Err    error
	Calls  map[string]int // template name -> number of invocations in this run
	Stub   map[string]bool // template names rendered as nothing (to analyse a unit without its callees)
}

type tvar struct {
	name string
	val  Value
}

// Render executes definition def (or the set's root when def == "") with the given dot.
func (x *Exec) Render(def string, dot Value) (string, error) {
	x.out = &strings.Builder{}
	x.Calls = map[string]int{}
	var tree *parse.Tree
	if def == "" {
		tree = x.Set.Root
	} else {
		tree = x.Set.Defs[def]
	}
	if tree == nil {
		return "", fmt.Errorf("template %q not defined in set %s", def, x.Set.Name)
	}
	x.vars = []tvar{{"$", dot}}
	func() {
		defer func() {
			if r := recover(); r != nil {
				if e, ok := r.(execError); ok {
					x.Err = e.err
					return
				}
				panic(r)
			}
		}()
		x.walk(dot, tree.Root)
	}()
	return x.out.String(), x.Err
}

type execError struct{ err error }

// GenFailure marks a run in which the real template execution would fail too (index out of range,
// nil dereference, a helper that panics): thriftgo then reports an error instead of writing code.
type GenFailure struct{ Msg string }

func (g *GenFailure) Error() string { return "generation fails: " + g.Msg }

func (x *Exec) genFail(format string, a ...interface{}) {
	panic(execError{&GenFailure{fmt.Sprintf(format, a...)}})
}

func (x *Exec) fail(format string, a ...interface{}) {
	panic(execError{fmt.Errorf(format, a...)})
}

func (x *Exec) push(name string, v Value) { x.vars = append(x.vars, tvar{name, v}) }
func (x *Exec) mark() int                  { return len(x.vars) }
func (x *Exec) pop(m int)                  { x.vars = x.vars[:m] }
func (x *Exec) setVar(name string, v Value) {
	for i := len(x.vars) - 1; i >= 0; i-- {
		if x.vars[i].name == name {
			x.vars[i].val = v
			return
		}
	}
	x.fail("assignment to undeclared variable %s", name)
}
func (x *Exec) getVar(name string) Value {
	for i := len(x.vars) - 1; i >= 0; i-- {
		if x.vars[i].name == name {
			return x.vars[i].val
		}
	}
	x.fail("undefined variable %s", name)
	return nil
}

func (x *Exec) walk(dot Value, n parse.Node) {
	switch n := n.(type) {
	case *parse.ListNode:
		if n == nil {
			return
		}
		for _, c := range n.Nodes {
			x.walk(dot, c)
		}
	case *parse.TextNode:
		x.out.Write(n.Text)
	case *parse.CommentNode:
	case *parse.ActionNode:
		v := x.pipeline(dot, n.Pipe)
		if len(n.Pipe.Decl) == 0 {
			x.print(v)
		}
	case *parse.IfNode:
		m := x.mark()
		v := x.pipeline(dot, n.Pipe)
		if x.W.Truth(v, n.Pipe.String()) {
			x.walk(dot, n.List)
		} else if n.ElseList != nil {
			x.walk(dot, n.ElseList)
		}
		x.pop(m)
	case *parse.WithNode:
		m := x.mark()
		v := x.pipeline(dot, n.Pipe)
		if x.W.Truth(v, n.Pipe.String()) {
			x.walk(v, n.List)
		} else if n.ElseList != nil {
			x.walk(dot, n.ElseList)
		}
		x.pop(m)
	case *parse.RangeNode:
		m := x.mark()
		v := x.pipelineNoDecl(dot, n.Pipe)
		elems := x.elements(v, n.Pipe.String())
		if len(elems) == 0 {
			if n.ElseList != nil {
				x.walk(dot, n.ElseList)
			}
			x.pop(m)
			return
		}
		for i, el := range elems {
			m2 := x.mark()
			switch len(n.Pipe.Decl) {
			case 1:
				x.push(n.Pipe.Decl[0].Ident[0], el)
			case 2:
				x.push(n.Pipe.Decl[0].Ident[0], int64(i))
				x.push(n.Pipe.Decl[1].Ident[0], el)
			}
			x.walk(el, n.List)
			x.pop(m2)
		}
		x.pop(m)
	case *parse.TemplateNode:
		if x.Stub[n.Name] {
			x.Calls[n.Name]++
			return
		}
		tree := x.Set.Defs[n.Name]
		if tree == nil {
			x.fail("template %q not defined in set %s", n.Name, x.Set.Name)
		}
		var arg Value
		if n.Pipe != nil {
			arg = x.pipeline(dot, n.Pipe)
		}
		x.tdepth++
		if x.tdepth > 40 {
			x.fail("template recursion too deep at %q", n.Name)
		}
		x.Calls[n.Name]++
		saved := x.vars
		x.vars = []tvar{{"$", arg}}
		x.walk(arg, tree.Root)
		x.vars = saved
		x.tdepth--
	default:
		x.fail("unsupported template node %T", n)
	}
}

// elements of a ranged value.
func (x *Exec) elements(v Value, key string) []Value {
	switch l := v.(type) {
	case *List:
		return l.Elems
	case Nil, nil:
		return nil
	case *Opaque:
		if x.W.Or.Bool("range-nonempty:" + l.Path) {
			return []Value{Sym(l.Path + "[0]")}
		}
		return nil
	case *MapV:
		if x.W.Or.Bool("range-nonempty:" + l.Path) {
			return []Value{Sym(l.Path + "[k]")}
		}
		return nil
	case *Text:
		if x.W.Or.Bool("range-nonempty:" + l.Render()) {
			return []Value{Sym(l.Render() + "[0]")}
		}
		return nil
	}
	x.fail("range over unsupported value %T (%s)", v, key)
	return nil
}

func (x *Exec) print(v Value) {
	switch t := v.(type) {
	case nil:
	case *Text:
		x.out.WriteString(t.Render())
	case int64:
		x.out.WriteString(strconv.FormatInt(t, 10))
	case *EnumV:
		x.out.WriteString(strconv.FormatInt(t.V, 10))
	case bool:
		x.out.WriteString(strconv.FormatBool(t))
	case *Obj:
		x.out.WriteString(Ident(t.Path))
	case *Opaque:
		x.out.WriteString(Ident(t.Path))
	case Nil:
		x.out.WriteString("<nil>")
	case *List:
		x.out.WriteString(Ident(t.Path))
	default:
		x.fail("cannot print %T", v)
	}
}

func (x *Exec) pipelineNoDecl(dot Value, p *parse.PipeNode) Value {
	var v Value
	for _, c := range p.Cmds {
		v = x.command(dot, c, v, v != nil)
	}
	return v
}

func (x *Exec) pipeline(dot Value, p *parse.PipeNode) Value {
	if p == nil {
		return nil
	}
	var v Value
	has := false
	for _, c := range p.Cmds {
		v = x.command(dot, c, v, has)
		has = true
	}
	for _, d := range p.Decl {
		if p.IsAssign {
			x.setVar(d.Ident[0], v)
		} else {
			x.push(d.Ident[0], v)
		}
	}
	return v
}

func (x *Exec) command(dot Value, c *parse.CommandNode, final Value, hasFinal bool) Value {
	first := c.Args[0]
	argv := func() []Value {
		var out []Value
		for _, a := range c.Args[1:] {
			out = append(out, x.arg(dot, a))
		}
		if hasFinal {
			out = append(out, final)
		}
		return out
	}
	switch n := first.(type) {
	case *parse.FieldNode:
		return x.chain(dot, n.Ident, argv())
	case *parse.ChainNode:
		base := x.arg(dot, n.Node)
		return x.chain(base, n.Field, argv())
	case *parse.IdentifierNode:
		return x.function(n.Ident, argv(), c)
	case *parse.PipeNode:
		return x.pipeline(dot, n)
	case *parse.VariableNode:
		base := x.getVar(n.Ident[0])
		if len(n.Ident) == 1 {
			return base
		}
		return x.chain(base, n.Ident[1:], argv())
	}
	if len(c.Args) > 1 || hasFinal {
		x.fail("can't give argument to non-function %s", first)
	}
	return x.arg(dot, first)
}

func (x *Exec) arg(dot Value, n parse.Node) Value {
	switch n := n.(type) {
	case *parse.DotNode:
		return dot
	case *parse.NilNode:
		return Nil{}
	case *parse.FieldNode:
		return x.chain(dot, n.Ident, nil)
	case *parse.VariableNode:
		base := x.getVar(n.Ident[0])
		if len(n.Ident) == 1 {
			return base
		}
		return x.chain(base, n.Ident[1:], nil)
	case *parse.PipeNode:
		return x.pipeline(dot, n)
	case *parse.IdentifierNode:
		return x.function(n.Ident, nil, nil)
	case *parse.ChainNode:
		return x.chain(x.arg(dot, n.Node), n.Field, nil)
	case *parse.StringNode:
		return Lit(n.Text)
	case *parse.BoolNode:
		return n.True
	case *parse.NumberNode:
		if n.IsInt {
			return n.Int64
		}
		return Lit(n.Text)
	}
	x.fail("unsupported argument node %T", n)
	return nil
}

func (x *Exec) chain(recv Value, names []string, args []Value) Value {
	for i, nm := range names {
		var a []Value
		if i == len(names)-1 {
			a = args
		}
		recv = x.member(recv, nm, a)
	}
	return recv
}

// member evaluates recv.name(args...) the way text/template would (method first, then field).
func (x *Exec) member(recv Value, name string, args []Value) Value {
	w := x.W
	switch r := recv.(type) {
	case *Obj:
		if v, ok := x.nativeMethod(r, name, args); ok {
			return v
		}
		if m := w.MethodOf(r, name); m != nil {
			key := "()" + name
			if len(args) == 0 {
				if v, ok := r.Fields[key]; ok {
					return v
				}
			}
			res, err := w.CallGo(m, w.embeddedRecv(r, name), args, 0)
			var v Value
			if err == nil && len(res) >= 1 {
				v = res[0]
			} else {
				if err == errPanics {
					x.genFail("method %s.%s panics under this valuation", r.Path, name)
				}
				w.Notes["opaque method "+r.Type.Obj().Name()+"."+name] = true
				sig := m.Type().(*types.Signature)
				if sig.Results().Len() == 0 {
					x.fail("method %s has no result", name)
				}
				sp := r.Path + "." + name
				if len(args) > 0 {
					var as []string
					for _, a := range args {
						as = append(as, x.str(a))
					}
					sp += "(" + strings.Join(as, ",") + ")"
				}
				v = w.seed(sp, sig.Results().At(0).Type())
			}
			v = x.wrapEnum(v, m.Type().(*types.Signature).Results())
			if name == "GetOption" { // lines of a var ( ... ) block
				if l, ok := v.(*List); ok {
					for i, e := range l.Elems {
						if t, ok := e.(*Text); ok {
							l.Elems[i] = &Text{Parts: t.Parts, Kind: "varspec"}
						}
					}
				}
			}
			if len(args) == 0 {
				r.Fields[key] = v
			}
			return v
		}
		if v, ok := w.FieldOf(r, name); ok {
			return x.wrapField(r, name, v)
		}
		x.fail("%s (type %s) has no field or method %s", r.Path, r.Type.Obj().Name(), name)
	case *EnumV:
		var T types.Type = r.T
		obj, _, _ := types.LookupFieldOrMethod(T, true, r.T.Obj().Pkg(), name)
		if m, ok := obj.(*types.Func); ok {
			res, err := w.CallGo(m, r.V, args, 0)
			if err == nil && len(res) == 1 {
				return res[0]
			}
			w.Notes["opaque method "+r.T.Obj().Name()+"."+name] = true
			return w.seed(fmt.Sprintf("%s(%d).%s", r.T.Obj().Name(), r.V, name), m.Type().(*types.Signature).Results().At(0).Type())
		}
		x.fail("%s has no method %s", r.T.Obj().Name(), name)
	case *Text:
		return x.textMethod(r, name, args)
	case *List:
		if r.Named != nil {
			obj, _, _ := types.LookupFieldOrMethod(r.Named, true, r.Named.Obj().Pkg(), name)
			if m, ok := obj.(*types.Func); ok {
				w.Notes["opaque method "+r.Named.Obj().Name()+"."+name] = true
				sig := m.Type().(*types.Signature)
				if sig.Results().Len() == 0 {
					x.fail("method %s has no result", name)
				}
				return w.seed(r.Path+"."+name, sig.Results().At(0).Type())
			}
		}
		x.fail("cannot evaluate .%s on a list (%s)", name, r.Path)
	case *Opaque:
		return &Opaque{Path: r.Path + "." + name}
	case Nil:
		x.genFail("nil pointer evaluating .%s", name)
	}
	x.fail("cannot evaluate .%s on %T", name, recv)
	return nil
}

// wrapEnum keeps the named integer type of results so that methods can be called on them.
func (x *Exec) wrapEnum(v Value, res *types.Tuple) Value {
	if n, ok := v.(int64); ok && res.Len() > 0 {
		if nt, ok := res.At(0).Type().(*types.Named); ok {
			if _, ok := x.W.enums[nt]; ok {
				return &EnumV{nt, n}
			}
		}
	}
	return v
}

func (x *Exec) wrapField(o *Obj, name string, v Value) Value {
	if n, ok := v.(int64); ok {
		var T types.Type = types.NewPointer(o.Type)
		obj, _, _ := types.LookupFieldOrMethod(T, true, o.Type.Obj().Pkg(), name)
		if fv, ok := obj.(*types.Var); ok {
			if nt, ok := fv.Type().(*types.Named); ok {
				if _, ok := x.W.enums[nt]; ok {
					return &EnumV{nt, n}
				}
			}
		}
	}
	if t, ok := v.(*Text); ok && t.Kind == "" && strings.HasSuffix(name, "Comments") {
		return &Text{Parts: t.Parts, Kind: "comment"}
	}
	return v
}

// textMethod models methods of the named string types (TypeName, Name, Code).
func (x *Exec) textMethod(t *Text, name string, args []Value) Value {
	first := ""
	firstKnown := len(t.Parts) > 0 && t.Parts[0].Sym == ""
	if firstKnown {
		first = t.Parts[0].Lit
	}
	switch name {
	case "String":
		return t
	case "IsPointer":
		if firstKnown && first != "" {
			return strings.HasPrefix(first, "*")
		}
		return x.W.Or.Bool("ispointer:" + t.Render())
	case "Pointerize":
		return Concat(Lit("*"), t)
	case "Deref":
		if firstKnown {
			np := append([]Part{{Lit: strings.TrimLeft(first, "&*")}}, t.Parts[1:]...)
			return &Text{Parts: np}
		}
		return derived(t, "Deref")
	case "IsForeign":
		return x.W.Or.Bool("isforeign:" + t.Render())
	}
	return derived(t, name)
}

func derived(t *Text, name string) *Text {
	if len(t.Parts) == 1 && t.Parts[0].Sym != "" {
		return Sym(t.Parts[0].Sym + "·" + name)
	}
	return Sym(t.Render() + "·" + name)
}

// ---- functions

func (x *Exec) function(name string, args []Value, c *parse.CommandNode) Value {
	w := x.W
	switch name {
	case "and":
		var last Value = true
		for i, a := range args {
			last = a
			if !w.Truth(a, fmt.Sprintf("and#%d", i)) {
				return a
			}
		}
		return last
	case "or":
		var last Value = false
		for i, a := range args {
			last = a
			if w.Truth(a, fmt.Sprintf("or#%d", i)) {
				return a
			}
		}
		return last
	case "not":
		if len(args) != 1 {
			x.fail("not: arity")
		}
		return !w.Truth(args[0], "not")
	case "eq", "ne":
		if len(args) < 2 {
			x.fail("%s: arity", name)
		}
		eq := false
		for _, b := range args[1:] {
			if x.equal(args[0], b) {
				eq = true
			}
		}
		if name == "ne" {
			return !eq
		}
		return eq
	case "lt", "le", "gt", "ge":
		a, ok1 := toInt(args[0])
		b, ok2 := toInt(args[1])
		if !ok1 || !ok2 {
			return w.Or.Bool(name + ":" + x.str(args[0]) + ":" + x.str(args[1]))
		}
		switch name {
		case "lt":
			return a < b
		case "le":
			return a <= b
		case "gt":
			return a > b
		}
		return a >= b
	case "len":
		switch l := args[0].(type) {
		case *List:
			return int64(len(l.Elems))
		case *Text:
			if s, ok := l.Known(); ok {
				return int64(len(s))
			}
		}
		return Sym("len(" + x.str(args[0]) + ")")
	case "index":
		if l, ok := args[0].(*List); ok {
			if i, ok := toInt(args[1]); ok && int(i) < len(l.Elems) {
				return l.Elems[i]
			}
			x.genFail("index out of range: index %s %s with %d element(s)", l.Path, x.str(args[1]), len(l.Elems))
		}
		return &Opaque{Path: "index(" + x.str(args[0]) + "," + x.str(args[1]) + ")"}
	case "print":
		var ts []*Text
		for _, a := range args {
			ts = append(ts, x.text(a))
		}
		return Concat(ts...)
	case "printf":
		if len(args) == 0 {
			x.fail("printf: arity")
		}
		f, ok := x.text(args[0]).Known()
		if !ok {
			return Sym("printf(" + x.str(args[0]) + ")")
		}
		return x.sprintf(f, args[1:])
	}
	return x.repoFunction(name, args)
}

func toInt(v Value) (int64, bool) {
	switch n := v.(type) {
	case int64:
		return n, true
	case *EnumV:
		return n.V, true
	}
	return 0, false
}

func (x *Exec) equal(a, b Value) bool {
	if ai, ok := toInt(a); ok {
		if bi, ok := toInt(b); ok {
			return ai == bi
		}
	}
	if ab, ok := a.(bool); ok {
		if bb, ok := b.(bool); ok {
			return ab == bb
		}
	}
	at, ok1 := a.(*Text)
	bt, ok2 := b.(*Text)
	if ok1 && ok2 {
		as, k1 := at.Known()
		bs, k2 := bt.Known()
		if k1 && k2 {
			return as == bs
		}
		if at.Render() == bt.Render() {
			return true
		}
		return x.W.Or.Bool(eqKey(at.Render(), bt.Render()))
	}
	return x.W.Or.Bool(eqKey(x.str(a), x.str(b)))
}

func (x *Exec) text(v Value) *Text {
	switch t := v.(type) {
	case *Text:
		return t
	case int64:
		return Lit(strconv.FormatInt(t, 10))
	case *EnumV:
		return Lit(strconv.FormatInt(t.V, 10))
	case bool:
		return Lit(strconv.FormatBool(t))
	case *Obj:
		return Sym(t.Path)
	case *Opaque:
		return Sym(t.Path)
	case *List:
		return Sym(t.Path)
	case Nil:
		return Lit("<nil>")
	}
	return Sym("?")
}

func (x *Exec) str(v Value) string { return x.text(v).Render() }

func (x *Exec) sprintf(f string, args []Value) *Text {
	out := &Text{}
	ai := 0
	for i := 0; i < len(f); i++ {
		if f[i] != '%' || i+1 >= len(f) {
			out.Parts = append(out.Parts, Part{Lit: string(f[i])})
			continue
		}
		i++
		switch f[i] {
		case '%':
			out.Parts = append(out.Parts, Part{Lit: "%"})
		case 's', 'v', 'd', 'q':
			if ai < len(args) {
				t := x.text(args[ai])
				ai++
				if f[i] == 'q' {
					out.Parts = append(out.Parts, Part{Lit: "\""})
					out.Parts = append(out.Parts, t.Parts...)
					out.Parts = append(out.Parts, Part{Lit: "\""})
				} else {
					out.Parts = append(out.Parts, t.Parts...)
				}
			} else {
				out.Parts = append(out.Parts, Part{Lit: "%!" + string(f[i]) + "(MISSING)"})
			}
		default:
			return Sym("printf(" + f + ")")
		}
	}
	// merge adjacent literals
	var merged []Part
	for _, p := range out.Parts {
		if p.Sym == "" && len(merged) > 0 && merged[len(merged)-1].Sym == "" {
			merged[len(merged)-1].Lit += p.Lit
		} else {
			merged = append(merged, p)
		}
	}
	out.Parts = merged
	return out
}

// eqKey names the choice "a equals b" symmetrically, so that eq a b and eq b a are one decision.
func eqKey(a, b string) string {
	sa, sb := strings.Contains(a, "Φ"), strings.Contains(b, "Φ")
	switch {
	case sa && !sb: // symbol == literal: keep the symbol first
	case !sa && sb:
		a, b = b, a
	case b < a:
		a, b = b, a
	}
	return "eq:" + a + "==" + b
}
