package tmpl

import (
	"fmt"
	"go/ast"
	"go/types"
	"strings"
)

// repoFunction evaluates a function registered in BuildFuncMap.
func (x *Exec) repoFunction(name string, args []Value) Value {
	w := x.W
	for i, a := range args {
		if e, ok := a.(*EnumV); ok {
			args[i] = e.V
		}
	}
	switch name {
	case "Features":
		return x.features()
	case "UseStdLibrary":
		for _, a := range args {
			if s, ok := x.text(a).Known(); ok {
				w.Libs[s] = true
			} else {
				x.fail("UseStdLibrary with a non-constant argument")
			}
		}
		return Lit("")
	case "InsertionPoint":
		// markers are removed (or replaced by patches) when the response is assembled
		return Lit("")
	case "Version":
		return Lit("0.0.0")
	case "GenFieldTags":
		return &Text{Parts: []Part{{Sym: "tags:" + x.str(args[0])}}, Kind: "strlit"}
	case "MkRWCtx":
		f, ok := args[0].(*Obj)
		if !ok {
			x.fail("MkRWCtx on %T", args[0])
		}
		return x.mkRWCtx(f)
	case "SetWithFieldMask":
		fo := x.features()
		prev, _ := w.FieldOf(fo, "WithFieldMask")
		if b, ok := args[0].(bool); ok {
			fo.Fields["WithFieldMask"] = b
		} else {
			x.fail("SetWithFieldMask with non-boolean")
		}
		return prev
	case "genAnnotations":
		return &Text{Parts: []Part{{Sym: "annotations:" + x.str(args[0])}}, Kind: "kvline"}
	case "Marshal":
		return &Text{Parts: []Part{{Sym: "marshal"}}, Kind: "bytes"}
	case "backquoted":
		return &Text{Parts: []Part{{Sym: "bq:" + x.str(args[0])}}, Kind: "strlit"}
	case "ToUpper", "ToLower":
		if s, ok := x.text(args[0]).Known(); ok {
			if name == "ToUpper" {
				return Lit(strings.ToUpper(s))
			}
			return Lit(strings.ToLower(s))
		}
		return Sym(name + "(" + x.str(args[0]) + ")")
	}
	e, ok := w.fm[name]
	if !ok {
		// functions added outside BuildFuncMap (backend adds "Version")
		x.fail("function %q is not registered in BuildFuncMap", name)
	}
	info := w.fmPkg.TypesInfo
	var fn *types.Func
	var sig *types.Signature
	switch v := ast.Unparen(e).(type) {
	case *ast.Ident:
		fn, _ = info.Uses[v].(*types.Func)
	case *ast.SelectorExpr:
		fn, _ = info.Uses[v.Sel].(*types.Func)
	}
	if tv, ok := info.Types[e]; ok {
		sig, _ = tv.Type.Underlying().(*types.Signature)
	}
	if sig == nil {
		x.fail("function %q has no signature", name)
	}
	if !sig.Variadic() && sig.Params().Len() != len(args) {
		x.fail("wrong number of args for %s: want %d got %d", name, sig.Params().Len(), len(args))
	}
	// argument adaptation: templates pass golang.Field where *parser.Field is expected via .Field; nothing to do here
	if fn != nil {
		if _, interpretable := w.decls[fn]; interpretable {
			var recv Value
			res, err := w.callFunc(fn, recv, args, 0)
			if err == nil && len(res) >= 1 {
				return x.wrapEnum(res[0], sig.Results())
			}
			if err == errPanics {
				x.genFail("function %s panics", name)
			}
			w.Notes["opaque function "+name] = true
		}
	}
	if sig.Results().Len() == 0 {
		x.fail("function %q returns nothing", name)
	}
	var parts []string
	for _, a := range args {
		parts = append(parts, x.str(a))
	}
	return w.seed(name+"("+strings.Join(parts, ",")+")", sig.Results().At(0).Type())
}

func (x *Exec) features() *Obj {
	w := x.W
	if v, ok := x.lookupGlobal("Features"); ok {
		return v.(*Obj)
	}
	n := w.NamedType("generator/golang", "Features")
	if n == nil {
		x.fail("type Features missing")
	}
	o := w.NewObj(n, "Features", false)
	x.globals()["Features"] = o
	return o
}

func (x *Exec) globals() map[string]Value {
	if x.W.globals == nil {
		x.W.globals = map[string]Value{}
	}
	return x.W.globals
}

func (x *Exec) lookupGlobal(k string) (Value, bool) {
	v, ok := x.globals()[k]
	return v, ok
}

// nativeMethod models the few methods whose Go bodies are outside the interpreted subset.
func (x *Exec) nativeMethod(o *Obj, name string, args []Value) (Value, bool) {
	return nil, false
}

// mkRWCtx is the model of CodeUtils.MkRWCtx / mkRWCtx / asKeyCtx (cross-checked structurally by rule T1).
func (x *Exec) mkRWCtx(f *Obj) Value {
	w := x.W
	tv, ok := w.FieldOf(f, "Type")
	if !ok {
		x.fail("field object %s has no Type", f.Path)
	}
	t, ok := tv.(*Obj)
	if !ok {
		x.fail("field %s has a nil type", f.Path)
	}
	ids := &MapV{M: map[string]Value{}, Path: f.Path + ".ctx.ids"}
	ctx := x.newCtx(t, f.Path+".ctx", ids)
	ctx.Fields["Target"] = Concat(Lit("p."), x.text(x.member(f, "GoName", nil)))
	ctx.Fields["Source"] = Lit("src")
	gtn := x.text(x.member(f, "GoTypeName", nil))
	ctx.Fields["TypeName"] = gtn
	// IsPointer = GoTypeName().IsPointer(): the resolver pointerizes exactly when NeedRedirect(field) holds
	ptr := false
	pf := x.member(f, "Field", nil)
	if nr, ok := w.fm["NeedRedirect"]; ok {
		if id, ok := ast.Unparen(nr).(*ast.Ident); ok {
			if fn, ok := w.fmPkg.TypesInfo.Uses[id].(*types.Func); ok {
				res, err := w.callFunc(fn, nil, []Value{pf}, 0)
				if err == nil && len(res) == 1 {
					if b, ok := res[0].(bool); ok {
						ptr = b
					} else {
						ptr = w.Or.Bool(f.Path + ".ctx.IsPointer")
					}
				} else {
					ptr = w.Or.Bool(f.Path + ".ctx.IsPointer")
				}
			}
		}
	}
	ctx.Fields["IsPointer"] = ptr
	return ctx
}

func (x *Exec) newCtx(t *Obj, path string, ids *MapV) *Obj {
	w := x.W
	n := w.NamedType("generator/golang", "ReadWriteContext")
	if n == nil {
		x.fail("type ReadWriteContext missing")
	}
	ctx := w.NewObj(n, path, true)
	cv, _ := w.FieldOf(t, "Category")
	cat, ok := cv.(int64)
	if !ok {
		x.fail("type %s has a symbolic category", t.Path)
	}
	cname := w.CategoryName(cat)
	structLike := cname == "Struct" || cname == "Union" || cname == "Exception"
	tn := Sym(path + ".TypeName")
	if structLike {
		tn = Concat(Lit("*"), tn)
	}
	ctx.Fields["Type"] = t
	ctx.Fields["TypeName"] = tn
	ctx.Fields["TypeID"] = Lit(w.TypeID[cat])
	ctx.Fields["IsPointer"] = structLike
	ctx.Fields["Target"] = Lit("")
	ctx.Fields["Source"] = Lit("")
	ctx.Fields["NeedDecl"] = false
	ctx.Fields["FieldMask"] = Lit("")
	ctx.Fields["ids"] = ids
	ctx.Fields["KeyCtx"] = Nil{}
	ctx.Fields["ValCtx"] = Nil{}
	if cname == "Map" {
		kv, _ := w.FieldOf(t, "KeyType")
		kt, ok := kv.(*Obj)
		if !ok {
			x.fail("map type %s without key type", t.Path)
		}
		k := x.newCtx(kt, path+".KeyCtx", ids)
		// asKeyCtx
		if id, _ := k.Fields["TypeID"].(*Text).Known(); id == "Struct" {
			k.Fields["TypeName"] = x.textMethod(k.Fields["TypeName"].(*Text), "Deref", nil)
			k.Fields["IsPointer"] = false
		} else if id == "Binary" {
			k.Fields["TypeName"] = Lit("string")
		}
		ctx.Fields["KeyCtx"] = k
	}
	if cname == "Map" || cname == "List" || cname == "Set" {
		vv, _ := w.FieldOf(t, "ValueType")
		vt, ok := vv.(*Obj)
		if !ok {
			x.fail("container type %s without value type", t.Path)
		}
		ctx.Fields["ValCtx"] = x.newCtx(vt, path+".ValCtx", ids)
		if w.Cfg.TypedefRefs && w.Or.Bool(path+".Type#typedef-ref") {
			// mkRWCtx keeps the declared type (a typedef reference) in ctx.Type and dereferences only for the sub-contexts
			ref := w.NewObj(t.Type, t.Path+"#ref", true)
			for k, v := range t.Fields {
				ref.Fields[k] = v
			}
			ref.Fields["KeyType"] = Nil{}
			ref.Fields["ValueType"] = Nil{}
			ref.Fields["IsTypedef"] = true
			ctx.Fields["Type"] = ref
		}
	}
	return ctx
}

// Describe renders a short description of the shape chosen for a type object (for evidence samples).
func (w *World) Describe(t *Obj) string {
	cv, ok := t.Fields["Category"].(int64)
	if !ok {
		return "?"
	}
	n := w.CategoryName(cv)
	switch n {
	case "Map":
		k, _ := t.Fields["KeyType"].(*Obj)
		v, _ := t.Fields["ValueType"].(*Obj)
		if k != nil && v != nil {
			return fmt.Sprintf("map<%s,%s>", w.Describe(k), w.Describe(v))
		}
	case "List", "Set":
		v, _ := t.Fields["ValueType"].(*Obj)
		if v != nil {
			return fmt.Sprintf("%s<%s>", strings.ToLower(n), w.Describe(v))
		}
	}
	return strings.ToLower(n)
}
