package tmpl

import (
	"errors"
	"fmt"
	"go/ast"
	"go/constant"
	"go/token"
	"go/types"
	"strings"

	"golang.org/x/tools/go/packages"
)

// errUnsupported makes the caller fall back to an opaque result.
var errUnsupported = errors.New("construct outside the interpreted Go subset")
var errPanics = errors.New("interpreted code panics")

type goEnv struct {
	w      *World
	pk     *packages.Package
	locals map[types.Object]Value
	depth  int
	ret    []Value
	defers []*ast.CallExpr
}

type ctrl int

const (
	cNone ctrl = iota
	cReturn
	cBreak
)

// CallGo interprets a repository function over abstract values.
func (w *World) CallGo(fn *types.Func, recv Value, args []Value, depth int) ([]Value, error) {
	fd := w.decls[fn]
	if fd == nil || depth > 12 {
		return nil, errUnsupported
	}
	w.steps++
	if w.steps > 2000000 {
		return nil, errUnsupported
	}
	env := &goEnv{w: w, pk: fd.Pkg, locals: map[types.Object]Value{}, depth: depth}
	info := fd.Pkg.TypesInfo
	if fd.Decl.Recv != nil && len(fd.Decl.Recv.List) > 0 && len(fd.Decl.Recv.List[0].Names) > 0 {
		env.locals[info.Defs[fd.Decl.Recv.List[0].Names[0]]] = recv
	}
	i := 0
	for _, f := range fd.Decl.Type.Params.List {
		for _, n := range f.Names {
			if i < len(args) {
				env.locals[info.Defs[n]] = args[i]
			}
			i++
		}
		if len(f.Names) == 0 {
			i++
		}
	}
	var named []types.Object
	if fd.Decl.Type.Results != nil {
		for _, f := range fd.Decl.Type.Results.List {
			for _, n := range f.Names {
				o := info.Defs[n]
				named = append(named, o)
				env.locals[o] = env.zero(o.Type())
			}
		}
	}
	c, err := env.block(fd.Decl.Body.List)
	if err != nil {
		return nil, err
	}
	for i := len(env.defers) - 1; i >= 0; i-- {
		if _, derr := env.call(env.defers[i]); derr != nil {
			return nil, derr
		}
	}
	if c == cReturn && env.ret != nil {
		return env.ret, nil
	}
	// bare return / fallthrough with named results
	var out []Value
	for _, o := range named {
		out = append(out, env.locals[o])
	}
	return out, nil
}

func (e *goEnv) zero(t types.Type) Value {
	switch u := t.Underlying().(type) {
	case *types.Basic:
		switch {
		case u.Kind() == types.Bool:
			return false
		case u.Info()&types.IsString != 0:
			return Lit("")
		case u.Info()&types.IsNumeric != 0:
			return int64(0)
		}
	case *types.Pointer, *types.Interface, *types.Slice, *types.Map, *types.Signature:
		return Nil{}
	}
	return Nil{}
}

func (e *goEnv) block(stmts []ast.Stmt) (ctrl, error) {
	for _, s := range stmts {
		c, err := e.stmt(s)
		if err != nil || c != cNone {
			return c, err
		}
	}
	return cNone, nil
}

func (e *goEnv) stmt(s ast.Stmt) (ctrl, error) {
	info := e.pk.TypesInfo
	switch x := s.(type) {
	case *ast.BlockStmt:
		return e.block(x.List)
	case *ast.ReturnStmt:
		if len(x.Results) == 0 {
			e.ret = nil
			return cReturn, nil
		}
		var out []Value
		if len(x.Results) == 1 {
			if call, ok := ast.Unparen(x.Results[0]).(*ast.CallExpr); ok {
				vs, err := e.call(call)
				if err != nil {
					return cNone, err
				}
				e.ret = vs
				return cReturn, nil
			}
		}
		for _, r := range x.Results {
			v, err := e.expr(r)
			if err != nil {
				return cNone, err
			}
			out = append(out, v)
		}
		e.ret = out
		return cReturn, nil
	case *ast.IfStmt:
		if x.Init != nil {
			if c, err := e.stmt(x.Init); err != nil || c != cNone {
				return c, err
			}
		}
		cv, err := e.expr(x.Cond)
		if err != nil {
			return cNone, err
		}
		b, ok := cv.(bool)
		if !ok {
			return cNone, errUnsupported
		}
		if b {
			return e.block(x.Body.List)
		}
		if x.Else != nil {
			return e.stmt(x.Else)
		}
		return cNone, nil
	case *ast.SwitchStmt:
		if x.Init != nil {
			if c, err := e.stmt(x.Init); err != nil || c != cNone {
				return c, err
			}
		}
		var tag Value = true
		if x.Tag != nil {
			v, err := e.expr(x.Tag)
			if err != nil {
				return cNone, err
			}
			tag = v
		}
		var def *ast.CaseClause
		for _, cc := range x.Body.List {
			cl := cc.(*ast.CaseClause)
			if cl.List == nil {
				def = cl
				continue
			}
			for _, ce := range cl.List {
				v, err := e.expr(ce)
				if err != nil {
					return cNone, err
				}
				eq, err := e.equal(tag, v)
				if err != nil {
					return cNone, err
				}
				if eq {
					c, err := e.block(cl.Body)
					if c == cBreak {
						c = cNone
					}
					return c, err
				}
			}
		}
		if def != nil {
			c, err := e.block(def.Body)
			if c == cBreak {
				c = cNone
			}
			return c, err
		}
		return cNone, nil
	case *ast.DeferStmt:
		// arguments are evaluated now in Go; the interpreted emitters only defer calls with constant arguments
		for _, a := range x.Call.Args {
			if tv, ok := info.Types[a]; !ok || tv.Value == nil {
				return cNone, errUnsupported
			}
		}
		e.defers = append(e.defers, x.Call)
		return cNone, nil
	case *ast.BranchStmt:
		if x.Tok == token.BREAK && x.Label == nil {
			return cBreak, nil
		}
		return cNone, errUnsupported
	case *ast.ExprStmt:
		if call, ok := x.X.(*ast.CallExpr); ok {
			_, err := e.call(call)
			return cNone, err
		}
		return cNone, errUnsupported
	case *ast.DeclStmt:
		gd, ok := x.Decl.(*ast.GenDecl)
		if !ok || gd.Tok != token.VAR {
			return cNone, errUnsupported
		}
		for _, sp := range gd.Specs {
			vs := sp.(*ast.ValueSpec)
			for i, n := range vs.Names {
				o := info.Defs[n]
				if i < len(vs.Values) {
					v, err := e.expr(vs.Values[i])
					if err != nil {
						return cNone, err
					}
					e.locals[o] = v
				} else {
					e.locals[o] = e.zero(o.Type())
				}
			}
		}
		return cNone, nil
	case *ast.IncDecStmt:
		cur, err := e.expr(x.X)
		if err != nil {
			return cNone, err
		}
		n, ok := cur.(int64)
		if !ok {
			return cNone, errUnsupported
		}
		if x.Tok == token.INC {
			n++
		} else {
			n--
		}
		return cNone, e.assign(x.X, n, false)
	case *ast.AssignStmt:
		var vals []Value
		if len(x.Rhs) == 1 && len(x.Lhs) > 1 {
			switch r := ast.Unparen(x.Rhs[0]).(type) {
			case *ast.CallExpr:
				vs, err := e.call(r)
				if err != nil {
					return cNone, err
				}
				vals = vs
			case *ast.IndexExpr: // v, ok := m[k]
				m, err := e.expr(r.X)
				if err != nil {
					return cNone, err
				}
				k, err := e.expr(r.Index)
				if err != nil {
					return cNone, err
				}
				mv, ok1 := m.(*MapV)
				kt, ok2 := k.(*Text)
				if !ok1 || !ok2 {
					return cNone, errUnsupported
				}
				ks, known := kt.Known()
				if !known {
					return cNone, errUnsupported
				}
				v, present := mv.M[ks]
				if !present {
					v = e.zero(info.Types[r].Type.(*types.Tuple).At(0).Type())
				}
				vals = []Value{v, present}
			default:
				return cNone, errUnsupported
			}
			if len(vals) != len(x.Lhs) {
				return cNone, errUnsupported
			}
		} else {
			for _, r := range x.Rhs {
				v, err := e.expr(r)
				if err != nil {
					return cNone, err
				}
				vals = append(vals, v)
			}
		}
		for i, l := range x.Lhs {
			v := vals[i]
			if x.Tok == token.ADD_ASSIGN {
				cur, err := e.expr(l)
				if err != nil {
					return cNone, err
				}
				nv, err := e.binary(token.ADD, cur, v)
				if err != nil {
					return cNone, err
				}
				v = nv
			} else if x.Tok != token.ASSIGN && x.Tok != token.DEFINE {
				return cNone, errUnsupported
			}
			if err := e.assign(l, v, x.Tok == token.DEFINE); err != nil {
				return cNone, err
			}
		}
		return cNone, nil
	}
	return cNone, errUnsupported
}

func (e *goEnv) assign(l ast.Expr, v Value, define bool) error {
	info := e.pk.TypesInfo
	switch x := ast.Unparen(l).(type) {
	case *ast.Ident:
		if x.Name == "_" {
			return nil
		}
		o := info.Defs[x]
		if o == nil {
			o = info.Uses[x]
		}
		if o == nil {
			return errUnsupported
		}
		e.locals[o] = v
		return nil
	case *ast.SelectorExpr:
		base, err := e.expr(x.X)
		if err != nil {
			return err
		}
		o, ok := base.(*Obj)
		if !ok {
			return errUnsupported
		}
		if !e.w.SetField(o, x.Sel.Name, v) {
			return errUnsupported
		}
		return nil
	case *ast.IndexExpr:
		m, err := e.expr(x.X)
		if err != nil {
			return err
		}
		k, err := e.expr(x.Index)
		if err != nil {
			return err
		}
		mv, ok1 := m.(*MapV)
		kt, ok2 := k.(*Text)
		if !ok1 || !ok2 {
			return errUnsupported
		}
		ks, known := kt.Known()
		if !known {
			return errUnsupported
		}
		mv.M[ks] = v
		return nil
	}
	return errUnsupported
}

func (e *goEnv) equal(a, b Value) (bool, error) {
	v, err := e.binary(token.EQL, a, b)
	if err != nil {
		return false, err
	}
	bv, ok := v.(bool)
	if !ok {
		return false, errUnsupported
	}
	return bv, nil
}

func (e *goEnv) binary(op token.Token, a, b Value) (Value, error) {
	switch op {
	case token.LAND, token.LOR:
		ab, ok1 := a.(bool)
		bb, ok2 := b.(bool)
		if !ok1 || !ok2 {
			return nil, errUnsupported
		}
		if op == token.LAND {
			return ab && bb, nil
		}
		return ab || bb, nil
	}
	_, aNil := a.(Nil)
	_, bNil := b.(Nil)
	if aNil || bNil {
		isNil := func(v Value) (bool, bool) {
			switch v.(type) {
			case Nil:
				return true, true
			case *Obj, *List, *MapV:
				return false, true
			}
			return false, false
		}
		an, ok1 := isNil(a)
		bn, ok2 := isNil(b)
		if !ok1 || !ok2 {
			return nil, errUnsupported
		}
		switch op {
		case token.EQL:
			return an == bn, nil
		case token.NEQ:
			return an != bn, nil
		}
		return nil, errUnsupported
	}
	switch av := a.(type) {
	case int64:
		bv, ok := b.(int64)
		if !ok {
			return nil, errUnsupported
		}
		switch op {
		case token.EQL:
			return av == bv, nil
		case token.NEQ:
			return av != bv, nil
		case token.LSS:
			return av < bv, nil
		case token.LEQ:
			return av <= bv, nil
		case token.GTR:
			return av > bv, nil
		case token.GEQ:
			return av >= bv, nil
		case token.ADD:
			return av + bv, nil
		case token.SUB:
			return av - bv, nil
		case token.MUL:
			return av * bv, nil
		case token.SHR:
			return av >> uint(bv), nil
		case token.SHL:
			return av << uint(bv), nil
		case token.OR:
			return av | bv, nil
		case token.AND:
			return av & bv, nil
		}
	case bool:
		bv, ok := b.(bool)
		if !ok {
			return nil, errUnsupported
		}
		switch op {
		case token.EQL:
			return av == bv, nil
		case token.NEQ:
			return av != bv, nil
		}
	case *Text:
		bv, ok := b.(*Text)
		if !ok {
			return nil, errUnsupported
		}
		if op == token.ADD {
			return Concat(av, bv), nil
		}
		as, ok1 := av.Known()
		bs, ok2 := bv.Known()
		var eq bool
		switch {
		case ok1 && ok2:
			eq = as == bs
		case av.Render() == bv.Render():
			eq = true
		default:
			// symbolic vs something else: decided by the oracle, keyed by both renderings
			eq = e.w.Or.Bool(eqKey(av.Render(), bv.Render()))
		}
		switch op {
		case token.EQL:
			return eq, nil
		case token.NEQ:
			return !eq, nil
		}
	case *Obj:
		if bo, ok := b.(*Obj); ok {
			switch op {
			case token.EQL:
				return av == bo, nil
			case token.NEQ:
				return av != bo, nil
			}
		}
	}
	return nil, errUnsupported
}

func (e *goEnv) expr(x ast.Expr) (Value, error) {
	info := e.pk.TypesInfo
	if tv, ok := info.Types[x]; ok && tv.Value != nil {
		return constValue(tv.Value)
	}
	switch v := x.(type) {
	case *ast.ParenExpr:
		return e.expr(v.X)
	case *ast.Ident:
		if v.Name == "nil" {
			return Nil{}, nil
		}
		o := info.Uses[v]
		if o == nil {
			o = info.Defs[v]
		}
		if val, ok := e.locals[o]; ok {
			return val, nil
		}
		return nil, errUnsupported
	case *ast.SelectorExpr:
		if sel, ok := info.Selections[v]; ok && sel.Kind() == types.FieldVal {
			base, err := e.expr(v.X)
			if err != nil {
				return nil, err
			}
			o, ok := base.(*Obj)
			if !ok {
				return nil, errUnsupported
			}
			val, found := e.w.FieldOf(o, v.Sel.Name)
			if !found {
				return nil, errUnsupported
			}
			return val, nil
		}
		return nil, errUnsupported
	case *ast.UnaryExpr:
		switch v.Op {
		case token.NOT:
			a, err := e.expr(v.X)
			if err != nil {
				return nil, err
			}
			b, ok := a.(bool)
			if !ok {
				return nil, errUnsupported
			}
			return !b, nil
		case token.AND:
			return e.expr(v.X)
		case token.SUB:
			a, err := e.expr(v.X)
			if err != nil {
				return nil, err
			}
			if n, ok := a.(int64); ok {
				return -n, nil
			}
		}
		return nil, errUnsupported
	case *ast.StarExpr:
		return e.expr(v.X)
	case *ast.BinaryExpr:
		a, err := e.expr(v.X)
		if err != nil {
			return nil, err
		}
		// short circuit
		if ab, ok := a.(bool); ok {
			if v.Op == token.LAND && !ab {
				return false, nil
			}
			if v.Op == token.LOR && ab {
				return true, nil
			}
		}
		b, err := e.expr(v.Y)
		if err != nil {
			return nil, err
		}
		return e.binary(v.Op, a, b)
	case *ast.CallExpr:
		vs, err := e.call(v)
		if err != nil {
			return nil, err
		}
		if len(vs) != 1 {
			return nil, errUnsupported
		}
		return vs[0], nil
	case *ast.IndexExpr:
		// package-level constant table (array or map literal with constant keys and values) indexed by a known value
		if id, ok := ast.Unparen(v.X).(*ast.Ident); ok {
			if _, isLocal := e.locals[info.Uses[id]]; !isLocal {
				if tab := e.w.pkgTable(e.pk, info.Uses[id]); tab != nil {
					k, err := e.expr(v.Index)
					if err != nil {
						return nil, err
					}
					var key string
					switch kk := k.(type) {
					case int64:
						key = fmt.Sprint(kk)
					case *Text:
						s, known := kk.Known()
						if !known {
							return nil, errUnsupported
						}
						key = "s:" + s
					default:
						return nil, errUnsupported
					}
					if val, ok := tab[key]; ok {
						return val, nil
					}
					return e.zero(info.Types[v].Type), nil
				}
			}
		}
		m, err := e.expr(v.X)
		if err != nil {
			return nil, err
		}
		k, err := e.expr(v.Index)
		if err != nil {
			return nil, err
		}
		switch mv := m.(type) {
		case *MapV:
			kt, ok := k.(*Text)
			if !ok {
				return nil, errUnsupported
			}
			ks, known := kt.Known()
			if !known {
				return nil, errUnsupported
			}
			if val, ok := mv.M[ks]; ok {
				return val, nil
			}
			return e.zero(info.Types[v].Type), nil
		case *List:
			if n, ok := k.(int64); ok && int(n) < len(mv.Elems) && n >= 0 {
				return mv.Elems[n], nil
			}
		}
		// package-level constant table indexed by a known integer (category2TypeID[t.Category])
		if id, ok := ast.Unparen(v.X).(*ast.Ident); ok && id.Name == "category2TypeID" {
			if n, ok := k.(int64); ok {
				return Lit(e.w.TypeID[n]), nil
			}
		}
		return nil, errUnsupported
	case *ast.CompositeLit:
		tv := info.Types[v]
		n, ok := tv.Type.(*types.Named)
		if !ok {
			return nil, errUnsupported
		}
		if _, ok := n.Underlying().(*types.Struct); !ok {
			return nil, errUnsupported
		}
		o := e.w.NewObj(n, "lit", true)
		for _, el := range v.Elts {
			kv, ok := el.(*ast.KeyValueExpr)
			if !ok {
				return nil, errUnsupported
			}
			val, err := e.expr(kv.Value)
			if err != nil {
				return nil, err
			}
			o.Fields[kv.Key.(*ast.Ident).Name] = val
		}
		return o, nil
	}
	return nil, errUnsupported
}

func constValue(c constant.Value) (Value, error) {
	switch c.Kind() {
	case constant.Bool:
		return constant.BoolVal(c), nil
	case constant.String:
		return Lit(constant.StringVal(c)), nil
	case constant.Int:
		n, ok := constant.Int64Val(c)
		if !ok {
			return nil, errUnsupported
		}
		return n, nil
	}
	return nil, errUnsupported
}

func (e *goEnv) call(call *ast.CallExpr) ([]Value, error) {
	info := e.pk.TypesInfo
	// conversion
	if tv, ok := info.Types[call.Fun]; ok && tv.IsType() {
		if len(call.Args) != 1 {
			return nil, errUnsupported
		}
		v, err := e.expr(call.Args[0])
		if err != nil {
			return nil, err
		}
		if l, ok := v.(*List); ok {
			if nt, ok := tv.Type.(*types.Named); ok {
				v = &List{Elems: l.Elems, Path: l.Path, Named: nt}
			}
		}
		if n, ok := v.(int64); ok {
			if b, ok := tv.Type.Underlying().(*types.Basic); ok {
				switch b.Kind() {
				case types.Uint8:
					v = n & 0xff
				case types.Uint16:
					v = n & 0xffff
				case types.Uint32:
					v = n & 0xffffffff
				}
			}
		}
		return []Value{v}, nil
	}
	if id, ok := ast.Unparen(call.Fun).(*ast.Ident); ok {
		if b, ok := info.Uses[id].(*types.Builtin); ok {
			switch b.Name() {
			case "panic":
				return nil, errPanics
			case "len":
				v, err := e.expr(call.Args[0])
				if err != nil {
					return nil, err
				}
				switch x := v.(type) {
				case *List:
					return []Value{int64(len(x.Elems))}, nil
				case *Text:
					if s, ok := x.Known(); ok {
						return []Value{int64(len(s))}, nil
					}
				}
			}
			return nil, errUnsupported
		}
	}
	var fn *types.Func
	var recv Value
	switch f := ast.Unparen(call.Fun).(type) {
	case *ast.Ident:
		fn, _ = info.Uses[f].(*types.Func)
	case *ast.SelectorExpr:
		fn, _ = info.Uses[f.Sel].(*types.Func)
		if sel, ok := info.Selections[f]; ok && sel.Kind() == types.MethodVal {
			r, err := e.expr(f.X)
			if err != nil {
				return nil, err
			}
			recv = r
		}
	}
	if fn == nil {
		return nil, errUnsupported
	}
	var args []Value
	for _, a := range call.Args {
		v, err := e.expr(a)
		if err != nil {
			return nil, err
		}
		args = append(args, v)
	}
	if sig, ok := fn.Type().(*types.Signature); ok && sig.Variadic() && !call.Ellipsis.IsValid() {
		n := sig.Params().Len() - 1
		if len(args) >= n {
			packed := &List{Elems: append([]Value(nil), args[n:]...)}
			args = append(append([]Value(nil), args[:n]...), packed)
		}
	}
	return e.w.callFunc(fn, recv, args, e.depth+1)
}

// callFunc dispatches to library models or to the interpreter.
func (w *World) callFunc(fn *types.Func, recv Value, args []Value, depth int) ([]Value, error) {
	if fn.Pkg() != nil {
		switch fn.Pkg().Path() {
		case "strings":
			return w.stringsModel(fn.Name(), args)
		case "strconv":
			if fn.Name() == "Itoa" && len(args) == 1 {
				if n, ok := args[0].(int64); ok {
					return []Value{Lit(fmt.Sprint(n))}, nil
				}
			}
			return nil, errUnsupported
		case "fmt":
			if fn.Name() == "Sprint" && len(args) == 1 {
				switch a := args[0].(type) {
				case int64:
					return []Value{Lit(fmt.Sprint(a))}, nil
				case *Text:
					return []Value{a}, nil
				}
			}
			return nil, errUnsupported
		}
	}
	if recv != nil {
		if o, ok := recv.(*Obj); ok && o.Type.Obj().Name() == "codewriter" {
			switch fn.Name() {
			case "f":
				if len(args) == 0 {
					return nil, errUnsupported
				}
				ft, ok := args[0].(*Text)
				if !ok {
					return nil, errUnsupported
				}
				f, known := ft.Known()
				if !known {
					return nil, errUnsupported
				}
				x := &Exec{W: w}
				var rest []Value
				if len(args) == 2 {
					if l, ok := args[1].(*List); ok {
						rest = l.Elems
					}
				}
				w.Emitted = append(w.Emitted, x.sprintf(f, rest).Render())
				return nil, nil
			case "UsePkg":
				return nil, nil
			}
			return nil, errUnsupported
		}
		switch r := recv.(type) {
		case *Obj:
			// promoted method: walk to the embedded receiver
			r = w.embeddedRecv(r, fn.Name())
			return w.CallGo(fn, r, args, depth)
		case Nil:
			return nil, errUnsupported
		case *Text:
			res, err := w.CallGo(fn, recv, args, depth)
			if err == errUnsupported {
				// methods of the named string types: an uninterpretable one yields a derived symbolic text / oracle boolean
				sig := fn.Type().(*types.Signature)
				if sig.Results().Len() == 1 {
					if b, ok := sig.Results().At(0).Type().Underlying().(*types.Basic); ok {
						if b.Kind() == types.Bool {
							return []Value{w.Or.Bool(fn.Name() + ":" + r.Render())}, nil
						}
						if b.Info()&types.IsString != 0 {
							return []Value{derived(r, fn.Name())}, nil
						}
					}
				}
			}
			return res, err
		default:
			return w.CallGo(fn, recv, args, depth)
		}
	}
	return w.CallGo(fn, nil, args, depth)
}

func (w *World) stringsModel(name string, args []Value) ([]Value, error) {
	// partial knowledge: a prefix test on a text whose first part is symbolic is decided by the oracle
	if name == "HasPrefix" && len(args) == 2 {
		if t, ok := args[0].(*Text); ok {
			if _, known := t.Known(); !known {
				pre, ok2 := args[1].(*Text)
				if ok2 {
					if ps, known2 := pre.Known(); known2 {
						if len(t.Parts) > 0 && t.Parts[0].Sym == "" && t.Parts[0].Lit != "" {
							if len(t.Parts[0].Lit) >= len(ps) {
								return []Value{strings.HasPrefix(t.Parts[0].Lit, ps)}, nil
							}
						}
						if ps == "*" {
							return []Value{w.Or.Bool("ispointer:" + t.Render())}, nil
						}
						return []Value{w.Or.Bool("hasprefix:" + t.Render() + ":" + ps)}, nil
					}
				}
			}
		}
	}
	if name == "TrimLeft" && len(args) == 2 {
		if t, ok := args[0].(*Text); ok {
			if _, known := t.Known(); !known {
				if len(t.Parts) > 0 && t.Parts[0].Sym == "" {
					cut, _ := args[1].(*Text).Known()
					np := append([]Part{{Lit: strings.TrimLeft(t.Parts[0].Lit, cut)}}, t.Parts[1:]...)
					return []Value{&Text{Parts: np}}, nil
				}
				return []Value{derived(t, "Deref")}, nil
			}
		}
	}
	var ks []string
	for _, a := range args {
		t, ok := a.(*Text)
		if !ok {
			return nil, errUnsupported
		}
		s, known := t.Known()
		if !known {
			return nil, errUnsupported
		}
		ks = append(ks, s)
	}
	switch name {
	case "ToUpper":
		return []Value{Lit(strings.ToUpper(ks[0]))}, nil
	case "ToLower":
		return []Value{Lit(strings.ToLower(ks[0]))}, nil
	case "HasPrefix":
		return []Value{strings.HasPrefix(ks[0], ks[1])}, nil
	case "HasSuffix":
		return []Value{strings.HasSuffix(ks[0], ks[1])}, nil
	case "Contains":
		return []Value{strings.Contains(ks[0], ks[1])}, nil
	case "TrimPrefix":
		return []Value{Lit(strings.TrimPrefix(ks[0], ks[1]))}, nil
	case "TrimLeft":
		return []Value{Lit(strings.TrimLeft(ks[0], ks[1]))}, nil
	case "ReplaceAll":
		return []Value{Lit(strings.ReplaceAll(ks[0], ks[1], ks[2]))}, nil
	}
	return nil, errUnsupported
}
