package tmpl

import (
	"fmt"
	"go/types"
	"sort"
	"strings"
)

// Value is an abstract value: bool, int64, *Text, *Obj, *List, *MapV, Nil, *Opaque, *GoFunc.
type Value interface{}

// Part of a text: literal characters or a symbolic placeholder.
type Part struct {
	Lit string
	Sym string // placeholder name (path-like); rendered as an identifier
}

// Text is a string value whose content may be partly symbolic.
type Text struct {
	Parts []Part
	Kind  string // "", "comment", "strlit", "bytes": how a purely symbolic text must be rendered
}

// Lit makes a known text.
func Lit(s string) *Text { return &Text{Parts: []Part{{Lit: s}}} }

// Sym makes a symbolic text.
func Sym(name string) *Text { return &Text{Parts: []Part{{Sym: name}}} }

// Known returns the literal content if the text has no symbolic part.
func (t *Text) Known() (string, bool) {
	var sb strings.Builder
	for _, p := range t.Parts {
		if p.Sym != "" {
			return "", false
		}
		sb.WriteString(p.Lit)
	}
	return sb.String(), true
}

// Concat joins texts.
func Concat(ts ...*Text) *Text {
	out := &Text{}
	for _, t := range ts {
		if t == nil {
			continue
		}
		out.Parts = append(out.Parts, t.Parts...)
		if out.Kind == "" {
			out.Kind = t.Kind
		}
	}
	return out
}

// Ident turns a symbolic path into a Go identifier.
func Ident(sym string) string {
	var sb strings.Builder
	sb.WriteString("Φ")
	for _, r := range sym {
		switch {
		case r >= 'a' && r <= 'z', r >= 'A' && r <= 'Z', r >= '0' && r <= '9', r == '_':
			sb.WriteRune(r)
		default:
			sb.WriteRune('_')
		}
	}
	return sb.String()
}

// Render produces the Go text of a value in text position.
func (t *Text) Render() string {
	var sb strings.Builder
	for _, p := range t.Parts {
		if p.Sym == "" {
			sb.WriteString(p.Lit)
			continue
		}
		switch t.Kind {
		case "comment":
			sb.WriteString("// " + Ident(p.Sym))
		case "strlit":
			sb.WriteString("`" + Ident(p.Sym) + "`")
		case "bytes":
			sb.WriteString("[]byte{}")
		case "varspec":
			sb.WriteString(Ident(p.Sym) + " = 0")
		case "kvline":
			sb.WriteString("\"" + Ident(p.Sym) + "\": nil,")
		default:
			sb.WriteString(Ident(p.Sym))
		}
	}
	return sb.String()
}

// Nil is the nil value.
type Nil struct{}

// Opaque is a value the model knows nothing about.
type Opaque struct {
	Path string
	Type types.Type
}

// Obj is an abstract struct instance typed by a Go named struct type.
type Obj struct {
	Type   *types.Named
	Path   string
	Fields map[string]Value
	Ptr    bool
}

// List is an abstract slice.
type List struct {
	Elems []Value
	Path  string
	Named *types.Named // the named slice type, if any (its methods can be called)
}

// MapV is an abstract map with string keys (the only kind the interpreted code uses).
type MapV struct {
	M    map[string]Value
	Path string
}

// Choice is one decision of the oracle.
type Choice struct {
	Key  string
	N    int
	Pick int
}

// Oracle enumerates all decision sequences depth-first. Decisions are keyed, so
// the same question asked twice in one run gets the same answer.
type Oracle struct {
	prefix []int
	trace  []Choice
	memo   map[string]int
	Fixed  map[string]int // pre-set answers (do not branch)
}

// NewOracle starts an enumeration.
func NewOracle(fixed map[string]int) *Oracle {
	return &Oracle{memo: map[string]int{}, Fixed: fixed}
}

// Choose returns the decision for key among n alternatives.
func (o *Oracle) Choose(key string, n int) int {
	if v, ok := o.Fixed[key]; ok {
		if v >= n {
			v = n - 1
		}
		return v
	}
	if v, ok := o.memo[key]; ok {
		return v
	}
	pick := 0
	if len(o.trace) < len(o.prefix) {
		pick = o.prefix[len(o.trace)]
	}
	if pick >= n {
		pick = n - 1
	}
	o.trace = append(o.trace, Choice{key, n, pick})
	o.memo[key] = pick
	return pick
}

// Bool is Choose(key,2)==1.
func (o *Oracle) Bool(key string) bool { return o.Choose(key, 2) == 1 }

// Next prepares the next run; it returns false when the space is exhausted.
func (o *Oracle) Next() bool {
	i := len(o.trace) - 1
	for i >= 0 && o.trace[i].Pick >= o.trace[i].N-1 {
		i--
	}
	if i < 0 {
		return false
	}
	np := make([]int, i+1)
	for k := 0; k < i; k++ {
		np[k] = o.trace[k].Pick
	}
	np[i] = o.trace[i].Pick + 1
	o.prefix = np
	o.trace = nil
	o.memo = map[string]int{}
	return true
}

// Valuation renders the decisions of the current run.
func (o *Oracle) Valuation() map[string]int {
	m := map[string]int{}
	for _, c := range o.trace {
		m[c.Key] = c.Pick
	}
	return m
}

// ValuationString is a compact, sorted rendering of the non-zero decisions.
func (o *Oracle) ValuationString() string {
	var ks []string
	for _, c := range o.trace {
		if c.Pick != 0 {
			ks = append(ks, fmt.Sprintf("%s=%d", c.Key, c.Pick))
		}
	}
	sort.Strings(ks)
	return strings.Join(ks, " ")
}

// Peek reads already-materialised fields without consulting the oracle (nil if absent).
func (o *Obj) Peek(names ...string) Value {
	var cur Value = o
	for _, n := range names {
		ob, ok := cur.(*Obj)
		if !ok {
			return nil
		}
		v, ok := ob.Fields[n]
		if !ok {
			return nil
		}
		cur = v
	}
	return cur
}
