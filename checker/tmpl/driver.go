package tmpl

import (
	"fmt"
	"go/ast"
	"go/parser"
	"go/token"
	"go/types"
	"sort"
	"strings"
)

// Rendering is one abstract rendering of a unit under one valuation.
type Rendering struct {
	Set       string
	Unit      string
	Text      string
	Valuation string
	Choices   map[string]int
	Libs      []string
	Calls     map[string]int
	Err       error
	Dot       Value // the abstract dot after the run (read with Peek only)
}

// Enumerate renders unit def of a set under every valuation the oracle discovers.
func (s *Static) Enumerate(setName, def string, cfg *Config, mkDot func(w *World) Value, each func(r *Rendering, w *World)) (runs int, truncated bool, err error) {
	return s.EnumerateStub(setName, def, nil, cfg, mkDot, each)
}

// EnumerateStub is Enumerate with some callee templates rendered as nothing.
func (s *Static) EnumerateStub(setName, def string, stub map[string]bool, cfg *Config, mkDot func(w *World) Value, each func(r *Rendering, w *World)) (runs int, truncated bool, err error) {
	set := s.Sets[setName]
	if set == nil {
		return 0, false, fmt.Errorf("template set %s not extracted", setName)
	}
	or := NewOracle(cfg.FixedChoices)
	for {
		w := s.NewWorld(cfg, or)
		x := &Exec{W: w, Set: set, Stub: stub}
		dot := mkDot(w)
		text, rerr := x.Render(def, dot)
		r := &Rendering{Set: setName, Unit: def, Text: text, Valuation: or.ValuationString(), Choices: or.Valuation(), Calls: x.Calls, Err: rerr, Dot: dot}
		for l := range w.Libs {
			r.Libs = append(r.Libs, l)
		}
		sort.Strings(r.Libs)
		each(r, w)
		runs++
		if cfg.MaxRuns > 0 && runs >= cfg.MaxRuns {
			return runs, or.Next(), nil
		}
		if !or.Next() {
			return runs, false, nil
		}
	}
}

// Parsed is a rendering parsed as a Go file.
type Parsed struct {
	Fset *token.FileSet
	File *ast.File
	Info *types.Info
	Diag []string // type-checker diagnostics that a template can cause (placeholder noise removed)
	Src  string
}

// ParseGo wraps a rendering of declarations into a file and parses it.
func ParseGo(text string, wrapInFunc bool) (*Parsed, error) {
	src := "package p\n\n" + text
	if strings.Contains(text, "\npackage ") || strings.HasPrefix(text, "package ") {
		src = text // a whole-file rendering brings its own package clause
	}
	if wrapInFunc {
		src = "package p\n\nfunc Φwrapper(iprot, oprot Φproto) error {\n" + text + "\nreturn nil\n}\n"
	}
	fset := token.NewFileSet()
	f, err := parser.ParseFile(fset, "rendering.go", src, parser.SkipObjectResolution)
	if err != nil {
		return &Parsed{Fset: fset, Src: src}, err
	}
	p := &Parsed{Fset: fset, File: f, Src: src}
	info := &types.Info{Types: map[ast.Expr]types.TypeAndValue{}, Defs: map[*ast.Ident]types.Object{}, Uses: map[*ast.Ident]types.Object{}}
	conf := types.Config{
		Importer: nil,
		Error: func(err error) {
			msg := err.Error()
			if i := strings.Index(msg, ": "); i >= 0 {
				// keep position prefix
			}
			if relevantDiag(msg) {
				p.Diag = append(p.Diag, msg)
			}
		},
		DisableUnusedImportCheck: true,
	}
	_, _ = conf.Check("p", fset, []*ast.File{f}, info)
	p.Info = info
	return p, nil
}

// relevantDiag keeps exactly the diagnostics a template can introduce under some valuation.
func relevantDiag(msg string) bool {
	for _, k := range []string{
		"declared and not used", "declared but not used",
		"label ", "goto ", "jumps over", "jumps into",
		"redeclared", "missing return", "no new variables on left side",
		"already declared", "duplicate case", "unreachable",
	} {
		if strings.Contains(msg, k) {
			if strings.Contains(msg, "undefined:") || strings.Contains(msg, "undeclared name") {
				return false
			}
			return true
		}
	}
	return false
}

// Line returns the source line containing pos (for reports).
func (p *Parsed) Line(pos token.Pos) string {
	pp := p.Fset.Position(pos)
	lines := strings.Split(p.Src, "\n")
	if pp.Line-1 < len(lines) && pp.Line >= 1 {
		return strings.TrimSpace(lines[pp.Line-1])
	}
	return ""
}

// EnumerateWorlds runs body once per valuation the oracle discovers (for analyses that drive the interpreter directly).
func (s *Static) EnumerateWorlds(cfg *Config, body func(w *World) error) (runs int, truncated bool, err error) {
	or := NewOracle(cfg.FixedChoices)
	for {
		w := s.NewWorld(cfg, or)
		if e := body(w); e != nil && err == nil {
			err = e
		}
		runs++
		if cfg.MaxRuns > 0 && runs >= cfg.MaxRuns {
			return runs, or.Next(), err
		}
		if !or.Next() {
			return runs, false, err
		}
	}
}

// RunGoFunc interprets the package-level function rel.name over abstract arguments and returns the lines an
// interpreted codewriter emitted during the call.
func (w *World) RunGoFunc(rel, name string, args ...Value) ([]string, error) {
	pk := w.Prog.Pkg(rel)
	if pk == nil {
		return nil, fmt.Errorf("package %s missing", rel)
	}
	fn, ok := pk.Types.Scope().Lookup(name).(*types.Func)
	if !ok {
		return nil, fmt.Errorf("function %s.%s missing", rel, name)
	}
	before := len(w.Emitted)
	_, err := w.CallGo(fn, nil, args, 0)
	if err != nil {
		return nil, err
	}
	return append([]string(nil), w.Emitted[before:]...), nil
}

// MkRWCtx exposes the ReadWriteContext model for a golang.Field object.
func (w *World) MkRWCtx(f *Obj) (v Value, err error) {
	defer func() {
		if r := recover(); r != nil {
			if e, ok := r.(execError); ok {
				err = e.err
				return
			}
			panic(r)
		}
	}()
	x := &Exec{W: w}
	return x.mkRWCtx(f), nil
}

// Valuation returns the oracle's current valuation string.
func (w *World) Valuation() string { return w.Or.ValuationString() }
