package core

import (
	"encoding/json"
	"fmt"
	"os"
	"path/filepath"
	"sort"
	"strconv"
	"strings"
	"time"
)

// ProcessStart is used so that wall_s includes loading the repository.
var ProcessStart = time.Now()

// Status of one obligation.
type Status int

const (
	Discharged Status = iota
	Violated
	Undecided // fail closed: anchor missing, extractor could not classify, …
)

// Obligation is one rule instance, keyed by rule and construct, never by line.
type Obligation struct {
	Rule       string `json:"rule"`
	Key        string `json:"key"`   // rule/package.Func/construct
	Where      string `json:"where"` // file:line on today's tree (informational)
	Status     Status `json:"-"`
	StatusText string `json:"status"`
	Fact       string `json:"fact"` // what discharged it, or what is wrong
	NonTrivial bool   `json:"nontrivial"`
}

// KnownFinding is one entry of /verif/known_findings.json.
type KnownFinding struct {
	Property string `json:"property"`
	Key      string `json:"key"`
	What     string `json:"what"`
	Input    string `json:"failing_input"`
}

type knownFile struct {
	Known []KnownFinding `json:"known"`
	Fixed []string       `json:"fixed"`
}

// Check is the context of one property run.
type Check struct {
	Prop       string
	Tier       string
	Seed       int64
	Prog       *Program
	start      time.Time
	obls       []*Obligation
	keys       map[string]*Obligation
	Notes      []string // informational lines for the evidence
	Assume     []string
	Explain    string
	RuleText   string
	counts     map[string]int
	Analysed   map[string]int // what was analysed: functions, call sites, renderings, …
	Exhaustive bool
}

func NewCheck(prop, tier string, prog *Program) *Check {
	seed, _ := strconv.ParseInt(os.Getenv("VERIF_SEED"), 10, 64)
	return &Check{Prop: prop, Tier: tier, Seed: seed, Prog: prog, start: ProcessStart,
		keys: map[string]*Obligation{}, counts: map[string]int{}, Analysed: map[string]int{}}
}

func (c *Check) add(rule, key, where string, st Status, nontrivial bool, fact string) *Obligation {
	full := rule + "/" + key
	if o, ok := c.keys[full]; ok {
		// Same obligation reached twice: keep the worst status.
		if st > o.Status {
			o.Status, o.Fact, o.Where = st, fact, where
		}
		return o
	}
	o := &Obligation{Rule: rule, Key: full, Where: where, Status: st, Fact: fact, NonTrivial: nontrivial}
	c.keys[full] = o
	c.obls = append(c.obls, o)
	c.counts[rule]++
	return o
}

// OK records a discharged obligation.
func (c *Check) OK(rule, key, where, fact string) { c.add(rule, key, where, Discharged, true, fact) }

// OKTrivial records an obligation discharged by mere presence.
func (c *Check) OKTrivial(rule, key, where, fact string) {
	c.add(rule, key, where, Discharged, false, fact)
}

// Bad records a violated obligation.
func (c *Check) Bad(rule, key, where, fact string) { c.add(rule, key, where, Violated, true, fact) }

// Unknown records an obligation the checker could not decide (fails the run).
func (c *Check) Unknown(rule, key, where, fact string) {
	c.add(rule, key, where, Undecided, true, "undecided: "+fact)
}

// Decide records OK or Bad.
func (c *Check) Decide(ok bool, rule, key, where, okFact, badFact string) {
	if ok {
		c.OK(rule, key, where, okFact)
	} else {
		c.Bad(rule, key, where, badFact)
	}
}

// Min asserts the vacuity guard: rule must have at least n instances.
func (c *Check) Min(rule string, n int) {
	if c.counts[rule] < n {
		c.Unknown("vacuity", rule, "", fmt.Sprintf("rule %s matched %d instances, expected at least %d (confirmed by hand on the pinned tree)", rule, c.counts[rule], n))
	}
}

func (c *Check) Count(rule string) int { return c.counts[rule] }

func (c *Check) Note(format string, a ...interface{}) {
	c.Notes = append(c.Notes, fmt.Sprintf(format, a...))
}

func verifDir() string {
	if d := os.Getenv("VERIF_DIR"); d != "" {
		return d
	}
	return "/verif"
}

func loadKnown() knownFile {
	var k knownFile
	b, err := os.ReadFile(filepath.Join(verifDir(), "known_findings.json"))
	if err == nil {
		_ = json.Unmarshal(b, &k)
	}
	return k
}

// Finish writes the evidence and violation files, prints the verdict lines and
// returns the process exit code.
func (c *Check) Finish() int {
	known := loadKnown()
	kn := map[string]KnownFinding{}
	for _, k := range known.Known {
		if k.Property == c.Prop {
			kn[k.Key] = k
		}
	}
	sort.SliceStable(c.obls, func(i, j int) bool { return c.obls[i].Key < c.obls[j].Key })
	var viol, knownHit []*Obligation
	discharged, nontrivial := 0, 0
	for _, o := range c.obls {
		switch o.Status {
		case Discharged:
			o.StatusText = "discharged"
			discharged++
		case Violated:
			if _, ok := kn[o.Key]; ok {
				o.StatusText = "known-finding"
				knownHit = append(knownHit, o)
			} else {
				o.StatusText = "violated"
				viol = append(viol, o)
			}
		case Undecided:
			o.StatusText = "undecided"
			viol = append(viol, o)
		}
		if o.NonTrivial {
			nontrivial++
		}
	}
	evDir := filepath.Join(verifDir(), "evidence")
	if d := os.Getenv("VERIF_EVIDENCE_DIR"); d != "" {
		evDir = d
	}
	_ = os.MkdirAll(evDir, 0o755)
	replay := filepath.Join(evDir, c.Prop+".violations.json")

	// samples: every violated/known obligation plus a rotating window of discharged ones
	var samples []interface{}
	for _, o := range viol {
		samples = append(samples, o)
	}
	for _, o := range knownHit {
		samples = append(samples, o)
	}
	perRule := map[string]int{}
	off := 0
	if len(c.obls) > 0 {
		off = int(uint64(c.Seed) % uint64(len(c.obls)))
	}
	for i := range c.obls {
		o := c.obls[(i+off)%len(c.obls)]
		if o.Status == Discharged && perRule[o.Rule] < 3 {
			perRule[o.Rule]++
			samples = append(samples, o)
		}
	}
	rules := map[string]int{}
	for k, v := range c.counts {
		rules[k] = v
	}
	cov := map[string]interface{}{
		"explanation":         c.Explain,
		"rule":                c.RuleText,
		"obligations":         len(c.obls),
		"discharged":          discharged,
		"evaluations":         len(c.obls) + c.Analysed["renderings"],
		"distinct_nontrivial": nontrivial,
		"samples":             samples,
		"instances_per_rule":  rules,
		"analysed":            c.Analysed,
		"notes":               c.Notes,
		"exhaustive":          c.Exhaustive,
		"known_findings":      len(knownHit),
	}
	ev := map[string]interface{}{
		"property_id": c.Prop,
		"tier":        c.Tier,
		"seed":        c.Seed,
		"level":       "other",
		"coverage":    cov,
		"assumptions": c.Assume,
		"wall_s":      time.Since(c.start).Seconds(),
		"violations":  len(viol),
	}
	b, _ := json.MarshalIndent(ev, "", " ")
	if err := os.WriteFile(filepath.Join(evDir, c.Prop+".json"), append(b, '\n'), 0o644); err != nil {
		fmt.Println("cannot write evidence:", err)
		return 1
	}
	fmt.Printf("%s tier=%s obligations=%d discharged=%d known=%d violated=%d wall=%.1fs\n", c.Prop, c.Tier, len(c.obls), discharged, len(knownHit), len(viol), time.Since(c.start).Seconds())
	var rl []string
	for r, n := range c.counts {
		rl = append(rl, fmt.Sprintf("%s=%d", r, n))
	}
	sort.Strings(rl)
	fmt.Println("  rules:", strings.Join(rl, " "))
	for _, o := range knownHit {
		fmt.Printf("KNOWN-FINDING: property=%s %s -- %s\n", c.Prop, o.Key, kn[o.Key].What)
	}
	if len(viol) == 0 {
		_ = os.Remove(replay)
		return 0
	}
	vb, _ := json.MarshalIndent(map[string]interface{}{"property": c.Prop, "violations": viol}, "", " ")
	_ = os.WriteFile(replay, append(vb, '\n'), 0o644)
	for _, o := range viol {
		fmt.Printf("  %s %s [%s] %s\n", strings.ToUpper(o.StatusText), o.Key, o.Where, o.Fact)
	}
	fmt.Printf("VIOLATION property=%s replay=%s\n", c.Prop, replay)
	return 1
}
