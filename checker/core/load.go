// Package core holds the loader, the obligation bookkeeping and the evidence
// writer shared by every property check.
package core

import (
	"fmt"
	"go/ast"
	"go/token"
	"go/types"
	"os"
	"path/filepath"
	"sort"
	"strings"

	"golang.org/x/tools/go/callgraph"
	"golang.org/x/tools/go/packages"
	"golang.org/x/tools/go/ssa"
	"golang.org/x/tools/go/ssa/ssautil"
)

const Module = "github.com/cloudwego/thriftgo"

// RepoDir is the tree analysed; overridable for development with VERIF_REPO.
func RepoDir() string {
	if d := os.Getenv("VERIF_REPO"); d != "" {
		return d
	}
	return "/repo"
}

// Program is the resolved, type-checked repository.
type Program struct {
	Fset  *token.FileSet
	Pkgs  []*packages.Package          // repository packages only, sorted by path
	ByRel map[string]*packages.Package // "semantic", "generator/golang", "" (main)
	All   []*packages.Package          // with dependencies
	ssa   *ssa.Program
	ssaPk map[*packages.Package]*ssa.Package
	cg    *callgraph.Graph
}

// Load type-checks every package of the repository's root module.
func Load() (*Program, error) {
	dir := RepoDir()
	env := append(os.Environ(), "GOWORK=off", "GOFLAGS=-mod=mod", "GOPROXY=off", "GOSUMDB=off", "GOTOOLCHAIN=local")
	cfg := &packages.Config{
		Mode: packages.NeedName | packages.NeedFiles | packages.NeedCompiledGoFiles | packages.NeedImports |
			packages.NeedDeps | packages.NeedTypes | packages.NeedSyntax | packages.NeedTypesInfo | packages.NeedTypesSizes | packages.NeedModule,
		Dir:   dir,
		Env:   env,
		Tests: false,
	}
	pkgs, err := packages.Load(cfg, "./...")
	if err != nil {
		return nil, err
	}
	if len(pkgs) == 0 {
		return nil, fmt.Errorf("no packages loaded from %s", dir)
	}
	p := &Program{ByRel: map[string]*packages.Package{}}
	var errs []string
	packages.Visit(pkgs, nil, func(pk *packages.Package) {
		p.All = append(p.All, pk)
		if pk.PkgPath == Module || strings.HasPrefix(pk.PkgPath, Module+"/") {
			for _, e := range pk.Errors {
				errs = append(errs, e.Error())
			}
		}
	})
	for _, pk := range pkgs {
		if pk.PkgPath == Module || strings.HasPrefix(pk.PkgPath, Module+"/") {
			p.Pkgs = append(p.Pkgs, pk)
			rel := strings.TrimPrefix(strings.TrimPrefix(pk.PkgPath, Module), "/")
			p.ByRel[rel] = pk
			p.Fset = pk.Fset
		}
	}
	sort.Slice(p.Pkgs, func(i, j int) bool { return p.Pkgs[i].PkgPath < p.Pkgs[j].PkgPath })
	if len(errs) > 0 {
		sort.Strings(errs)
		return nil, fmt.Errorf("type-check errors in repository: %s", strings.Join(errs, "; "))
	}
	if len(p.Pkgs) < 30 {
		return nil, fmt.Errorf("only %d repository packages loaded (expected >= 30)", len(p.Pkgs))
	}
	return p, nil
}

// Pkg returns the repository package with the given module-relative path.
func (p *Program) Pkg(rel string) *packages.Package { return p.ByRel[rel] }

// SSA builds (once) the SSA form of the whole program.
func (p *Program) SSA() *ssa.Program {
	if p.ssa == nil {
		prog, spk := ssautil.AllPackages(p.initial(), ssa.InstantiateGenerics)
		prog.Build()
		p.ssa = prog
		p.ssaPk = map[*packages.Package]*ssa.Package{}
		for i, pk := range p.initial() {
			p.ssaPk[pk] = spk[i]
		}
	}
	return p.ssa
}

func (p *Program) initial() []*packages.Package { return p.Pkgs }

// SSAPkg returns the SSA package of a repository package.
func (p *Program) SSAPkg(rel string) *ssa.Package {
	p.SSA()
	return p.ssaPk[p.ByRel[rel]]
}

// Rel renders a position as repo-relative file:line.
func (p *Program) Rel(pos token.Pos) string {
	if !pos.IsValid() {
		return "?"
	}
	pp := p.Fset.Position(pos)
	f, err := filepath.Rel(RepoDir(), pp.Filename)
	if err != nil {
		f = pp.Filename
	}
	return fmt.Sprintf("%s:%d", f, pp.Line)
}

// FuncDecl finds a function or method declaration: name is "Func" or "Recv.Method"
// (Recv without '*').
func (p *Program) FuncDecl(rel, name string) *ast.FuncDecl {
	pk := p.ByRel[rel]
	if pk == nil {
		return nil
	}
	recv, fn := "", name
	if i := strings.Index(name, "."); i >= 0 {
		recv, fn = name[:i], name[i+1:]
	}
	for _, f := range pk.Syntax {
		for _, d := range f.Decls {
			fd, ok := d.(*ast.FuncDecl)
			if !ok || fd.Name.Name != fn {
				continue
			}
			if RecvName(fd) == recv {
				return fd
			}
		}
	}
	return nil
}

// RecvName returns the receiver's named type ("" for plain functions).
func RecvName(fd *ast.FuncDecl) string {
	if fd.Recv == nil || len(fd.Recv.List) == 0 {
		return ""
	}
	t := fd.Recv.List[0].Type
	for {
		switch x := t.(type) {
		case *ast.StarExpr:
			t = x.X
		case *ast.IndexExpr:
			t = x.X
		case *ast.ParenExpr:
			t = x.X
		case *ast.Ident:
			return x.Name
		default:
			return ""
		}
	}
}

// FuncKey gives "rel.Recv.Name" for a declaration in a package.
func FuncKey(rel string, fd *ast.FuncDecl) string {
	if r := RecvName(fd); r != "" {
		return rel + ".(" + r + ")." + fd.Name.Name
	}
	return rel + "." + fd.Name.Name
}

// AllFuncDecls iterates over every function declaration of a package with a body.
func (p *Program) AllFuncDecls(rel string, f func(file *ast.File, fd *ast.FuncDecl)) {
	pk := p.ByRel[rel]
	if pk == nil {
		return
	}
	for _, file := range pk.Syntax {
		for _, d := range file.Decls {
			if fd, ok := d.(*ast.FuncDecl); ok && fd.Body != nil {
				f(file, fd)
			}
		}
	}
}

// RelOf returns the module-relative path of a types.Package ("" if foreign; ok false).
func RelOf(pk *types.Package) (string, bool) {
	if pk == nil {
		return "", false
	}
	if pk.Path() == Module {
		return "", true
	}
	if strings.HasPrefix(pk.Path(), Module+"/") {
		return strings.TrimPrefix(pk.Path(), Module+"/"), true
	}
	return "", false
}

// ObjKey renders a function object as rel.(Recv).Name.
func ObjKey(fn *types.Func) string {
	if fn == nil {
		return "<nil>"
	}
	rel, ok := RelOf(fn.Pkg())
	if !ok && fn.Pkg() != nil {
		rel = fn.Pkg().Path()
	}
	sig, _ := fn.Type().(*types.Signature)
	if sig != nil && sig.Recv() != nil {
		t := sig.Recv().Type()
		if pt, ok := t.(*types.Pointer); ok {
			t = pt.Elem()
		}
		if n, ok := t.(*types.Named); ok {
			return rel + ".(" + n.Obj().Name() + ")." + fn.Name()
		}
	}
	return rel + "." + fn.Name()
}

func recvString(t types.Type) string {
	if pt, ok := t.(*types.Pointer); ok {
		t = pt.Elem()
	}
	if n, ok := t.(*types.Named); ok {
		return "(" + n.Obj().Name() + ")"
	}
	return "(" + t.String() + ")"
}

// TypesInfoFor returns the types.Info of the repository package that declares pos.
func (p *Program) InfoAt(pos token.Pos) *types.Info {
	f := p.Fset.File(pos)
	if f == nil {
		return nil
	}
	for _, pk := range p.Pkgs {
		for _, s := range pk.Syntax {
			if p.Fset.File(s.Pos()) == f {
				return pk.TypesInfo
			}
		}
	}
	return nil
}
