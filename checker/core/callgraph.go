package core

import (
	"go/ast"
	"sort"

	"golang.org/x/tools/go/callgraph"
	"golang.org/x/tools/go/callgraph/cha"
	"golang.org/x/tools/go/callgraph/vta"
	"golang.org/x/tools/go/ssa"
	"golang.org/x/tools/go/ssa/ssautil"
)

// CallGraph builds (once) the VTA call graph of the whole program.
func (p *Program) CallGraph() *callgraph.Graph {
	if p.cg == nil {
		prog := p.SSA()
		p.cg = vta.CallGraph(ssautil.AllFunctions(prog), cha.CallGraph(prog))
	}
	return p.cg
}

// Reach returns every function reachable in the call graph from the roots.
// stop, if non-nil, prunes the traversal at functions for which it holds
// (the function itself is not included either).
func (p *Program) Reach(roots []*ssa.Function, stop func(*ssa.Function) bool) map[*ssa.Function]bool {
	seen, _ := p.ReachWithParents(roots, stop)
	return seen
}

// ReachWithParents is Reach plus a BFS tree (callee -> one caller) for diagnostics.
func (p *Program) ReachWithParents(roots []*ssa.Function, stop func(*ssa.Function) bool) (map[*ssa.Function]bool, map[*ssa.Function]*ssa.Function) {
	g := p.CallGraph()
	seen := map[*ssa.Function]bool{}
	parent := map[*ssa.Function]*ssa.Function{}
	var work []*ssa.Function
	push := func(f, from *ssa.Function) {
		if f == nil || seen[f] || (stop != nil && stop(f)) {
			return
		}
		seen[f] = true
		parent[f] = from
		work = append(work, f)
	}
	for _, r := range roots {
		push(r, nil)
	}
	for len(work) > 0 {
		f := work[0]
		work = work[1:]
		if n := g.Nodes[f]; n != nil {
			for _, e := range n.Out {
				push(e.Callee.Func, f)
			}
		}
		// closures created by f are reachable when f is
		for _, a := range f.AnonFuncs {
			push(a, f)
		}
	}
	return seen, parent
}

// CallPath renders root -> ... -> fn using the BFS tree.
func CallPath(parent map[*ssa.Function]*ssa.Function, fn *ssa.Function) string {
	var names []string
	for f := fn; f != nil; f = parent[f] {
		names = append([]string{FuncName(f)}, names...)
		if len(names) > 40 {
			break
		}
	}
	s := ""
	for i, n := range names {
		if i > 0 {
			s += " -> "
		}
		s += n
	}
	return s
}

// InRepo reports whether fn belongs to the analysed module.
func InRepo(fn *ssa.Function) bool {
	for fn.Parent() != nil {
		fn = fn.Parent()
	}
	if fn.Pkg == nil {
		// method wrappers / instantiations: use the object's package
		if o := fn.Object(); o != nil {
			_, ok := RelOf(o.Pkg())
			return ok
		}
		return false
	}
	_, ok := RelOf(fn.Pkg.Pkg)
	return ok
}

// FuncName is a stable, line-free name: rel.(Recv).Name[$n].
func FuncName(fn *ssa.Function) string {
	if fn.Parent() != nil {
		return FuncName(fn.Parent()) + "$" + fn.Name()[len(fn.Parent().Name()):]
	}
	if o, ok := fn.Object().(interface{ FullName() string }); ok && fn.Object() != nil {
		_ = o
	}
	rel := ""
	if fn.Pkg != nil {
		rel, _ = RelOf(fn.Pkg.Pkg)
		if r, ok := RelOf(fn.Pkg.Pkg); !ok {
			rel = fn.Pkg.Pkg.Path()
		} else {
			rel = r
		}
	}
	if fn.Signature.Recv() != nil {
		t := fn.Signature.Recv().Type()
		return rel + "." + recvString(t) + "." + fn.Name()
	}
	return rel + "." + fn.Name()
}

// SortedFuncs returns the repository functions of a set, sorted by name.
func SortedFuncs(set map[*ssa.Function]bool) []*ssa.Function {
	var out []*ssa.Function
	for f := range set {
		if InRepo(f) && f.Syntax() != nil {
			out = append(out, f)
		}
	}
	sort.Slice(out, func(i, j int) bool {
		a, b := FuncName(out[i]), FuncName(out[j])
		if a != b {
			return a < b
		}
		return out[i].Pos() < out[j].Pos()
	})
	return out
}

// Body returns the syntax body of an SSA function.
func Body(fn *ssa.Function) *ast.BlockStmt {
	switch s := fn.Syntax().(type) {
	case *ast.FuncDecl:
		return s.Body
	case *ast.FuncLit:
		return s.Body
	}
	return nil
}
