// Package peg reads the PEG grammar of the Thrift IDL parser (the subset of the pointlander/peg syntax the repository
// uses) and computes the facts the SHAPE analysis needs: nullability, left recursion, nullable repetition and the
// child-sequence automaton of every rule.
package peg

import (
	"fmt"
	"sort"
	"strings"
)

// Kind of an expression node.
type Kind int

const (
	Seq Kind = iota
	Choice
	Star
	Plus
	Opt
	Not
	And
	Ref
	Lit
	Class
	Any
	Capture
)

// Expr is a PEG expression.
type Expr struct {
	Kind Kind
	Sub  []*Expr
	Name string // Ref: rule name; Lit/Class: text
}

// Grammar is a set of rules in source order.
type Grammar struct {
	Rules map[string]*Expr
	Order []string
}

type lexer struct {
	s   string
	pos int
}

func (l *lexer) skip() {
	for l.pos < len(l.s) {
		c := l.s[l.pos]
		if c == ' ' || c == '\t' || c == '\n' || c == '\r' {
			l.pos++
			continue
		}
		if c == '#' {
			for l.pos < len(l.s) && l.s[l.pos] != '\n' {
				l.pos++
			}
			continue
		}
		break
	}
}

func isIdent(c byte) bool {
	return c == '_' || c >= 'a' && c <= 'z' || c >= 'A' && c <= 'Z' || c >= '0' && c <= '9'
}

// Parse reads a grammar. Lines before the first rule (package / type header) are ignored.
func Parse(src string) (*Grammar, error) {
	// cut the header: everything up to and including the `type … Peg { … }` block
	if i := strings.Index(src, "Peg {"); i >= 0 {
		if j := strings.Index(src[i:], "}"); j >= 0 {
			src = src[i+j+1:]
		}
	}
	g := &Grammar{Rules: map[string]*Expr{}}
	l := &lexer{s: src}
	for {
		l.skip()
		if l.pos >= len(l.s) {
			break
		}
		start := l.pos
		for l.pos < len(l.s) && isIdent(l.s[l.pos]) {
			l.pos++
		}
		name := l.s[start:l.pos]
		if name == "" {
			return nil, fmt.Errorf("expected rule name at offset %d: %q", l.pos, ctx(l))
		}
		l.skip()
		if !strings.HasPrefix(l.s[l.pos:], "<-") {
			return nil, fmt.Errorf("expected <- after %s", name)
		}
		l.pos += 2
		e, err := parseChoice(l)
		if err != nil {
			return nil, fmt.Errorf("rule %s: %v", name, err)
		}
		g.Rules[name] = e
		g.Order = append(g.Order, name)
	}
	if len(g.Order) == 0 {
		return nil, fmt.Errorf("no rules found")
	}
	return g, nil
}

func ctx(l *lexer) string {
	e := l.pos + 20
	if e > len(l.s) {
		e = len(l.s)
	}
	return l.s[l.pos:e]
}

func parseChoice(l *lexer) (*Expr, error) {
	var alts []*Expr
	for {
		s, err := parseSeq(l)
		if err != nil {
			return nil, err
		}
		alts = append(alts, s)
		l.skip()
		if l.pos < len(l.s) && l.s[l.pos] == '/' {
			l.pos++
			continue
		}
		break
	}
	if len(alts) == 1 {
		return alts[0], nil
	}
	return &Expr{Kind: Choice, Sub: alts}, nil
}

// atRuleStart: the lexer is at `Name <-` (the start of the next rule).
func atRuleStart(l *lexer) bool {
	p := l.pos
	for p < len(l.s) && isIdent(l.s[p]) {
		p++
	}
	if p == l.pos {
		return false
	}
	for p < len(l.s) && (l.s[p] == ' ' || l.s[p] == '\t') {
		p++
	}
	return strings.HasPrefix(l.s[p:], "<-")
}

func parseSeq(l *lexer) (*Expr, error) {
	var items []*Expr
	for {
		l.skip()
		if l.pos >= len(l.s) {
			break
		}
		c := l.s[l.pos]
		if c == '/' || c == ')' || c == '>' {
			break
		}
		if atRuleStart(l) {
			break
		}
		it, err := parsePrefix(l)
		if err != nil {
			return nil, err
		}
		items = append(items, it)
	}
	if len(items) == 1 {
		return items[0], nil
	}
	return &Expr{Kind: Seq, Sub: items}, nil
}

func parsePrefix(l *lexer) (*Expr, error) {
	l.skip()
	switch l.s[l.pos] {
	case '!':
		l.pos++
		e, err := parseSuffix(l)
		if err != nil {
			return nil, err
		}
		return &Expr{Kind: Not, Sub: []*Expr{e}}, nil
	case '&':
		l.pos++
		e, err := parseSuffix(l)
		if err != nil {
			return nil, err
		}
		return &Expr{Kind: And, Sub: []*Expr{e}}, nil
	}
	return parseSuffix(l)
}

func parseSuffix(l *lexer) (*Expr, error) {
	e, err := parsePrimary(l)
	if err != nil {
		return nil, err
	}
	for {
		// suffix operators follow immediately (possibly after blanks on the same line)
		p := l.pos
		for p < len(l.s) && (l.s[p] == ' ' || l.s[p] == '\t') {
			p++
		}
		if p >= len(l.s) {
			break
		}
		switch l.s[p] {
		case '*':
			e = &Expr{Kind: Star, Sub: []*Expr{e}}
		case '+':
			e = &Expr{Kind: Plus, Sub: []*Expr{e}}
		case '?':
			e = &Expr{Kind: Opt, Sub: []*Expr{e}}
		default:
			return e, nil
		}
		l.pos = p + 1
	}
	return e, nil
}

func parsePrimary(l *lexer) (*Expr, error) {
	l.skip()
	if l.pos >= len(l.s) {
		return nil, fmt.Errorf("unexpected end of grammar")
	}
	c := l.s[l.pos]
	switch {
	case c == '(':
		l.pos++
		e, err := parseChoice(l)
		if err != nil {
			return nil, err
		}
		l.skip()
		if l.pos >= len(l.s) || l.s[l.pos] != ')' {
			return nil, fmt.Errorf("missing ) near %q", ctx(l))
		}
		l.pos++
		return e, nil
	case c == '<':
		l.pos++
		e, err := parseChoice(l)
		if err != nil {
			return nil, err
		}
		l.skip()
		if l.pos >= len(l.s) || l.s[l.pos] != '>' {
			return nil, fmt.Errorf("missing > near %q", ctx(l))
		}
		l.pos++
		return &Expr{Kind: Capture, Sub: []*Expr{e}}, nil
	case c == '\'' || c == '"':
		q := c
		l.pos++
		start := l.pos
		for l.pos < len(l.s) && l.s[l.pos] != q {
			if l.s[l.pos] == '\\' {
				l.pos++
			}
			l.pos++
		}
		txt := l.s[start:l.pos]
		l.pos++
		return &Expr{Kind: Lit, Name: txt}, nil
	case c == '[':
		l.pos++
		start := l.pos
		for l.pos < len(l.s) && l.s[l.pos] != ']' {
			if l.s[l.pos] == '\\' {
				l.pos++
			}
			l.pos++
		}
		txt := l.s[start:l.pos]
		l.pos++
		return &Expr{Kind: Class, Name: txt}, nil
	case c == '.':
		l.pos++
		return &Expr{Kind: Any}, nil
	case isIdent(c):
		start := l.pos
		for l.pos < len(l.s) && isIdent(l.s[l.pos]) {
			l.pos++
		}
		return &Expr{Kind: Ref, Name: l.s[start:l.pos]}, nil
	}
	return nil, fmt.Errorf("unexpected %q", ctx(l))
}

// String renders an expression canonically (for comparing two descriptions of the grammar).
func (e *Expr) String() string {
	switch e.Kind {
	case Seq:
		var p []string
		for _, s := range e.Sub {
			p = append(p, s.String())
		}
		return "(" + strings.Join(p, " ") + ")"
	case Choice:
		var p []string
		for _, s := range e.Sub {
			p = append(p, s.String())
		}
		return "(" + strings.Join(p, " / ") + ")"
	case Star:
		return e.Sub[0].String() + "*"
	case Plus:
		return e.Sub[0].String() + "+"
	case Opt:
		return e.Sub[0].String() + "?"
	case Not:
		return "!" + e.Sub[0].String()
	case And:
		return "&" + e.Sub[0].String()
	case Ref:
		return e.Name
	case Lit:
		return "'" + e.Name + "'"
	case Class:
		return "[" + e.Name + "]"
	case Any:
		return "."
	case Capture:
		return "<" + e.Sub[0].String() + ">"
	}
	return "?"
}

// Nullable computes the set of rules that can succeed without consuming input.
func (g *Grammar) Nullable() map[string]bool {
	null := map[string]bool{}
	var n func(e *Expr) bool
	n = func(e *Expr) bool {
		switch e.Kind {
		case Seq:
			for _, s := range e.Sub {
				if !n(s) {
					return false
				}
			}
			return true
		case Choice:
			for _, s := range e.Sub {
				if n(s) {
					return true
				}
			}
			return false
		case Star, Opt, Not, And:
			return true
		case Plus, Capture:
			return n(e.Sub[0])
		case Ref:
			return null[e.Name]
		case Lit:
			return e.Name == ""
		}
		return false
	}
	for changed := true; changed; {
		changed = false
		for _, r := range g.Order {
			if !null[r] && n(g.Rules[r]) {
				null[r] = true
				changed = true
			}
		}
	}
	return null
}

// ExprNullable evaluates nullability of an expression given the rule set.
func ExprNullable(e *Expr, null map[string]bool) bool {
	switch e.Kind {
	case Seq:
		for _, s := range e.Sub {
			if !ExprNullable(s, null) {
				return false
			}
		}
		return true
	case Choice:
		for _, s := range e.Sub {
			if ExprNullable(s, null) {
				return true
			}
		}
		return false
	case Star, Opt, Not, And:
		return true
	case Plus, Capture:
		return ExprNullable(e.Sub[0], null)
	case Ref:
		return null[e.Name]
	case Lit:
		return e.Name == ""
	}
	return false
}

// LeftRecursive lists rules that can call themselves without consuming input first.
func (g *Grammar) LeftRecursive() []string {
	null := g.Nullable()
	first := map[string]map[string]bool{}
	var leftRefs func(e *Expr, out map[string]bool)
	leftRefs = func(e *Expr, out map[string]bool) {
		switch e.Kind {
		case Seq:
			for _, s := range e.Sub {
				leftRefs(s, out)
				if !ExprNullable(s, null) {
					return
				}
			}
		case Choice:
			for _, s := range e.Sub {
				leftRefs(s, out)
			}
		case Star, Plus, Opt, Not, And, Capture:
			leftRefs(e.Sub[0], out)
		case Ref:
			out[e.Name] = true
		}
	}
	for _, r := range g.Order {
		first[r] = map[string]bool{}
		leftRefs(g.Rules[r], first[r])
	}
	var out []string
	for _, r := range g.Order {
		seen := map[string]bool{}
		var dfs func(x string) bool
		dfs = func(x string) bool {
			for y := range first[x] {
				if y == r {
					return true
				}
				if !seen[y] {
					seen[y] = true
					if dfs(y) {
						return true
					}
				}
			}
			return false
		}
		if dfs(r) {
			out = append(out, r)
		}
	}
	sort.Strings(out)
	return out
}

// NullableRepetitions lists `e*` / `e+` whose body can succeed without consuming input (a PEG recogniser loops forever).
func (g *Grammar) NullableRepetitions() []string {
	null := g.Nullable()
	var out []string
	var walk func(rule string, e *Expr)
	walk = func(rule string, e *Expr) {
		if (e.Kind == Star || e.Kind == Plus) && ExprNullable(e.Sub[0], null) {
			out = append(out, rule+": "+e.String())
		}
		for _, s := range e.Sub {
			walk(rule, s)
		}
	}
	for _, r := range g.Order {
		walk(r, g.Rules[r])
	}
	sort.Strings(out)
	return out
}

// UndefinedRefs lists references to rules that do not exist.
func (g *Grammar) UndefinedRefs() []string {
	var out []string
	var walk func(rule string, e *Expr)
	walk = func(rule string, e *Expr) {
		if e.Kind == Ref {
			if _, ok := g.Rules[e.Name]; !ok {
				out = append(out, rule+" -> "+e.Name)
			}
		}
		for _, s := range e.Sub {
			walk(rule, s)
		}
	}
	for _, r := range g.Order {
		walk(r, g.Rules[r])
	}
	sort.Strings(out)
	return out
}

// CapturesAtStart lists rules containing a capture <…> that can begin at input offset 0 when parsing starts at root.
func (g *Grammar) CapturesAtStart(root string) []string {
	null := g.Nullable()
	atStart := map[string]bool{}
	var out []string
	seenCap := map[string]bool{}
	var walk func(rule string, e *Expr, start bool) bool // returns whether the position after e may still be offset 0
	visiting := map[string]bool{}
	walk = func(rule string, e *Expr, start bool) bool {
		switch e.Kind {
		case Seq:
			s := start
			for _, x := range e.Sub {
				s = walk(rule, x, s)
			}
			return s
		case Choice:
			res := false
			for _, x := range e.Sub {
				if walk(rule, x, start) {
					res = true
				}
			}
			return res
		case Star, Opt:
			walk(rule, e.Sub[0], start)
			return start
		case Plus:
			return walk(rule, e.Sub[0], start)
		case Not, And:
			return start
		case Capture:
			if start && !seenCap[rule] {
				seenCap[rule] = true
				out = append(out, rule)
			}
			return walk(rule, e.Sub[0], start)
		case Ref:
			if start && !visiting[e.Name] {
				if !atStart[e.Name] {
					atStart[e.Name] = true
				}
				visiting[e.Name] = true
				if sub, ok := g.Rules[e.Name]; ok {
					walk(e.Name, sub, true)
				}
				visiting[e.Name] = false
			}
			return start && null[e.Name]
		case Lit:
			return start && e.Name == ""
		case Class, Any:
			return false
		}
		return false
	}
	if e, ok := g.Rules[root]; ok {
		walk(root, e, true)
	}
	sort.Strings(out)
	return out
}

// NestedCaptures lists the rules that contain a capture <…> whose body can itself produce a capture node (directly or
// through rule references outside predicates). The tree of such a capture has PegText nodes below a PegText node.
func (g *Grammar) NestedCaptures() []string {
	// hasCap[r]: rule r can produce a capture node
	hasCap := map[string]bool{}
	var exprHas func(e *Expr) bool
	exprHas = func(e *Expr) bool {
		switch e.Kind {
		case Capture:
			return true
		case Not, And:
			return false
		case Ref:
			return hasCap[e.Name]
		}
		for _, x := range e.Sub {
			if exprHas(x) {
				return true
			}
		}
		return false
	}
	for changed := true; changed; {
		changed = false
		for _, r := range g.Order {
			if !hasCap[r] && exprHas(g.Rules[r]) {
				hasCap[r] = true
				changed = true
			}
		}
	}
	var out []string
	var find func(rule string, e *Expr) bool
	find = func(rule string, e *Expr) bool {
		if e.Kind == Not || e.Kind == And {
			return false
		}
		if e.Kind == Capture && exprHas(e.Sub[0]) {
			return true
		}
		for _, x := range e.Sub {
			if find(rule, x) {
				return true
			}
		}
		return false
	}
	for _, r := range g.Order {
		if find(r, g.Rules[r]) {
			out = append(out, r)
		}
	}
	sort.Strings(out)
	return out
}
