package peg

import (
	"fmt"
	"sort"
	"strings"
)

// PegText is the pseudo rule of capture nodes.
const PegText = "PegText"

// ChildDFA is the deterministic automaton of the child-token sequences a node of one rule can have, given the
// tree-construction semantics of the generated parser: a successful rule application adds a token, tokens with
// begin == end are dropped (so every nullable child is optional), predicates add nothing, a capture adds a PegText token
// (whose own children are the tokens matched inside it).
type ChildDFA struct {
	Rule   string
	Trans  []map[string]int
	Accept []bool
}

type nfa struct {
	eps   [][]int
	trans []map[string][]int
}

func (n *nfa) state() int {
	n.eps = append(n.eps, nil)
	n.trans = append(n.trans, map[string][]int{})
	return len(n.eps) - 1
}

func (n *nfa) build(e *Expr, null map[string]bool) (int, int) {
	s, t := n.state(), n.state()
	switch e.Kind {
	case Seq:
		cur := s
		for _, x := range e.Sub {
			a, b := n.build(x, null)
			n.eps[cur] = append(n.eps[cur], a)
			cur = b
		}
		n.eps[cur] = append(n.eps[cur], t)
	case Choice:
		for _, x := range e.Sub {
			a, b := n.build(x, null)
			n.eps[s] = append(n.eps[s], a)
			n.eps[b] = append(n.eps[b], t)
		}
	case Star:
		a, b := n.build(e.Sub[0], null)
		n.eps[s] = append(n.eps[s], a, t)
		n.eps[b] = append(n.eps[b], a, t)
	case Plus:
		a, b := n.build(e.Sub[0], null)
		n.eps[s] = append(n.eps[s], a)
		n.eps[b] = append(n.eps[b], a, t)
	case Opt:
		a, b := n.build(e.Sub[0], null)
		n.eps[s] = append(n.eps[s], a, t)
		n.eps[b] = append(n.eps[b], t)
	case Ref:
		n.trans[s][e.Name] = append(n.trans[s][e.Name], t)
		if null[e.Name] {
			n.eps[s] = append(n.eps[s], t) // an empty match leaves no token
		}
	case Capture:
		n.trans[s][PegText] = append(n.trans[s][PegText], t)
		if ExprNullable(e.Sub[0], null) {
			n.eps[s] = append(n.eps[s], t)
		}
	default: // Lit, Class, Any, Not, And: no tokens
		n.eps[s] = append(n.eps[s], t)
	}
	return s, t
}

func (n *nfa) closure(set map[int]bool) map[int]bool {
	work := []int{}
	for s := range set {
		work = append(work, s)
	}
	for len(work) > 0 {
		s := work[len(work)-1]
		work = work[:len(work)-1]
		for _, t := range n.eps[s] {
			if !set[t] {
				set[t] = true
				work = append(work, t)
			}
		}
	}
	return set
}

func key(set map[int]bool) string {
	var ks []int
	for k := range set {
		ks = append(ks, k)
	}
	sort.Ints(ks)
	return fmt.Sprint(ks)
}

// Children builds the child automaton of every rule (and of the capture pseudo rule).
func (g *Grammar) Children() map[string]*ChildDFA {
	null := g.Nullable()
	out := map[string]*ChildDFA{}
	for _, r := range g.Order {
		n := &nfa{}
		s, t := n.build(g.Rules[r], null)
		d := &ChildDFA{Rule: r}
		index := map[string]int{}
		var sets []map[int]bool
		add := func(set map[int]bool) int {
			k := key(set)
			if i, ok := index[k]; ok {
				return i
			}
			index[k] = len(sets)
			sets = append(sets, set)
			d.Trans = append(d.Trans, map[string]int{})
			d.Accept = append(d.Accept, set[t])
			return len(sets) - 1
		}
		add(n.closure(map[int]bool{s: true}))
		for i := 0; i < len(sets); i++ {
			toks := map[string]map[int]bool{}
			for st := range sets[i] {
				for tok, dsts := range n.trans[st] {
					if toks[tok] == nil {
						toks[tok] = map[int]bool{}
					}
					for _, x := range dsts {
						toks[tok][x] = true
					}
				}
			}
			var names []string
			for tok := range toks {
				names = append(names, tok)
			}
			sort.Strings(names)
			for _, tok := range names {
				d.Trans[i][tok] = add(n.closure(toks[tok]))
			}
		}
		// a node exists only when its token is non-empty; if the rule consumes input only through sub-rules (no
		// terminal outside a predicate), a non-empty node has at least one child. The start state has no incoming
		// transitions (the NFA start state is fresh), so it stands for "no child yet" exactly.
		if !hasTerminal(g.Rules[r]) {
			d.Accept[0] = false
		}
		out[r] = d
	}
	// capture nodes: their children are whatever was matched inside; the walker only passes them to the nil-safe
	// text extractor, so any sequence is allowed
	out[PegText] = &ChildDFA{Rule: PegText, Trans: []map[string]int{{"?": 0}}, Accept: []bool{true}}
	return out
}

// Describe renders the automaton (for evidence samples).
func (d *ChildDFA) Describe() string {
	var sb strings.Builder
	for i, tr := range d.Trans {
		var ks []string
		for k, v := range tr {
			ks = append(ks, fmt.Sprintf("%s->%d", k, v))
		}
		sort.Strings(ks)
		acc := ""
		if d.Accept[i] {
			acc = "*"
		}
		fmt.Fprintf(&sb, "%d%s{%s} ", i, acc, strings.Join(ks, ","))
	}
	return strings.TrimSpace(sb.String())
}

// hasTerminal reports whether the expression contains a literal, class or dot outside a predicate.
func hasTerminal(e *Expr) bool {
	switch e.Kind {
	case Lit, Class, Any:
		return true
	case Not, And:
		return false
	}
	for _, x := range e.Sub {
		if hasTerminal(x) {
			return true
		}
	}
	return false
}
