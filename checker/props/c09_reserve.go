package props

import (
	"fmt"
	"go/ast"
	"go/token"
	"go/types"
	"sort"
	"strconv"
	"strings"

	"verif/checker/core"
	"verif/checker/rules"
)

// poly is a symbolic byte count: constant plus coefficients of len(<expr>) terms.
type poly map[string]int

func (p poly) add(q poly) poly {
	r := poly{}
	for k, v := range p {
		r[k] += v
	}
	for k, v := range q {
		r[k] += v
	}
	return r
}

func (p poly) String() string {
	var ks []string
	for k, v := range p {
		if v != 0 && k != "" {
			ks = append(ks, fmt.Sprintf("%d*%s", v, k))
		}
	}
	sort.Strings(ks)
	return strings.Join(append([]string{strconv.Itoa(p[""])}, ks...), " + ")
}

// covers reports p >= q coefficient-wise.
func (p poly) covers(q poly) bool {
	for k, v := range q {
		if p[k] < v {
			return false
		}
	}
	return true
}

// unkCost evaluates the int result of a Binary.<method>(args) call symbolically. Every path of the method must return the
// same count (WriteBool/BoolLength have two returns). ok=false when the method has a shape the evaluator does not know.
func unkCost(c *core.Check, info *types.Info, e ast.Expr, env map[string]poly, subst map[string]string, depth int) (poly, bool) {
	if depth > 8 {
		return nil, false
	}
	switch x := ast.Unparen(e).(type) {
	case *ast.BasicLit:
		if x.Kind == token.INT {
			n, err := strconv.Atoi(x.Value)
			return poly{"": n}, err == nil
		}
	case *ast.Ident:
		if p, ok := env[x.Name]; ok {
			return p, true
		}
	case *ast.BinaryExpr:
		if x.Op == token.ADD {
			a, ok1 := unkCost(c, info, x.X, env, subst, depth)
			b, ok2 := unkCost(c, info, x.Y, env, subst, depth)
			return a.add(b), ok1 && ok2
		}
	case *ast.CallExpr:
		if rules.IsBuiltin(info, x, "len") && len(x.Args) == 1 {
			t := rules.ExprString(x.Args[0])
			if s, ok := subst[t]; ok {
				t = s
			}
			return poly{"len(" + t + ")": 1}, true
		}
		fn := rules.Callee(info, x)
		if fn == nil || fn.Pkg() == nil || !strings.HasSuffix(fn.Pkg().Path(), unknownRel) {
			return nil, false
		}
		sig := fn.Type().(*types.Signature)
		if sig.Recv() == nil || !strings.HasSuffix(sig.Recv().Type().String(), "binaryProtocol") {
			return nil, false
		}
		fd := c.Prog.FuncDecl(unknownRel, "binaryProtocol."+fn.Name())
		if fd == nil || fd.Body == nil {
			return nil, false
		}
		// bind parameters to the caller's argument texts (only used inside len())
		ns := map[string]string{}
		i := 0
		for _, f := range fd.Type.Params.List {
			for _, n := range f.Names {
				if i < len(x.Args) {
					t := rules.ExprString(x.Args[i])
					if s, ok := subst[t]; ok {
						t = s
					}
					ns[n.Name] = t
				}
				i++
			}
		}
		pinfo := c.Prog.Pkg(unknownRel).TypesInfo
		var results []poly
		lenv := map[string]poly{}
		okAll := true
		var walk func(list []ast.Stmt)
		walk = func(list []ast.Stmt) {
			for _, s := range list {
				switch st := s.(type) {
				case *ast.ReturnStmt:
					if len(st.Results) == 0 {
						okAll = false
						continue
					}
					// the byte count is the result of type int (Write*: the only result)
					p, ok := unkCost(c, pinfo, st.Results[0], lenv, ns, depth+1)
					if !ok {
						okAll = false
					}
					results = append(results, p)
				case *ast.IfStmt:
					walk(st.Body.List)
					if b, ok := st.Else.(*ast.BlockStmt); ok {
						walk(b.List)
					}
				case *ast.AssignStmt:
					if len(st.Lhs) == 1 && len(st.Rhs) == 1 {
						if id, ok := st.Lhs[0].(*ast.Ident); ok {
							if p, ok := unkCost(c, pinfo, st.Rhs[0], lenv, ns, depth+1); ok {
								lenv[id.Name] = p
							}
						}
					}
				case *ast.ExprStmt:
					// copy(...), PutUintNN(...), buf[0] = … do not change the count
				default:
					okAll = false
				}
			}
		}
		walk(fd.Body.List)
		if !okAll || len(results) == 0 {
			return nil, false
		}
		for _, r := range results[1:] {
			if r.String() != results[0].String() {
				return nil, false
			}
		}
		return results[0], true
	}
	return nil, false
}

// c09reserve: every Binary.Write* into the growing unknown-fields buffer is preceded by an ensureBytesLen whose length
// argument is (symbolically) at least the number of bytes the write reports, and each <K>Length equals Write<K>'s count.
func c09reserve(c *core.Check) {
	pk := c.Prog.Pkg(unknownRel)
	info := pk.TypesInfo
	isBinaryCall := func(e ast.Expr, prefix string) (*ast.CallExpr, string) {
		call, ok := ast.Unparen(e).(*ast.CallExpr)
		if !ok {
			return nil, ""
		}
		fn := rules.Callee(info, call)
		if fn == nil {
			return nil, ""
		}
		sig, _ := fn.Type().(*types.Signature)
		if sig == nil || sig.Recv() == nil || !strings.HasSuffix(sig.Recv().Type().String(), "binaryProtocol") || !strings.HasPrefix(fn.Name(), prefix) {
			return nil, ""
		}
		return call, fn.Name()
	}
	sites := 0
	per := map[string]int{}
	for _, f := range pk.Syntax {
		if strings.HasSuffix(c.Prog.Fset.File(f.Pos()).Name(), "/binary.go") {
			continue
		}
		for _, d := range f.Decls {
			fd, ok := d.(*ast.FuncDecl)
			if !ok || fd.Body == nil {
				continue
			}
			ast.Inspect(fd.Body, func(n ast.Node) bool {
				var list []ast.Stmt
				switch b := n.(type) {
				case *ast.BlockStmt:
					list = b.List
				case *ast.CaseClause:
					list = b.Body
				default:
					return true
				}
				for i, s := range list {
					as, ok := s.(*ast.AssignStmt)
					if !ok || len(as.Rhs) != 1 {
						continue
					}
					w, wname := isBinaryCall(as.Rhs[0], "Write")
					if w == nil || len(w.Args) == 0 {
						continue
					}
					// only writes into the self-growing buffer (buf[offset:] / (*buf)[offset:])
					sl, ok := ast.Unparen(w.Args[0]).(*ast.SliceExpr)
					if !ok {
						continue
					}
					sites++
					per[core.FuncKey(unknownRel, fd)+"/"+wname]++
					key := fmt.Sprintf("%s/%s#%d", core.FuncKey(unknownRel, fd), wname, per[core.FuncKey(unknownRel, fd)+"/"+wname])
					where := c.Prog.Rel(w.Pos())
					wcost, ok := unkCost(c, info, w, nil, nil, 0)
					if !ok {
						c.Unknown("reserve-covers-write", key, where, "cannot evaluate the byte count of "+wname)
						continue
					}
					// the reserving call: the nearest preceding ensureBytesLen in the same statement list with no
					// other write in between
					var res *ast.CallExpr
					off := rules.ExprString(sl.Low)
					for j := i - 1; j >= 0; j-- {
						// statements that neither move the offset nor write into the buffer may sit in between (logging, comments)
						if as2, ok := list[j].(*ast.AssignStmt); ok {
							touches := false
							for _, l := range as2.Lhs {
								if rules.ExprString(l) == off {
									touches = true
								}
							}
							if w2, _ := isBinaryCall(as2.Rhs[0], "Write"); w2 != nil || touches {
								break
							}
							continue
						}
						es, ok := list[j].(*ast.ExprStmt)
						if !ok {
							break
						}
						call, ok := es.X.(*ast.CallExpr)
						if !ok {
							break
						}
						if fn := rules.Callee(info, call); fn != nil && fn.Name() == "ensureBytesLen" && fn.Pkg() == pk.Types {
							res = call
							break
						}
						if w2, _ := isBinaryCall(call, "Write"); w2 != nil {
							break
						}
					}
					if res == nil || len(res.Args) != 3 {
						c.Bad("reserve-covers-write", key, where, wname+" writes into the unknown-fields buffer without a preceding ensureBytesLen: the write can run past the end of the buffer")
						continue
					}
					sameOffset := rules.ExprString(res.Args[1]) == rules.ExprString(sl.Low)
					rcost, ok := unkCost(c, info, res.Args[2], nil, nil, 0)
					if !ok {
						c.Unknown("reserve-covers-write", key, where, "cannot evaluate the reserved length "+rules.ExprString(res.Args[2]))
						continue
					}
					c.Decide(sameOffset && rcost.covers(wcost), "reserve-covers-write", key, where,
						fmt.Sprintf("ensureBytesLen reserves %s >= %s written at the same offset", rcost, wcost),
						fmt.Sprintf("ensureBytesLen(%s, %s) reserves %s bytes but %s writes %s at %s: with exactly that many bytes free the write indexes past the buffer and reading data with unknown fields panics",
							rules.ExprString(res.Args[1]), rules.ExprString(res.Args[2]), rcost, wname, wcost, rules.ExprString(sl.Low)))
				}
				return true
			})
		}
	}
	c.Min("reserve-covers-write", 19)
}
