package props

import (
	"fmt"
	"go/constant"
	"go/token"
	"go/types"
	"strings"

	"golang.org/x/tools/go/ssa"

	"verif/checker/core"
	"verif/checker/rules"
)

func init() { register("C19", c19) }

const genRel = "generator"

// c19: CONC — goroutine / channel / WaitGroup typestate of asyncPostProcess.OnFinished and Persist.
func c19(c *core.Check) {
	c.Explain = "CONC (go/ssa): eight structural obligations on asyncPostProcess.OnFinished, its worker closure and deferred closure, and on Generator.Persist: " +
		"R1 wg.Add(1) precedes every `go` in its block and the worker defers wg.Done on the same WaitGroup (Done nowhere else); " +
		"R2 every return of OnFinished is dominated by wg.Wait with no `go` reachable afterwards; " +
		"R3 the error channel's capacity is len(p.jobs), goroutines are spawned only once per iteration of a range over p.jobs, each worker path sends at most once => sends never block; " +
		"R4 (all acyclic worker paths enumerated) a path without a send called the writer f and asserted nil for every error-returning call it made; every send is of a value asserted non-nil; f is called only after the earlier error was asserted nil; " +
		"R5 OnFinished returns nil only from the default arm of a non-blocking select on the error channel placed after the final Wait; other returns return a value received from that channel; " +
		"R6 no variable captured by the worker is stored to after the spawn (go.mod go 1.20: range variables are per-loop); " +
		"R7 the spawn happens exactly in the select arm that acquired the semaphore and the worker's deferred closure releases it exactly once; " +
		"R8 the worker hands its own path/content parameters (content optionally replaced by PostProcess's result for the same path) to f; go arguments derive from the current range element's Path and Content; Persist's callback writes its own parameters, adds one job per response item, and returns before any job starts on an error response or an empty name. " +
		"Under the assumption that PostProcess and the write terminate, R1-R8 give: no lost error, no early return, no deadlock, own content under own path, for every job count, concurrency and interleaving. NOT decided: liveness of PostProcess/WriteFile themselves."
	c.RuleText = "one obligation per (rule, SSA construct); worker paths are enumerated exhaustively (loop-free CFG)"
	c.Assume = []string{"sync.WaitGroup, channels and select behave per the Go memory model", "PostProcess and the write callback terminate", "go/ssa faithfully represents the source (x/tools v0.29.0)"}

	prog := c.Prog.SSA()
	pkg := c.Prog.SSAPkg(genRel)
	of := rules.Method(prog, pkg, "asyncPostProcess", "OnFinished")
	if of == nil || len(of.Blocks) == 0 {
		c.Unknown("anchor", "generator.(asyncPostProcess).OnFinished", "", "function not found")
		return
	}
	K := "generator.(asyncPostProcess).OnFinished"
	pos := func(p token.Pos) string { return c.Prog.Rel(p) }

	// ---- discover the cells: WaitGroup, error channel, semaphore channel
	var wgCell, errsCell, semCell ssa.Value
	var errsMake, semMake *ssa.MakeChan
	for _, b := range of.Blocks {
		for _, ins := range b.Instrs {
			if al, ok := ins.(*ssa.Alloc); ok {
				if rules.IsNamed(al.Type(), "sync", "WaitGroup") {
					if wgCell != nil {
						c.Unknown("cells", K+"/waitgroup", pos(al.Pos()), "more than one WaitGroup")
					}
					wgCell = al
				}
			}
		}
	}
	var gos []*ssa.Go
	var rets []*ssa.Return
	var waits, adds []*ssa.Call
	var selects []*ssa.Select
	for _, b := range of.Blocks {
		for _, ins := range b.Instrs {
			switch x := ins.(type) {
			case *ssa.Go:
				gos = append(gos, x)
			case *ssa.Return:
				rets = append(rets, x)
			case *ssa.Select:
				selects = append(selects, x)
			case *ssa.Call:
				if rules.IsMethodCall(x, "sync", "WaitGroup", "Wait") {
					waits = append(waits, x)
				}
				if rules.IsMethodCall(x, "sync", "WaitGroup", "Add") {
					adds = append(adds, x)
				}
			case *ssa.MakeChan:
				if ch, ok := x.Type().Underlying().(*types.Chan); ok {
					if rules.IsErrorType(ch.Elem()) {
						errsMake = x
					} else {
						semMake = x
					}
				}
			}
		}
	}
	c.Analysed["ssa_functions"] = 1 + len(of.AnonFuncs)
	if wgCell == nil || errsMake == nil || semMake == nil || len(gos) == 0 {
		c.Unknown("cells", K, pos(of.Pos()), "expected one WaitGroup, one chan error, one semaphore channel and at least one go statement")
		return
	}
	chanCell := func(mk *ssa.MakeChan) ssa.Value {
		for _, r := range *mk.Referrers() {
			if st, ok := r.(*ssa.Store); ok && st.Val == ssa.Value(mk) {
				return rules.Root(st.Addr)
			}
		}
		return mk
	}
	errsCell, semCell = chanCell(errsMake), chanCell(semMake)
	isChan := func(v ssa.Value, cell ssa.Value, mk *ssa.MakeChan) bool {
		r := rules.Resolve(v)
		if r == ssa.Value(mk) {
			return true
		}
		if u, ok := v.(*ssa.UnOp); ok && u.Op == token.MUL && rules.Root(u.X) == cell {
			// the cell must have exactly one store (the make)
			return len(rules.StoresTo(cell)) == 1
		}
		return false
	}
	isWG := func(v ssa.Value) bool { return rules.Root(v) == wgCell }

	if len(gos) != 1 {
		c.Unknown("cells", K+"/go", pos(of.Pos()), fmt.Sprintf("%d go statements; the model handles one spawn site", len(gos)))
		return
	}
	g := gos[0]
	mc, _ := g.Call.Value.(*ssa.MakeClosure)
	if mc == nil {
		c.Unknown("cells", K+"/go", pos(g.Pos()), "go target is not a closure literal")
		return
	}
	worker := mc.Fn.(*ssa.Function)

	// ---- R1
	{
		ok := false
		gi := rules.InstrIndex(g)
		for i := gi - 1; i >= 0; i-- {
			if call, isC := g.Block().Instrs[i].(*ssa.Call); isC && rules.IsMethodCall(call, "sync", "WaitGroup", "Add") && isWG(call.Call.Args[0]) {
				if k, isK := call.Call.Args[1].(*ssa.Const); isK && k.Value != nil && constant.Compare(k.Value, token.EQL, constant.MakeInt64(1)) {
					ok = true
				}
				break
			}
		}
		c.Decide(ok && len(adds) == 1, "R1-add-before-go", K+"/go", pos(g.Pos()), "wg.Add(1) on the function's WaitGroup precedes the go statement in the same block; it is the only Add",
			"the go statement is not preceded, in its block, by exactly wg.Add(1) on the same WaitGroup (or there are other Adds)")
		// worker: first instructions = defer of a closure that calls Done on wg
		// deferred calls registered unconditionally (entry block) by the worker
		var deferredFns []*ssa.Function
		deferred := false
		dones, recvSem, branches := 0, 0, false
		doneInBody := 0
		for bi, b := range worker.Blocks {
			for _, ins := range b.Instrs {
				switch x := ins.(type) {
				case *ssa.Defer:
					if bi != 0 {
						continue
					}
					if m2, ok := x.Call.Value.(*ssa.MakeClosure); ok {
						deferredFns = append(deferredFns, m2.Fn.(*ssa.Function))
					} else if rules.IsMethodCall(x, "sync", "WaitGroup", "Done") && isWG(x.Call.Args[0]) {
						dones++ // direct `defer wg.Done()`
						deferred = true
					}
				case *ssa.Call:
					if rules.IsMethodCall(x, "sync", "WaitGroup", "Done") {
						doneInBody++
					}
				}
			}
		}
		for _, df := range deferredFns {
			deferred = true
			if len(df.Blocks) != 1 {
				branches = true
			}
			for _, b := range df.Blocks {
				for _, ins := range b.Instrs {
					switch x := ins.(type) {
					case *ssa.Call:
						if rules.IsMethodCall(x, "sync", "WaitGroup", "Done") && isWG(x.Call.Args[0]) {
							dones++
						}
					case *ssa.UnOp:
						if x.Op == token.ARROW && isChan(x.X, semCell, semMake) {
							recvSem++
						}
					}
				}
			}
		}
		c.Decide(deferred && dones == 1 && doneInBody == 0 && !branches, "R1-deferred-done", K+"$worker/defer", pos(worker.Pos()),
			"the worker unconditionally (entry block) defers straight-line code calling wg.Done exactly once; Done appears nowhere in the worker body, so it runs after the write returned",
			"the worker does not defer exactly one wg.Done as its first statement (or calls Done in its body, i.e. possibly before the write finished)")
		// ---- R7
		// the go block is entered only from the select arm whose index is the send on the semaphore
		var sel *ssa.Select
		for _, s := range selects {
			if s.Blocking {
				sel = s
			}
		}
		okArm := false
		semState := -1
		if sel != nil {
			for i, st := range sel.States {
				if st.Dir == types.SendOnly && isChan(st.Chan, semCell, semMake) {
					semState = i
				}
			}
			okArm = semState >= 0 && selectArm(g.Block(), sel) == semState
		}
		c.Decide(okArm, "R7-acquire-then-spawn", K+"/select", pos(g.Pos()),
			"the go statement's block is exactly the arm of the blocking select that sent on the semaphore: one acquire per spawn",
			"the spawn is not tied to the select arm that acquires the semaphore slot")
		c.Decide(recvSem == 1 && !branches, "R7-release-in-defer", K+"$worker/defer", pos(worker.Pos()),
			"the deferred closure receives from the semaphore exactly once on its only path",
			"the worker's deferred closure does not release the semaphore exactly once: the dispatcher can block forever after `concurrency` jobs")
		// semaphore is used nowhere else
		other := 0
		forEachInstrRec(of, func(ins ssa.Instruction) {
			switch x := ins.(type) {
			case *ssa.Send:
				if isChan(x.Chan, semCell, semMake) {
					other++
				}
			case *ssa.UnOp:
				if x.Op == token.ARROW && isChan(x.X, semCell, semMake) {
					other++
				}
			case *ssa.Select:
				for _, st := range x.States {
					if isChan(st.Chan, semCell, semMake) && x != sel {
						other += 2
					}
				}
			}
		})
		c.Decide(other == recvSem, "R7-semaphore-ownership", K+"/processing", pos(semMake.Pos()), "no other send/receive on the semaphore", "the semaphore is sent to or received from outside the acquire/release pair")
		// capacity of the semaphore >= 1: `concurrency` forced to >= 1 before make
		capOK := false
		if u, ok := semMake.Size.(*ssa.UnOp); ok {
			if fa, ok := u.X.(*ssa.FieldAddr); ok {
				// a store of a positive constant guarded by `<= 0` dominates
				forEachInstr(of, func(ins ssa.Instruction) {
					if st, ok := ins.(*ssa.Store); ok {
						if fa2, ok := st.Addr.(*ssa.FieldAddr); ok && fa2.Field == fa.Field {
							if k, ok := st.Val.(*ssa.Const); ok && k.Value != nil && constant.Sign(k.Value) > 0 {
								if ifi, ok := lastIf(st.Block().Preds); ok {
									if bo, ok := ifi.Cond.(*ssa.BinOp); ok && (bo.Op == token.LEQ || bo.Op == token.LSS) && st.Block().Dominates(st.Block()) {
										capOK = st.Block().Index < semMake.Block().Index
									}
								}
							}
						}
					}
				})
			}
		}
		c.Decide(capOK, "R7-capacity-positive", K+"/processing", pos(semMake.Pos()), "the semaphore's capacity field is forced to a positive constant when <= 0 before the channel is made (a zero-capacity semaphore would deadlock the first acquire)",
			"the semaphore capacity can be <= 0: the first acquire blocks forever")
	}

	// ---- R2
	{
		for _, r := range rets {
			key := fmt.Sprintf("%s/return@%s", K, retKind(r))
			var w *ssa.Call
			for _, wc := range waits {
				if !isWG(wc.Call.Args[0]) {
					continue
				}
				if wc.Block() == r.Block() && rules.InstrIndex(wc) < rules.InstrIndex(r) || (wc.Block() != r.Block() && wc.Block().Dominates(r.Block())) {
					w = wc
				}
			}
			if w == nil {
				c.Bad("R2-wait-before-return", key, pos(r.Pos()), "a return of OnFinished is not dominated by wg.Wait(): it can return while a write of this call is still in flight")
				continue
			}
			// no go reachable after the wait
			after := rules.ReachableFrom(w.Block(), nil)
			bad := false
			for _, gg := range gos {
				if after[gg.Block()] || (gg.Block() == w.Block() && rules.InstrIndex(gg) > rules.InstrIndex(w)) {
					bad = true
				}
			}
			c.Decide(!bad, "R2-wait-before-return", key, pos(r.Pos()), "dominated by wg.Wait(); no go statement is reachable after that Wait", "a go statement is reachable after the Wait that guards this return")
		}
		c.Min("R2-wait-before-return", 2)
	}

	// ---- R3
	{
		// capacity = len(load of receiver.jobs)
		capOK, loopOK := false, false
		var jobsField int = -1
		if call, ok := errsMake.Size.(*ssa.Call); ok {
			if b, ok := call.Call.Value.(*ssa.Builtin); ok && b.Name() == "len" {
				if fa := fieldLoad(call.Call.Args[0]); fa != nil && isRecv(of, fa.X) {
					capOK, jobsField = true, fa.Field
				}
			}
		}
		c.Decide(capOK, "R3-capacity", K+"/errs", pos(errsMake.Pos()), "make(chan error, len(p.jobs))", "the error channel's capacity is not len(p.jobs): a worker's send may block forever once the dispatcher stopped receiving")
		// the go is inside a range-index loop over the same field, exactly one spawn per iteration
		hdr := loopHeader(g.Block())
		if hdr != nil && capOK {
			// bound: len(load p.jobs)
			for _, ins := range hdr.Instrs {
				if bo, ok := ins.(*ssa.BinOp); ok && bo.Op == token.LSS {
					if call, ok := bo.Y.(*ssa.Call); ok {
						if b, ok := call.Call.Value.(*ssa.Builtin); ok && b.Name() == "len" {
							if fa := fieldLoad(call.Call.Args[0]); fa != nil && isRecv(of, fa.X) && fa.Field == jobsField {
								loopOK = true
							}
						}
					}
				}
			}
		}
		// no store to the jobs field anywhere in OnFinished or its closures
		storesJobs := 0
		forEachInstrRec(of, func(ins ssa.Instruction) {
			if st, ok := ins.(*ssa.Store); ok {
				if fa, ok := st.Addr.(*ssa.FieldAddr); ok && fa.Field == jobsField && rules.IsNamed(fa.X.Type(), core.Module+"/generator", "asyncPostProcess") {
					storesJobs++
				}
			}
		})
		// exactly one go per iteration: go's block is not inside an inner loop relative to hdr
		inner := hdr != nil && innerLoop(g.Block(), hdr)
		c.Decide(loopOK && storesJobs == 0 && !inner, "R3-spawn-bound", K+"/range p.jobs", pos(g.Pos()),
			"goroutines are spawned only in the range loop over p.jobs (same field as the capacity, never stored to here), at most once per iteration",
			"the number of spawned workers is not bounded by the error channel's capacity (different slice, jobs modified, or spawn in an inner loop)")
	}

	// ---- R4 (+ R8 worker part): enumerate worker paths
	{
		paths, ok := rules.Paths(worker, 256)
		if !ok {
			c.Unknown("R4-worker-paths", K+"$worker", pos(worker.Pos()), "worker has a loop or too many paths; path enumeration not applicable")
		} else {
			fParam := of.Params[len(of.Params)-1]
			np := 0
			for _, p := range paths {
				if worker.Recover != nil && containsBlock(p, worker.Recover) {
					continue
				}
				pe := evalPath(p)
				if pe.infeasible {
					continue
				}
				np++
				key := fmt.Sprintf("%s$worker/path[%s]", K, pe.sig(fParam))
				where := pos(worker.Pos())
				// sends
				sends := 0
				sendOK := true
				for _, s := range pe.sends {
					if !isChan(s.Chan, errsCell, errsMake) {
						continue
					}
					sends++
					v := pe.resolve(s.X)
					if nilness, known := pe.facts[v]; !known || nilness {
						sendOK = false
					}
				}
				if sends > 1 {
					c.Bad("R3-one-send-per-worker", key, where, "a worker path sends more than once on the error channel: capacity len(jobs) no longer suffices")
					continue
				}
				if !sendOK {
					c.Bad("R4-send-nonnil", key, where, "the worker sends a value not asserted non-nil on this path: a nil 'error' would make OnFinished fail spuriously or hide the real one")
					continue
				}
				fCalls := 0
				fGuardOK := true
				ownOK := true
				for i, cl := range pe.calls {
					if isParamFunc(cl, fParam) {
						fCalls++
						// every earlier error-producing call on this path asserted nil
						for _, prev := range pe.calls[:i] {
							if ev := errValue(prev); ev != nil {
								if n, known := pe.facts[ev]; !known || !n {
									fGuardOK = false
								}
							}
						}
						// R8: own path and content
						args := cl.Common().Args
						if len(args) != 2 || len(worker.Params) != 2 || pe.resolve(args[0]) != ssa.Value(worker.Params[0]) {
							ownOK = false
						} else {
							cv := pe.resolve(args[1])
							if cv != ssa.Value(worker.Params[1]) {
								// must be result #0 of a call on this path that received (path, content)
								ex, ok := cv.(*ssa.Extract)
								okc := false
								if ok && ex.Index == 0 {
									if pc, ok := ex.Tuple.(ssa.CallInstruction); ok {
										a := pc.Common().Args
										if len(a) == 2 && pe.resolve(a[0]) == ssa.Value(worker.Params[0]) && pe.resolve(a[1]) == ssa.Value(worker.Params[1]) {
											okc = true
										}
									}
								}
								ownOK = ownOK && okc
							}
						}
					}
				}
				if !ownOK {
					c.Bad("R8-own-content", key, where, "the writer callback is not handed the worker's own path and (post-processed) content parameters")
					continue
				}
				if !fGuardOK {
					c.Bad("R4-write-after-failure", key, where, "the writer is called although an earlier step's error was not asserted nil: a failed post-process still writes a file")
					continue
				}
				if fCalls > 1 {
					c.Bad("R4-write-once", key, where, "the writer is called more than once on one worker path: a file is written twice")
					continue
				}
				if sends == 0 {
					// silent path: did all the work and all errors nil
					allNil := true
					for _, cl := range pe.calls {
						if ev := errValue(cl); ev != nil {
							if n, known := pe.facts[ev]; !known || !n {
								allNil = false
							}
						}
					}
					if fCalls != 1 || !allNil {
						c.Bad("R4-no-lost-error", key, where, "a worker path ends without sending although it did not call the writer or did not assert every error nil: an error (or a skipped write) is lost")
						continue
					}
				}
				c.OK("R4-worker-path", key, where, fmt.Sprintf("sends=%d writer-calls=%d; silent paths did all work with all errors nil; sends carry a non-nil value", sends, fCalls))
			}
			c.Analysed["worker_paths"] = np
			c.Min("R4-worker-path", 3)
		}
		// post-process is invoked with the worker's own parameters wherever it is invoked
		forEachInstr(worker, func(ins ssa.Instruction) {
			if cl, ok := ins.(ssa.CallInstruction); ok && cl.Common().IsInvoke() && cl.Common().Method.Name() == "PostProcess" {
				a := cl.Common().Args
				c.Decide(len(a) == 2 && a[0] == ssa.Value(worker.Params[0]) && a[1] == ssa.Value(worker.Params[1]), "R8-own-content", K+"$worker/PostProcess", pos(cl.Pos()),
					"PostProcess receives the worker's own path and content", "PostProcess is not called with the worker's own path/content")
			}
		})
	}

	// ---- R5
	{
		var nb *ssa.Select
		for _, s := range selects {
			if !s.Blocking {
				nb = s
			}
		}
		for _, r := range rets {
			key := fmt.Sprintf("%s/return@%s", K, retKind(r))
			if len(r.Results) != 1 {
				c.Unknown("R5-return-value", key, pos(r.Pos()), "unexpected result arity")
				continue
			}
			v := r.Results[0]
			if k, ok := v.(*ssa.Const); ok && k.IsNil() {
				ok2 := nb != nil && len(nb.States) == 1 && nb.States[0].Dir == types.RecvOnly && isChan(nb.States[0].Chan, errsCell, errsMake) && selectArm(r.Block(), nb) == -1 && selectIsDefaultOf(r.Block(), nb)
				// the select itself must come after a Wait in its block or be dominated by one
				if ok2 {
					ok2 = false
					for _, wc := range waits {
						if (wc.Block() == nb.Block() && rules.InstrIndex(wc) < rules.InstrIndex(nb)) || (wc.Block() != nb.Block() && wc.Block().Dominates(nb.Block())) {
							ok2 = true
						}
					}
				}
				c.Decide(ok2, "R5-nil-only-when-empty", key, pos(r.Pos()), "nil is returned only from the default arm of a non-blocking receive on the error channel executed after wg.Wait()",
					"OnFinished can return nil without having looked at the error channel after all workers finished")
				continue
			}
			// value received from errs
			okv := false
			if ex, ok := v.(*ssa.Extract); ok {
				if s, ok := ex.Tuple.(*ssa.Select); ok {
					arm := selectArm(r.Block(), s)
					if arm >= 0 && arm < len(s.States) && s.States[arm].Dir == types.RecvOnly && isChan(s.States[arm].Chan, errsCell, errsMake) && recvExtractIndex(s, arm) == ex.Index {
						okv = true
					}
				}
			}
			if u, ok := v.(*ssa.UnOp); ok && u.Op == token.ARROW && isChan(u.X, errsCell, errsMake) {
				okv = true
			}
			c.Decide(okv, "R5-error-from-channel", key, pos(r.Pos()), "returns the value received from the error channel in this select arm (non-nil by R4)", "returns something other than nil-after-empty-check or an error received from the workers")
		}
	}

	// ---- R6
	{
		for i, bnd := range mc.Bindings {
			name := worker.FreeVars[i].Name()
			key := K + "$worker/capture/" + name
			al, ok := bnd.(*ssa.Alloc)
			if !ok {
				c.OKTrivial("R6-capture", key, pos(mc.Pos()), "captured by value")
				continue
			}
			bad := ""
			after := rules.ReachableFrom(g.Block(), func(b *ssa.BasicBlock) bool {
				return b == al.Block() && al.Block() != of.Blocks[0] && rules.InCycle(al.Block())
			})
			for _, st := range rules.StoresTo(al) {
				if st.Parent() != of {
					// stores inside closures: only allowed if the closure is not the worker or its children
					if st.Parent() == worker || st.Parent().Parent() == worker {
						bad = "stored to inside the worker (shared between workers)"
					}
					continue
				}
				if after[st.Block()] || (st.Block() == g.Block() && rules.InstrIndex(st) > rules.InstrIndex(g)) {
					bad = "stored to at " + pos(st.Pos()) + " after a worker was started"
				}
			}
			c.Decide(bad == "", "R6-capture", key, pos(mc.Pos()), "captured variable is never stored to after a spawn nor inside a worker", "captured variable "+name+" is "+bad+": workers can observe another job's value")
		}
		// go arguments derive from the current element's Path / Content
		args := g.Call.Args
		okA := len(args) == 2
		var src [2]string
		for i := 0; i < len(args) && i < 2; i++ {
			src[i] = elementField(args[i])
		}
		okA = okA && src[0] == "Path" && src[1] == "Content"
		c.Decide(okA, "R8-go-arguments", K+"/go/args", pos(g.Pos()), "go f(j.Path, bytes(j.Content)): both arguments are loads from the current range element",
			fmt.Sprintf("the worker's arguments are derived from (%q,%q), expected the current job's (Path, Content)", src[0], src[1]))
	}

	// ---- R8: Persist
	c19persist(c, prog, pkg)
}

func forEachInstr(fn *ssa.Function, f func(ssa.Instruction)) {
	for _, b := range fn.Blocks {
		for _, ins := range b.Instrs {
			f(ins)
		}
	}
}

func forEachInstrRec(fn *ssa.Function, f func(ssa.Instruction)) {
	forEachInstr(fn, f)
	for _, a := range fn.AnonFuncs {
		forEachInstrRec(a, f)
	}
}

func containsBlock(p []*ssa.BasicBlock, b *ssa.BasicBlock) bool {
	for _, x := range p {
		if x == b {
			return true
		}
	}
	return false
}

func retKind(r *ssa.Return) string {
	if len(r.Results) == 1 {
		if k, ok := r.Results[0].(*ssa.Const); ok && k.IsNil() {
			return "nil"
		}
		if ex, ok := r.Results[0].(*ssa.Extract); ok {
			if s, ok := ex.Tuple.(*ssa.Select); ok {
				if s.Blocking {
					return "err-from-dispatch-select"
				}
				return "err-from-final-select"
			}
		}
	}
	return "block-" + r.Block().Comment
}

func lastIf(preds []*ssa.BasicBlock) (*ssa.If, bool) {
	if len(preds) != 1 || len(preds[0].Instrs) == 0 {
		return nil, false
	}
	i, ok := preds[0].Instrs[len(preds[0].Instrs)-1].(*ssa.If)
	return i, ok
}

// selectArm returns the index of the select state in whose arm block b lies
// (b is reached through the true edge of `index == k`), or -1.
func selectArm(b *ssa.BasicBlock, s *ssa.Select) int {
	ifi, ok := lastIf(b.Preds)
	if !ok {
		return -1
	}
	bo, ok := ifi.Cond.(*ssa.BinOp)
	if !ok || bo.Op != token.EQL {
		return -1
	}
	ex, ok := bo.X.(*ssa.Extract)
	if !ok || ex.Tuple != ssa.Value(s) || ex.Index != 0 {
		return -1
	}
	k, ok := bo.Y.(*ssa.Const)
	if !ok || b.Preds[0].Succs[0] != b {
		return -1
	}
	return int(k.Int64())
}

// selectIsDefaultOf: b is reached by the false edges of all `index == k` tests of s.
func selectIsDefaultOf(b *ssa.BasicBlock, s *ssa.Select) bool {
	n := 0
	for {
		ifi, ok := lastIf(b.Preds)
		if !ok {
			return false
		}
		bo, ok := ifi.Cond.(*ssa.BinOp)
		if !ok || bo.Op != token.EQL {
			return false
		}
		ex, ok := bo.X.(*ssa.Extract)
		if !ok || ex.Tuple != ssa.Value(s) || ex.Index != 0 {
			return false
		}
		if b.Preds[0].Succs[1] != b {
			return false
		}
		n++
		if b.Preds[0] == s.Block() {
			return n == len(s.States)
		}
		b = b.Preds[0]
	}
}

// recvExtractIndex: the tuple index that holds the value received by state arm.
func recvExtractIndex(s *ssa.Select, arm int) int {
	idx := 2
	for i := 0; i < arm; i++ {
		if s.States[i].Dir == types.RecvOnly {
			idx++
		}
	}
	return idx
}

func fieldLoad(v ssa.Value) *ssa.FieldAddr {
	u, ok := v.(*ssa.UnOp)
	if !ok || u.Op != token.MUL {
		return nil
	}
	fa, _ := u.X.(*ssa.FieldAddr)
	return fa
}

// isRecv reports whether v is the receiver parameter of fn (possibly loaded from its cell).
func isRecv(fn *ssa.Function, v ssa.Value) bool {
	if len(fn.Params) == 0 {
		return false
	}
	r := rules.Resolve(v)
	return r == ssa.Value(fn.Params[0])
}

func loopHeader(b *ssa.BasicBlock) *ssa.BasicBlock {
	// innermost natural-loop header whose loop contains b
	for d := b; d != nil; d = d.Idom() {
		for _, p := range d.Preds {
			if d.Dominates(p) { // back edge p -> d
				if p == b || b == d || rules.ReachableFrom(b, func(x *ssa.BasicBlock) bool { return x == d })[p] {
					return d
				}
			}
		}
	}
	return nil
}

func innerLoop(b, hdr *ssa.BasicBlock) bool {
	// b lies on a cycle that does not pass through hdr
	return rules.ReachableFrom(b, func(x *ssa.BasicBlock) bool { return x == hdr })[b]
}

// elementField: v derives (through at most one single-argument call) from a load of field F of a local whose
// value is stored from an IndexAddr in the same iteration; returns F.
func elementField(v ssa.Value) string {
	for i := 0; i < 3; i++ {
		switch x := v.(type) {
		case *ssa.Call:
			if len(x.Call.Args) != 1 {
				return ""
			}
			v = x.Call.Args[0]
		case *ssa.Convert:
			v = x.X
		case *ssa.ChangeType:
			v = x.X
		case *ssa.UnOp:
			fa, ok := x.X.(*ssa.FieldAddr)
			if !ok {
				return ""
			}
			st := fa.X.Type().Underlying().(*types.Pointer).Elem().Underlying().(*types.Struct)
			// the struct must be the range element: an alloc stored from an IndexAddr load, or an IndexAddr itself
			switch base := fa.X.(type) {
			case *ssa.IndexAddr:
				return st.Field(fa.Field).Name()
			case *ssa.UnOp: // element is a pointer loaded from the indexed slot
				if _, ok := base.X.(*ssa.IndexAddr); ok {
					return st.Field(fa.Field).Name()
				}
				return ""
			case *ssa.Alloc:
				for _, s := range rules.StoresTo(base) {
					if u, ok := s.Val.(*ssa.UnOp); ok {
						if _, ok := u.X.(*ssa.IndexAddr); ok && s.Block() == x.Block() || s.Block().Dominates(x.Block()) {
							return st.Field(fa.Field).Name()
						}
					}
				}
			}
			return ""
		case *ssa.Field:
			st := x.X.Type().Underlying().(*types.Struct)
			return st.Field(x.Field).Name()
		default:
			return ""
		}
	}
	return ""
}

// ---- path evaluation

type pathEval struct {
	path       []*ssa.BasicBlock
	pred       map[*ssa.BasicBlock]*ssa.BasicBlock
	facts      map[ssa.Value]bool // value -> asserted nil (true) / non-nil (false)
	infeasible bool
	calls      []ssa.CallInstruction
	sends      []*ssa.Send
}

func evalPath(p []*ssa.BasicBlock) *pathEval {
	pe := &pathEval{path: p, pred: map[*ssa.BasicBlock]*ssa.BasicBlock{}, facts: map[ssa.Value]bool{}}
	for i := 1; i < len(p); i++ {
		pe.pred[p[i]] = p[i-1]
	}
	for i, b := range p {
		for _, ins := range b.Instrs {
			switch x := ins.(type) {
			case *ssa.Call:
				pe.calls = append(pe.calls, x)
			case *ssa.Send:
				pe.sends = append(pe.sends, x)
			case *ssa.If:
				if i+1 >= len(p) {
					continue
				}
				bo, ok := x.Cond.(*ssa.BinOp)
				if !ok || (bo.Op != token.EQL && bo.Op != token.NEQ) {
					continue
				}
				var operand ssa.Value
				if k, ok := bo.Y.(*ssa.Const); ok && k.IsNil() {
					operand = bo.X
				} else if k, ok := bo.X.(*ssa.Const); ok && k.IsNil() {
					operand = bo.Y
				} else {
					continue
				}
				taken := p[i+1] == b.Succs[0]
				isNil := (bo.Op == token.EQL) == taken
				v := pe.resolve(operand)
				if k, ok := v.(*ssa.Const); ok && k.IsNil() {
					if !isNil {
						pe.infeasible = true // nil != nil
					}
					continue
				}
				if old, known := pe.facts[v]; known && old != isNil {
					pe.infeasible = true
				}
				pe.facts[v] = isNil
			}
		}
	}
	return pe
}

// resolve follows phis along the path.
func (pe *pathEval) resolve(v ssa.Value) ssa.Value {
	for i := 0; i < 32; i++ {
		ph, ok := v.(*ssa.Phi)
		if !ok {
			return v
		}
		pr := pe.pred[ph.Block()]
		found := false
		for k, pb := range ph.Block().Preds {
			if pb == pr {
				v = ph.Edges[k]
				found = true
				break
			}
		}
		if !found {
			return v
		}
	}
	return v
}

func (pe *pathEval) sig(fParam ssa.Value) string {
	var parts []string
	for _, cl := range pe.calls {
		n := "call"
		if cl.Common().IsInvoke() {
			n = cl.Common().Method.Name()
		} else if isParamFunc(cl, fParam) {
			n = "f"
		} else if f := cl.Common().StaticCallee(); f != nil {
			n = f.Name()
		}
		if ev := errValue(cl); ev != nil {
			if isNil, known := pe.facts[ev]; known {
				if isNil {
					n += "=nil"
				} else {
					n += "=err"
				}
			}
		}
		parts = append(parts, n)
	}
	for range pe.sends {
		parts = append(parts, "send")
	}
	if len(parts) == 0 {
		return "empty"
	}
	return strings.Join(parts, ",")
}

// errValue returns the SSA value holding the error result of a call (nil if none).
func errValue(cl ssa.CallInstruction) ssa.Value {
	v := cl.Value()
	if v == nil {
		return nil
	}
	switch t := v.Type().(type) {
	case *types.Tuple:
		for i := 0; i < t.Len(); i++ {
			if rules.IsErrorType(t.At(i).Type()) {
				for _, r := range *v.Referrers() {
					if ex, ok := r.(*ssa.Extract); ok && ex.Index == i {
						return ex
					}
				}
				return v // error result never extracted: dropped
			}
		}
	default:
		if rules.IsErrorType(t) {
			return v
		}
	}
	return nil
}

// isParamFunc: the call's function value is the enclosing function's parameter fParam (through its cell).
func isParamFunc(cl ssa.CallInstruction, fParam ssa.Value) bool {
	if cl.Common().IsInvoke() {
		return false
	}
	return rules.Resolve(cl.Common().Value) == fParam
}

func c19persist(c *core.Check, prog *ssa.Program, pkg *ssa.Package) {
	K := "generator.(Generator).Persist"
	fn := rules.Method(prog, pkg, "Generator", "Persist")
	if fn == nil {
		c.Unknown("anchor", K, "", "function not found")
		return
	}
	pos := func(p token.Pos) string { return c.Prog.Rel(p) }
	var onFin, addCalls []*ssa.Call
	var cb *ssa.Function
	forEachInstr(fn, func(ins ssa.Instruction) {
		if cl, ok := ins.(*ssa.Call); ok {
			if rules.IsMethodCall(cl, core.Module+"/generator", "asyncPostProcess", "OnFinished") {
				onFin = append(onFin, cl)
				if m, ok := cl.Call.Args[1].(*ssa.MakeClosure); ok {
					cb = m.Fn.(*ssa.Function)
				}
			}
			if rules.IsMethodCall(cl, core.Module+"/generator", "asyncPostProcess", "Add") {
				addCalls = append(addCalls, cl)
			}
		}
	})
	if len(onFin) != 1 || cb == nil || len(addCalls) != 1 {
		c.Unknown("R8-persist", K, pos(fn.Pos()), "expected exactly one OnFinished call with a closure literal and one Add call")
		return
	}
	// the result of OnFinished is returned
	retOK := false
	for _, r := range *onFin[0].Referrers() {
		if rr, ok := r.(*ssa.Return); ok && len(rr.Results) == 1 && rr.Results[0] == ssa.Value(onFin[0]) {
			retOK = true
		}
	}
	c.Decide(retOK, "R8-persist-returns-result", K+"/OnFinished", pos(onFin[0].Pos()), "Persist returns OnFinished's error unchanged", "OnFinished's error result is not what Persist returns")
	// every other return precedes OnFinished (no job has started) and returns a non-nil error
	early := 0
	okEarly := true
	forEachInstr(fn, func(ins ssa.Instruction) {
		if r, ok := ins.(*ssa.Return); ok && !(len(r.Results) == 1 && r.Results[0] == ssa.Value(onFin[0])) {
			early++
			if k, ok := r.Results[0].(*ssa.Const); ok && k.IsNil() {
				okEarly = false
			}
			if onFin[0].Block().Dominates(r.Block()) {
				okEarly = false
			}
		}
	})
	c.Decide(okEarly && early >= 2, "R8-persist-early-returns", K+"/returns", pos(fn.Pos()), fmt.Sprintf("%d early returns, all before OnFinished (no job started) and all non-nil", early),
		"an early return of Persist returns nil or happens after jobs were started")
	// error response and empty name are tested
	var sawErrCheck, sawNameCheck bool
	forEachInstr(fn, func(ins ssa.Instruction) {
		ifi, ok := ins.(*ssa.If)
		if !ok {
			return
		}
		bo, ok := ifi.Cond.(*ssa.BinOp)
		if !ok {
			return
		}
		k, ok := bo.Y.(*ssa.Const)
		if !ok || k.Value == nil || k.Value.Kind() != constant.String || constant.StringVal(k.Value) != "" {
			return
		}
		if cl, ok := bo.X.(*ssa.Call); ok {
			if f := cl.Call.StaticCallee(); f != nil {
				// the non-empty / empty arm must return
				var arm *ssa.BasicBlock
				if bo.Op == token.NEQ {
					arm = ifi.Block().Succs[0]
				} else if bo.Op == token.EQL {
					arm = ifi.Block().Succs[0]
				}
				returns := false
				if arm != nil {
					if _, ok := arm.Instrs[len(arm.Instrs)-1].(*ssa.Return); ok {
						returns = true
					}
				}
				switch f.Name() {
				case "GetError":
					sawErrCheck = returns && bo.Op == token.NEQ && ifi.Block().Dominates(onFin[0].Block())
				case "GetName":
					sawNameCheck = returns && bo.Op == token.EQL && ifi.Block().Dominates(addCalls[0].Block())
				}
			}
		}
	})
	c.Decide(sawErrCheck, "R8-persist-error-response", K+"/GetError", pos(fn.Pos()), "a non-empty response error returns before any job is added", "an error response is no longer rejected before writing")
	c.Decide(sawNameCheck, "R8-persist-empty-name", K+"/GetName", pos(fn.Pos()), "an item with an empty name returns an error before its job is added", "an item with an empty name is no longer rejected")
	// Add is called once per iteration of the range over res.Contents with that element's Content
	add := addCalls[0]
	hdr := loopHeader(add.Block())
	okAdd := hdr != nil && !innerLoop(add.Block(), hdr) && len(add.Call.Args) == 3
	contentSrc, pathSrc := "", ""
	if okAdd {
		contentSrc = elementField(add.Call.Args[2])
		// path: derives from GetName() of the same element (phi of the name and a Join of it)
		pathSrc = nameSource(add.Call.Args[1], 0)
	}
	c.Decide(okAdd && contentSrc == "Content" && pathSrc == "GetName", "R8-persist-one-job-per-item", K+"/Add", pos(add.Pos()),
		"one Add per range element, content = element.Content, path derived from element.GetName()", fmt.Sprintf("jobs are not added 1:1 from the response items (content from %q, path from %q)", contentSrc, pathSrc))
	// asyncPostProcess.Add appends exactly one job {Path: path, Content: content}
	if af := rules.Method(prog, pkg, "asyncPostProcess", "Add"); af != nil && len(af.Params) == 3 {
		okLit := false
		stores := map[string]ssa.Value{}
		forEachInstr(af, func(ins ssa.Instruction) {
			if st, ok := ins.(*ssa.Store); ok {
				if fa, ok := st.Addr.(*ssa.FieldAddr); ok {
					s := fa.X.Type().Underlying().(*types.Pointer).Elem().Underlying().(*types.Struct)
					stores[s.Field(fa.Field).Name()] = st.Val
				}
			}
		})
		okLit = stores["Path"] == ssa.Value(af.Params[1]) && stores["Content"] == ssa.Value(af.Params[2])
		c.Decide(okLit, "R8-add-literal", "generator.(asyncPostProcess).Add", pos(af.Pos()), "Add stores Path=path, Content=content in the appended job", "Add swaps or drops its path/content parameters")
	} else {
		c.Unknown("anchor", "generator.(asyncPostProcess).Add", "", "not found")
	}
	// callback: WriteFile(path, content) with its own parameters; errors returned
	var wf ssa.CallInstruction
	forEachInstr(cb, func(ins ssa.Instruction) {
		if cl, ok := ins.(*ssa.Call); ok {
			if f := cl.Call.StaticCallee(); f != nil && f.Pkg != nil && (f.Pkg.Pkg.Path() == "io/ioutil" || f.Pkg.Pkg.Path() == "os") && f.Name() == "WriteFile" {
				wf = cl
			}
		}
	})
	if wf == nil || len(cb.Params) != 2 {
		c.Bad("R8-callback-writes-own", K+"$callback/WriteFile", pos(cb.Pos()), "the persist callback no longer calls WriteFile")
		return
	}
	a := wf.Common().Args
	c.Decide(a[0] == ssa.Value(cb.Params[0]) && a[1] == ssa.Value(cb.Params[1]), "R8-callback-writes-own", K+"$callback/WriteFile", pos(wf.Pos()),
		"WriteFile(path, content, …) receives the callback's own parameters", "WriteFile is not called with the callback's own path/content")
	// callback paths: nil return only if WriteFile was called and asserted nil
	paths, ok := rules.Paths(cb, 64)
	if !ok {
		c.Unknown("R8-callback-paths", K+"$callback", pos(cb.Pos()), "callback has loops or too many paths")
		return
	}
	for _, p := range paths {
		pe := evalPath(p)
		if pe.infeasible {
			continue
		}
		last := p[len(p)-1]
		r, ok := last.Instrs[len(last.Instrs)-1].(*ssa.Return)
		if !ok {
			continue
		}
		v := pe.resolve(r.Results[0])
		key := K + "$callback/path[" + pe.sig(nil) + "]"
		if k, ok := v.(*ssa.Const); ok && k.IsNil() {
			wrote := false
			for _, cl := range pe.calls {
				if cl == wf {
					if ev := errValue(cl); ev != nil {
						if n, known := pe.facts[ev]; known && n {
							wrote = true
						}
					}
				}
			}
			c.Decide(wrote, "R8-callback-path", key, pos(r.Pos()), "nil is returned only after WriteFile returned nil", "the callback can return nil without a successful WriteFile")
		} else {
			c.OKTrivial("R8-callback-path", key, pos(r.Pos()), "error return")
		}
	}
	c.Min("R8-callback-path", 3)
}

// nameSource: v derives from the result of a method call named GetName (through phi / filepath.Join).
func nameSource(v ssa.Value, depth int) string {
	if depth > 6 {
		return ""
	}
	switch x := v.(type) {
	case *ssa.Phi:
		res := ""
		for _, e := range x.Edges {
			s := nameSource(e, depth+1)
			if s == "" {
				return ""
			}
			res = s
		}
		return res
	case *ssa.Call:
		if f := x.Call.StaticCallee(); f != nil {
			if f.Name() == "GetName" {
				return "GetName"
			}
			if f.Pkg != nil && f.Pkg.Pkg.Path() == "path/filepath" && f.Name() == "Join" {
				// variadic: last element of the slice; look for stores into the backing array
				if len(x.Call.Args) == 1 {
					if sl, ok := x.Call.Args[0].(*ssa.Slice); ok {
						if al, ok := sl.X.(*ssa.Alloc); ok {
							res := ""
							for _, r := range *al.Referrers() {
								if ia, ok := r.(*ssa.IndexAddr); ok {
									for _, rr := range *ia.Referrers() {
										if st, ok := rr.(*ssa.Store); ok {
											if s := nameSource(st.Val, depth+1); s != "" {
												res = s
											}
										}
									}
								}
							}
							return res
						}
					}
				}
			}
		}
	}
	return ""
}
