package props

import (
	"fmt"
	"os"
	"strings"
	"sync"

	"verif/checker/core"
	"verif/checker/tmpl"
)

var (
	tmplOnce   sync.Once
	tmplStatic *tmpl.Static
	tmplErr    error
)

// tmplEngine builds (once per process) the static part of the TMPL engine.
func tmplEngine(c *core.Check) *tmpl.Static {
	tmplOnce.Do(func() { tmplStatic, tmplErr = tmpl.NewStatic(c.Prog) })
	if tmplErr != nil {
		c.Unknown("tmpl-extract", "generator/golang/templates", "", "template extraction failed: "+tmplErr.Error())
		return nil
	}
	return tmplStatic
}

var repCats = []string{"Bool", "I32", "Double", "String", "Binary", "Enum", "Struct", "Map", "List", "Set"}
var repLeaf = []string{"Bool", "I32", "String", "Binary", "Enum", "Struct"}
var allCats = []string{"Bool", "Byte", "I16", "I32", "I64", "Double", "String", "Binary", "Enum", "Struct", "Union", "Exception", "Map", "List", "Set"}
var allLeaf = []string{"Bool", "Byte", "I16", "I32", "I64", "Double", "String", "Binary", "Enum", "Struct", "Union", "Exception"}

func tmplConfig(tier string) *tmpl.Config {
	if tier == "thorough" {
		return &tmpl.Config{Categories: allCats, LeafCats: allLeaf, MaxDepth: 2, ListCounts: []int{0, 1, 2}, MaxRuns: 400000, FixedChoices: map[string]int{}}
	}
	return &tmpl.Config{Categories: repCats, LeafCats: repLeaf, MaxDepth: 1, ListCounts: []int{0, 1, 2}, MaxRuns: 60000, FixedChoices: map[string]int{}}
}

func mkDotOf(rel, typ, path string) func(w *tmpl.World) tmpl.Value {
	return func(w *tmpl.World) tmpl.Value {
		n := w.NamedType(rel, typ)
		if n == nil {
			panic("type " + rel + "." + typ + " missing")
		}
		return w.NewObj(n, path, true)
	}
}

// RenderDebug prints renderings of a unit (development aid: `vcheck render <set> <def> [max]`).
func RenderDebug(prog *core.Program, set, def string, max int, filter string) {
	c := core.NewCheck("DBG", "quick", prog)
	st := tmplEngine(c)
	if st == nil {
		fmt.Println(tmplErr)
		return
	}
	cfg := tmplConfig(os.Getenv("VERIF_TIER"))
	typ := "StructLike"
	switch {
	case strings.HasPrefix(def, "Thrift") || def == "Service" || def == "Client" || def == "Processor":
		typ = "Service"
	case def == "" || def == "Constant":
		typ = "Scope"
	case def == "Enum":
		typ = "Enum"
	case def == "Typedef":
		typ = "Typedef"
	case def == "FunctionSignature":
		typ = "Function"
	}
	n := 0
	stub := map[string]bool{}
	for _, s := range strings.Split(os.Getenv("VERIF_STUB"), ",") {
		if s != "" {
			stub[s] = true
		}
	}
	if l := os.Getenv("VERIF_LISTS"); l != "" {
		cfg.ListCounts = nil
		for _, x := range strings.Split(l, ",") {
			var n int
			fmt.Sscan(x, &n)
			cfg.ListCounts = append(cfg.ListCounts, n)
		}
	}
	runs, trunc, err := st.EnumerateStub(set, def, stub, cfg, mkDotOf("generator/golang", typ, "x"), func(r *tmpl.Rendering, w *tmpl.World) {
		for _, f := range strings.Fields(filter) {
			if !strings.Contains(r.Valuation, f) {
				return
			}
		}
		if n < max {
			fmt.Printf("=== %s [%s] libs=%v err=%v\n%s\n", r.Unit, r.Valuation, r.Libs, r.Err, r.Text)
			if r.Err == nil {
				p, perr := tmpl.ParseGo(r.Text, false)
				fmt.Println("parse:", perr, "diag:", p.Diag)
			}
			for k := range w.Notes {
				fmt.Println("note:", k)
			}
		}
		n++
	})
	fmt.Println("runs", runs, "truncated", trunc, "err", err)
}
