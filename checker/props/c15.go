package props

import (
	"fmt"
	"go/ast"
	"go/token"
	"go/types"
	"sort"
	"strings"

	"golang.org/x/tools/go/ssa"

	"verif/checker/core"
	"verif/checker/rules"
	"verif/checker/tmpl"
)

func init() { register("C15", c15) }

const reflRel = "thrift_reflection"

// attributes of AST nodes that have no slot in the paired descriptor; the justification is re-verified
// mechanically: the descriptor struct must have no field of that name.
var c15NoSlot = map[string]struct{ desc, slot, why string }{
	"Thrift.CppIncludes":    {"FileDescriptor", "CppIncludes", "descriptor.thrift has no cpp_include slot"},
	"Namespace.Annotations": {"FileDescriptor", "NamespaceAnnotations", "namespaces are a language->name map"},
	"Type.CppType":          {"TypeDescriptor", "CppType", "no cpp_type slot"},
	"Type.Annotations":      {"TypeDescriptor", "Annotations", "no annotations slot on type expressions"},
}

// attributes implied by another descriptor attribute or used only by semantic resolution.
var c15Implied = map[string]string{
	"Thrift.Name2Category": "resolution result",
	"Include.Path":         "the referenced file's Filename is stored instead",
	"Include.Used":         "resolution result",
	"StructLike.Category":  "implied by the list (Structs/Unions/Exceptions) the descriptor is stored in",
	"Function.Void":        "implied by Response.Name == \"void\"",
	"Service.Reference":    "resolution result",
	"Type.Category":        "resolution result",
	"Type.Reference":       "resolution result",
	"Type.IsTypedef":       "resolution result",
	"ConstValue.Extra":     "resolution result",
}

var c15Nodes = []string{"Thrift", "Include", "Namespace", "Typedef", "Constant", "Enum", "EnumValue", "StructLike", "Field", "Service", "Function", "Type", "ConstValue", "ConstTypedValue", "MapConstValue", "Annotation"}

func c15(c *core.Check) {
	c15everyElement(c)
	c.Explain = "relational COVER + ENUM + TMPL. (a) descriptor side: every composite literal in thrift_reflection that builds a *Descriptor keys every field of that descriptor struct except Extra (a field left out is information silently dropped); ConstValueDescriptor is a tagged union and is covered by the ENUM rule instead. " +
		"(b) AST side: every attribute of every AST node type (enumerated through go/types) is read inside the call-graph closure of GetFileDescriptor, except resolution-only / implied attributes (reasoned list) and attributes without a slot, for which the checker verifies that the paired descriptor struct really has no such field. " +
		"(c) ENUM: getConstValueDescriptor handles all six ConstTypes; meta.read and meta.write switch over the same TTypeIDs (necessary for encode-then-decode identity). " +
		"(d) TMPL on the reflection file template: every struct, union, exception and enum listed in file_…_go_types has GetDescriptor and GetTypeDescriptor methods in the same rendering (unless is_alias), and each looks its descriptor up under the IDL name of the same node. " +
		"(e) a name read from a descriptor is only looked up in the file that same descriptor came from (LookupFD(X.Filepath).Get…Descriptor(X.<name>) with one X). " +
		"NOT decided: value fidelity, registry behaviour; ordering of map-typed descriptor fields is C07's finding."
	c.RuleText = "one obligation per descriptor literal, per AST attribute, per enumeration member, per rendering-level rule"
	c.Assume = []string{"VTA call graph over-approximates calls"}
	prog := c.Prog
	pk := prog.Pkg(reflRel)
	if pk == nil {
		c.Unknown("anchor", reflRel, "", "package missing")
		return
	}
	info := pk.TypesInfo
	// (a)
	nLit := map[string]int{}
	for _, f := range pk.Syntax {
		if !strings.HasSuffix(prog.Fset.File(f.Pos()).Name(), "descriptor_creater.go") {
			continue
		}
		ast.Inspect(f, func(n ast.Node) bool {
			cl, ok := n.(*ast.CompositeLit)
			if !ok {
				return true
			}
			nt := rules.NamedOf(info.Types[cl].Type)
			if nt == nil || nt.Obj().Pkg() != pk.Types || !strings.HasSuffix(nt.Obj().Name(), "Descriptor") || nt.Obj().Name() == "ConstValueDescriptor" {
				return true
			}
			st := structOf(nt)
			if st == nil {
				return true
			}
			keyed := map[string]bool{}
			for _, e := range cl.Elts {
				if kv, ok := e.(*ast.KeyValueExpr); ok {
					keyed[kv.Key.(*ast.Ident).Name] = true
				}
			}
			var missing []string
			for i := 0; i < st.NumFields(); i++ {
				fn := st.Field(i).Name()
				if fn != "Extra" && !keyed[fn] && st.Field(i).Exported() {
					missing = append(missing, fn)
				}
			}
			nLit[nt.Obj().Name()]++
			key := fmt.Sprintf("%s literal#%d", nt.Obj().Name(), nLit[nt.Obj().Name()])
			c.Decide(len(missing) == 0, "descriptor-complete", reflRel+"/"+key, prog.Rel(cl.Pos()), fmt.Sprintf("all %d descriptor fields (except Extra) are set", st.NumFields()-1),
				fmt.Sprintf("descriptor field(s) %v are never filled: that part of the IDL is silently absent from the reflection data", missing))
			return true
		})
	}
	c.Min("descriptor-complete", 10)
	// (b)
	prog.SSA()
	root := rules.Func(prog.SSAPkg(reflRel), "GetFileDescriptor")
	if root == nil {
		c.Unknown("anchor", reflRel+".GetFileDescriptor", "", "missing")
		return
	}
	acc, nf := walkerAccesses(c, []*ssa.Function{root}, nil)
	c.Analysed["functions_in_closure"] = nf
	for _, nt := range c15Nodes {
		for _, f := range astFields(c, nt) {
			key := nt + "." + f
			if why, ok := c15Implied[key]; ok {
				c.OKTrivial("ast-attribute-copied", "reflection/"+key, "", "not copied by design: "+why)
				continue
			}
			if ns, ok := c15NoSlot[key]; ok {
				tn := pk.Types.Scope().Lookup(ns.desc)
				has := false
				if tn != nil {
					if st := structOf(tn.Type()); st != nil {
						for i := 0; i < st.NumFields(); i++ {
							if st.Field(i).Name() == ns.slot {
								has = true
							}
						}
					}
				}
				if _, read := hasRead(acc, key); read {
					c.OK("ast-attribute-copied", "reflection/"+key, "", "read (a slot exists now)")
				} else {
					c.Decide(!has, "ast-attribute-copied", "reflection/"+key, "", "no slot in "+ns.desc+" ("+ns.why+"): verified that the struct has no field "+ns.slot,
						ns.desc+" now has a field "+ns.slot+" but "+key+" is never read: the slot stays empty")
				}
				continue
			}
			a, ok := hasRead(acc, key)
			c.Decide(ok, "ast-attribute-copied", "reflection/"+key, prog.Rel(a.Pos), "read in "+a.Func+" ("+a.Via+")", "attribute "+key+" is never read while building descriptors: reflection data does not state it")
		}
	}
	c.Min("ast-attribute-copied", 60)
	// (c) ENUM ConstType
	c15ownerFile(c)
	c15lastDot(c)
	c15constTypes(c)
	c15metaSymmetry(c)
	// (d) template
	c15template(c)
}

func c15constTypes(c *core.Check) {
	fd := c.Prog.FuncDecl(reflRel, "getConstValueDescriptor")
	if fd == nil {
		c.Unknown("anchor", reflRel+".getConstValueDescriptor", "", "missing")
		return
	}
	info := c.Prog.Pkg(reflRel).TypesInfo
	handled := map[string]bool{}
	ast.Inspect(fd.Body, func(n ast.Node) bool {
		if be, ok := n.(*ast.BinaryExpr); ok {
			if sel, ok := be.Y.(*ast.SelectorExpr); ok && strings.HasPrefix(sel.Sel.Name, "ConstType_") {
				handled[sel.Sel.Name] = true
			}
		}
		if cc, ok := n.(*ast.CaseClause); ok {
			for _, e := range cc.List {
				if sel, ok := e.(*ast.SelectorExpr); ok && strings.HasPrefix(sel.Sel.Name, "ConstType_") {
					handled[sel.Sel.Name] = true
				}
			}
		}
		return true
	})
	_ = info
	sc := c.Prog.Pkg("parser").Types.Scope()
	n := 0
	for _, name := range sc.Names() {
		if !strings.HasPrefix(name, "ConstType_") {
			continue
		}
		if _, ok := sc.Lookup(name).(*types.Const); !ok {
			continue
		}
		n++
		c.Decide(handled[name], "const-type-total", reflRel+".getConstValueDescriptor/"+name, c.Prog.Rel(fd.Pos()), "handled", "constant values of kind "+name+" fall through to an empty descriptor")
	}
	if n < 6 {
		c.Unknown("const-type-total", reflRel+".getConstValueDescriptor", "", "fewer than six ConstType constants found")
	}
}

func c15metaSymmetry(c *core.Check) {
	rel := "generator/golang/extension/meta"
	pk := c.Prog.Pkg(rel)
	if pk == nil {
		c.Unknown("anchor", rel, "", "missing")
		return
	}
	arms := map[string]map[string]bool{}
	for _, fn := range []string{"read", "write"} {
		fd := c.Prog.FuncDecl(rel, fn)
		if fd == nil {
			c.Unknown("anchor", rel+"."+fn, "", "missing")
			return
		}
		sw := firstSwitchOn(fd, "TypeID")
		if sw == nil {
			c.Unknown("meta-symmetric", rel+"."+fn, "", "no switch over TypeID")
			return
		}
		as, _ := switchArms(pk.TypesInfo, sw)
		arms[fn] = map[string]bool{}
		for _, a := range as {
			for _, n := range a.Names {
				arms[fn][n] = true
			}
		}
		// the if-form of the same dispatch: `if tt.TypeID == TTypeID_X { … return }`
		ast.Inspect(fd.Body, func(n ast.Node) bool {
			if is, ok := n.(*ast.IfStmt); ok {
				if be, ok := is.Cond.(*ast.BinaryExpr); ok && be.Op == token.EQL && strings.Contains(rules.ExprString(be.X), "TypeID") {
					arms[fn][constName(pk.TypesInfo, be.Y)] = true
				}
			}
			return true
		})
	}
	var diff []string
	for k := range arms["read"] {
		if !arms["write"][k] {
			diff = append(diff, k+" (read only)")
		}
	}
	for k := range arms["write"] {
		if !arms["read"][k] {
			diff = append(diff, k+" (write only)")
		}
	}
	sort.Strings(diff)
	// struct values are handled outside the switch in both (by reflection on Struct kinds); compare modulo that
	c.Decide(len(diff) == 0, "meta-symmetric", rel+".read~write", "", fmt.Sprintf("read and write handle the same %d TTypeIDs", len(arms["read"])), fmt.Sprintf("meta.read and meta.write disagree on %v: a descriptor that is written cannot be read back", diff))
}

func c15template(c *core.Check) {
	st := tmplEngine(c)
	if st == nil {
		return
	}
	c15goTypesOrder(c, st)
	units := []unit{{Set: "reflection", Def: "", Name: "File", DotRel: "generator/golang", DotType: "Scope", Lists: []int{0, 1, 2}, Cats: []string{"I32"}}}
	agg := newAggregate()
	runUnits(c, st, units, func(r *rendered) {
		k := r.U.key()
		if _, gf := r.R.Err.(*tmpl.GenFailure); gf {
			return
		}
		agg.check("reflection-accessors", k)
		if r.R.Err != nil || r.ParseErr != nil {
			agg.fail("reflection-accessors", k, fmt.Sprintf("under [%s]: %v %v", r.R.Valuation, r.R.Err, r.ParseErr))
			return
		}
		dot, _ := r.R.Dot.(*tmpl.Obj)
		if dot == nil {
			return
		}
		// listed go types
		listed := map[string]bool{}
		ast.Inspect(r.P.File, func(n ast.Node) bool {
			if cl, ok := n.(*ast.CompositeLit); ok {
				for _, e := range cl.Elts {
					if call, ok := e.(*ast.CallExpr); ok && len(call.Args) == 1 && rules.ExprText(call.Args[0]) == "nil" {
						listed[strings.TrimPrefix(strings.Trim(rules.ExprText(call.Fun), "()"), "*")] = true
					}
				}
			}
			return true
		})
		for _, kind := range []struct{ list, lookup string }{{"structs", "GetStructDescriptor"}, {"unions", "GetUnionDescriptor"}, {"exceptions", "GetExceptionDescriptor"}, {"enums", "GetEnumDescriptor"}} {
			l, _ := dot.Peek(kind.list).(*tmpl.List)
			if l == nil {
				continue
			}
			for _, e := range l.Elems {
				o, ok := e.(*tmpl.Obj)
				if !ok {
					continue
				}
				goName := tmpl.Ident(o.Path + ".name")
				if !listed[goName] {
					agg.fail("reflection-accessors", k, fmt.Sprintf("under [%s]: %s is not listed in file_…_go_types", r.R.Valuation, goName))
				}
				alias := false
				if b, ok := o.Peek("isAlias").(bool); ok {
					alias = b
				}
				if alias {
					continue
				}
				for _, m := range []string{"GetDescriptor", "GetTypeDescriptor"} {
					found := false
					for _, fd := range methodsNamed(r.P.File, m) {
						if strings.TrimPrefix(rules.ExprText(fd.Recv.List[0].Type), "*") == goName {
							found = true
							if m == "GetDescriptor" {
								calls := callsNamed(fd.Body, "", kind.lookup)
								idl := "Name"
								if len(calls) != 1 || !strings.Contains(rules.ExprText(calls[0].Args[0]), strings.TrimPrefix(tmpl.Ident(o.Path), "Φ")) || !strings.Contains(rules.ExprText(calls[0].Args[0]), idl) {
									agg.fail("reflection-accessors", k, fmt.Sprintf("under [%s]: %s.GetDescriptor does not look up its own IDL name through %s", r.R.Valuation, goName, kind.lookup))
								}
							}
						}
					}
					if !found {
						agg.fail("reflection-accessors", k, fmt.Sprintf("under [%s]: %s has no %s method although it is a registered go type", r.R.Valuation, goName, m))
					}
				}
			}
		}
	})
	agg.flush(c, map[string]string{"reflection-accessors": "every listed struct/union/exception/enum has GetDescriptor (looking up its own IDL name) and GetTypeDescriptor"})
	c.Min("reflection-accessors", 1)
}

var _ = core.Module
