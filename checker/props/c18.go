package props

import (
	"fmt"
	"go/ast"
	"go/token"
	"strings"

	"verif/checker/core"
	"verif/checker/rules"
	"verif/checker/tmpl"
)

func init() { register("C18", c18) }

func c18(c *core.Check) {
	c.Explain = "TMPL+PATH on every abstract rendering of the DeepEqual templates (gen_deep_equal; all type shapes x pointer-ness): " +
		"E1 StructLikeDeepEqual: identity/nil handling comes first and does not touch fields; one `if !p.FieldNDeepEqual(ano.F) { return false }` per field in order; `return true` only after all of them; " +
		"E2 FieldNDeepEqual per shape: pointers are identity/nil-checked before any dereference; the leaf comparison involves both operands and matches the category (strings.Compare for string, bytes.Compare for binary, != otherwise, DeepEqual for struct-likes); " +
		"containers check len first, range over every element of the receiver's value, obtain the other side's element by the same index/key — for maps with the comma-ok form and a `!ok => false` test (a missing key is a difference) — and recurse; every path to `return true` passes all of these; " +
		"E3 under validate_set + gen_deep_equal the set-uniqueness check in FieldWriteSet invokes the same FieldDeepEqual definition. " +
		"NOT decided: symmetry/reflexivity as behaviour, float NaN semantics."
	c.RuleText = "one obligation per (rule, unit) over all distinct renderings; non-trivial = structural/path argument on the rendering's AST"
	c.Assume = []string{"templates are recursive in one context parameter beyond the nesting bound"}
	st := tmplEngine(c)
	if st == nil {
		return
	}
	g := "generator/golang"
	units := []unit{
		{Set: "default", Def: "StructLikeDeepEqual", DotRel: g, DotType: "StructLike", Lists: []int{0, 1, 2}, Cats: []string{"I32"}},
		{Set: "default", Def: "StructLikeDeepEqualField", DotRel: g, DotType: "StructLike", Lists: []int{1}},
		{Set: "default", Def: "StructLikeWriteField", Name: "StructLikeWriteField(validate_set)", DotRel: g, DotType: "StructLike", Lists: []int{1}, Cats: []string{"Set"},
			Fixed: map[string]int{"Features.WithFieldMask": 0, "Features.ApacheAdaptor": 0, "Features.ValidateSet": 1}},
	}
	agg := newAggregate()
	runUnits(c, st, units, func(r *rendered) {
		k := r.U.key()
		if _, gf := r.R.Err.(*tmpl.GenFailure); gf {
			return // the generator itself refuses this input: no generated code to judge
		}
		if r.R.Err != nil || r.ParseErr != nil {
			agg.check("renders", k)
			agg.fail("renders", k, fmt.Sprintf("under [%s]: %v %v", r.R.Valuation, r.R.Err, r.ParseErr))
			return
		}
		fields := fieldsOf(r)
		switch r.U.Def {
		case "StructLikeDeepEqual":
			c18struct(agg, r, fields)
		case "StructLikeDeepEqualField":
			if len(fields) == 1 && fields[0].Shape != nil {
				c18field(agg, r, fields[0])
			}
		case "StructLikeWriteField":
			agg.check("E3-validate-set-uses-deepequal", k)
			de := r.R.Choices["Features.GenDeepEqual"] == 1
			if de && r.R.Calls["FieldDeepEqual"] == 0 {
				agg.fail("E3-validate-set-uses-deepequal", k, "under ["+r.R.Valuation+"]: validate_set with gen_deep_equal does not invoke FieldDeepEqual")
			}
			if !de && !strings.Contains(r.R.Text, "reflect.DeepEqual(") {
				agg.fail("E3-validate-set-uses-deepequal", k, "under ["+r.R.Valuation+"]: validate_set without gen_deep_equal does not compare with reflect.DeepEqual")
			}
			// the comparison result leads to an error return
			if !strings.Contains(r.R.Text, "slice is not unique") {
				agg.fail("E3-validate-set-uses-deepequal", k, "under ["+r.R.Valuation+"]: equal elements no longer produce an error")
			}
		}
	})
	agg.flush(c, map[string]string{
		"E1-struct-deepequal":            "nil/identity first; one negated field comparison per field; return true last",
		"E2-field-deepequal":             "nil checks before deref; category-appropriate leaf comparison of both operands; len, full range, same-key lookup (comma-ok for maps), recursion",
		"E3-validate-set-uses-deepequal": "set validation uses the generated comparison (or reflect.DeepEqual without gen_deep_equal)",
	})
	c.Min("E1-struct-deepequal", 1)
	c.Min("E2-field-deepequal", 1)
	c.Min("E3-validate-set-uses-deepequal", 1)
}

func returnsBool(s ast.Stmt, val string) bool {
	rs, ok := s.(*ast.ReturnStmt)
	return ok && len(rs.Results) == 1 && rules.ExprText(rs.Results[0]) == val
}

func blockReturnsFalse(b *ast.BlockStmt) bool {
	return b != nil && len(b.List) == 1 && returnsBool(b.List[0], "false")
}

func c18struct(agg *aggregate, r *rendered, fields []fieldInfo) {
	k := r.U.key()
	agg.check("E1-struct-deepequal", k)
	fd := findFunc(r.P.File, "DeepEqual")
	if fd == nil {
		agg.fail("E1-struct-deepequal", k, "no DeepEqual method under ["+r.R.Valuation+"]")
		return
	}
	body := fd.Body.List
	if len(body) != len(fields)+2 {
		agg.fail("E1-struct-deepequal", k, fmt.Sprintf("under [%s]: body has %d statements, expected nil-handling + %d field comparisons + return true", r.R.Valuation, len(body), len(fields)))
		return
	}
	// first: if p == ano { return true } else if p == nil || ano == nil { return false }
	first, ok := body[0].(*ast.IfStmt)
	okFirst := ok && rules.ExprText(first.Cond) == "p == ano" && len(first.Body.List) == 1 && returnsBool(first.Body.List[0], "true")
	if okFirst {
		el, ok := first.Else.(*ast.IfStmt)
		okFirst = ok && strings.Contains(rules.ExprText(el.Cond), "p == nil") && strings.Contains(rules.ExprText(el.Cond), "ano == nil") && blockReturnsFalse(el.Body)
	}
	if !okFirst {
		agg.fail("E1-struct-deepequal", k, "under ["+r.R.Valuation+"]: the method does not start with identity/nil handling (`p == ano` => true, either nil => false): a nil receiver or argument is dereferenced")
	}
	for i, f := range fields {
		is, ok := body[i+1].(*ast.IfStmt)
		want := fmt.Sprintf("!p.%s(ano.%s)", f.DE, f.GoName)
		if !ok || strings.ReplaceAll(rules.ExprText(is.Cond), "()", "") != strings.ReplaceAll(want, "()", "") && !condIsNegatedCall(is.Cond, f.DE, "ano."+f.GoName) || !blockReturnsFalse(is.Body) {
			agg.fail("E1-struct-deepequal", k, fmt.Sprintf("under [%s]: statement %d is not `if %s { return false }`: field %d is not compared", r.R.Valuation, i+1, want, f.Idx))
		}
	}
	if !returnsBool(body[len(body)-1], "true") {
		agg.fail("E1-struct-deepequal", k, "under ["+r.R.Valuation+"]: the method does not end with return true")
	}
}

func condIsNegatedCall(e ast.Expr, method, arg string) bool {
	u, ok := e.(*ast.UnaryExpr)
	if !ok || u.Op != token.NOT {
		return false
	}
	recv, name, call, ok := rules.SelectorCall(u.X)
	return ok && recv == "p" && name == method && len(call.Args) == 1 && rules.ExprText(call.Args[0]) == arg
}

// c18field checks one FieldNDeepEqual rendering against its shape.
func c18field(agg *aggregate, r *rendered, f fieldInfo) {
	k := r.U.key()
	agg.check("E2-field-deepequal", k)
	fd := findFunc(r.P.File, f.DE)
	if fd == nil {
		agg.fail("E2-field-deepequal", k, "no field comparison method under ["+r.R.Valuation+"]")
		return
	}
	fail := func(msg string) {
		agg.fail("E2-field-deepequal", k, fmt.Sprintf("under [%s] shape %s: %s", r.R.Valuation, f.Shape, msg))
	}
	body := fd.Body.List
	if len(body) == 0 || !returnsBool(body[len(body)-1], "true") {
		fail("method does not end with return true")
		return
	}
	c18value(body[:len(body)-1], "p."+f.GoName, "src", f.Shape, fail)
}

// c18value checks the statements comparing one value (tgt vs src) of the given shape.
func c18value(stmts []ast.Stmt, tgt, src string, s *shape, fail func(string)) {
	// optional pointer prologue: if tgt == src { return true } else if tgt == nil || src == nil { return false }
	deref := false
	if len(stmts) > 0 {
		if is, ok := stmts[0].(*ast.IfStmt); ok && rules.ExprText(is.Cond) == tgt+" == "+src {
			el, ok := is.Else.(*ast.IfStmt)
			if !ok || !strings.Contains(rules.ExprText(el.Cond), tgt+" == nil") || !strings.Contains(rules.ExprText(el.Cond), src+" == nil") || !blockReturnsFalse(el.Body) {
				fail("pointer operands are compared for identity but not nil-checked before dereference")
			}
			deref = true
			stmts = stmts[1:]
		}
	}
	switch {
	case s.isStructLike():
		if len(stmts) != 1 {
			fail(fmt.Sprintf("struct-like value: expected one comparison statement, found %d", len(stmts)))
			return
		}
		is, ok := stmts[0].(*ast.IfStmt)
		if !ok || !blockReturnsFalse(is.Body) {
			fail("struct-like value is not compared with `if !a.DeepEqual(b) { return false }`")
			return
		}
		u, ok := is.Cond.(*ast.UnaryExpr)
		if !ok || u.Op != token.NOT {
			fail("struct-like comparison is not negated")
			return
		}
		recv, name, call, ok := rules.SelectorCall(u.X)
		// the element may be handed over by address (value_type_in_container; pointer-ness is C01's value-elements-by-address)
		if !ok || name != "DeepEqual" || recv != tgt || len(call.Args) != 1 || strings.TrimPrefix(rules.ExprText(call.Args[0]), "&") != src {
			fail(fmt.Sprintf("struct-like comparison is %s, expected %s.DeepEqual(%s)", rules.ExprText(u.X), tgt, src))
		}
	case s.isContainer():
		if len(stmts) != 2 {
			fail(fmt.Sprintf("container value: expected a length check and one loop, found %d statements", len(stmts)))
			return
		}
		lis, ok := stmts[0].(*ast.IfStmt)
		if !ok || rules.ExprText(lis.Cond) != fmt.Sprintf("len(%s) != len(%s)", tgt, src) && rules.ExprText(lis.Cond) != fmt.Sprintf("len() != len()") || !blockReturnsFalse(lis.Body) {
			if !ok || !lenCheck(lis.Cond, tgt, src) || !blockReturnsFalse(lis.Body) {
				fail("containers are not length-checked first: a longer other side compares equal")
			}
		}
		rs, ok := stmts[1].(*ast.RangeStmt)
		if !ok || rules.ExprText(rs.X) != tgt {
			fail("container elements are not ranged over the receiver's value")
			return
		}
		idx, val := rules.ExprText(rs.Key), rules.ExprText(rs.Value)
		if s.Cat == "Map" && s.Key != nil && s.Key.isStructLike() {
			// struct-like keys are pointers in Go: `src[k]` finds a key only by identity, so two maps holding the same
			// value never compare equal. The key has to be searched by value:
			//   found := false; for sk, e := range src { if !k.DeepEqual(sk) { continue }; found = true; <compare v, e>; break }; if !found { return false }
			c18structKeyedMap(rs, idx, val, src, s, fail)
			return
		}
		if len(rs.Body.List) < 2 {
			fail("loop body does not fetch and compare the other side's element")
			return
		}
		as, ok := rs.Body.List[0].(*ast.AssignStmt)
		if !ok || len(as.Rhs) != 1 {
			fail("loop body does not start by fetching the other side's element")
			return
		}
		ix, ok := as.Rhs[0].(*ast.IndexExpr)
		if !ok || rules.ExprText(ix.X) != src || rules.ExprText(ix.Index) != idx {
			fail(fmt.Sprintf("other side's element is %s, expected %s[%s]", rules.ExprText(as.Rhs[0]), src, idx))
			return
		}
		elemSrc := rules.ExprText(as.Lhs[0])
		rest := rs.Body.List[1:]
		if s.Cat == "Map" {
			okForm := len(as.Lhs) == 2
			if okForm {
				okName := rules.ExprText(as.Lhs[1])
				is, ok := rest[0].(*ast.IfStmt)
				okForm = ok && rules.ExprText(is.Cond) == "!"+okName && blockReturnsFalse(is.Body)
				if okForm {
					rest = rest[1:]
				}
			}
			if !okForm {
				fail("map comparison reads the other map without a presence test: a key missing there compares against the zero value ({\"a\":0} equals {\"b\":0})")
			}
		}
		c18value(rest, val, elemSrc, s.Val, fail)
	default:
		if len(stmts) != 1 {
			fail(fmt.Sprintf("scalar value: expected one comparison, found %d statements", len(stmts)))
			return
		}
		is, ok := stmts[0].(*ast.IfStmt)
		if !ok || !blockReturnsFalse(is.Body) {
			fail("scalar is not compared with `if <cmp> { return false }`")
			return
		}
		a, b := tgt, src
		if deref {
			a, b = "*"+tgt, "*"+src
		}
		cond := rules.ExprText(is.Cond)
		var want string
		switch s.Cat {
		case "String":
			want = fmt.Sprintf("strings.Compare() != 0")
			if !cmpCall(is.Cond, "strings", a, b) {
				fail(fmt.Sprintf("string compared with %s, expected strings.Compare(%s, %s) != 0", cond, a, b))
			}
		case "Binary":
			if !cmpCall(is.Cond, "bytes", a, b) {
				fail(fmt.Sprintf("binary compared with %s, expected bytes.Compare(%s, %s) != 0", cond, a, b))
			}
		default:
			want = a + " != " + b
			if cond != want {
				fail(fmt.Sprintf("scalar compared with `%s`, expected `%s`", cond, want))
			}
		}
	}
}

// c18structKeyedMap checks the by-value key search described above.
func c18structKeyedMap(rs *ast.RangeStmt, idx, val, src string, s *shape, fail func(string)) {
	var flag string
	var inner *ast.RangeStmt
	var after []ast.Stmt
	for i, st := range rs.Body.List {
		switch x := st.(type) {
		case *ast.AssignStmt:
			if inner == nil && len(x.Lhs) == 1 && len(x.Rhs) == 1 && rules.ExprText(x.Rhs[0]) == "false" {
				flag = rules.ExprText(x.Lhs[0])
			}
			if ix, ok := x.Rhs[0].(*ast.IndexExpr); ok && rules.ExprText(ix.X) == src {
				fail(fmt.Sprintf("the other map is indexed with the struct-like key (%s[%s]): keys are pointers, so the lookup is by identity and two maps with equal keys and values are reported different", src, rules.ExprText(ix.Index)))
				return
			}
		case *ast.RangeStmt:
			if inner == nil && rules.ExprText(x.X) == src {
				inner = x
				after = rs.Body.List[i+1:]
			}
		}
	}
	if inner == nil || flag == "" {
		fail("a map with struct-like keys is not compared by searching the other map for an equal key")
		return
	}
	sk, elemSrc := rules.ExprText(inner.Key), rules.ExprText(inner.Value)
	body := inner.Body.List
	// if !k.DeepEqual(sk) { continue }
	okGuard := false
	if len(body) > 0 {
		if is, ok := body[0].(*ast.IfStmt); ok && len(is.Body.List) == 1 {
			if br, ok := is.Body.List[0].(*ast.BranchStmt); ok && br.Tok == token.CONTINUE {
				if u, ok := is.Cond.(*ast.UnaryExpr); ok && u.Op == token.NOT {
					recv, name, call, ok := rules.SelectorCall(u.X)
					if ok && name == "DeepEqual" && len(call.Args) == 1 {
						a := rules.ExprText(call.Args[0])
						okGuard = recv == idx && a == sk || recv == sk && a == idx
					}
				}
			}
		}
	}
	if !okGuard {
		fail("the key search does not skip entries whose key differs by DeepEqual")
		return
	}
	body = body[1:]
	// flag = true ... compare ... break
	if len(body) < 2 {
		fail("the key search does not compare the value of the matching entry")
		return
	}
	as, ok := body[0].(*ast.AssignStmt)
	if !ok || rules.ExprText(as.Lhs[0]) != flag || rules.ExprText(as.Rhs[0]) != "true" {
		fail("a matching key is not recorded as found")
	}
	br, ok := body[len(body)-1].(*ast.BranchStmt)
	if !ok || br.Tok != token.BREAK {
		fail("the key search goes on after a match")
	}
	c18value(body[1:len(body)-1], val, elemSrc, s.Val, fail)
	// if !found { return false }
	okAfter := false
	for _, st := range after {
		if is, ok := st.(*ast.IfStmt); ok && rules.ExprText(is.Cond) == "!"+flag && blockReturnsFalse(is.Body) {
			okAfter = true
		}
	}
	if !okAfter {
		fail("a key that has no equal in the other map does not make the maps different")
	}
}

func lenCheck(e ast.Expr, a, b string) bool {
	be, ok := e.(*ast.BinaryExpr)
	if !ok || be.Op != token.NEQ {
		return false
	}
	l, ok1 := be.X.(*ast.CallExpr)
	r, ok2 := be.Y.(*ast.CallExpr)
	return ok1 && ok2 && rules.ExprText(l.Fun) == "len" && rules.ExprText(r.Fun) == "len" && rules.ExprText(l.Args[0]) == a && rules.ExprText(r.Args[0]) == b
}

func cmpCall(e ast.Expr, pkg, a, b string) bool {
	be, ok := e.(*ast.BinaryExpr)
	if !ok || be.Op != token.NEQ || rules.ExprText(be.Y) != "0" {
		return false
	}
	recv, name, call, ok := rules.SelectorCall(be.X)
	return ok && recv == pkg && name == "Compare" && len(call.Args) == 2 && rules.ExprText(call.Args[0]) == a && rules.ExprText(call.Args[1]) == b
}
