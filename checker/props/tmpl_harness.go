package props

import (
	"crypto/sha1"
	"fmt"
	"sort"
	"strings"
	"sync"

	"verif/checker/core"
	"verif/checker/tmpl"
)

// unit is one function unit: a template definition rendered with an abstract dot.
type unit struct {
	Set     string
	Def     string         // definition name ("" = the set's root template)
	Name    string         // key used in obligations (defaults to Def)
	DotRel  string         // package of the dot's Go type
	DotType string         // Go type of the dot
	Stub    []string       // callee templates rendered as nothing
	Lists   []int          // element counts for abstract slices (default from config)
	Cats    []string       // categories offered (default from config)
	Fixed   map[string]int // fixed oracle answers
	Depth   int            // container nesting bound override (0 = config)
	MaxRuns int
	Wrap    bool // rendering is a statement list, wrap into a function
	// HashFlags lists feature atoms whose value distinguishes renderings with identical text (a rule that judges the text
	// against the flag needs to see both)
	HashFlags []string
}

func (u unit) key() string {
	n := u.Name
	if n == "" {
		n = u.Def
	}
	if n == "" {
		n = "<root>"
	}
	return u.Set + "/" + n
}

// rendered is what an analyser sees for one distinct rendering.
type rendered struct {
	U *unit
	R *tmpl.Rendering
	P *tmpl.Parsed
	W *tmpl.World
	// ParseErr is set when the rendering is not valid Go.
	ParseErr error
}

// unitStats is collected per unit.
type unitStats struct {
	Runs, Distinct int
	Truncated      bool
	Notes          map[string]bool
}

// aggregate collects failures of one (rule, unit) pair.
type aggregate struct {
	mu    sync.Mutex
	fails map[string][]string // rule+"\x00"+key -> messages
	seen  map[string]int      // rule+"\x00"+key -> number of renderings checked
}

func newAggregate() *aggregate {
	return &aggregate{fails: map[string][]string{}, seen: map[string]int{}}
}

func (a *aggregate) check(rule, key string) {
	a.mu.Lock()
	a.seen[rule+"\x00"+key]++
	a.mu.Unlock()
}

func (a *aggregate) fail(rule, key, msg string) {
	a.mu.Lock()
	k := rule + "\x00" + key
	if len(a.fails[k]) < 4 {
		a.fails[k] = append(a.fails[k], msg)
	} else if len(a.fails[k]) == 4 {
		a.fails[k] = append(a.fails[k], "…")
	}
	a.mu.Unlock()
}

// flush turns the aggregate into obligations.
func (a *aggregate) flush(c *core.Check, okFact map[string]string) {
	var keys []string
	for k := range a.seen {
		keys = append(keys, k)
	}
	for k := range a.fails {
		if _, ok := a.seen[k]; !ok {
			keys = append(keys, k)
		}
	}
	sort.Strings(keys)
	for _, k := range keys {
		parts := strings.SplitN(k, "\x00", 2)
		rule, key := parts[0], parts[1]
		if f := a.fails[k]; len(f) > 0 {
			c.Bad(rule, key, "generator/golang/templates", strings.Join(f, " || "))
			continue
		}
		fact := okFact[rule]
		if fact == "" {
			fact = "holds"
		}
		c.OK(rule, key, "generator/golang/templates", fmt.Sprintf("%s on all %d distinct rendering(s)", fact, a.seen[k]))
	}
}

// runUnits renders every unit (in parallel across units), parses each distinct rendering once and hands it to analyse.
func runUnits(c *core.Check, st *tmpl.Static, units []unit, analyse func(r *rendered)) map[string]*unitStats {
	base := tmplConfig(c.Tier)
	stats := map[string]*unitStats{}
	var mu sync.Mutex
	var wg sync.WaitGroup
	sem := make(chan struct{}, 12)
	for i := range units {
		u := &units[i]
		wg.Add(1)
		sem <- struct{}{}
		go func() {
			defer wg.Done()
			defer func() { <-sem }()
			cfg := *base
			if u.Lists != nil {
				cfg.ListCounts = u.Lists
			}
			if u.Cats != nil {
				cfg.Categories = u.Cats
			}
			if u.Depth > 0 {
				cfg.MaxDepth = u.Depth
			}
			if u.MaxRuns > 0 {
				cfg.MaxRuns = u.MaxRuns
			}
			cfg.FixedChoices = map[string]int{}
			for k, v := range u.Fixed {
				cfg.FixedChoices[k] = v
			}
			stub := map[string]bool{}
			for _, s := range u.Stub {
				stub[s] = true
			}
			seen := map[[20]byte]bool{}
			us := &unitStats{Notes: map[string]bool{}}
			var panicMsg string
			func() {
				defer func() {
					if r := recover(); r != nil {
						panicMsg = fmt.Sprint(r)
					}
				}()
				runs, trunc, err := st.EnumerateStub(u.Set, u.Def, stub, &cfg, mkDotOf(u.DotRel, u.DotType, "x"), func(r *tmpl.Rendering, w *tmpl.World) {
					for n := range w.Notes {
						us.Notes[n] = true
					}
					// identical text under a different abstract struct (field count, shapes, requiredness) is a different case
					var shapeKeys []string
					for ck, cv := range r.Choices {
						if !strings.HasPrefix(ck, "Features.") {
							shapeKeys = append(shapeKeys, fmt.Sprintf("%s=%d", ck, cv))
						}
					}
					for _, hf := range u.HashFlags {
						if cv, ok := r.Choices[hf]; ok {
							shapeKeys = append(shapeKeys, fmt.Sprintf("%s=%d", hf, cv))
						}
					}
					sort.Strings(shapeKeys)
					h := sha1.Sum([]byte(r.Text + "\x00" + strings.Join(r.Libs, ",") + "\x00" + strings.Join(shapeKeys, ",")))
					if r.Err == nil && seen[h] {
						return
					}
					seen[h] = true
					us.Distinct++
					rd := &rendered{U: u, R: r, W: w}
					if r.Err == nil {
						p, perr := tmpl.ParseGo(r.Text, u.Wrap)
						rd.P, rd.ParseErr = p, perr
					}
					analyse(rd)
				})
				us.Runs, us.Truncated = runs, trunc
				if err != nil {
					panicMsg = err.Error()
				}
			}()
			mu.Lock()
			stats[u.key()] = us
			if panicMsg != "" {
				c.Unknown("tmpl-render", u.key(), "generator/golang/templates", "abstract rendering failed: "+panicMsg)
			}
			mu.Unlock()
		}()
	}
	wg.Wait()
	tr, td := 0, 0
	var keys []string
	for k := range stats {
		keys = append(keys, k)
	}
	sort.Strings(keys)
	for _, k := range keys {
		s := stats[k]
		tr += s.Runs
		td += s.Distinct
		if s.Truncated {
			c.Note("unit %s: enumeration truncated at %d valuations (bound of this tier)", k, s.Runs)
		}
		for n := range s.Notes {
			c.Note("unit %s: %s (treated as an unconstrained value)", k, n)
		}
	}
	c.Analysed["renderings"] += tr
	c.Analysed["distinct_renderings"] += td
	c.Analysed["units"] += len(units)
	return stats
}

// structUnits lists the function units of the struct-like templates of a set.
func structUnits(set string, full bool) []unit {
	sub := []string{"FieldGetOrSet", "FieldIsSet", "StructLikeRead", "StructLikeReadField", "StructLikeWrite", "StructLikeWriteField", "StructLikeDeepEqual", "StructLikeDeepEqualField"}
	g := "generator/golang"
	us := []unit{
		{Set: set, Def: "StructLike", Name: "StructLike(shell)", DotRel: g, DotType: "StructLike", Stub: sub, Cats: []string{"I32", "Struct"}, Lists: []int{0, 1, 2}},
	}
	if !full {
		return us
	}
	us = append(us,
		unit{Set: set, Def: "FieldGetOrSet", DotRel: g, DotType: "StructLike", Lists: []int{0, 1, 2}, Cats: []string{"I32", "Binary", "Struct", "List"}},
		unit{Set: set, Def: "FieldIsSet", DotRel: g, DotType: "StructLike", Lists: []int{0, 1, 2}, Cats: []string{"I32", "Binary", "Struct", "List"}},
		unit{Set: set, Def: "StructLikeRead", DotRel: g, DotType: "StructLike", Lists: []int{0, 1, 2}, Cats: []string{"I32", "Struct"}},
		unit{Set: set, Def: "StructLikeWrite", DotRel: g, DotType: "StructLike", Lists: []int{0, 1, 2}, Cats: []string{"I32", "Struct"}},
		unit{Set: set, Def: "StructLikeReadField", DotRel: g, DotType: "StructLike", Lists: []int{1}},
		unit{Set: set, Def: "StructLikeWriteField", DotRel: g, DotType: "StructLike", Lists: []int{1}, HashFlags: []string{"Features.ValueTypeForSIC"}},
		unit{Set: set, Def: "StructLikeDeepEqual", DotRel: g, DotType: "StructLike", Lists: []int{0, 1, 2}, Cats: []string{"I32"}},
		unit{Set: set, Def: "StructLikeDeepEqualField", DotRel: g, DotType: "StructLike", Lists: []int{1}, HashFlags: []string{"Features.ValueTypeForSIC"}},
	)
	return us
}
