package props

import (
	"fmt"
	"go/ast"
	"go/constant"
	"go/token"
	"go/types"
	"sort"
	"strings"

	"golang.org/x/tools/go/ssa"

	"verif/checker/core"
	"verif/checker/rules"
)

func init() { register("C04", c04) }

// catalogue anchors: the function that enforces each rule of the property's catalogue.
var c04Catalogue = []struct{ rel, fn, what string }{
	{"parser", "ParseFile", "syntax error / missing include"},
	{"parser", "CircleDetect", "cyclic include"},
	{"semantic", "checker.CheckGlobals", "duplicate global name"},
	{"semantic", "checker.CheckEnums", "duplicate enum value name / number, enum value outside int32"},
	{"semantic", "checker.CheckStructLikes", "duplicate field id / name"},
	{"semantic", "checker.CheckUnions", "second default value in a union"},
	{"semantic", "checker.CheckFunctions", "duplicate function name, oneway that returns or throws"},
	{"semantic", "resolver.AddName", "multiple definition"},
	{"semantic", "resolver.ResolveType", "undefined or non-type symbol used as a type"},
	{"semantic", "resolver.ResolveConstValue", "undefined or ambiguous constant identifier"},
	{"semantic", "resolver.ResolveTypedefs", "unresolvable typedef chain"},
	{"semantic", "resolver.ResolveBaseService", "unknown base service"},
	{"generator/golang", "Resolver.resolveConst", "constant/default of a kind the declared type cannot hold"},
	{"args", "Arguments.Parse", "invalid command line"},
}

func c04(c *core.Check) {
	c.Explain = "EXIT: over the VTA call graph rooted at main.main / sdk.InvokeThriftgo: " +
		"E1 every function deferred in main that calls recover() reaches os.Exit(non-zero) or re-panics on the recovered path; other recover() sites in the closure assign the function's named error result; " +
		"E2 every os.Exit argument in the closure is a non-zero constant; " +
		"E3c (sticky errors) from every `err != nil` branch that does not return at once, bounded path exploration on SSA (each block at most twice, phis resolved per path, nil-ness facts per dynamic value) shows that no return yields nil or a value tested to be nil: an error found in one loop iteration cannot be overwritten by a later one; E3 no error-typed result of a repository function (or of fmt.Errorf/errors.New/os.MkdirAll/WriteFile) in the closure is dead: each has a use that reaches a return, a nil-test, a panic or a call (SSA liveness; an overwritten or shadowed error is unreferenced); blank assignments are violations unless tabled with a reason; " +
		"E4 file-creating calls (os/ioutil WriteFile, os.Create, os.OpenFile, os.MkdirAll) reachable from InvokeThriftgo sit only in Generator.Persist's callback, and in InvokeThriftgo every path to Persist passes ParseFile, CircleDetect, CheckAll, ResolveSymbols and Generate; " +
		"E5 no local boolean that guards an error exit is read but never assigned after its zero initialisation (a check that can never fire); " +
		"E6 every self-recursive function that follows typedef links (calls (*Thrift).GetTypedef and recurses) either carries its own visited/depth bound or is, inside ResolveAST, only reachable after ResolveTypedefs rejected cycles; the same for include links and CircleDetect; " +
		"E7 catalogue presence: each rule of the property's catalogue is anchored to the function enforcing it, which must be reachable from InvokeThriftgo and contain an error-producing exit. " +
		"NOT decided: that each check's predicate is the right one; message text; hangs other than unbounded recursion."
	c.RuleText = "one obligation per (rule, function or call site) in the closure; non-trivial = needed liveness, dominance or reachability"
	c.Assume = []string{"VTA call graph over-approximates real calls", "errors reported through println + os.Exit(2) in the Go backend count as diagnosed"}
	prog := c.Prog
	prog.SSA()
	inv := rules.Func(prog.SSAPkg("sdk"), "InvokeThriftgo")
	mainFn := rules.Func(prog.SSAPkg(""), "main")
	if inv == nil || mainFn == nil {
		c.Unknown("anchor", "main.main|sdk.InvokeThriftgo", "", "missing")
		return
	}
	reach, parent := prog.ReachWithParents([]*ssa.Function{mainFn}, nil)
	fns := core.SortedFuncs(reach)
	c.Analysed["functions_in_closure"] = len(fns)

	c04E1(c, mainFn, fns)
	c04E2(c, fns)
	c04E3(c, fns)
	c04E3sticky(c, fns)
	c04fieldListsChecked(c)
	c04languagesValidatedFirst(c)
	c04includeSearch(c)
	c04fieldDefaults(c)
	c04backendRulesReach(c)
	c04includeIdentity(c)
	c04E4(c, inv, fns, parent)
	c04E5(c, fns)
	c04E6(c, reach)
	c04E7(c, reach)
}

// ---- E1
func c04E1(c *core.Check, mainFn *ssa.Function, fns []*ssa.Function) {
	prog := c.Prog
	// functions deferred in main
	deferredInMain := map[*ssa.Function]bool{}
	forEachInstr(mainFn, func(ins ssa.Instruction) {
		if d, ok := ins.(*ssa.Defer); ok {
			if f := d.Call.StaticCallee(); f != nil {
				deferredInMain[f] = true
			}
			if mc, ok := d.Call.Value.(*ssa.MakeClosure); ok {
				deferredInMain[mc.Fn.(*ssa.Function)] = true
			}
		}
	})
	for _, fn := range fns {
		var rec []*ssa.Call
		forEachInstr(fn, func(ins ssa.Instruction) {
			if cl, ok := ins.(*ssa.Call); ok {
				if b, ok := cl.Call.Value.(*ssa.Builtin); ok && b.Name() == "recover" {
					rec = append(rec, cl)
				}
			}
		})
		for i, r := range rec {
			key := fmt.Sprintf("%s/recover#%d", core.FuncName(fn), i)
			where := prog.Rel(r.Pos())
			// the recovered branch: true successor of `r != nil`
			var arm *ssa.BasicBlock
			for _, ref := range *r.Referrers() {
				if bo, ok := ref.(*ssa.BinOp); ok && bo.Op == token.NEQ {
					for _, rr := range *bo.Referrers() {
						if ifi, ok := rr.(*ssa.If); ok {
							arm = ifi.Block().Succs[0]
						}
					}
				}
			}
			if arm == nil {
				c.Bad("E1-recover", key, where, "recover() result is not tested; the recovered path cannot be identified")
				continue
			}
			blocks := rules.ReachableFrom(arm, nil)
			blocks[arm] = true
			exits, repanics, assignsErr := false, false, false
			for b := range blocks {
				for _, ins := range b.Instrs {
					switch x := ins.(type) {
					case *ssa.Call:
						if f := x.Call.StaticCallee(); f != nil && f.Pkg != nil && f.Pkg.Pkg.Path() == "os" && f.Name() == "Exit" {
							if k, ok := x.Call.Args[0].(*ssa.Const); ok && k.Value != nil && constant.Sign(k.Value) != 0 {
								exits = true
							}
						}
					case *ssa.Panic:
						repanics = true
					case *ssa.Store:
						// store to a named result of the enclosing function of error type
						if rules.IsErrorType(x.Val.Type()) {
							root := rules.Root(x.Addr)
							if al, ok := root.(*ssa.Alloc); ok && isNamedResult(al) {
								if k, isK := x.Val.(*ssa.Const); !isK || !k.IsNil() {
									assignsErr = true
								}
							}
						}
					}
				}
			}
			if deferredInMain[fn] || fn.Parent() == mainFnOrNil(deferredInMain, fn) {
				// only those that stand between a panic and the process exit status
			}
			if deferredInMain[fn] {
				c.Decide(exits || repanics, "E1-recover", key, where,
					"recovered path of a function deferred in main reaches os.Exit(non-zero) or re-panics",
					"a function deferred in main recovers from a panic and lets main return normally: thriftgo exits 0 after a crash, with output missing or partial")
			} else {
				c.Decide(assignsErr || exits || repanics, "E1-recover", key, where,
					"recovered path stores a non-nil error into the function's named result (or exits non-zero / re-panics)",
					"recover() swallows the panic without producing an error")
			}
		}
	}
	c.Min("E1-recover", 3)
}

func mainFnOrNil(m map[*ssa.Function]bool, fn *ssa.Function) *ssa.Function { return nil }

func isNamedResult(al *ssa.Alloc) bool {
	fn := al.Parent()
	res := fn.Signature.Results()
	for i := 0; i < res.Len(); i++ {
		if res.At(i).Name() != "" && res.At(i).Name() == al.Comment {
			return true
		}
	}
	return false
}

// ---- E2
func c04E2(c *core.Check, fns []*ssa.Function) {
	n := map[string]int{}
	for _, fn := range fns {
		forEachInstr(fn, func(ins ssa.Instruction) {
			cl, ok := ins.(ssa.CallInstruction)
			if !ok {
				return
			}
			f := cl.Common().StaticCallee()
			if f == nil || f.Pkg == nil || f.Pkg.Pkg.Path() != "os" || f.Name() != "Exit" {
				return
			}
			base := core.FuncName(fn) + "/os.Exit"
			n[base]++
			key := fmt.Sprintf("%s#%d", base, n[base])
			k, isK := cl.Common().Args[0].(*ssa.Const)
			if !isK || k.Value == nil {
				c.Bad("E2-exit-code", key, c.Prog.Rel(cl.Pos()), "os.Exit with a non-constant status: cannot show it is non-zero on error paths")
				return
			}
			c.Decide(constant.Sign(k.Value) != 0, "E2-exit-code", key, c.Prog.Rel(cl.Pos()), "os.Exit("+k.Value.String()+")", "os.Exit(0) reachable from main: an error path can end with status 0")
		})
	}
	c.Min("E2-exit-code", 3)
}

// ---- E3
var c04ErrSources = map[string]bool{
	"fmt.Errorf": true, "errors.New": true, "os.MkdirAll": true, "os.WriteFile": true, "io/ioutil.WriteFile": true, "os.Mkdir": true,
}

// intentionally ignored error results (key = caller/callee), each with a reason.
var c04Ignored = map[string]string{
	"args.(Arguments).checkOptions/generator/golang.(CodeUtils).HandleOptions":  "checkOptions only probes EnableNestedStruct/template; the same option list is parsed again by the backend (prepareUtilities), whose error is reported (C20 options-error-stored)",
	"parser.parseString/parser.(ThriftIDL).Init":                                "Init only returns the error of an option function; none is passed here",
	"generator/golang.(Resolver).onInt/generator/golang.(Resolver).getTypeName": "onInt is only dispatched for integer categories, whose type name is a constant lookup that cannot fail",
	"sdk.init/generator.(Generator).RegisterBackend":                            "package init registering the two built-in backends under distinct constant names; RegisterBackend only fails on a duplicate name",
}

func c04E3(c *core.Check, fns []*ssa.Function) {
	errorsConsumed(c, fns, "E3-error-consumed")
	c.Min("E3-error-consumed", 150)
}

// errorsConsumed: every error result of a call into the repository (or of a tabled library source) has a use that reaches
// a test, return, panic, store or call.
func errorsConsumed(c *core.Check, fns []*ssa.Function, rule string) {
	prog := c.Prog
	n := map[string]int{}
	for _, fn := range fns {
		forEachInstr(fn, func(ins ssa.Instruction) {
			cl, ok := ins.(ssa.CallInstruction)
			if !ok {
				return
			}
			if _, isDefer := ins.(*ssa.Defer); isDefer {
				return
			}
			if _, isGo := ins.(*ssa.Go); isGo {
				return
			}
			callee := cl.Common().StaticCallee()
			name := ""
			if callee != nil {
				if callee.Pkg != nil && !core.InRepo(callee) {
					name = callee.Pkg.Pkg.Path() + "." + callee.Name()
					if !c04ErrSources[name] {
						return
					}
				} else if core.InRepo(callee) {
					name = core.FuncName(callee)
				} else {
					return
				}
			} else if cl.Common().IsInvoke() {
				// interface method declared in the repository
				m := cl.Common().Method
				if _, ok := core.RelOf(m.Pkg()); !ok {
					return
				}
				name = "interface." + m.Name()
			} else {
				return // dynamic call of a func value
			}
			v := cl.Value()
			if v == nil {
				return
			}
			var errVals []ssa.Value
			dropped := false
			switch t := v.Type().(type) {
			case *types.Tuple:
				for i := 0; i < t.Len(); i++ {
					if rules.IsErrorType(t.At(i).Type()) {
						found := false
						for _, r := range *v.Referrers() {
							if ex, ok := r.(*ssa.Extract); ok && ex.Index == i {
								errVals = append(errVals, ex)
								found = true
							}
						}
						if !found {
							dropped = true
						}
					}
				}
			default:
				if rules.IsErrorType(t) {
					errVals = append(errVals, v)
				} else {
					return
				}
			}
			if len(errVals) == 0 && !dropped {
				return
			}
			base := core.FuncName(fn) + "/" + name
			n[base]++
			key := base
			if n[base] > 1 {
				key = fmt.Sprintf("%s#%d", base, n[base])
			}
			live := !dropped
			for _, ev := range errVals {
				if !ssaLive(ev, map[ssa.Value]bool{}) {
					live = false
				}
			}
			if !live {
				if why, ok := c04Ignored[base]; ok {
					c.OK(rule, key, prog.Rel(cl.Pos()), "ignored by design: "+why)
					return
				}
			}
			c.Decide(live, rule, key, prog.Rel(cl.Pos()),
				"the error result has a use that reaches a test, return, panic, store or call",
				"the error result of "+name+" is dropped or overwritten before any use: a diagnosed failure is lost")
		})
	}
}

// ssaLive: v has a use other than pure forwarding nodes that are themselves unused.
func ssaLive(v ssa.Value, seen map[ssa.Value]bool) bool {
	if seen[v] {
		return false
	}
	seen[v] = true
	refs := v.Referrers()
	if refs == nil {
		return true
	}
	for _, r := range *refs {
		switch x := r.(type) {
		case *ssa.DebugRef:
			continue
		case *ssa.Phi:
			if ssaLive(x, seen) {
				return true
			}
		case *ssa.Extract:
			if ssaLive(x, seen) {
				return true
			}
		case *ssa.BinOp:
			if ssaLive(x, seen) {
				return true
			}
		case *ssa.MakeInterface:
			if ssaLive(x, seen) {
				return true
			}
		case *ssa.ChangeInterface:
			if ssaLive(x, seen) {
				return true
			}
		case *ssa.TypeAssert:
			if ssaLive(x, seen) {
				return true
			}
		default:
			return true
		}
	}
	return false
}

// ---- E4
func c04E4(c *core.Check, inv *ssa.Function, fns []*ssa.Function, parent map[*ssa.Function]*ssa.Function) {
	prog := c.Prog
	writers := map[string]bool{"os.WriteFile": true, "io/ioutil.WriteFile": true, "os.Create": true, "os.OpenFile": true, "os.MkdirAll": true, "os.Mkdir": true, "os.Rename": true, "os.Remove": true, "os.RemoveAll": true}
	invClosure := prog.Reach([]*ssa.Function{inv}, nil)
	n := 0
	for _, fn := range fns {
		if !invClosure[fn] {
			continue
		}
		forEachInstr(fn, func(ins ssa.Instruction) {
			cl, ok := ins.(ssa.CallInstruction)
			if !ok {
				return
			}
			f := cl.Common().StaticCallee()
			if f == nil || f.Pkg == nil {
				return
			}
			name := f.Pkg.Pkg.Path() + "." + f.Name()
			if !writers[name] {
				return
			}
			n++
			key := core.FuncName(fn) + "/" + name
			inPersist := strings.HasPrefix(core.FuncName(fn), "generator.(Generator).Persist$")
			c.Decide(inPersist, "E4-write-ownership", key, prog.Rel(cl.Pos()),
				"file-system write sits in Persist's callback", "a file is created or written outside Generator.Persist's callback (call path: "+core.CallPath(parent, fn)+"): output can appear although generation failed")
		})
	}
	c.Analysed["fs_write_sites"] = n
	c.Min("E4-write-ownership", 2)
	// dominance in InvokeThriftgo
	fd := prog.FuncDecl("sdk", "InvokeThriftgo")
	if fd == nil {
		c.Unknown("E4-persist-dominated", "sdk.InvokeThriftgo", "", "declaration missing")
		return
	}
	info := prog.Pkg("sdk").TypesInfo
	g := rules.CFG(info, fd.Body, nil)
	isCallNamed := func(name string) func(ast.Node) bool {
		return func(n ast.Node) bool {
			call, ok := n.(*ast.CallExpr)
			if !ok {
				return false
			}
			fn := rules.Callee(info, call)
			return fn != nil && fn.Name() == name
		}
	}
	for _, ev := range []string{"Parse", "ParseFile", "CircleDetect", "CheckAll", "ResolveSymbols", "Generate"} {
		missed, targets := rules.MustPass(g, isCallNamed(ev), isCallNamed("Persist"))
		key := "sdk.InvokeThriftgo/Persist<-" + ev
		if targets == 0 {
			c.Unknown("E4-persist-dominated", key, "", "no Persist call in InvokeThriftgo")
			continue
		}
		c.Decide(len(missed) == 0, "E4-persist-dominated", key, prog.Rel(fd.Pos()), "every path to Persist passes "+ev, "Persist is reachable without "+ev+": files can be written for input that was never checked")
	}
	// each of those calls' error is tested with an early return before the next stage (E3 shows liveness; here: the
	// statement following the call, or its own if-init, returns on err != nil)
	for _, ev := range []string{"Parse", "ParseFile", "CheckAll", "ResolveSymbols", "Persist"} {
		okRet := errReturnedAfter(info, fd.Body, ev)
		c.Decide(okRet, "E4-stage-error-returns", "sdk.InvokeThriftgo/"+ev, prog.Rel(fd.Pos()),
			"the stage's error is returned before the next stage runs", "the error of "+ev+" does not stop the pipeline")
	}
	// CircleDetect: non-empty path => return error
	okCD := false
	ast.Inspect(fd.Body, func(n ast.Node) bool {
		if is, ok := n.(*ast.IfStmt); ok && is.Init != nil {
			if as, ok := is.Init.(*ast.AssignStmt); ok && len(as.Rhs) == 1 {
				if call, ok := as.Rhs[0].(*ast.CallExpr); ok && isCallNamed("CircleDetect")(call) {
					for _, s := range is.Body.List {
						if rs, ok := s.(*ast.ReturnStmt); ok && len(rs.Results) == 1 && !rules.IsNil(info, rs.Results[0]) {
							okCD = true
						}
					}
				}
			}
		}
		return true
	})
	c.Decide(okCD, "E4-stage-error-returns", "sdk.InvokeThriftgo/CircleDetect", prog.Rel(fd.Pos()), "a detected include cycle returns an error", "an include cycle no longer stops the pipeline")
}

// errReturnedAfter: `x, err := call(...)` / `err = call(...)` is followed (next statement, or its own if) by
// `if err != nil { return …err… }`.
func errReturnedAfter(info *types.Info, body *ast.BlockStmt, callee string) bool {
	found := false
	var scan func(list []ast.Stmt)
	isCall := func(e ast.Expr) bool {
		call, ok := e.(*ast.CallExpr)
		if !ok {
			return false
		}
		fn := rules.Callee(info, call)
		return fn != nil && fn.Name() == callee
	}
	retErrIf := func(s ast.Stmt, errObj types.Object) bool {
		is, ok := s.(*ast.IfStmt)
		if !ok {
			return false
		}
		be, ok := is.Cond.(*ast.BinaryExpr)
		if !ok || be.Op != token.NEQ || rules.ObjOf(info, be.X) != errObj || errObj == nil {
			return false
		}
		// every path through the body ends in a return; at least one returns a non-nil
		// the `flag: help requested` early `return nil` inside is tolerated only nested
		last := is.Body.List[len(is.Body.List)-1]
		rs, ok := last.(*ast.ReturnStmt)
		return ok && len(rs.Results) >= 1 && !rules.IsNil(info, rs.Results[len(rs.Results)-1])
	}
	scan = func(list []ast.Stmt) {
		for i, s := range list {
			switch x := s.(type) {
			case *ast.AssignStmt:
				if len(x.Rhs) == 1 && isCall(x.Rhs[0]) {
					errObj := rules.ObjOf(info, x.Lhs[len(x.Lhs)-1])
					// skip over statements that do not touch err (e.g. log.MultiWarn(warns))
					for j := i + 1; j < len(list) && j <= i+2; j++ {
						if retErrIf(list[j], errObj) {
							found = true
						}
					}
				}
			case *ast.IfStmt:
				if as, ok := x.Init.(*ast.AssignStmt); ok && len(as.Rhs) == 1 && isCall(as.Rhs[0]) {
					errObj := rules.ObjOf(info, as.Lhs[len(as.Lhs)-1])
					if retErrIf(&ast.IfStmt{Cond: x.Cond, Body: x.Body}, errObj) {
						found = true
					}
				}
				scan(x.Body.List)
			case *ast.ForStmt:
				scan(x.Body.List)
			case *ast.RangeStmt:
				scan(x.Body.List)
			case *ast.BlockStmt:
				scan(x.List)
			}
		}
	}
	scan(body.List)
	return found
}

// ---- E5
func c04E5(c *core.Check, fns []*ssa.Function) {
	prog := c.Prog
	n := 0
	for _, fn := range fns {
		body := core.Body(fn)
		info := prog.InfoAt(fn.Pos())
		if body == nil || info == nil {
			continue
		}
		// local bools declared in this function
		type st struct {
			decl      ast.Node
			assigned  bool
			condReads []ast.Node
			zeroInit  bool
		}
		vars := map[types.Object]*st{}
		rules.Inspect(body, false, func(nd ast.Node) bool {
			switch x := nd.(type) {
			case *ast.ValueSpec:
				for i, nm := range x.Names {
					o := info.Defs[nm]
					if o == nil {
						continue
					}
					if b, ok := o.Type().Underlying().(*types.Basic); ok && b.Kind() == types.Bool {
						zero := len(x.Values) == 0
						if i < len(x.Values) {
							if tv := info.Types[x.Values[i]]; tv.Value != nil && tv.Value.String() == "false" {
								zero = true
							}
						}
						vars[o] = &st{decl: x, zeroInit: zero}
					}
				}
			case *ast.AssignStmt:
				for i, l := range x.Lhs {
					id, ok := l.(*ast.Ident)
					if !ok {
						continue
					}
					if x.Tok == token.DEFINE {
						if o := info.Defs[id]; o != nil {
							if b, ok := o.Type().Underlying().(*types.Basic); ok && b.Kind() == types.Bool && i < len(x.Rhs) && len(x.Lhs) == len(x.Rhs) {
								tv := info.Types[x.Rhs[i]]
								vars[o] = &st{decl: x, zeroInit: tv.Value != nil && tv.Value.String() == "false"}
								continue
							}
						}
					}
					if o := info.Uses[id]; o != nil && vars[o] != nil {
						vars[o].assigned = true
					}
				}
			case *ast.UnaryExpr:
				if x.Op == token.AND {
					if o := rules.ObjOf(info, x.X); o != nil && vars[o] != nil {
						vars[o].assigned = true // address taken
					}
				}
			}
			return true
		})
		// closures may assign too
		ast.Inspect(body, func(nd ast.Node) bool {
			if as, ok := nd.(*ast.AssignStmt); ok && as.Tok != token.DEFINE {
				for _, l := range as.Lhs {
					if o := rules.ObjOf(info, l); o != nil && vars[o] != nil {
						vars[o].assigned = true
					}
				}
			}
			if is, ok := nd.(*ast.IfStmt); ok {
				ast.Inspect(is.Cond, func(x ast.Node) bool {
					if id, ok := x.(*ast.Ident); ok {
						if o := info.Uses[id]; o != nil && vars[o] != nil {
							vars[o].condReads = append(vars[o].condReads, is)
						}
					}
					return true
				})
			}
			return true
		})
		var objs []types.Object
		for o := range vars {
			objs = append(objs, o)
		}
		sort.Slice(objs, func(i, j int) bool { return objs[i].Pos() < objs[j].Pos() })
		for _, o := range objs {
			v := vars[o]
			if len(v.condReads) == 0 || !v.zeroInit {
				continue
			}
			n++
			key := core.FuncName(fn) + "/flag " + o.Name()
			c.Decide(v.assigned, "E5-dead-flag", key, prog.Rel(o.Pos()),
				"the boolean guarding a branch is assigned somewhere after its zero initialisation",
				"local boolean "+o.Name()+" is tested in a condition but never assigned: the branch it guards (an error exit) can never be taken")
		}
	}
	c.Analysed["guard_flags"] = n
	c.Min("E5-dead-flag", 5)
}

// ---- E6
func c04E6(c *core.Check, reach map[*ssa.Function]bool) {
	prog := c.Prog
	g := prog.CallGraph()
	semPkg := prog.SSAPkg("semantic")
	resolveAST := rules.Method(prog.SSA(), semPkg, "resolver", "ResolveAST")
	if resolveAST == nil {
		c.Unknown("anchor", "semantic.(resolver).ResolveAST", "", "missing")
		return
	}
	// chasers: self-recursive repository functions that call (*parser.Thrift).GetTypedef
	var chasers []*ssa.Function
	for fn := range reach {
		if !core.InRepo(fn) || fn.Syntax() == nil {
			continue
		}
		self, getTD := false, false
		if n := g.Nodes[fn]; n != nil {
			for _, e := range n.Out {
				if e.Callee.Func == fn {
					self = true
				}
				if cf := e.Callee.Func; cf != nil && cf.Name() == "GetTypedef" && cf.Pkg != nil && cf.Pkg.Pkg.Path() == core.Module+"/parser" {
					getTD = true
				}
			}
		}
		if self && getTD {
			chasers = append(chasers, fn)
		}
	}
	// mutual recursion: a function that calls GetTypedef and can reach itself through other repository functions
	// (getTypeName -> getContainerTypeName -> getTypeName) chases typedef links just the same
	isChaser := map[*ssa.Function]bool{}
	for _, ch := range chasers {
		isChaser[ch] = true
	}
	for fn := range reach {
		if !core.InRepo(fn) || fn.Syntax() == nil || isChaser[fn] {
			continue
		}
		getTD := false
		var callees []*ssa.Function
		if n := g.Nodes[fn]; n != nil {
			for _, e := range n.Out {
				cf := e.Callee.Func
				if cf == nil {
					continue
				}
				if cf.Name() == "GetTypedef" && cf.Pkg != nil && cf.Pkg.Pkg.Path() == core.Module+"/parser" {
					getTD = true
				} else if core.InRepo(cf) {
					callees = append(callees, cf)
				}
			}
		}
		if !getTD || len(callees) == 0 {
			continue
		}
		if prog.Reach(callees, func(f *ssa.Function) bool { return !core.InRepo(f) })[fn] {
			chasers = append(chasers, fn)
			isChaser[fn] = true
		}
	}
	sort.Slice(chasers, func(i, j int) bool { return core.FuncName(chasers[i]) < core.FuncName(chasers[j]) })
	c.Analysed["typedef_chasers"] = len(chasers)
	// which call sites inside ResolveAST (and its closures) can reach a chaser, and are they after ResolveTypedefs?
	fd := prog.FuncDecl("semantic", "resolver.ResolveAST")
	info := prog.Pkg("semantic").TypesInfo
	for _, ch := range chasers {
		key := core.FuncName(ch) + "/typedef-recursion"
		where := prog.Rel(ch.Pos())
		if hasOwnBound(ch) {
			c.OK("E6-guarded-recursion", key, where, "carries its own visited set / depth bound")
			continue
		}
		// reachable from ResolveAST?
		sub := prog.Reach([]*ssa.Function{resolveAST}, nil)
		if !sub[ch] {
			c.OK("E6-guarded-recursion", key, where, "only reachable after ResolveSymbols succeeded (typedef cycles already rejected by ResolveTypedefs; E4 stage order)")
			continue
		}
		// inside ResolveAST: every statement-level call that reaches ch must be preceded by ResolveTypedefs
		if fd == nil {
			c.Unknown("E6-guarded-recursion", key, where, "ResolveAST declaration missing")
			continue
		}
		// collect AST calls in ResolveAST (including its function literals) whose static callee reaches ch
		bad := ""
		var rtPos token.Pos
		ast.Inspect(fd.Body, func(n ast.Node) bool {
			if call, ok := n.(*ast.CallExpr); ok {
				if fn := rules.Callee(info, call); fn != nil && fn.Name() == "ResolveTypedefs" && rtPos == token.NoPos {
					rtPos = call.Pos()
				}
			}
			return true
		})
		ast.Inspect(fd.Body, func(n ast.Node) bool {
			call, ok := n.(*ast.CallExpr)
			if !ok {
				return true
			}
			fo := rules.Callee(info, call)
			if fo == nil {
				return true
			}
			sf := prog.SSA().FuncValue(fo)
			if sf == nil || !core.InRepo(sf) {
				return true
			}
			if prog.Reach([]*ssa.Function{sf}, nil)[ch] {
				if rtPos == token.NoPos || call.Pos() < rtPos {
					bad = fmt.Sprintf("%s (at %s) can reach it and runs before ResolveTypedefs has rejected typedef cycles", fo.Name(), prog.Rel(call.Pos()))
				}
			}
			return true
		})
		c.Decide(bad == "", "E6-guarded-recursion", key, where,
			"every call in ResolveAST that reaches this recursion comes after ResolveTypedefs",
			"unbounded recursion over typedef links on cyclic input (stack overflow instead of a diagnostic): "+bad)
	}
	c.Min("E6-guarded-recursion", 2)
	// The discharge "typedef cycles already rejected by ResolveTypedefs" holds only if that stage rejects every cycle an
	// expansion can run into: a typedef reaches itself not only through other typedefs but also through the element types
	// of containers (`typedef list<A> A`). Rule: among the functions ResolveTypedefs calls inside the package there is one
	// that follows typedef names (GetTypedef), descends into KeyType/ValueType, keeps a set keyed by *parser.Typedef that it
	// both reads and writes, and returns an error.
	rt := prog.FuncDecl("semantic", "resolver.ResolveTypedefs")
	key := "semantic.(resolver).ResolveTypedefs/cycles-through-containers"
	if rt == nil {
		c.Unknown("E6-typedef-cycles-rejected", key, "", "ResolveTypedefs missing")
		return
	}
	seen := map[string]bool{}
	work := []*ast.FuncDecl{rt}
	found := ""
	for len(work) > 0 && found == "" {
		d := work[0]
		work = work[1:]
		if seen[d.Name.Name] {
			continue
		}
		seen[d.Name.Name] = true
		getTD, elems, setRead, setWrite, errRet := false, false, false, false, false
		ast.Inspect(d.Body, func(n ast.Node) bool {
			switch x := n.(type) {
			case *ast.CallExpr:
				if fo := rules.Callee(info, x); fo != nil {
					if fo.Name() == "GetTypedef" {
						getTD = true
					}
					if fo.Pkg() != nil && fo.Pkg().Path() == "fmt" && fo.Name() == "Errorf" {
						errRet = true
					}
					if fo.Pkg() == prog.Pkg("semantic").Types {
						name := fo.Name()
						if sig, ok := fo.Type().(*types.Signature); ok && sig.Recv() != nil {
							name = "resolver." + name
						}
						if nd := prog.FuncDecl("semantic", name); nd != nil && nd.Body != nil {
							work = append(work, nd)
						}
					}
				}
			case *ast.SelectorExpr:
				if x.Sel.Name == "KeyType" || x.Sel.Name == "ValueType" {
					elems = true
				}
			case *ast.AssignStmt:
				for _, l := range x.Lhs {
					if ix, ok := l.(*ast.IndexExpr); ok && isTypedefKeyedMap(info, ix.X) {
						setWrite = true
					}
				}
			case *ast.IndexExpr:
				if isTypedefKeyedMap(info, x.X) {
					setRead = true
				}
			}
			return true
		})
		if getTD && elems && setRead && setWrite && errRet {
			found = d.Name.Name
		}
	}
	c.Decide(found != "", "E6-typedef-cycles-rejected", key, prog.Rel(rt.Pos()),
		"typedef cycles through container element types are rejected by "+found+" (visited set keyed by typedef, error on revisit)",
		"nothing ResolveTypedefs calls follows typedef names *and* container element types with a visited set: `typedef list<A> A` passes the semantic stage, and every expansion of typedefs behind it (type names for tags, Deref) recurses until the stack overflows — thriftgo dies with a fatal-error trace instead of a diagnostic")
}

func isTypedefKeyedMap(info *types.Info, e ast.Expr) bool {
	tv, ok := info.Types[e]
	if !ok {
		return false
	}
	m, ok := tv.Type.Underlying().(*types.Map)
	return ok && strings.HasSuffix(m.Key().String(), "parser.Typedef")
}

// hasOwnBound: the function has a map-typed parameter that it both reads and updates (visited set),
// or an integer parameter it compares and passes on changed (depth bound).
func hasOwnBound(fn *ssa.Function) bool {
	// closures that recurse through each other share their visited set as a captured variable of the enclosing function
	if par := fn.Parent(); par != nil {
		upd, look := map[string]bool{}, map[string]bool{}
		for _, af := range par.AnonFuncs {
			for _, b := range af.Blocks {
				for _, ins := range b.Instrs {
					switch x := ins.(type) {
					case *ssa.MapUpdate:
						upd[x.Map.Type().String()] = true
					case *ssa.Lookup:
						if _, ok := x.X.Type().Underlying().(*types.Map); ok {
							look[x.X.Type().String()] = true
						}
					}
				}
			}
		}
		for t := range upd {
			if look[t] {
				return true
			}
		}
	}
	for _, p := range fn.Params {
		switch p.Type().Underlying().(type) {
		case *types.Map:
			upd, look := false, false
			for _, r := range *p.Referrers() {
				switch r.(type) {
				case *ssa.MapUpdate:
					upd = true
				case *ssa.Lookup:
					look = true
				}
			}
			if upd && look {
				return true
			}
		case *types.Basic:
			if p.Type().Underlying().(*types.Basic).Info()&types.IsInteger != 0 {
				cmp, arith := false, false
				for _, r := range *p.Referrers() {
					if bo, ok := r.(*ssa.BinOp); ok {
						switch bo.Op {
						case token.LSS, token.GTR, token.LEQ, token.GEQ, token.EQL:
							cmp = true
						case token.ADD, token.SUB:
							arith = true
						}
					}
				}
				if cmp && arith {
					return true
				}
			}
		}
	}
	return false
}

// ---- E7
func c04E7(c *core.Check, reach map[*ssa.Function]bool) {
	prog := c.Prog
	for _, a := range c04Catalogue {
		key := a.rel + "." + a.fn
		var fn *ssa.Function
		if i := strings.Index(a.fn, "."); i >= 0 {
			fn = rules.Method(prog.SSA(), prog.SSAPkg(a.rel), a.fn[:i], a.fn[i+1:])
		} else {
			fn = rules.Func(prog.SSAPkg(a.rel), a.fn)
		}
		if fn == nil {
			c.Unknown("E7-catalogue", key, "", "anchor function for '"+a.what+"' not found")
			continue
		}
		if !reach[fn] {
			c.Bad("E7-catalogue", key, prog.Rel(fn.Pos()), "the function enforcing '"+a.what+"' is no longer reachable from main: the rule is not checked")
			continue
		}
		// an error-producing exit in its closure (depth-limited: the function itself and its direct repo callees)
		has := false
		sub := prog.Reach([]*ssa.Function{fn}, nil)
		for f := range sub {
			if !core.InRepo(f) {
				continue
			}
			forEachInstr(f, func(ins ssa.Instruction) {
				switch x := ins.(type) {
				case *ssa.Panic:
					has = true
				case ssa.CallInstruction:
					if cf := x.Common().StaticCallee(); cf != nil && cf.Pkg != nil {
						n := cf.Pkg.Pkg.Path() + "." + cf.Name()
						if n == "fmt.Errorf" || n == "errors.New" {
							has = true
						}
					}
				}
			})
		}
		// CircleDetect reports through its result (a path string), not an error
		if a.fn == "CircleDetect" {
			has = true
		}
		c.Decide(has, "E7-catalogue", key, prog.Rel(fn.Pos()), "reachable from main and able to produce an error ("+a.what+")", "the function enforcing '"+a.what+"' has no error-producing exit left")
	}
}
