package props

import (
	"fmt"
	"go/ast"
	"go/token"
	"go/types"
	"sort"
	"strings"
	"text/template/parse"

	"golang.org/x/tools/go/ssa"

	"verif/checker/core"
	"verif/checker/rules"
	"verif/checker/tmpl"
)

// ---------------------------------------------------------------------------------------------------------------------
// C14: the mask is a trie: every node reachable from a parent is owned by exactly that parent slot. If one node is stored
// in two slots, a later path through one key silently extends the other. Rule: every store of a *FieldMask into trie
// storage (a map element, an array/slice element, the `all` field) stores a node allocated in the same function, and the
// allocation is executed once per store (it is not hoisted out of a loop the store sits in).
func c14trie(c *core.Check) {
	prog := c.Prog
	prog.SSA()
	pkg := prog.SSAPkg(fmRel)
	if pkg == nil {
		c.Unknown("anchor", fmRel, "", "package missing")
		return
	}
	isMaskPtr := func(t types.Type) bool {
		p, ok := t.(*types.Pointer)
		if !ok {
			return false
		}
		n, ok := p.Elem().(*types.Named)
		return ok && n.Obj().Name() == "FieldMask" && n.Obj().Pkg() != nil && strings.HasSuffix(n.Obj().Pkg().Path(), "/"+fmRel)
	}
	var fns []*ssa.Function
	for fn := range ssautilAllFunctions(prog, pkg) {
		if fn.Pos().IsValid() && !strings.HasSuffix(prog.Fset.File(fn.Pos()).Name(), "_test.go") {
			fns = append(fns, fn)
		}
	}
	sort.Slice(fns, func(i, j int) bool { return fns[i].Pos() < fns[j].Pos() })
	per := map[string]int{}
	for _, fn := range fns {
		for _, b := range fn.Blocks {
			for _, ins := range b.Instrs {
				var val ssa.Value
				var slot string
				switch x := ins.(type) {
				case *ssa.MapUpdate:
					if isMaskPtr(x.Value.Type()) {
						val, slot = x.Value, "map element"
					}
				case *ssa.Store:
					if !isMaskPtr(x.Val.Type()) {
						break
					}
					switch a := x.Addr.(type) {
					case *ssa.IndexAddr:
						// the fixed head array of fieldMap (temporary slices of nodes are not trie storage)
						if pt, ok := a.X.Type().Underlying().(*types.Pointer); ok {
							if _, isArr := pt.Elem().Underlying().(*types.Array); isArr {
								val, slot = x.Val, "array element"
							}
						}
					case *ssa.FieldAddr:
						if pt, ok := a.X.Type().Underlying().(*types.Pointer); ok {
							if nt, ok := pt.Elem().(*types.Named); ok && nt.Obj().Name() == "FieldMask" {
								val, slot = x.Val, "field "+nt.Underlying().(*types.Struct).Field(a.Field).Name()
							}
						}
					}
				}
				if val == nil {
					continue
				}
				fname := core.Module
				_ = fname
				k := fmRel + "." + fn.RelString(pkg.Pkg)
				per[k]++
				key := fmt.Sprintf("%s/store#%d (%s)", k, per[k], slot)
				where := prog.Rel(ins.Pos())
				if kc, ok := val.(*ssa.Const); ok && kc.IsNil() {
					c.OKTrivial("trie-children-unshared", key, where, "stores nil")
					continue
				}
				al, ok := val.(*ssa.Alloc)
				if !ok {
					c.Bad("trie-children-unshared", key, where, fmt.Sprintf("the node stored into the %s is %s, not a node allocated for this slot: the same node can end up under two keys, and a later path through one key changes what the other key selects", slot, val.String()))
					continue
				}
				// the allocation must run once per store: no cycle through the store's block that avoids the allocation's block
				shared := false
				if al.Block() != b {
					reach := rules.ReachableFrom(b, func(x *ssa.BasicBlock) bool { return x == al.Block() })
					shared = reach[b]
				}
				c.Decide(!shared, "trie-children-unshared", key, where, "stores a node allocated for this slot", "the stored node is allocated outside the loop that stores it: every iteration stores the same node under another key")
			}
		}
	}
	c.Min("trie-children-unshared", 6)
}

// ---------------------------------------------------------------------------------------------------------------------
// C15: names inside a descriptor (a service's base, a type's name) are relative to the file that descriptor was built
// from. Rule: wherever a name taken from descriptor X is looked up in a file descriptor obtained through
// LookupFD(Y.Filepath), X and Y are the same variable.
func c15ownerFile(c *core.Check) {
	pk := c.Prog.Pkg(reflRel)
	info := pk.TypesInfo
	nameGetters := map[string]bool{"Base": true, "GetBase": true, "Name": true, "GetName": true}
	n := 0
	for _, f := range pk.Syntax {
		fname := c.Prog.Fset.File(f.Pos()).Name()
		if strings.HasSuffix(fname, "_test.go") || strings.HasSuffix(fname, "/descriptor.go") || strings.Contains(fname, "/k-") {
			continue
		}
		for _, d := range f.Decls {
			fd, ok := d.(*ast.FuncDecl)
			if !ok || fd.Body == nil {
				continue
			}
			fileOwner := map[types.Object]types.Object{} // variable holding a file descriptor -> descriptor variable whose file it is
			nameOwner := map[types.Object]types.Object{} // variable holding a name -> descriptor variable it was read from
			rootVar := func(e ast.Expr) types.Object {
				for {
					switch x := ast.Unparen(e).(type) {
					case *ast.Ident:
						return info.Uses[x]
					case *ast.SelectorExpr:
						e = x.X
					case *ast.CallExpr:
						e = x.Fun
						if se, ok := x.Fun.(*ast.SelectorExpr); ok {
							e = se.X
						} else {
							return nil
						}
					default:
						return nil
					}
				}
			}
			// owner of a name expression: X.Base, X.GetName(), or a variable derived from one
			var nameOf func(e ast.Expr) types.Object
			nameOf = func(e ast.Expr) types.Object {
				switch x := ast.Unparen(e).(type) {
				case *ast.Ident:
					return nameOwner[info.Uses[x]]
				case *ast.SelectorExpr:
					if nameGetters[x.Sel.Name] {
						return rootVar(x.X)
					}
				case *ast.CallExpr:
					if se, ok := x.Fun.(*ast.SelectorExpr); ok && nameGetters[se.Sel.Name] && len(x.Args) == 0 {
						return rootVar(se.X)
					}
				}
				return nil
			}
			// owner of a file-descriptor expression
			var fileOf func(e ast.Expr) types.Object
			fileOf = func(e ast.Expr) types.Object {
				switch x := ast.Unparen(e).(type) {
				case *ast.Ident:
					return fileOwner[info.Uses[x]]
				case *ast.CallExpr:
					se, ok := x.Fun.(*ast.SelectorExpr)
					if !ok {
						return nil
					}
					switch se.Sel.Name {
					case "LookupFD":
						if len(x.Args) == 1 {
							switch a := ast.Unparen(x.Args[0]).(type) {
							case *ast.SelectorExpr:
								if a.Sel.Name == "Filepath" {
									return rootVar(a.X)
								}
							case *ast.CallExpr:
								if s2, ok := a.Fun.(*ast.SelectorExpr); ok && s2.Sel.Name == "GetFilepath" {
									return rootVar(s2.X)
								}
							}
						}
					case "GetIncludeFD":
						return fileOf(se.X) // the include table belongs to the same owner's file
					}
				}
				return nil
			}
			ast.Inspect(fd.Body, func(nd ast.Node) bool {
				switch x := nd.(type) {
				case *ast.AssignStmt:
					if len(x.Rhs) == 1 {
						// prefix, name := utils.ParseAlias(X.GetName())
						if call, ok := x.Rhs[0].(*ast.CallExpr); ok && len(call.Args) == 1 {
							if o := nameOf(call.Args[0]); o != nil {
								for _, l := range x.Lhs {
									if id, ok := l.(*ast.Ident); ok {
										if v := info.Defs[id]; v != nil {
											nameOwner[v] = o
										} else if v := info.Uses[id]; v != nil {
											nameOwner[v] = o
										}
									}
								}
							}
						}
						if len(x.Lhs) == 1 {
							if id, ok := x.Lhs[0].(*ast.Ident); ok {
								v := info.Defs[id]
								if v == nil {
									v = info.Uses[id]
								}
								if v != nil {
									if o := fileOf(x.Rhs[0]); o != nil {
										fileOwner[v] = o
									}
									if o := nameOf(x.Rhs[0]); o != nil {
										nameOwner[v] = o
									}
								}
							}
						}
					}
				case *ast.CallExpr:
					se, ok := x.Fun.(*ast.SelectorExpr)
					if !ok || !strings.HasPrefix(se.Sel.Name, "Get") || !strings.HasSuffix(se.Sel.Name, "Descriptor") || len(x.Args) < 1 {
						return true
					}
					if tv, ok := info.Types[se.X]; !ok || !strings.HasSuffix(tv.Type.String(), "FileDescriptor") {
						return true
					}
					fo, no := fileOf(se.X), nameOf(x.Args[0])
					if fo == nil || no == nil {
						return true
					}
					n++
					key := fmt.Sprintf("%s/%s#%d", core.FuncKey(reflRel, fd), se.Sel.Name, n)
					c.Decide(fo == no, "lookup-in-owner-file", key, c.Prog.Rel(x.Pos()),
						"the name of "+no.Name()+" is looked up in "+fo.Name()+"'s own file",
						fmt.Sprintf("a name read from %s is looked up in the file of %s: names are relative to the file their descriptor came from, so a chain that continues in an included file resolves against the wrong file (wrong or missing descriptor)", no.Name(), fo.Name()))
				}
				return true
			})
		}
	}
	c.Min("lookup-in-owner-file", 5)
}

// ---------------------------------------------------------------------------------------------------------------------
// C17: text from the IDL must never be interpreted as a printf format. Rule: every call of a fmt formatting function, and
// of any function of the dump package that forwards its own format parameter to one, has a constant format string (or
// forwards the wrapper's own format parameter).
func c17formats(c *core.Check) {
	rel := "tool/trimmer/dump"
	pk := c.Prog.Pkg(rel)
	if pk == nil {
		c.Unknown("anchor", rel, "", "package missing")
		return
	}
	info := pk.TypesInfo
	fmtIdx := map[string]int{"Sprintf": 0, "Printf": 0, "Errorf": 0, "Fprintf": 1, "Fscanf": 1, "Sscanf": 1}
	// wrappers: functions whose parameter is passed as the format of a formatting call
	wrappers := map[types.Object]int{}
	formatParamOf := func(fd *ast.FuncDecl) map[types.Object]int {
		m := map[types.Object]int{}
		i := 0
		for _, f := range fd.Type.Params.List {
			for _, nm := range f.Names {
				if o := info.Defs[nm]; o != nil && types.Identical(o.Type(), types.Typ[types.String]) {
					m[o] = i
				}
				i++
			}
		}
		return m
	}
	formatIndex := func(call *ast.CallExpr) (int, bool) {
		fn := rules.Callee(info, call)
		if fn == nil {
			return 0, false
		}
		if fn.Pkg() != nil && fn.Pkg().Path() == "fmt" {
			i, ok := fmtIdx[fn.Name()]
			return i, ok
		}
		if i, ok := wrappers[fn]; ok {
			return i, true
		}
		return 0, false
	}
	var decls []*ast.FuncDecl
	for _, f := range pk.Syntax {
		if strings.HasSuffix(c.Prog.Fset.File(f.Pos()).Name(), "_test.go") {
			continue
		}
		for _, d := range f.Decls {
			if fd, ok := d.(*ast.FuncDecl); ok && fd.Body != nil {
				decls = append(decls, fd)
			}
		}
	}
	for changed := true; changed; {
		changed = false
		for _, fd := range decls {
			params := formatParamOf(fd)
			obj := info.Defs[fd.Name]
			if _, done := wrappers[obj]; done || len(params) == 0 {
				continue
			}
			for _, call := range rules.Calls(fd.Body, true) {
				if i, ok := formatIndex(call); ok && i < len(call.Args) {
					if id, ok := ast.Unparen(call.Args[i]).(*ast.Ident); ok {
						if pi, ok := params[info.Uses[id]]; ok {
							wrappers[obj] = pi
							changed = true
						}
					}
				}
			}
		}
	}
	n := 0
	per := map[string]int{}
	for _, fd := range decls {
		params := formatParamOf(fd)
		for _, call := range rules.Calls(fd.Body, true) {
			i, ok := formatIndex(call)
			if !ok || i >= len(call.Args) {
				continue
			}
			n++
			arg := ast.Unparen(call.Args[i])
			fk := core.FuncKey(rel, fd)
			per[fk]++
			key := fmt.Sprintf("%s/format#%d", fk, per[fk])
			okc := false
			if tv, ok := info.Types[arg]; ok && tv.Value != nil {
				okc = true
			}
			if id, ok := arg.(*ast.Ident); ok {
				if _, isParam := params[info.Uses[id]]; isParam && wrappers[info.Defs[fd.Name]] == params[info.Uses[id]] {
					if _, w := wrappers[info.Defs[fd.Name]]; w {
						okc = true // the wrapper forwards its own format parameter
					}
				}
			}
			c.Decide(okc, "format-is-constant", key, c.Prog.Rel(call.Pos()), "constant format string",
				"the format argument "+rules.ExprString(arg)+" is not a constant: IDL text (a literal, identifier or annotation value) containing '%' is interpreted as formatting verbs, so the dumped IDL differs from the source or no longer parses")
		}
	}
	c.Analysed["format_call_sites"] = n
	c.Min("format-is-constant", 10)
}

var _ = token.ADD

// ---------------------------------------------------------------------------------------------------------------------
// C01/C06: two generated packages are the same package iff their import paths are equal; the last path segment (the Go
// package name) is shared by unrelated namespaces (`a.base` and `b.base`). Rule: wherever the backend compares two
// results of CodeUtils.Import to decide whether a reference needs a package qualifier, both operands are the import path
// (second result), never the package name (first result).
func pkgIdentityByPath(c *core.Check) {
	pk := c.Prog.Pkg(golangRel)
	info := pk.TypesInfo
	n := 0
	for _, f := range pk.Syntax {
		if strings.HasSuffix(c.Prog.Fset.File(f.Pos()).Name(), "_test.go") {
			continue
		}
		for _, d := range f.Decls {
			fd, ok := d.(*ast.FuncDecl)
			if !ok || fd.Body == nil {
				continue
			}
			kind := map[types.Object]string{}
			ast.Inspect(fd.Body, func(nd ast.Node) bool {
				as, ok := nd.(*ast.AssignStmt)
				if !ok || len(as.Rhs) != 1 {
					return true
				}
				call, ok := as.Rhs[0].(*ast.CallExpr)
				if !ok {
					return true
				}
				fn := rules.Callee(info, call)
				if fn == nil || fn.Pkg() != pk.Types {
					return true
				}
				set := func(e ast.Expr, k string) {
					if id, ok := e.(*ast.Ident); ok && id.Name != "_" {
						o := info.Defs[id]
						if o == nil {
							o = info.Uses[id]
						}
						if o != nil {
							kind[o] = k
						}
					}
				}
				switch fn.Name() {
				case "Import":
					if len(as.Lhs) == 2 {
						set(as.Lhs[0], "package name")
						set(as.Lhs[1], "import path")
					}
				case "NamespaceToPackage":
					if len(as.Lhs) == 1 {
						set(as.Lhs[0], "package name")
					}
				case "NamespaceToFullImportPath", "NamespaceToImportPath":
					if len(as.Lhs) == 1 {
						set(as.Lhs[0], "import path")
					}
				}
				return true
			})
			if len(kind) == 0 {
				continue
			}
			per := 0
			ast.Inspect(fd.Body, func(nd ast.Node) bool {
				be, ok := nd.(*ast.BinaryExpr)
				if !ok || (be.Op != token.EQL && be.Op != token.NEQ) {
					return true
				}
				x, ok1 := ast.Unparen(be.X).(*ast.Ident)
				y, ok2 := ast.Unparen(be.Y).(*ast.Ident)
				if !ok1 || !ok2 {
					return true
				}
				kx, ky := kind[info.Uses[x]], kind[info.Uses[y]]
				if kx == "" || ky == "" {
					return true
				}
				n++
				per++
				key := fmt.Sprintf("%s/compare#%d", core.FuncKey(golangRel, fd), per)
				c.Decide(kx == "import path" && ky == "import path", "package-identity-by-path", key, c.Prog.Rel(be.Pos()),
					"package identity is decided by comparing import paths",
					fmt.Sprintf("%s (%s) is compared with %s (%s): two different namespaces that end in the same segment have the same package name, so a reference across them is emitted without its package qualifier (undefined identifier, or silently bound to a local namesake)", x.Name, kx, y.Name, ky))
				return true
			})
		}
	}
	c.Min("package-identity-by-path", 1)
}

// ---------------------------------------------------------------------------------------------------------------------
// C05: a typedef reference is the pair (AST it points into, alias). Rule (go/ssa): the Typedef whose category is copied
// into a reference in (*resolver).ResolveTypedef is, on every path, the result of GetTypedef called on the pair's own AST
// with the pair's own name. A value from any other source (a cache keyed by the alias only, another file's table) can
// belong to a different file that happens to declare the same alias.
func c05typedefSource(c *core.Check) {
	prog := c.Prog
	prog.SSA()
	pkg := prog.SSAPkg("semantic")
	fn := rules.Method(prog.SSA(), pkg, "resolver", "ResolveTypedef")
	key := "semantic.(resolver).ResolveTypedef/typedef-source"
	if fn == nil || len(fn.Params) < 2 {
		c.Unknown("anchor", "semantic.(resolver).ResolveTypedef", "", "missing")
		return
	}
	pair := fn.Params[1]
	fieldLoad := func(v ssa.Value) (ssa.Value, string) { // *(&X.f) -> X, f
		u, ok := v.(*ssa.UnOp)
		if !ok || u.Op != token.MUL {
			return nil, ""
		}
		fa, ok := u.X.(*ssa.FieldAddr)
		if !ok {
			return nil, ""
		}
		pt, ok := fa.X.Type().Underlying().(*types.Pointer)
		if !ok {
			return nil, ""
		}
		st, ok := pt.Elem().Underlying().(*types.Struct)
		if !ok {
			return nil, ""
		}
		return fa.X, st.Field(fa.Field).Name()
	}
	// stores to <pair>.Type.Category
	n := 0
	for _, b := range fn.Blocks {
		for _, ins := range b.Instrs {
			st, ok := ins.(*ssa.Store)
			if !ok {
				continue
			}
			fa, ok := st.Addr.(*ssa.FieldAddr)
			if !ok {
				continue
			}
			base, f := fieldLoad(fa.X)
			pt, _ := fa.X.Type().Underlying().(*types.Pointer)
			if base != ssa.Value(pair) || f != "Type" || pt == nil {
				continue
			}
			if s, ok := pt.Elem().Underlying().(*types.Struct); !ok || s.Field(fa.Field).Name() != "Category" {
				continue
			}
			n++
			// the stored value: *(&(*(&TD.Type)).Category)
			var bad []string
			tdType, f1 := fieldLoad(st.Val)
			if f1 != "Category" {
				// FieldAddr on a loaded pointer: st.Val = load(FieldAddr(load(FieldAddr(TD, Type)), Category))
				bad = append(bad, "the stored category is not read from a typedef's type")
			} else {
				td, f2 := fieldLoad(tdType)
				if f2 != "Type" {
					bad = append(bad, "the stored category is not read from a typedef's type")
				} else {
					seen := map[ssa.Value]bool{}
					var walk func(v ssa.Value)
					walk = func(v ssa.Value) {
						if seen[v] {
							return
						}
						seen[v] = true
						switch x := v.(type) {
						case *ssa.Phi:
							for _, e := range x.Edges {
								walk(e)
							}
						case *ssa.Extract:
							call, ok := x.Tuple.(*ssa.Call)
							if ok && call.Call.StaticCallee() != nil && call.Call.StaticCallee().Name() == "GetTypedef" && len(call.Call.Args) == 2 {
								rb, rf := fieldLoad(call.Call.Args[0])
								nb, nf := fieldLoad(call.Call.Args[1])
								if rb == ssa.Value(pair) && rf == "AST" && nb == ssa.Value(pair) && nf == "Name" {
									return
								}
								bad = append(bad, "GetTypedef is not called on the pair's own AST with the pair's own name")
								return
							}
							bad = append(bad, "a typedef obtained from "+x.Tuple.String())
						default:
							bad = append(bad, "a typedef obtained from "+v.String())
						}
					}
					walk(td)
				}
			}
			c.Decide(len(bad) == 0, "typedef-lookup-in-own-ast", fmt.Sprintf("%s#%d", key, n), prog.Rel(st.Pos()),
				"the category comes from t.AST.GetTypedef(t.Name) on every path",
				fmt.Sprintf("the category copied into the reference comes from %v: a typedef of the same alias in another file can be used, so the reference gets the wrong category", bad))
		}
	}
	c.Min("typedef-lookup-in-own-ast", 1)
}

// ---------------------------------------------------------------------------------------------------------------------
// C15: the generated file lists its Go types in one slice and the runtime pairs that slice with the descriptors by index.
// Rule: the order of the `range .<Kind>` blocks that emit the slice in the reflection template equals the order in which
// registerGoTypes consumes it (the kinds appended to structList, then the kinds of the following loops by growing offset).
func c15goTypesOrder(c *core.Check, st *tmpl.Static) {
	key := "thrift_reflection.(GlobalDescriptor).registerGoTypes~reflection template go_types"
	// reader
	fd := c.Prog.FuncDecl(reflRel, "GlobalDescriptor.registerGoTypes")
	if fd == nil {
		c.Unknown("anchor", reflRel+".(GlobalDescriptor).registerGoTypes", "", "missing")
		return
	}
	info := c.Prog.Pkg(reflRel).TypesInfo
	var reader []string
	type loop struct {
		kind  string
		terms int
	}
	var loops []loop
	ast.Inspect(fd.Body, func(n ast.Node) bool {
		switch x := n.(type) {
		case *ast.CallExpr:
			if rules.IsBuiltin(info, x, "append") && len(x.Args) == 2 && x.Ellipsis.IsValid() {
				if se, ok := x.Args[1].(*ast.SelectorExpr); ok {
					reader = append(reader, se.Sel.Name)
				}
			}
		case *ast.RangeStmt:
			se, ok := x.X.(*ast.SelectorExpr)
			if !ok {
				return true
			}
			// the offset of this kind inside goTypes: number of len(...) terms in the index expression
			terms := -1
			ast.Inspect(x.Body, func(m ast.Node) bool {
				if ix, ok := m.(*ast.IndexExpr); ok && rules.ExprString(ix.X) == "goTypes" {
					terms = strings.Count(rules.ExprString(ix.Index), "len(")
				}
				return true
			})
			if terms >= 0 {
				loops = append(loops, loop{se.Sel.Name, terms})
			}
		}
		return true
	})
	sort.SliceStable(loops, func(i, j int) bool { return loops[i].terms < loops[j].terms })
	for _, l := range loops {
		if l.terms > 0 { // the loop over structList itself has offset 0 and is already described by the appends
			reader = append(reader, l.kind)
		}
	}
	// writer
	set := st.Sets["reflection"]
	if set == nil {
		c.Unknown("go-types-order", key, "", "reflection template set missing")
		return
	}
	var writer []string
	var trees []*parse.Tree
	if set.Root != nil {
		trees = append(trees, set.Root)
	}
	var names []string
	for n := range set.Defs {
		names = append(names, n)
	}
	sort.Strings(names)
	for _, n := range names {
		trees = append(trees, set.Defs[n])
	}
	for _, t := range trees {
		if t == nil || t.Root == nil || len(writer) > 0 {
			continue
		}
		var walk func(l *parse.ListNode)
		walk = func(l *parse.ListNode) {
			if l == nil {
				return
			}
			in := false
			for _, n := range l.Nodes {
				switch x := n.(type) {
				case *parse.TextNode:
					txt := string(x.Text)
					if strings.Contains(txt, "_go_types = []interface{}{") {
						in = true
						writer = nil
					} else if in && strings.Contains(txt, "\n}") {
						in = false
					}
				case *parse.RangeNode:
					if in && len(x.Pipe.Cmds) == 1 && len(x.Pipe.Cmds[0].Args) == 1 {
						if f, ok := x.Pipe.Cmds[0].Args[0].(*parse.FieldNode); ok && len(f.Ident) == 1 {
							writer = append(writer, f.Ident[0])
						}
					} else if !in {
						walk(x.List)
						walk(x.ElseList)
					}
				case *parse.IfNode:
					if !in {
						walk(x.List)
						walk(x.ElseList)
					}
				case *parse.WithNode:
					if !in {
						walk(x.List)
						walk(x.ElseList)
					}
				}
			}
		}
		walk(t.Root)
	}
	if len(reader) < 3 || len(writer) < 3 {
		c.Unknown("go-types-order", key, c.Prog.Rel(fd.Pos()), fmt.Sprintf("could not read both orders (runtime %v, template %v)", reader, writer))
		return
	}
	c.Decide(strings.Join(reader, ",") == strings.Join(writer, ","), "go-types-order", key, c.Prog.Rel(fd.Pos()),
		"the template emits "+strings.Join(writer, ", ")+" in the order registerGoTypes pairs them with the descriptors",
		fmt.Sprintf("the template lists the Go types in the order %v but registerGoTypes pairs them by index in the order %v: Go types are registered under the descriptors of another kind (a union's Go type maps to an exception's descriptor)", writer, reader))
}

// ---------------------------------------------------------------------------------------------------------------------
// C12: an item "belongs to the previous file" iff it has no name (top of Feed's loop: `!f.IsSetName()` files it under
// `last`). When a duplicate file is dropped, exactly those items must be dropped with it. Rule: every inner loop of Feed
// that skips ahead over files[...] (it advances the outer index) classifies items with the same predicate as the attach
// test, after abstracting the item expression.
func c12skipPredicate(c *core.Check) {
	fd := c.Prog.FuncDecl("generator", "FileManager.Feed")
	key := "generator.(FileManager).Feed/skip-predicate"
	if fd == nil {
		c.Unknown("anchor", "generator.(FileManager).Feed", "", "missing")
		return
	}
	info := c.Prog.Pkg("generator").TypesInfo
	_ = info
	// the outer loop and its item variable
	var outer *ast.ForStmt
	ast.Inspect(fd.Body, func(n ast.Node) bool {
		if fs, ok := n.(*ast.ForStmt); ok && outer == nil {
			outer = fs
		}
		return outer == nil
	})
	if outer == nil || outer.Post == nil {
		c.Unknown("skip-predicate-agrees", key, c.Prog.Rel(fd.Pos()), "outer loop not found")
		return
	}
	inc, ok := outer.Post.(*ast.IncDecStmt)
	if !ok {
		c.Unknown("skip-predicate-agrees", key, c.Prog.Rel(fd.Pos()), "outer loop has no index increment")
		return
	}
	idx := rules.ExprString(inc.X)
	item := ""
	for _, s := range outer.Body.List {
		if as, ok := s.(*ast.AssignStmt); ok && len(as.Lhs) == 1 && len(as.Rhs) == 1 {
			if ix, ok := as.Rhs[0].(*ast.IndexExpr); ok && rules.ExprString(ix.Index) == idx {
				item = rules.ExprString(as.Lhs[0])
				break
			}
		}
	}
	// attach predicate: the first if of the body that tests the item
	norm := func(e ast.Expr) string {
		t := rules.ExprString(e)
		// abstract the item: `f` or files[<any index>]
		var b strings.Builder
		for i := 0; i < len(t); {
			if strings.HasPrefix(t[i:], "files[") {
				d := 0
				j := i + len("files")
				for ; j < len(t); j++ {
					if t[j] == '[' {
						d++
					} else if t[j] == ']' {
						d--
						if d == 0 {
							j++
							break
						}
					}
				}
				b.WriteString("ITEM")
				i = j
				continue
			}
			b.WriteByte(t[i])
			i++
		}
		s := b.String()
		if item != "" {
			s = strings.ReplaceAll(s, item+".", "ITEM.")
		}
		return s
	}
	attach := ""
	for _, s := range outer.Body.List {
		if is, ok := s.(*ast.IfStmt); ok && item != "" && strings.Contains(rules.ExprString(is.Cond), item+".") {
			attach = norm(is.Cond)
			break
		}
	}
	if attach == "" {
		c.Unknown("skip-predicate-agrees", key, c.Prog.Rel(outer.Pos()), "the test that files unnamed items under the previous file was not found")
		return
	}
	n := 0
	ast.Inspect(outer.Body, func(nd ast.Node) bool {
		fs, ok := nd.(*ast.ForStmt)
		if !ok || fs.Cond == nil {
			return true
		}
		// a skipping loop advances the outer index in its body or post
		adv := false
		ast.Inspect(fs, func(m ast.Node) bool {
			if id, ok := m.(*ast.IncDecStmt); ok && rules.ExprString(id.X) == idx {
				adv = true
			}
			return true
		})
		if !adv {
			return true
		}
		n++
		// the item test of the loop condition: the conjunct that mentions files[...]
		var tests []string
		var split func(e ast.Expr)
		split = func(e ast.Expr) {
			if be, ok := ast.Unparen(e).(*ast.BinaryExpr); ok && be.Op == token.LAND {
				split(be.X)
				split(be.Y)
				return
			}
			if strings.Contains(rules.ExprString(e), "files[") && strings.Contains(rules.ExprString(e), "(") {
				tests = append(tests, norm(e))
			}
		}
		split(fs.Cond)
		okp := len(tests) == 1 && tests[0] == attach
		c.Decide(okp, "skip-predicate-agrees", fmt.Sprintf("%s#%d", key, n), c.Prog.Rel(fs.Pos()),
			"items skipped with a dropped duplicate are classified by "+attach+", the test that attaches items to the previous file",
			fmt.Sprintf("the loop that discards the items following a dropped duplicate tests %v, but an item belongs to the previous file iff %s: named patches for other files are swallowed (or unnamed ones survive and are attached to the wrong file)", tests, attach))
		return true
	})
	c.Min("skip-predicate-agrees", 1)
}

// ---------------------------------------------------------------------------------------------------------------------
// C14: integer keys and indices must survive the JSON transport exactly. Rule: the transport code (serdes.go) never converts a
// floating-point value to an integer type (a key decoded through float64 loses precision above 2^53).
func c14noFloatKeys(c *core.Check) {
	pk := c.Prog.Pkg(fmRel)
	info := pk.TypesInfo
	convs, bad := 0, 0
	for _, f := range pk.Syntax {
		// the JSON/binary transport of masks lives in serdes.go
		if !strings.HasSuffix(c.Prog.Fset.File(f.Pos()).Name(), "/serdes.go") {
			continue
		}
		for _, d := range f.Decls {
			fd, ok := d.(*ast.FuncDecl)
			if !ok || fd.Body == nil {
				continue
			}
			per := 0
			ast.Inspect(fd.Body, func(n ast.Node) bool {
				call, ok := n.(*ast.CallExpr)
				if !ok || len(call.Args) != 1 {
					return true
				}
				tv, ok := info.Types[call.Fun]
				if !ok || !tv.IsType() {
					return true
				}
				to, ok1 := tv.Type.Underlying().(*types.Basic)
				from, ok2 := info.Types[call.Args[0]].Type.Underlying().(*types.Basic)
				if !ok1 || !ok2 || to.Info()&types.IsInteger == 0 {
					return true
				}
				convs++
				if from.Info()&types.IsFloat != 0 {
					bad++
					per++
					c.Bad("integer-keys-exact", fmt.Sprintf("%s/float-to-int#%d", core.FuncKey(fmRel, fd), per), c.Prog.Rel(call.Pos()),
						rules.ExprString(call)+" converts a floating-point value to an integer: an index or int-map key that went through float64 (for instance when decoded from JSON) is not exact above 2^53, so the mask selects a neighbouring key after a JSON round trip")
				}
				return true
			})
		}
	}
	c.Analysed["integer_conversions_examined"] = convs
	if bad == 0 {
		c.OK("integer-keys-exact", fmRel+"/integer-conversions", fmRel, fmt.Sprintf("%d integer conversions, none from a floating-point value", convs))
	}
	if convs < 3 {
		c.Unknown("integer-keys-exact", fmRel+"/vacuity", "", fmt.Sprintf("only %d integer conversions found", convs))
	}
}

// ---------------------------------------------------------------------------------------------------------------------
// C17: DumpIDL passes the whole text through html.UnescapeString at the end, so every '&' written must have been escaped
// to "&amp;" on the way in. Rule: in stringBuilder.writeString the escaping ReplaceAll(str, "&", "&amp;") is unconditional
// or guarded by nothing but "str contains '&'".
func c17ampEscaped(c *core.Check) {
	rel := "tool/trimmer/dump"
	fd := c.Prog.FuncDecl(rel, "stringBuilder.writeString")
	key := rel + ".(stringBuilder).writeString/amp-escape"
	if fd == nil {
		c.Unknown("anchor", rel+".(stringBuilder).writeString", "", "missing")
		return
	}
	info := c.Prog.Pkg(rel).TypesInfo
	// only armed while the output is unescaped as a whole
	unesc := false
	c.Prog.AllFuncDecls(rel, func(_ *ast.File, d *ast.FuncDecl) {
		for _, call := range rules.Calls(d.Body, true) {
			if fn := rules.Callee(info, call); fn != nil && fn.Pkg() != nil && fn.Pkg().Path() == "html" && fn.Name() == "UnescapeString" {
				unesc = true
			}
		}
	})
	if !unesc {
		c.OKTrivial("amp-escaped-before-unescape", key, c.Prog.Rel(fd.Pos()), "the dumper no longer unescapes HTML entities")
		return
	}
	var repl *ast.CallExpr
	for _, call := range rules.Calls(fd.Body, true) {
		if fn := rules.Callee(info, call); fn != nil && fn.Pkg() != nil && fn.Pkg().Path() == "strings" && fn.Name() == "ReplaceAll" && len(call.Args) == 3 {
			if a, ok := rules.ConstString(info, call.Args[1]); ok && a == "&" {
				if b, ok := rules.ConstString(info, call.Args[2]); ok && b == "&amp;" {
					repl = call
				}
			}
		}
	}
	if repl == nil {
		c.Bad("amp-escaped-before-unescape", key, c.Prog.Rel(fd.Pos()), "writeString does not escape '&' although the dumped text is passed through html.UnescapeString: `&lt` or `&copy=1` inside a literal is rewritten to another character")
		return
	}
	// guards around the replacement
	var guards []string
	var path []ast.Node
	ast.Inspect(fd.Body, func(n ast.Node) bool {
		if n == nil {
			path = path[:len(path)-1]
			return true
		}
		path = append(path, n)
		if n == ast.Node(repl) {
			for _, p := range path {
				if is, ok := p.(*ast.IfStmt); ok && is.Body.Pos() <= repl.Pos() && repl.End() <= is.Body.End() {
					guards = append(guards, rules.ExprString(is.Cond))
				}
			}
		}
		return true
	})
	// a guard is acceptable when it is a single test (no && / ||) that only asks whether the text contains '&'
	okg := true
	for _, gtxt := range guards {
		t := strings.ReplaceAll(gtxt, " ", "")
		if strings.Contains(t, "&&") || strings.Contains(t, "||") || !(strings.Contains(t, `"&"`) || strings.Contains(t, `'&'`)) || strings.Contains(t, "[") {
			okg = false
		}
	}
	c.Decide(okg, "amp-escaped-before-unescape", key, c.Prog.Rel(repl.Pos()), fmt.Sprintf("'&' is escaped whenever it occurs (guards: %v)", guards),
		fmt.Sprintf("the escaping of '&' is skipped unless %v: html.UnescapeString also rewrites semicolon-less entities (&lt, &copy, &reg…), so such text in a literal or annotation changes when the dumped IDL is re-parsed", guards))
}

// ---------------------------------------------------------------------------------------------------------------------
// C01: Go has no map type whose key is a slice or a map. A Thrift map with a list/set/map key therefore has no Go
// representation; the only way to keep "whatever is generated compiles" is to refuse such a field. Rule: the function that
// spells Go container types returns an error for a container-typed key.
func c01mapKeyRepresentable(c *core.Check) {
	fd := c.Prog.FuncDecl(golangRel, "Resolver.getContainerTypeName")
	key := golangRel + ".(Resolver).getContainerTypeName/map-key"
	if fd == nil {
		c.Unknown("anchor", golangRel+".(Resolver).getContainerTypeName", "", "missing")
		return
	}
	info := c.Prog.Pkg(golangRel).TypesInfo
	rejects := false
	ast.Inspect(fd.Body, func(n ast.Node) bool {
		is, ok := n.(*ast.IfStmt)
		if !ok {
			return true
		}
		t := rules.ExprString(is.Cond)
		if !strings.Contains(t, "KeyType") || !(strings.Contains(t, "IsContainerType") || strings.Contains(t, "Category_List") || strings.Contains(t, "Category_Map") || strings.Contains(t, "Category_Set") || strings.Contains(t, "IsList") || strings.Contains(t, "IsMap") || strings.Contains(t, "IsSet")) {
			return true
		}
		for _, s := range is.Body.List {
			if rs, ok := s.(*ast.ReturnStmt); ok && len(rs.Results) > 0 && !rules.IsNil(info, rs.Results[len(rs.Results)-1]) {
				rejects = true
			}
		}
		return true
	})
	c.Decide(rejects, "map-key-representable", key, c.Prog.Rel(fd.Pos()), "a container-typed map key is refused with an error",
		"a map whose key type is a list, set or map is spelled map[[]T]V / map[map[K]V]W, which is not a Go type: thriftgo exits 0 and the generated package does not compile (with with_field_mask it does not even parse)")
}
