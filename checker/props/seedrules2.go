package props

import (
	"fmt"
	"go/ast"
	"go/token"
	"go/types"
	"sort"
	"strings"

	"golang.org/x/tools/go/ssa"

	"verif/checker/core"
	"verif/checker/rules"
)

// ---------------------------------------------------------------------------------------------------------------------
// C14: the mask is a trie: every node reachable from a parent is owned by exactly that parent slot. If one node is stored
// in two slots, a later path through one key silently extends the other. Rule: every store of a *FieldMask into trie
// storage (a map element, an array/slice element, the `all` field) stores a node allocated in the same function, and the
// allocation is executed once per store (it is not hoisted out of a loop the store sits in).
func c14trie(c *core.Check) {
	prog := c.Prog
	prog.SSA()
	pkg := prog.SSAPkg(fmRel)
	if pkg == nil {
		c.Unknown("anchor", fmRel, "", "package missing")
		return
	}
	isMaskPtr := func(t types.Type) bool {
		p, ok := t.(*types.Pointer)
		if !ok {
			return false
		}
		n, ok := p.Elem().(*types.Named)
		return ok && n.Obj().Name() == "FieldMask" && n.Obj().Pkg() != nil && strings.HasSuffix(n.Obj().Pkg().Path(), "/"+fmRel)
	}
	var fns []*ssa.Function
	for fn := range ssautilAllFunctions(prog, pkg) {
		if fn.Pos().IsValid() && !strings.HasSuffix(prog.Fset.File(fn.Pos()).Name(), "_test.go") {
			fns = append(fns, fn)
		}
	}
	sort.Slice(fns, func(i, j int) bool { return fns[i].Pos() < fns[j].Pos() })
	per := map[string]int{}
	for _, fn := range fns {
		for _, b := range fn.Blocks {
			for _, ins := range b.Instrs {
				var val ssa.Value
				var slot string
				switch x := ins.(type) {
				case *ssa.MapUpdate:
					if isMaskPtr(x.Value.Type()) {
						val, slot = x.Value, "map element"
					}
				case *ssa.Store:
					if !isMaskPtr(x.Val.Type()) {
						break
					}
					switch a := x.Addr.(type) {
					case *ssa.IndexAddr:
						// the fixed head array of fieldMap (temporary slices of nodes are not trie storage)
						if pt, ok := a.X.Type().Underlying().(*types.Pointer); ok {
							if _, isArr := pt.Elem().Underlying().(*types.Array); isArr {
								val, slot = x.Val, "array element"
							}
						}
					case *ssa.FieldAddr:
						if pt, ok := a.X.Type().Underlying().(*types.Pointer); ok {
							if nt, ok := pt.Elem().(*types.Named); ok && nt.Obj().Name() == "FieldMask" {
								val, slot = x.Val, "field "+nt.Underlying().(*types.Struct).Field(a.Field).Name()
							}
						}
					}
				}
				if val == nil {
					continue
				}
				fname := core.Module
				_ = fname
				k := fmRel + "." + fn.RelString(pkg.Pkg)
				per[k]++
				key := fmt.Sprintf("%s/store#%d (%s)", k, per[k], slot)
				where := prog.Rel(ins.Pos())
				if kc, ok := val.(*ssa.Const); ok && kc.IsNil() {
					c.OKTrivial("trie-children-unshared", key, where, "stores nil")
					continue
				}
				al, ok := val.(*ssa.Alloc)
				if !ok {
					c.Bad("trie-children-unshared", key, where, fmt.Sprintf("the node stored into the %s is %s, not a node allocated for this slot: the same node can end up under two keys, and a later path through one key changes what the other key selects", slot, val.String()))
					continue
				}
				// the allocation must run once per store: no cycle through the store's block that avoids the allocation's block
				shared := false
				if al.Block() != b {
					reach := rules.ReachableFrom(b, func(x *ssa.BasicBlock) bool { return x == al.Block() })
					shared = reach[b]
				}
				c.Decide(!shared, "trie-children-unshared", key, where, "stores a node allocated for this slot", "the stored node is allocated outside the loop that stores it: every iteration stores the same node under another key")
			}
		}
	}
	c.Min("trie-children-unshared", 6)
}

// ---------------------------------------------------------------------------------------------------------------------
// C15: names inside a descriptor (a service's base, a type's name) are relative to the file that descriptor was built
// from. Rule: wherever a name taken from descriptor X is looked up in a file descriptor obtained through
// LookupFD(Y.Filepath), X and Y are the same variable.
func c15ownerFile(c *core.Check) {
	pk := c.Prog.Pkg(reflRel)
	info := pk.TypesInfo
	nameGetters := map[string]bool{"Base": true, "GetBase": true, "Name": true, "GetName": true}
	n := 0
	for _, f := range pk.Syntax {
		fname := c.Prog.Fset.File(f.Pos()).Name()
		if strings.HasSuffix(fname, "_test.go") || strings.HasSuffix(fname, "/descriptor.go") || strings.Contains(fname, "/k-") {
			continue
		}
		for _, d := range f.Decls {
			fd, ok := d.(*ast.FuncDecl)
			if !ok || fd.Body == nil {
				continue
			}
			fileOwner := map[types.Object]types.Object{} // variable holding a file descriptor -> descriptor variable whose file it is
			nameOwner := map[types.Object]types.Object{} // variable holding a name -> descriptor variable it was read from
			rootVar := func(e ast.Expr) types.Object {
				for {
					switch x := ast.Unparen(e).(type) {
					case *ast.Ident:
						return info.Uses[x]
					case *ast.SelectorExpr:
						e = x.X
					case *ast.CallExpr:
						e = x.Fun
						if se, ok := x.Fun.(*ast.SelectorExpr); ok {
							e = se.X
						} else {
							return nil
						}
					default:
						return nil
					}
				}
			}
			// owner of a name expression: X.Base, X.GetName(), or a variable derived from one
			var nameOf func(e ast.Expr) types.Object
			nameOf = func(e ast.Expr) types.Object {
				switch x := ast.Unparen(e).(type) {
				case *ast.Ident:
					return nameOwner[info.Uses[x]]
				case *ast.SelectorExpr:
					if nameGetters[x.Sel.Name] {
						return rootVar(x.X)
					}
				case *ast.CallExpr:
					if se, ok := x.Fun.(*ast.SelectorExpr); ok && nameGetters[se.Sel.Name] && len(x.Args) == 0 {
						return rootVar(se.X)
					}
				}
				return nil
			}
			// owner of a file-descriptor expression
			var fileOf func(e ast.Expr) types.Object
			fileOf = func(e ast.Expr) types.Object {
				switch x := ast.Unparen(e).(type) {
				case *ast.Ident:
					return fileOwner[info.Uses[x]]
				case *ast.CallExpr:
					se, ok := x.Fun.(*ast.SelectorExpr)
					if !ok {
						return nil
					}
					switch se.Sel.Name {
					case "LookupFD":
						if len(x.Args) == 1 {
							switch a := ast.Unparen(x.Args[0]).(type) {
							case *ast.SelectorExpr:
								if a.Sel.Name == "Filepath" {
									return rootVar(a.X)
								}
							case *ast.CallExpr:
								if s2, ok := a.Fun.(*ast.SelectorExpr); ok && s2.Sel.Name == "GetFilepath" {
									return rootVar(s2.X)
								}
							}
						}
					case "GetIncludeFD":
						return fileOf(se.X) // the include table belongs to the same owner's file
					}
				}
				return nil
			}
			ast.Inspect(fd.Body, func(nd ast.Node) bool {
				switch x := nd.(type) {
				case *ast.AssignStmt:
					if len(x.Rhs) == 1 {
						// prefix, name := utils.ParseAlias(X.GetName())
						if call, ok := x.Rhs[0].(*ast.CallExpr); ok && len(call.Args) == 1 {
							if o := nameOf(call.Args[0]); o != nil {
								for _, l := range x.Lhs {
									if id, ok := l.(*ast.Ident); ok {
										if v := info.Defs[id]; v != nil {
											nameOwner[v] = o
										} else if v := info.Uses[id]; v != nil {
											nameOwner[v] = o
										}
									}
								}
							}
						}
						if len(x.Lhs) == 1 {
							if id, ok := x.Lhs[0].(*ast.Ident); ok {
								v := info.Defs[id]
								if v == nil {
									v = info.Uses[id]
								}
								if v != nil {
									if o := fileOf(x.Rhs[0]); o != nil {
										fileOwner[v] = o
									}
									if o := nameOf(x.Rhs[0]); o != nil {
										nameOwner[v] = o
									}
								}
							}
						}
					}
				case *ast.CallExpr:
					se, ok := x.Fun.(*ast.SelectorExpr)
					if !ok || !strings.HasPrefix(se.Sel.Name, "Get") || !strings.HasSuffix(se.Sel.Name, "Descriptor") || len(x.Args) < 1 {
						return true
					}
					if tv, ok := info.Types[se.X]; !ok || !strings.HasSuffix(tv.Type.String(), "FileDescriptor") {
						return true
					}
					fo, no := fileOf(se.X), nameOf(x.Args[0])
					if fo == nil || no == nil {
						return true
					}
					n++
					key := fmt.Sprintf("%s/%s#%d", core.FuncKey(reflRel, fd), se.Sel.Name, n)
					c.Decide(fo == no, "lookup-in-owner-file", key, c.Prog.Rel(x.Pos()),
						"the name of "+no.Name()+" is looked up in "+fo.Name()+"'s own file",
						fmt.Sprintf("a name read from %s is looked up in the file of %s: names are relative to the file their descriptor came from, so a chain that continues in an included file resolves against the wrong file (wrong or missing descriptor)", no.Name(), fo.Name()))
				}
				return true
			})
		}
	}
	c.Min("lookup-in-owner-file", 5)
}

// ---------------------------------------------------------------------------------------------------------------------
// C17: text from the IDL must never be interpreted as a printf format. Rule: every call of a fmt formatting function, and
// of any function of the dump package that forwards its own format parameter to one, has a constant format string (or
// forwards the wrapper's own format parameter).
func c17formats(c *core.Check) {
	rel := "tool/trimmer/dump"
	pk := c.Prog.Pkg(rel)
	if pk == nil {
		c.Unknown("anchor", rel, "", "package missing")
		return
	}
	info := pk.TypesInfo
	fmtIdx := map[string]int{"Sprintf": 0, "Printf": 0, "Errorf": 0, "Fprintf": 1, "Fscanf": 1, "Sscanf": 1}
	// wrappers: functions whose parameter is passed as the format of a formatting call
	wrappers := map[types.Object]int{}
	formatParamOf := func(fd *ast.FuncDecl) map[types.Object]int {
		m := map[types.Object]int{}
		i := 0
		for _, f := range fd.Type.Params.List {
			for _, nm := range f.Names {
				if o := info.Defs[nm]; o != nil && types.Identical(o.Type(), types.Typ[types.String]) {
					m[o] = i
				}
				i++
			}
		}
		return m
	}
	formatIndex := func(call *ast.CallExpr) (int, bool) {
		fn := rules.Callee(info, call)
		if fn == nil {
			return 0, false
		}
		if fn.Pkg() != nil && fn.Pkg().Path() == "fmt" {
			i, ok := fmtIdx[fn.Name()]
			return i, ok
		}
		if i, ok := wrappers[fn]; ok {
			return i, true
		}
		return 0, false
	}
	var decls []*ast.FuncDecl
	for _, f := range pk.Syntax {
		if strings.HasSuffix(c.Prog.Fset.File(f.Pos()).Name(), "_test.go") {
			continue
		}
		for _, d := range f.Decls {
			if fd, ok := d.(*ast.FuncDecl); ok && fd.Body != nil {
				decls = append(decls, fd)
			}
		}
	}
	for changed := true; changed; {
		changed = false
		for _, fd := range decls {
			params := formatParamOf(fd)
			obj := info.Defs[fd.Name]
			if _, done := wrappers[obj]; done || len(params) == 0 {
				continue
			}
			for _, call := range rules.Calls(fd.Body, true) {
				if i, ok := formatIndex(call); ok && i < len(call.Args) {
					if id, ok := ast.Unparen(call.Args[i]).(*ast.Ident); ok {
						if pi, ok := params[info.Uses[id]]; ok {
							wrappers[obj] = pi
							changed = true
						}
					}
				}
			}
		}
	}
	n := 0
	per := map[string]int{}
	for _, fd := range decls {
		params := formatParamOf(fd)
		for _, call := range rules.Calls(fd.Body, true) {
			i, ok := formatIndex(call)
			if !ok || i >= len(call.Args) {
				continue
			}
			n++
			arg := ast.Unparen(call.Args[i])
			fk := core.FuncKey(rel, fd)
			per[fk]++
			key := fmt.Sprintf("%s/format#%d", fk, per[fk])
			okc := false
			if tv, ok := info.Types[arg]; ok && tv.Value != nil {
				okc = true
			}
			if id, ok := arg.(*ast.Ident); ok {
				if _, isParam := params[info.Uses[id]]; isParam && wrappers[info.Defs[fd.Name]] == params[info.Uses[id]] {
					if _, w := wrappers[info.Defs[fd.Name]]; w {
						okc = true // the wrapper forwards its own format parameter
					}
				}
			}
			c.Decide(okc, "format-is-constant", key, c.Prog.Rel(call.Pos()), "constant format string",
				"the format argument "+rules.ExprString(arg)+" is not a constant: IDL text (a literal, identifier or annotation value) containing '%' is interpreted as formatting verbs, so the dumped IDL differs from the source or no longer parses")
		}
	}
	c.Analysed["format_call_sites"] = n
	c.Min("format-is-constant", 10)
}

var _ = token.ADD

// ---------------------------------------------------------------------------------------------------------------------
// C01/C06: two generated packages are the same package iff their import paths are equal; the last path segment (the Go
// package name) is shared by unrelated namespaces (`a.base` and `b.base`). Rule: wherever the backend compares two
// results of CodeUtils.Import to decide whether a reference needs a package qualifier, both operands are the import path
// (second result), never the package name (first result).
func pkgIdentityByPath(c *core.Check) {
	pk := c.Prog.Pkg(golangRel)
	info := pk.TypesInfo
	n := 0
	for _, f := range pk.Syntax {
		if strings.HasSuffix(c.Prog.Fset.File(f.Pos()).Name(), "_test.go") {
			continue
		}
		for _, d := range f.Decls {
			fd, ok := d.(*ast.FuncDecl)
			if !ok || fd.Body == nil {
				continue
			}
			kind := map[types.Object]string{}
			ast.Inspect(fd.Body, func(nd ast.Node) bool {
				as, ok := nd.(*ast.AssignStmt)
				if !ok || len(as.Rhs) != 1 {
					return true
				}
				call, ok := as.Rhs[0].(*ast.CallExpr)
				if !ok {
					return true
				}
				fn := rules.Callee(info, call)
				if fn == nil || fn.Pkg() != pk.Types {
					return true
				}
				set := func(e ast.Expr, k string) {
					if id, ok := e.(*ast.Ident); ok && id.Name != "_" {
						o := info.Defs[id]
						if o == nil {
							o = info.Uses[id]
						}
						if o != nil {
							kind[o] = k
						}
					}
				}
				switch fn.Name() {
				case "Import":
					if len(as.Lhs) == 2 {
						set(as.Lhs[0], "package name")
						set(as.Lhs[1], "import path")
					}
				case "NamespaceToPackage":
					if len(as.Lhs) == 1 {
						set(as.Lhs[0], "package name")
					}
				case "NamespaceToFullImportPath", "NamespaceToImportPath":
					if len(as.Lhs) == 1 {
						set(as.Lhs[0], "import path")
					}
				}
				return true
			})
			if len(kind) == 0 {
				continue
			}
			per := 0
			ast.Inspect(fd.Body, func(nd ast.Node) bool {
				be, ok := nd.(*ast.BinaryExpr)
				if !ok || (be.Op != token.EQL && be.Op != token.NEQ) {
					return true
				}
				x, ok1 := ast.Unparen(be.X).(*ast.Ident)
				y, ok2 := ast.Unparen(be.Y).(*ast.Ident)
				if !ok1 || !ok2 {
					return true
				}
				kx, ky := kind[info.Uses[x]], kind[info.Uses[y]]
				if kx == "" || ky == "" {
					return true
				}
				n++
				per++
				key := fmt.Sprintf("%s/compare#%d", core.FuncKey(golangRel, fd), per)
				c.Decide(kx == "import path" && ky == "import path", "package-identity-by-path", key, c.Prog.Rel(be.Pos()),
					"package identity is decided by comparing import paths",
					fmt.Sprintf("%s (%s) is compared with %s (%s): two different namespaces that end in the same segment have the same package name, so a reference across them is emitted without its package qualifier (undefined identifier, or silently bound to a local namesake)", x.Name, kx, y.Name, ky))
				return true
			})
		}
	}
	c.Min("package-identity-by-path", 1)
}

// ---------------------------------------------------------------------------------------------------------------------
// C05: a typedef reference is the pair (AST it points into, alias). Rule (go/ssa): the Typedef whose category is copied
// into a reference in (*resolver).ResolveTypedef is, on every path, the result of GetTypedef called on the pair's own AST
// with the pair's own name. A value from any other source (a cache keyed by the alias only, another file's table) can
// belong to a different file that happens to declare the same alias.
func c05typedefSource(c *core.Check) {
	prog := c.Prog
	prog.SSA()
	pkg := prog.SSAPkg("semantic")
	fn := rules.Method(prog.SSA(), pkg, "resolver", "ResolveTypedef")
	key := "semantic.(resolver).ResolveTypedef/typedef-source"
	if fn == nil || len(fn.Params) < 2 {
		c.Unknown("anchor", "semantic.(resolver).ResolveTypedef", "", "missing")
		return
	}
	pair := fn.Params[1]
	fieldLoad := func(v ssa.Value) (ssa.Value, string) { // *(&X.f) -> X, f
		u, ok := v.(*ssa.UnOp)
		if !ok || u.Op != token.MUL {
			return nil, ""
		}
		fa, ok := u.X.(*ssa.FieldAddr)
		if !ok {
			return nil, ""
		}
		pt, ok := fa.X.Type().Underlying().(*types.Pointer)
		if !ok {
			return nil, ""
		}
		st, ok := pt.Elem().Underlying().(*types.Struct)
		if !ok {
			return nil, ""
		}
		return fa.X, st.Field(fa.Field).Name()
	}
	// stores to <pair>.Type.Category
	n := 0
	for _, b := range fn.Blocks {
		for _, ins := range b.Instrs {
			st, ok := ins.(*ssa.Store)
			if !ok {
				continue
			}
			fa, ok := st.Addr.(*ssa.FieldAddr)
			if !ok {
				continue
			}
			base, f := fieldLoad(fa.X)
			pt, _ := fa.X.Type().Underlying().(*types.Pointer)
			if base != ssa.Value(pair) || f != "Type" || pt == nil {
				continue
			}
			if s, ok := pt.Elem().Underlying().(*types.Struct); !ok || s.Field(fa.Field).Name() != "Category" {
				continue
			}
			n++
			// the stored value: *(&(*(&TD.Type)).Category)
			var bad []string
			tdType, f1 := fieldLoad(st.Val)
			if f1 != "Category" {
				// FieldAddr on a loaded pointer: st.Val = load(FieldAddr(load(FieldAddr(TD, Type)), Category))
				bad = append(bad, "the stored category is not read from a typedef's type")
			} else {
				td, f2 := fieldLoad(tdType)
				if f2 != "Type" {
					bad = append(bad, "the stored category is not read from a typedef's type")
				} else {
					seen := map[ssa.Value]bool{}
					var walk func(v ssa.Value)
					walk = func(v ssa.Value) {
						if seen[v] {
							return
						}
						seen[v] = true
						switch x := v.(type) {
						case *ssa.Phi:
							for _, e := range x.Edges {
								walk(e)
							}
						case *ssa.Extract:
							call, ok := x.Tuple.(*ssa.Call)
							if ok && call.Call.StaticCallee() != nil && call.Call.StaticCallee().Name() == "GetTypedef" && len(call.Call.Args) == 2 {
								rb, rf := fieldLoad(call.Call.Args[0])
								nb, nf := fieldLoad(call.Call.Args[1])
								if rb == ssa.Value(pair) && rf == "AST" && nb == ssa.Value(pair) && nf == "Name" {
									return
								}
								bad = append(bad, "GetTypedef is not called on the pair's own AST with the pair's own name")
								return
							}
							bad = append(bad, "a typedef obtained from "+x.Tuple.String())
						default:
							bad = append(bad, "a typedef obtained from "+v.String())
						}
					}
					walk(td)
				}
			}
			c.Decide(len(bad) == 0, "typedef-lookup-in-own-ast", fmt.Sprintf("%s#%d", key, n), prog.Rel(st.Pos()),
				"the category comes from t.AST.GetTypedef(t.Name) on every path",
				fmt.Sprintf("the category copied into the reference comes from %v: a typedef of the same alias in another file can be used, so the reference gets the wrong category", bad))
		}
	}
	c.Min("typedef-lookup-in-own-ast", 1)
}
