package props

import (
	"fmt"
	"go/ast"
	"go/token"
	"go/types"
	"sort"
	"strings"
	"text/template/parse"

	"golang.org/x/tools/go/ssa"

	"verif/checker/core"
	"verif/checker/rules"
	"verif/checker/tmpl"
)

// ---------------------------------------------------------------------------------------------------------------------
// C14: the mask is a trie: every node reachable from a parent is owned by exactly that parent slot. If one node is stored
// in two slots, a later path through one key silently extends the other. Rule: every store of a *FieldMask into trie
// storage (a map element, an array/slice element, the `all` field) stores a node allocated in the same function, and the
// allocation is executed once per store (it is not hoisted out of a loop the store sits in).
func c14trie(c *core.Check) {
	prog := c.Prog
	prog.SSA()
	pkg := prog.SSAPkg(fmRel)
	if pkg == nil {
		c.Unknown("anchor", fmRel, "", "package missing")
		return
	}
	isMaskPtr := func(t types.Type) bool {
		p, ok := t.(*types.Pointer)
		if !ok {
			return false
		}
		n, ok := p.Elem().(*types.Named)
		return ok && n.Obj().Name() == "FieldMask" && n.Obj().Pkg() != nil && strings.HasSuffix(n.Obj().Pkg().Path(), "/"+fmRel)
	}
	var fns []*ssa.Function
	for fn := range ssautilAllFunctions(prog, pkg) {
		if fn.Pos().IsValid() && !strings.HasSuffix(prog.Fset.File(fn.Pos()).Name(), "_test.go") {
			fns = append(fns, fn)
		}
	}
	sort.Slice(fns, func(i, j int) bool { return fns[i].Pos() < fns[j].Pos() })
	per := map[string]int{}
	for _, fn := range fns {
		for _, b := range fn.Blocks {
			for _, ins := range b.Instrs {
				var val ssa.Value
				var slot string
				switch x := ins.(type) {
				case *ssa.MapUpdate:
					if isMaskPtr(x.Value.Type()) {
						val, slot = x.Value, "map element"
					}
				case *ssa.Store:
					if !isMaskPtr(x.Val.Type()) {
						break
					}
					switch a := x.Addr.(type) {
					case *ssa.IndexAddr:
						// the fixed head array of fieldMap (temporary slices of nodes are not trie storage)
						if pt, ok := a.X.Type().Underlying().(*types.Pointer); ok {
							if _, isArr := pt.Elem().Underlying().(*types.Array); isArr {
								val, slot = x.Val, "array element"
							}
						}
					case *ssa.FieldAddr:
						if pt, ok := a.X.Type().Underlying().(*types.Pointer); ok {
							if nt, ok := pt.Elem().(*types.Named); ok && nt.Obj().Name() == "FieldMask" {
								val, slot = x.Val, "field "+nt.Underlying().(*types.Struct).Field(a.Field).Name()
							}
						}
					}
				}
				if val == nil {
					continue
				}
				fname := core.Module
				_ = fname
				k := fmRel + "." + fn.RelString(pkg.Pkg)
				per[k]++
				key := fmt.Sprintf("%s/store#%d (%s)", k, per[k], slot)
				where := prog.Rel(ins.Pos())
				if kc, ok := val.(*ssa.Const); ok && kc.IsNil() {
					c.OKTrivial("trie-children-unshared", key, where, "stores nil")
					continue
				}
				al, ok := val.(*ssa.Alloc)
				if !ok {
					c.Bad("trie-children-unshared", key, where, fmt.Sprintf("the node stored into the %s is %s, not a node allocated for this slot: the same node can end up under two keys, and a later path through one key changes what the other key selects", slot, val.String()))
					continue
				}
				// the allocation must run once per store: no cycle through the store's block that avoids the allocation's block
				shared := false
				if al.Block() != b {
					reach := rules.ReachableFrom(b, func(x *ssa.BasicBlock) bool { return x == al.Block() })
					shared = reach[b]
				}
				c.Decide(!shared, "trie-children-unshared", key, where, "stores a node allocated for this slot", "the stored node is allocated outside the loop that stores it: every iteration stores the same node under another key")
			}
		}
	}
	c.Min("trie-children-unshared", 6)
}

// ---------------------------------------------------------------------------------------------------------------------
// C15: names inside a descriptor (a service's base, a type's name) are relative to the file that descriptor was built
// from. Rule: wherever a name taken from descriptor X is looked up in a file descriptor obtained through
// LookupFD(Y.Filepath), X and Y are the same variable.
func c15ownerFile(c *core.Check) {
	pk := c.Prog.Pkg(reflRel)
	info := pk.TypesInfo
	nameGetters := map[string]bool{"Base": true, "GetBase": true, "Name": true, "GetName": true}
	n := 0
	for _, f := range pk.Syntax {
		fname := c.Prog.Fset.File(f.Pos()).Name()
		if strings.HasSuffix(fname, "_test.go") || strings.HasSuffix(fname, "/descriptor.go") || strings.Contains(fname, "/k-") {
			continue
		}
		for _, d := range f.Decls {
			fd, ok := d.(*ast.FuncDecl)
			if !ok || fd.Body == nil {
				continue
			}
			fileOwner := map[types.Object]types.Object{} // variable holding a file descriptor -> descriptor variable whose file it is
			nameOwner := map[types.Object]types.Object{} // variable holding a name -> descriptor variable it was read from
			rootVar := func(e ast.Expr) types.Object {
				for {
					switch x := ast.Unparen(e).(type) {
					case *ast.Ident:
						return info.Uses[x]
					case *ast.SelectorExpr:
						e = x.X
					case *ast.CallExpr:
						e = x.Fun
						if se, ok := x.Fun.(*ast.SelectorExpr); ok {
							e = se.X
						} else {
							return nil
						}
					default:
						return nil
					}
				}
			}
			// owner of a name expression: X.Base, X.GetName(), or a variable derived from one
			var nameOf func(e ast.Expr) types.Object
			nameOf = func(e ast.Expr) types.Object {
				switch x := ast.Unparen(e).(type) {
				case *ast.Ident:
					return nameOwner[info.Uses[x]]
				case *ast.SelectorExpr:
					if nameGetters[x.Sel.Name] {
						return rootVar(x.X)
					}
				case *ast.CallExpr:
					if se, ok := x.Fun.(*ast.SelectorExpr); ok && nameGetters[se.Sel.Name] && len(x.Args) == 0 {
						return rootVar(se.X)
					}
				}
				return nil
			}
			// owner of a file-descriptor expression
			var fileOf func(e ast.Expr) types.Object
			fileOf = func(e ast.Expr) types.Object {
				switch x := ast.Unparen(e).(type) {
				case *ast.Ident:
					return fileOwner[info.Uses[x]]
				case *ast.CallExpr:
					se, ok := x.Fun.(*ast.SelectorExpr)
					if !ok {
						return nil
					}
					switch se.Sel.Name {
					case "LookupFD":
						if len(x.Args) == 1 {
							switch a := ast.Unparen(x.Args[0]).(type) {
							case *ast.SelectorExpr:
								if a.Sel.Name == "Filepath" {
									return rootVar(a.X)
								}
							case *ast.CallExpr:
								if s2, ok := a.Fun.(*ast.SelectorExpr); ok && s2.Sel.Name == "GetFilepath" {
									return rootVar(s2.X)
								}
							}
						}
					case "GetIncludeFD":
						return fileOf(se.X) // the include table belongs to the same owner's file
					}
				}
				return nil
			}
			ast.Inspect(fd.Body, func(nd ast.Node) bool {
				switch x := nd.(type) {
				case *ast.AssignStmt:
					if len(x.Rhs) == 1 {
						// prefix, name := utils.ParseAlias(X.GetName())
						if call, ok := x.Rhs[0].(*ast.CallExpr); ok && len(call.Args) == 1 {
							if o := nameOf(call.Args[0]); o != nil {
								for _, l := range x.Lhs {
									if id, ok := l.(*ast.Ident); ok {
										if v := info.Defs[id]; v != nil {
											nameOwner[v] = o
										} else if v := info.Uses[id]; v != nil {
											nameOwner[v] = o
										}
									}
								}
							}
						}
						if len(x.Lhs) == 1 {
							if id, ok := x.Lhs[0].(*ast.Ident); ok {
								v := info.Defs[id]
								if v == nil {
									v = info.Uses[id]
								}
								if v != nil {
									if o := fileOf(x.Rhs[0]); o != nil {
										fileOwner[v] = o
									}
									if o := nameOf(x.Rhs[0]); o != nil {
										nameOwner[v] = o
									}
								}
							}
						}
					}
				case *ast.CallExpr:
					se, ok := x.Fun.(*ast.SelectorExpr)
					if !ok || !strings.HasPrefix(se.Sel.Name, "Get") || !strings.HasSuffix(se.Sel.Name, "Descriptor") || len(x.Args) < 1 {
						return true
					}
					if tv, ok := info.Types[se.X]; !ok || !strings.HasSuffix(tv.Type.String(), "FileDescriptor") {
						return true
					}
					fo, no := fileOf(se.X), nameOf(x.Args[0])
					if fo == nil || no == nil {
						return true
					}
					n++
					key := fmt.Sprintf("%s/%s#%d", core.FuncKey(reflRel, fd), se.Sel.Name, n)
					c.Decide(fo == no, "lookup-in-owner-file", key, c.Prog.Rel(x.Pos()),
						"the name of "+no.Name()+" is looked up in "+fo.Name()+"'s own file",
						fmt.Sprintf("a name read from %s is looked up in the file of %s: names are relative to the file their descriptor came from, so a chain that continues in an included file resolves against the wrong file (wrong or missing descriptor)", no.Name(), fo.Name()))
				}
				return true
			})
		}
	}
	c.Min("lookup-in-owner-file", 5)
}

// ---------------------------------------------------------------------------------------------------------------------
// C17: text from the IDL must never be interpreted as a printf format. Rule: every call of a fmt formatting function, and
// of any function of the dump package that forwards its own format parameter to one, has a constant format string (or
// forwards the wrapper's own format parameter).
func c17formats(c *core.Check) {
	rel := "tool/trimmer/dump"
	pk := c.Prog.Pkg(rel)
	if pk == nil {
		c.Unknown("anchor", rel, "", "package missing")
		return
	}
	info := pk.TypesInfo
	fmtIdx := map[string]int{"Sprintf": 0, "Printf": 0, "Errorf": 0, "Fprintf": 1, "Fscanf": 1, "Sscanf": 1}
	// wrappers: functions whose parameter is passed as the format of a formatting call
	wrappers := map[types.Object]int{}
	formatParamOf := func(fd *ast.FuncDecl) map[types.Object]int {
		m := map[types.Object]int{}
		i := 0
		for _, f := range fd.Type.Params.List {
			for _, nm := range f.Names {
				if o := info.Defs[nm]; o != nil && types.Identical(o.Type(), types.Typ[types.String]) {
					m[o] = i
				}
				i++
			}
		}
		return m
	}
	formatIndex := func(call *ast.CallExpr) (int, bool) {
		fn := rules.Callee(info, call)
		if fn == nil {
			return 0, false
		}
		if fn.Pkg() != nil && fn.Pkg().Path() == "fmt" {
			i, ok := fmtIdx[fn.Name()]
			return i, ok
		}
		if i, ok := wrappers[fn]; ok {
			return i, true
		}
		return 0, false
	}
	var decls []*ast.FuncDecl
	for _, f := range pk.Syntax {
		if strings.HasSuffix(c.Prog.Fset.File(f.Pos()).Name(), "_test.go") {
			continue
		}
		for _, d := range f.Decls {
			if fd, ok := d.(*ast.FuncDecl); ok && fd.Body != nil {
				decls = append(decls, fd)
			}
		}
	}
	for changed := true; changed; {
		changed = false
		for _, fd := range decls {
			params := formatParamOf(fd)
			obj := info.Defs[fd.Name]
			if _, done := wrappers[obj]; done || len(params) == 0 {
				continue
			}
			for _, call := range rules.Calls(fd.Body, true) {
				if i, ok := formatIndex(call); ok && i < len(call.Args) {
					if id, ok := ast.Unparen(call.Args[i]).(*ast.Ident); ok {
						if pi, ok := params[info.Uses[id]]; ok {
							wrappers[obj] = pi
							changed = true
						}
					}
				}
			}
		}
	}
	n := 0
	per := map[string]int{}
	for _, fd := range decls {
		params := formatParamOf(fd)
		for _, call := range rules.Calls(fd.Body, true) {
			i, ok := formatIndex(call)
			if !ok || i >= len(call.Args) {
				continue
			}
			n++
			arg := ast.Unparen(call.Args[i])
			fk := core.FuncKey(rel, fd)
			per[fk]++
			key := fmt.Sprintf("%s/format#%d", fk, per[fk])
			okc := false
			if tv, ok := info.Types[arg]; ok && tv.Value != nil {
				okc = true
			}
			if id, ok := arg.(*ast.Ident); ok {
				if _, isParam := params[info.Uses[id]]; isParam && wrappers[info.Defs[fd.Name]] == params[info.Uses[id]] {
					if _, w := wrappers[info.Defs[fd.Name]]; w {
						okc = true // the wrapper forwards its own format parameter
					}
				}
			}
			c.Decide(okc, "format-is-constant", key, c.Prog.Rel(call.Pos()), "constant format string",
				"the format argument "+rules.ExprString(arg)+" is not a constant: IDL text (a literal, identifier or annotation value) containing '%' is interpreted as formatting verbs, so the dumped IDL differs from the source or no longer parses")
		}
	}
	c.Analysed["format_call_sites"] = n
	c.Min("format-is-constant", 10)
}

var _ = token.ADD

// ---------------------------------------------------------------------------------------------------------------------
// C01/C06: two generated packages are the same package iff their import paths are equal; the last path segment (the Go
// package name) is shared by unrelated namespaces (`a.base` and `b.base`). Rule: wherever the backend compares two
// results of CodeUtils.Import to decide whether a reference needs a package qualifier, both operands are the import path
// (second result), never the package name (first result).
func pkgIdentityByPath(c *core.Check) {
	pk := c.Prog.Pkg(golangRel)
	info := pk.TypesInfo
	n := 0
	for _, f := range pk.Syntax {
		if strings.HasSuffix(c.Prog.Fset.File(f.Pos()).Name(), "_test.go") {
			continue
		}
		for _, d := range f.Decls {
			fd, ok := d.(*ast.FuncDecl)
			if !ok || fd.Body == nil {
				continue
			}
			kind := map[types.Object]string{}
			ast.Inspect(fd.Body, func(nd ast.Node) bool {
				as, ok := nd.(*ast.AssignStmt)
				if !ok || len(as.Rhs) != 1 {
					return true
				}
				call, ok := as.Rhs[0].(*ast.CallExpr)
				if !ok {
					return true
				}
				fn := rules.Callee(info, call)
				if fn == nil || fn.Pkg() != pk.Types {
					return true
				}
				set := func(e ast.Expr, k string) {
					if id, ok := e.(*ast.Ident); ok && id.Name != "_" {
						o := info.Defs[id]
						if o == nil {
							o = info.Uses[id]
						}
						if o != nil {
							kind[o] = k
						}
					}
				}
				switch fn.Name() {
				case "Import":
					if len(as.Lhs) == 2 {
						set(as.Lhs[0], "package name")
						set(as.Lhs[1], "import path")
					}
				case "NamespaceToPackage":
					if len(as.Lhs) == 1 {
						set(as.Lhs[0], "package name")
					}
				case "NamespaceToFullImportPath", "NamespaceToImportPath":
					if len(as.Lhs) == 1 {
						set(as.Lhs[0], "import path")
					}
				}
				return true
			})
			if len(kind) == 0 {
				continue
			}
			per := 0
			ast.Inspect(fd.Body, func(nd ast.Node) bool {
				be, ok := nd.(*ast.BinaryExpr)
				if !ok || (be.Op != token.EQL && be.Op != token.NEQ) {
					return true
				}
				x, ok1 := ast.Unparen(be.X).(*ast.Ident)
				y, ok2 := ast.Unparen(be.Y).(*ast.Ident)
				if !ok1 || !ok2 {
					return true
				}
				kx, ky := kind[info.Uses[x]], kind[info.Uses[y]]
				if kx == "" || ky == "" {
					return true
				}
				n++
				per++
				key := fmt.Sprintf("%s/compare#%d", core.FuncKey(golangRel, fd), per)
				c.Decide(kx == "import path" && ky == "import path", "package-identity-by-path", key, c.Prog.Rel(be.Pos()),
					"package identity is decided by comparing import paths",
					fmt.Sprintf("%s (%s) is compared with %s (%s): two different namespaces that end in the same segment have the same package name, so a reference across them is emitted without its package qualifier (undefined identifier, or silently bound to a local namesake)", x.Name, kx, y.Name, ky))
				return true
			})
		}
	}
	if n == 0 {
		c.Bad("package-identity-by-path", golangRel+".(Resolver).getIDValue/no-path-comparison", "generator/golang/resolver.go",
			"no place in the backend compares the import paths of two IDL files any more: whether a constant or enum value needs a package qualifier is decided by something else (scope identity, namespace text, package name), which differs from package identity for files that share a Go namespace or whose namespaces end in the same segment")
	}
}

// ---------------------------------------------------------------------------------------------------------------------
// C05: a typedef reference is the pair (AST it points into, alias). Rule (go/ssa): the Typedef whose category is copied
// into a reference in (*resolver).ResolveTypedef is, on every path, the result of GetTypedef called on the pair's own AST
// with the pair's own name. A value from any other source (a cache keyed by the alias only, another file's table) can
// belong to a different file that happens to declare the same alias.
func c05typedefSource(c *core.Check) {
	prog := c.Prog
	prog.SSA()
	pkg := prog.SSAPkg("semantic")
	fn := rules.Method(prog.SSA(), pkg, "resolver", "ResolveTypedef")
	key := "semantic.(resolver).ResolveTypedef/typedef-source"
	if fn == nil || len(fn.Params) < 2 {
		c.Unknown("anchor", "semantic.(resolver).ResolveTypedef", "", "missing")
		return
	}
	pair := fn.Params[1]
	fieldLoad := func(v ssa.Value) (ssa.Value, string) { // *(&X.f) -> X, f
		u, ok := v.(*ssa.UnOp)
		if !ok || u.Op != token.MUL {
			return nil, ""
		}
		fa, ok := u.X.(*ssa.FieldAddr)
		if !ok {
			return nil, ""
		}
		pt, ok := fa.X.Type().Underlying().(*types.Pointer)
		if !ok {
			return nil, ""
		}
		st, ok := pt.Elem().Underlying().(*types.Struct)
		if !ok {
			return nil, ""
		}
		return fa.X, st.Field(fa.Field).Name()
	}
	// stores to <pair>.Type.Category
	n := 0
	for _, b := range fn.Blocks {
		for _, ins := range b.Instrs {
			st, ok := ins.(*ssa.Store)
			if !ok {
				continue
			}
			fa, ok := st.Addr.(*ssa.FieldAddr)
			if !ok {
				continue
			}
			base, f := fieldLoad(fa.X)
			pt, _ := fa.X.Type().Underlying().(*types.Pointer)
			if base != ssa.Value(pair) || f != "Type" || pt == nil {
				continue
			}
			if s, ok := pt.Elem().Underlying().(*types.Struct); !ok || s.Field(fa.Field).Name() != "Category" {
				continue
			}
			n++
			// the stored value: *(&(*(&TD.Type)).Category)
			var bad []string
			tdType, f1 := fieldLoad(st.Val)
			if f1 != "Category" {
				// FieldAddr on a loaded pointer: st.Val = load(FieldAddr(load(FieldAddr(TD, Type)), Category))
				bad = append(bad, "the stored category is not read from a typedef's type")
			} else {
				td, f2 := fieldLoad(tdType)
				if f2 != "Type" {
					bad = append(bad, "the stored category is not read from a typedef's type")
				} else {
					seen := map[ssa.Value]bool{}
					var walk func(v ssa.Value)
					walk = func(v ssa.Value) {
						if seen[v] {
							return
						}
						seen[v] = true
						switch x := v.(type) {
						case *ssa.Phi:
							for _, e := range x.Edges {
								walk(e)
							}
						case *ssa.Extract:
							call, ok := x.Tuple.(*ssa.Call)
							if ok && call.Call.StaticCallee() != nil && call.Call.StaticCallee().Name() == "GetTypedef" && len(call.Call.Args) == 2 {
								rb, rf := fieldLoad(call.Call.Args[0])
								nb, nf := fieldLoad(call.Call.Args[1])
								if rb == ssa.Value(pair) && rf == "AST" && nb == ssa.Value(pair) && nf == "Name" {
									return
								}
								bad = append(bad, "GetTypedef is not called on the pair's own AST with the pair's own name")
								return
							}
							bad = append(bad, "a typedef obtained from "+x.Tuple.String())
						default:
							bad = append(bad, "a typedef obtained from "+v.String())
						}
					}
					walk(td)
				}
			}
			c.Decide(len(bad) == 0, "typedef-lookup-in-own-ast", fmt.Sprintf("%s#%d", key, n), prog.Rel(st.Pos()),
				"the category comes from t.AST.GetTypedef(t.Name) on every path",
				fmt.Sprintf("the category copied into the reference comes from %v: a typedef of the same alias in another file can be used, so the reference gets the wrong category", bad))
		}
	}
	c.Min("typedef-lookup-in-own-ast", 1)
}

// ---------------------------------------------------------------------------------------------------------------------
// C15: the generated file lists its Go types in one slice and the runtime pairs that slice with the descriptors by index.
// Rule: the order of the `range .<Kind>` blocks that emit the slice in the reflection template equals the order in which
// registerGoTypes consumes it (the kinds appended to structList, then the kinds of the following loops by growing offset).
func c15goTypesOrder(c *core.Check, st *tmpl.Static) {
	key := "thrift_reflection.(GlobalDescriptor).registerGoTypes~reflection template go_types"
	// reader
	fd := c.Prog.FuncDecl(reflRel, "GlobalDescriptor.registerGoTypes")
	if fd == nil {
		c.Unknown("anchor", reflRel+".(GlobalDescriptor).registerGoTypes", "", "missing")
		return
	}
	info := c.Prog.Pkg(reflRel).TypesInfo
	var reader []string
	type loop struct {
		kind  string
		terms int
	}
	var loops []loop
	ast.Inspect(fd.Body, func(n ast.Node) bool {
		switch x := n.(type) {
		case *ast.CallExpr:
			if rules.IsBuiltin(info, x, "append") && len(x.Args) == 2 && x.Ellipsis.IsValid() {
				if se, ok := x.Args[1].(*ast.SelectorExpr); ok {
					reader = append(reader, se.Sel.Name)
				}
			}
		case *ast.RangeStmt:
			se, ok := x.X.(*ast.SelectorExpr)
			if !ok {
				return true
			}
			// the offset of this kind inside goTypes: number of len(...) terms in the index expression
			terms := -1
			ast.Inspect(x.Body, func(m ast.Node) bool {
				if ix, ok := m.(*ast.IndexExpr); ok && rules.ExprString(ix.X) == "goTypes" {
					terms = strings.Count(rules.ExprString(ix.Index), "len(")
				}
				return true
			})
			if terms >= 0 {
				loops = append(loops, loop{se.Sel.Name, terms})
			}
		}
		return true
	})
	sort.SliceStable(loops, func(i, j int) bool { return loops[i].terms < loops[j].terms })
	for _, l := range loops {
		if l.terms > 0 { // the loop over structList itself has offset 0 and is already described by the appends
			reader = append(reader, l.kind)
		}
	}
	// writer
	set := st.Sets["reflection"]
	if set == nil {
		c.Unknown("go-types-order", key, "", "reflection template set missing")
		return
	}
	var writer []string
	var trees []*parse.Tree
	if set.Root != nil {
		trees = append(trees, set.Root)
	}
	var names []string
	for n := range set.Defs {
		names = append(names, n)
	}
	sort.Strings(names)
	for _, n := range names {
		trees = append(trees, set.Defs[n])
	}
	for _, t := range trees {
		if t == nil || t.Root == nil || len(writer) > 0 {
			continue
		}
		var walk func(l *parse.ListNode)
		walk = func(l *parse.ListNode) {
			if l == nil {
				return
			}
			in := false
			for _, n := range l.Nodes {
				switch x := n.(type) {
				case *parse.TextNode:
					txt := string(x.Text)
					if strings.Contains(txt, "_go_types = []interface{}{") {
						in = true
						writer = nil
					} else if in && strings.Contains(txt, "\n}") {
						in = false
					}
				case *parse.RangeNode:
					if in && len(x.Pipe.Cmds) == 1 && len(x.Pipe.Cmds[0].Args) == 1 {
						if f, ok := x.Pipe.Cmds[0].Args[0].(*parse.FieldNode); ok && len(f.Ident) == 1 {
							writer = append(writer, f.Ident[0])
						}
					} else if !in {
						walk(x.List)
						walk(x.ElseList)
					}
				case *parse.IfNode:
					if !in {
						walk(x.List)
						walk(x.ElseList)
					}
				case *parse.WithNode:
					if !in {
						walk(x.List)
						walk(x.ElseList)
					}
				}
			}
		}
		walk(t.Root)
	}
	if len(reader) < 3 || len(writer) < 3 {
		c.Unknown("go-types-order", key, c.Prog.Rel(fd.Pos()), fmt.Sprintf("could not read both orders (runtime %v, template %v)", reader, writer))
		return
	}
	c.Decide(strings.Join(reader, ",") == strings.Join(writer, ","), "go-types-order", key, c.Prog.Rel(fd.Pos()),
		"the template emits "+strings.Join(writer, ", ")+" in the order registerGoTypes pairs them with the descriptors",
		fmt.Sprintf("the template lists the Go types in the order %v but registerGoTypes pairs them by index in the order %v: Go types are registered under the descriptors of another kind (a union's Go type maps to an exception's descriptor)", writer, reader))
}

// ---------------------------------------------------------------------------------------------------------------------
// C12: an item "belongs to the previous file" iff it has no name (top of Feed's loop: `!f.IsSetName()` files it under
// `last`). When a duplicate file is dropped, exactly those items must be dropped with it. Rule: every inner loop of Feed
// that skips ahead over files[...] (it advances the outer index) classifies items with the same predicate as the attach
// test, after abstracting the item expression.
func c12skipPredicate(c *core.Check) {
	fd := c.Prog.FuncDecl("generator", "FileManager.Feed")
	key := "generator.(FileManager).Feed/skip-predicate"
	if fd == nil {
		c.Unknown("anchor", "generator.(FileManager).Feed", "", "missing")
		return
	}
	info := c.Prog.Pkg("generator").TypesInfo
	// the outer loop and its item variable
	var outer *ast.ForStmt
	ast.Inspect(fd.Body, func(n ast.Node) bool {
		if fs, ok := n.(*ast.ForStmt); ok && outer == nil {
			outer = fs
		}
		return outer == nil
	})
	if outer == nil || outer.Post == nil {
		c.Unknown("skip-predicate-agrees", key, c.Prog.Rel(fd.Pos()), "outer loop not found")
		return
	}
	inc, ok := outer.Post.(*ast.IncDecStmt)
	if !ok {
		c.Unknown("skip-predicate-agrees", key, c.Prog.Rel(fd.Pos()), "outer loop has no index increment")
		return
	}
	idx := rules.ExprString(inc.X)
	sliceName := "files"
	if ps := fd.Type.Params.List; len(ps) >= 2 && len(ps[len(ps)-1].Names) == 1 {
		sliceName = ps[len(ps)-1].Names[0].Name
	}
	item := ""
	for _, s := range outer.Body.List {
		if as, ok := s.(*ast.AssignStmt); ok && len(as.Lhs) == 1 && len(as.Rhs) == 1 {
			if ix, ok := as.Rhs[0].(*ast.IndexExpr); ok && rules.ExprString(ix.Index) == idx {
				item = rules.ExprString(as.Lhs[0])
				break
			}
		}
	}
	// attach predicate: the first if of the body that tests the item
	norm := func(e ast.Expr) string {
		t := rules.ExprString(e)
		// abstract every element of a []*plugin.Generated, whatever the slice is called
		ast.Inspect(e, func(n ast.Node) bool {
			if ix, ok := n.(*ast.IndexExpr); ok {
				if tv, ok := info.Types[ix]; ok && strings.HasSuffix(tv.Type.String(), "plugin.Generated") {
					t = strings.ReplaceAll(t, rules.ExprString(ix), "ITEM")
				}
			}
			return true
		})
		// abstract the item: `f` or files[<any index>]
		var b strings.Builder
		for i := 0; i < len(t); {
			if strings.HasPrefix(t[i:], sliceName+"[") {
				d := 0
				j := i + len(sliceName)
				for ; j < len(t); j++ {
					if t[j] == '[' {
						d++
					} else if t[j] == ']' {
						d--
						if d == 0 {
							j++
							break
						}
					}
				}
				b.WriteString("ITEM")
				i = j
				continue
			}
			b.WriteByte(t[i])
			i++
		}
		s := b.String()
		if item != "" {
			s = strings.ReplaceAll(s, item+".", "ITEM.")
		}
		return s
	}
	attach := ""
	for _, s := range outer.Body.List {
		if is, ok := s.(*ast.IfStmt); ok && item != "" && strings.Contains(rules.ExprString(is.Cond), item+".") {
			attach = norm(is.Cond)
			break
		}
	}
	if attach == "" {
		c.Unknown("skip-predicate-agrees", key, c.Prog.Rel(outer.Pos()), "the test that files unnamed items under the previous file was not found")
		return
	}
	n := 0
	ast.Inspect(outer.Body, func(nd ast.Node) bool {
		fs, ok := nd.(*ast.ForStmt)
		if !ok || fs.Cond == nil {
			return true
		}
		// a skipping loop advances the outer index in its body or post
		adv := false
		ast.Inspect(fs, func(m ast.Node) bool {
			if id, ok := m.(*ast.IncDecStmt); ok && rules.ExprString(id.X) == idx {
				adv = true
			}
			return true
		})
		if !adv {
			return true
		}
		n++
		// the item test of the loop condition: the conjunct that mentions files[...]
		var tests []string
		var split func(e ast.Expr)
		split = func(e ast.Expr) {
			if be, ok := ast.Unparen(e).(*ast.BinaryExpr); ok && be.Op == token.LAND {
				split(be.X)
				split(be.Y)
				return
			}
			if nt := norm(e); strings.Contains(nt, "ITEM") && strings.Contains(nt, "(") {
				tests = append(tests, nt)
			}
		}
		split(fs.Cond)
		okp := len(tests) == 1 && tests[0] == attach
		c.Decide(okp, "skip-predicate-agrees", fmt.Sprintf("%s#%d", key, n), c.Prog.Rel(fs.Pos()),
			"items skipped with a dropped duplicate are classified by "+attach+", the test that attaches items to the previous file",
			fmt.Sprintf("the loop that discards the items following a dropped duplicate tests %v, but an item belongs to the previous file iff %s: named patches for other files are swallowed (or unnamed ones survive and are attached to the wrong file)", tests, attach))
		return true
	})
	c.Min("skip-predicate-agrees", 1)
}

// ---------------------------------------------------------------------------------------------------------------------
// C14: integer keys and indices must survive the JSON transport exactly. Rule: the transport code (serdes.go) never converts a
// floating-point value to an integer type (a key decoded through float64 loses precision above 2^53).
func c14noFloatKeys(c *core.Check) {
	pk := c.Prog.Pkg(fmRel)
	info := pk.TypesInfo
	convs, bad := 0, 0
	for _, f := range pk.Syntax {
		// the JSON/binary transport of masks lives in serdes.go
		if !strings.HasSuffix(c.Prog.Fset.File(f.Pos()).Name(), "/serdes.go") {
			continue
		}
		for _, d := range f.Decls {
			fd, ok := d.(*ast.FuncDecl)
			if !ok || fd.Body == nil {
				continue
			}
			per := 0
			ast.Inspect(fd.Body, func(n ast.Node) bool {
				call, ok := n.(*ast.CallExpr)
				if !ok || len(call.Args) != 1 {
					return true
				}
				tv, ok := info.Types[call.Fun]
				if !ok || !tv.IsType() {
					return true
				}
				to, ok1 := tv.Type.Underlying().(*types.Basic)
				from, ok2 := info.Types[call.Args[0]].Type.Underlying().(*types.Basic)
				if !ok1 || !ok2 || to.Info()&types.IsInteger == 0 {
					return true
				}
				convs++
				if from.Info()&types.IsFloat != 0 {
					bad++
					per++
					c.Bad("integer-keys-exact", fmt.Sprintf("%s/float-to-int#%d", core.FuncKey(fmRel, fd), per), c.Prog.Rel(call.Pos()),
						rules.ExprString(call)+" converts a floating-point value to an integer: an index or int-map key that went through float64 (for instance when decoded from JSON) is not exact above 2^53, so the mask selects a neighbouring key after a JSON round trip")
				}
				return true
			})
		}
	}
	c.Analysed["integer_conversions_examined"] = convs
	if bad == 0 {
		c.OK("integer-keys-exact", fmRel+"/integer-conversions", fmRel, fmt.Sprintf("%d integer conversions, none from a floating-point value", convs))
	}
	if convs < 3 {
		c.Unknown("integer-keys-exact", fmRel+"/vacuity", "", fmt.Sprintf("only %d integer conversions found", convs))
	}
}

// ---------------------------------------------------------------------------------------------------------------------
// C17: DumpIDL passes the whole text through html.UnescapeString at the end, so every '&' written must have been escaped
// to "&amp;" on the way in. Rule: in stringBuilder.writeString the escaping ReplaceAll(str, "&", "&amp;") is unconditional
// or guarded by nothing but "str contains '&'".
func c17ampEscaped(c *core.Check) {
	rel := "tool/trimmer/dump"
	fd := c.Prog.FuncDecl(rel, "stringBuilder.writeString")
	key := rel + ".(stringBuilder).writeString/amp-escape"
	if fd == nil {
		c.Unknown("anchor", rel+".(stringBuilder).writeString", "", "missing")
		return
	}
	info := c.Prog.Pkg(rel).TypesInfo
	// only armed while the output is unescaped as a whole
	unesc := false
	c.Prog.AllFuncDecls(rel, func(_ *ast.File, d *ast.FuncDecl) {
		for _, call := range rules.Calls(d.Body, true) {
			if fn := rules.Callee(info, call); fn != nil && fn.Pkg() != nil && fn.Pkg().Path() == "html" && fn.Name() == "UnescapeString" {
				unesc = true
			}
		}
	})
	if !unesc {
		c.OKTrivial("amp-escaped-before-unescape", key, c.Prog.Rel(fd.Pos()), "the dumper no longer unescapes HTML entities")
		return
	}
	var repl *ast.CallExpr
	for _, call := range rules.Calls(fd.Body, true) {
		if fn := rules.Callee(info, call); fn != nil && fn.Pkg() != nil && fn.Pkg().Path() == "strings" && fn.Name() == "ReplaceAll" && len(call.Args) == 3 {
			if a, ok := rules.ConstString(info, call.Args[1]); ok && a == "&" {
				if b, ok := rules.ConstString(info, call.Args[2]); ok && b == "&amp;" {
					repl = call
				}
			}
		}
	}
	if repl == nil {
		c.Bad("amp-escaped-before-unescape", key, c.Prog.Rel(fd.Pos()), "writeString does not escape '&' although the dumped text is passed through html.UnescapeString: `&lt` or `&copy=1` inside a literal is rewritten to another character")
		return
	}
	// guards around the replacement
	var guards []string
	var path []ast.Node
	ast.Inspect(fd.Body, func(n ast.Node) bool {
		if n == nil {
			path = path[:len(path)-1]
			return true
		}
		path = append(path, n)
		if n == ast.Node(repl) {
			for _, p := range path {
				if is, ok := p.(*ast.IfStmt); ok && is.Body.Pos() <= repl.Pos() && repl.End() <= is.Body.End() {
					guards = append(guards, rules.ExprString(is.Cond))
				}
			}
		}
		return true
	})
	// a guard is acceptable when it is a single test (no && / ||) that only asks whether the text contains '&'
	okg := true
	for _, gtxt := range guards {
		t := strings.ReplaceAll(gtxt, " ", "")
		if strings.Contains(t, "&&") || strings.Contains(t, "||") || !(strings.Contains(t, `"&"`) || strings.Contains(t, `'&'`)) || strings.Contains(t, "[") {
			okg = false
		}
	}
	c.Decide(okg, "amp-escaped-before-unescape", key, c.Prog.Rel(repl.Pos()), fmt.Sprintf("'&' is escaped whenever it occurs (guards: %v)", guards),
		fmt.Sprintf("the escaping of '&' is skipped unless %v: html.UnescapeString also rewrites semicolon-less entities (&lt, &copy, &reg…), so such text in a literal or annotation changes when the dumped IDL is re-parsed", guards))
}

// ---------------------------------------------------------------------------------------------------------------------
// C01: Go has no map type whose key is a slice or a map. A Thrift map with a list/set/map key therefore has no Go
// representation; the only way to keep "whatever is generated compiles" is to refuse such a field. Rule: the function that
// spells Go container types returns an error for a container-typed key.
func c01mapKeyRepresentable(c *core.Check) {
	fd := c.Prog.FuncDecl(golangRel, "Resolver.getContainerTypeName")
	key := golangRel + ".(Resolver).getContainerTypeName/map-key"
	if fd == nil {
		c.Unknown("anchor", golangRel+".(Resolver).getContainerTypeName", "", "missing")
		return
	}
	info := c.Prog.Pkg(golangRel).TypesInfo
	rejects := false
	ast.Inspect(fd.Body, func(n ast.Node) bool {
		is, ok := n.(*ast.IfStmt)
		if !ok {
			return true
		}
		t := rules.ExprString(is.Cond)
		if !strings.Contains(t, "KeyType") || !(strings.Contains(t, "IsContainerType") || strings.Contains(t, "Category_List") || strings.Contains(t, "Category_Map") || strings.Contains(t, "Category_Set") || strings.Contains(t, "IsList") || strings.Contains(t, "IsMap") || strings.Contains(t, "IsSet")) {
			return true
		}
		for _, s := range is.Body.List {
			if rs, ok := s.(*ast.ReturnStmt); ok && len(rs.Results) > 0 && !rules.IsNil(info, rs.Results[len(rs.Results)-1]) {
				rejects = true
			}
		}
		return true
	})
	c.Decide(rejects, "map-key-representable", key, c.Prog.Rel(fd.Pos()), "a container-typed map key is refused with an error",
		"a map whose key type is a list, set or map is spelled map[[]T]V / map[map[K]V]W, which is not a Go type: thriftgo exits 0 and the generated package does not compile (with with_field_mask it does not even parse)")
}

// ---------------------------------------------------------------------------------------------------------------------
// C05: getEnum returns "the index of the first included IDL", i.e. an index into the Includes of the AST it was called with.
// Rule: in doGetEnum an include index obtained from a recursive call is only returned when that call was made on the
// function's own ast parameter; after stepping into another file the index of the step (r.Index) is returned instead.
func c05enumIndex(c *core.Check) {
	fd := c.Prog.FuncDecl("semantic", "doGetEnum")
	key := "semantic.doGetEnum/include-index"
	if fd == nil {
		c.Unknown("anchor", "semantic.doGetEnum", "", "missing")
		return
	}
	info := c.Prog.Pkg("semantic").TypesInfo
	self := info.Defs[fd.Name]
	var astParam types.Object
	if len(fd.Type.Params.List) > 0 && len(fd.Type.Params.List[0].Names) > 0 {
		astParam = info.Defs[fd.Type.Params.List[0].Names[0]]
	}
	isSelf := func(call *ast.CallExpr) bool {
		fn := rules.Callee(info, call)
		return fn != nil && types.Object(fn) == self
	}
	onOwnAST := func(call *ast.CallExpr) bool {
		id, ok := ast.Unparen(call.Args[0]).(*ast.Ident)
		return ok && info.Uses[id] == astParam
	}
	// variables that receive the index result of a recursive call on a foreign AST
	foreign := map[types.Object]bool{}
	n := 0
	var bad []string
	ast.Inspect(fd.Body, func(nd ast.Node) bool {
		switch x := nd.(type) {
		case *ast.AssignStmt:
			if len(x.Rhs) == 1 && len(x.Lhs) == 2 {
				if call, ok := x.Rhs[0].(*ast.CallExpr); ok && isSelf(call) && len(call.Args) >= 1 {
					n++
					if !onOwnAST(call) {
						if id, ok := x.Lhs[1].(*ast.Ident); ok && id.Name != "_" {
							o := info.Defs[id]
							if o == nil {
								o = info.Uses[id]
							}
							foreign[o] = true
						}
					}
				}
			}
		case *ast.ReturnStmt:
			if len(x.Results) == 1 {
				if call, ok := x.Results[0].(*ast.CallExpr); ok && isSelf(call) && len(call.Args) >= 1 {
					n++
					if !onOwnAST(call) {
						bad = append(bad, "return "+rules.ExprString(call)+" at "+c.Prog.Rel(x.Pos()))
					}
				}
			}
		}
		return true
	})
	ast.Inspect(fd.Body, func(nd ast.Node) bool {
		rs, ok := nd.(*ast.ReturnStmt)
		if !ok {
			return true
		}
		var idx ast.Expr
		switch len(rs.Results) {
		case 2:
			idx = rs.Results[1]
		case 0:
			// named results: any foreign-tainted variable that is the named index result
			for o := range foreign {
				if fd.Type.Results != nil {
					for _, f := range fd.Type.Results.List {
						for _, nm := range f.Names {
							if info.Defs[nm] == o {
								bad = append(bad, "named result "+o.Name()+" carries the callee's index at "+c.Prog.Rel(rs.Pos()))
							}
						}
					}
				}
			}
		}
		if id, ok := idx.(*ast.Ident); ok && foreign[info.Uses[id]] {
			bad = append(bad, "return … "+id.Name+" at "+c.Prog.Rel(rs.Pos()))
		}
		return true
	})
	if n == 0 {
		c.Unknown("enum-index-own-ast", key, c.Prog.Rel(fd.Pos()), "doGetEnum no longer recurses")
		return
	}
	c.Decide(len(bad) == 0, "enum-index-own-ast", key, c.Prog.Rel(fd.Pos()), fmt.Sprintf("%d recursive calls; an index is only passed through from a call on the same AST", n),
		fmt.Sprintf("an include index computed inside another file is returned to the caller (%v): it is an index into that file's include list, so the constant is bound to the wrong include of the referencing file (or is out of range)", bad))
}

// ---------------------------------------------------------------------------------------------------------------------
// C08 (and C01): `service X extends inc.Y` records a reference (include index, name). Rule: in the Go backend's
// resolveTypesAndValues a name taken from that reference is looked up in the scope the reference selects
// (s.includes[ref index].Scope), never in the current file's own scope, where an unrelated service of the same name may exist.
func c08baseScope(c *core.Check) {
	fd := c.Prog.FuncDecl(golangRel, "Scope.resolveTypesAndValues")
	key := golangRel + ".(Scope).resolveTypesAndValues/base-service"
	if fd == nil {
		c.Unknown("anchor", key, "", "missing")
		return
	}
	info := c.Prog.Pkg(golangRel).TypesInfo
	// variables that may hold ref.GetName()
	refNames := map[types.Object]bool{}
	isRefName := func(e ast.Expr) bool {
		t := rules.ExprString(e)
		if strings.HasSuffix(t, ".GetName()") && strings.Contains(t, "ref") || strings.HasSuffix(t, "ref.Name") {
			return true
		}
		if id, ok := ast.Unparen(e).(*ast.Ident); ok && refNames[info.Uses[id]] {
			return true
		}
		return false
	}
	ast.Inspect(fd.Body, func(n ast.Node) bool {
		if as, ok := n.(*ast.AssignStmt); ok && len(as.Lhs) == 1 && len(as.Rhs) == 1 && isRefName(as.Rhs[0]) {
			if id, ok := as.Lhs[0].(*ast.Ident); ok {
				o := info.Defs[id]
				if o == nil {
					o = info.Uses[id]
				}
				refNames[o] = true
			}
		}
		return true
	})
	n := 0
	ast.Inspect(fd.Body, func(nd ast.Node) bool {
		call, ok := nd.(*ast.CallExpr)
		if !ok || len(call.Args) != 1 {
			return true
		}
		se, ok := call.Fun.(*ast.SelectorExpr)
		if !ok || se.Sel.Name != "Service" || !isRefName(call.Args[0]) {
			return true
		}
		n++
		recv := rules.ExprString(se.X)
		okr := strings.Contains(recv, "includes[")
		c.Decide(okr, "base-in-referenced-scope", fmt.Sprintf("%s#%d", key, n), c.Prog.Rel(call.Pos()),
			"the referenced name is looked up in the scope of the include the reference points to",
			"the name taken from the reference ("+rules.ExprString(call.Args[0])+") is looked up in "+recv+": a service of the same name in the current file shadows the included base, and the generated client/processor embed the wrong service")
		return true
	})
	c.Min("base-in-referenced-scope", 1)
}

// ---------------------------------------------------------------------------------------------------------------------
// C07: output must not depend on what a previous run left in the directory. Rule: inside the call-graph closure of the
// output entry points, every os.OpenFile that can create or write a file truncates it (O_TRUNC), appends deliberately
// (O_APPEND) or insists on a new file (O_EXCL); the whole-file helpers (os.WriteFile, ioutil.WriteFile, os.Create) truncate
// by definition and are only counted.
func c07truncates(c *core.Check) {
	prog := c.Prog
	n, whole := 0, 0
	var rels []string
	for rel := range prog.ByRel {
		rels = append(rels, rel)
	}
	sort.Strings(rels)
	for _, rel := range rels {
		pk := prog.ByRel[rel]
		if !(rel == "generator" || strings.HasPrefix(rel, "generator/") || rel == "sdk" || rel == "tool/trimmer" || strings.HasPrefix(rel, "tool/trimmer/")) {
			continue
		}
		info := pk.TypesInfo
		for _, f := range pk.Syntax {
			if strings.HasSuffix(prog.Fset.File(f.Pos()).Name(), "_test.go") {
				continue
			}
			for _, d := range f.Decls {
				fd, ok := d.(*ast.FuncDecl)
				if !ok || fd.Body == nil {
					continue
				}
				for _, call := range rules.Calls(fd.Body, true) {
					fn := rules.Callee(info, call)
					if fn == nil || fn.Pkg() == nil {
						continue
					}
					switch fn.Pkg().Path() + "." + fn.Name() {
					case "os.WriteFile", "io/ioutil.WriteFile", "os.Create":
						whole++
					case "os.OpenFile":
						if len(call.Args) != 3 {
							continue
						}
						n++
						key := fmt.Sprintf("%s/os.OpenFile#%d", core.FuncKey(rel, fd), n)
						flag, ok := rules.ConstInt(info, call.Args[1])
						if !ok {
							c.Unknown("output-truncates", key, prog.Rel(call.Pos()), "flags are not constant")
							continue
						}
						const (
							oWRONLY = 0x1
							oRDWR   = 0x2
							oAPPEND = 0x400
							oCREATE = 0x40
							oEXCL   = 0x80
							oTRUNC  = 0x200
						)
						writes := flag&(oWRONLY|oRDWR) != 0
						okf := !writes || flag&(oTRUNC|oAPPEND|oEXCL) != 0
						c.Decide(okf, "output-truncates", key, prog.Rel(call.Pos()), "opened for writing with truncation (or append/exclusive)",
							"a file is opened for writing without O_TRUNC: when a previous run left a longer file of the same name its tail survives, so the output depends on earlier runs")
					}
				}
			}
		}
	}
	c.Analysed["whole_file_writes"] = whole
	if whole+n == 0 {
		c.Unknown("output-truncates", "generator/file-writes", "", "no file-writing call found in the generator")
		return
	}
	if n == 0 {
		c.OK("output-truncates", "generator/file-writes", "generator", fmt.Sprintf("%d whole-file writes (truncating by definition), no os.OpenFile", whole))
	}
}

// ---------------------------------------------------------------------------------------------------------------------
// C14 "no input makes the library panic" — three run-time panic shapes, each decided for every function of the package
// that is reachable from the exported API:
//  (a) array-index-bounded: an index into a fixed-size array by a signed variable is guarded from below and from above;
//  (b) scan-index-clamped: when a scanning loop `for ; i < len(S); i++` also advances i inside its body, i can leave the
//      loop one past the end; a later S[..:i] / S[i] must be preceded by a clamp or test of i against len(S);
//  (c) nil-phi-deref (go/ssa): a pointer that is nil on some incoming edge of a φ is not dereferenced (field access or
//      call of a method that reads its receiver) unless a nil test dominates the use.
// guardCondsOf lists the conditions of the if statements whose then-branch encloses target.
func guardCondsOf(fd *ast.FuncDecl, target ast.Node) []ast.Expr {
	var gs []ast.Expr
	var stack []ast.Node
	ast.Inspect(fd.Body, func(n ast.Node) bool {
		if n == nil {
			stack = stack[:len(stack)-1]
			return true
		}
		stack = append(stack, n)
		if n == target {
			for _, p := range stack {
				if is, ok := p.(*ast.IfStmt); ok && is.Body.Pos() <= target.Pos() && target.End() <= is.Body.End() {
					gs = append(gs, is.Cond)
				}
			}
		}
		return true
	})
	return gs
}

func c14runtimePanics(c *core.Check) {
	prog := c.Prog
	pk := prog.Pkg(fmRel)
	info := pk.TypesInfo
	nA, nB := 0, 0
	for _, f := range pk.Syntax {
		if strings.HasSuffix(prog.Fset.File(f.Pos()).Name(), "_test.go") {
			continue
		}
		for _, d := range f.Decls {
			fd, ok := d.(*ast.FuncDecl)
			if !ok || fd.Body == nil {
				continue
			}
			fk := core.FuncKey(fmRel, fd)
			// guards enclosing a node
			guardsOf := func(target ast.Node) []string {
				var gs []string
				var stack []ast.Node
				ast.Inspect(fd.Body, func(n ast.Node) bool {
					if n == nil {
						stack = stack[:len(stack)-1]
						return true
					}
					stack = append(stack, n)
					if n == target {
						for _, p := range stack {
							if is, ok := p.(*ast.IfStmt); ok && is.Body.Pos() <= target.Pos() && target.End() <= is.Body.End() {
								gs = append(gs, strings.ReplaceAll(rules.ExprString(is.Cond), " ", ""))
							}
						}
					}
					return true
				})
				return gs
			}
			// (a)
			perA := 0
			ast.Inspect(fd.Body, func(n ast.Node) bool {
				ix, ok := n.(*ast.IndexExpr)
				if !ok {
					return true
				}
				t := info.Types[ix.X].Type
				if p, ok := t.Underlying().(*types.Pointer); ok {
					t = p.Elem()
				}
				if _, isArr := t.Underlying().(*types.Array); !isArr {
					return true
				}
				it, ok := info.Types[ix.Index]
				if !ok || it.Value != nil {
					return true
				}
				b, ok := it.Type.Underlying().(*types.Basic)
				if !ok || b.Info()&types.IsInteger == 0 || b.Info()&types.IsUnsigned != 0 {
					return true
				}
				nA++
				perA++
				idx := strings.ReplaceAll(rules.ExprString(ix.Index), " ", "")
				lower, upper := false, false
				for _, g := range guardsOf(ix) {
					if strings.Contains(g, idx+">=0") || strings.Contains(g, "0<="+idx) || strings.Contains(g, idx+">-1") {
						lower = true
					}
					if strings.Contains(g, idx+"<=") || strings.Contains(g, idx+"<") {
						upper = true
					}
				}
				// a plain integer variable as index: the enclosing guards are closed predicates over it, so they are evaluated
				// for every value in [-70000,70000] and at the extremes of the type; where they all hold the index must lie
				// inside the array (guards that mention anything else are ignored, which only weakens the premise)
				if id, ok := ast.Unparen(ix.Index).(*ast.Ident); ok {
					if bits, sgn, ok := basicInt(b.Name()); ok {
						alen := t.Underlying().(*types.Array).Len()
						conds := guardCondsOf(fd, ix)
						vals := []int64{-1 << 62, -1 << 31, -1<<31 - 1, 1<<31 - 1, 1 << 31, 1<<62 - 1}
						for v := int64(-70000); v <= 70000; v++ {
							vals = append(vals, v)
						}
						evalOK, witness := true, ""
						for _, v := range vals {
							w := wrap(v, bits, sgn)
							holds := true
							for _, g := range conds {
								r, err := evalCond(info, g, map[string]tint{id.Name: {v: w, bits: bits, signed: sgn}})
								if err == nil && !r {
									holds = false
									break
								}
							}
							if holds && (w < 0 || w >= alen) {
								evalOK, witness = false, fmt.Sprint(w)
								break
							}
						}
						lower, upper = evalOK, evalOK
						if !evalOK {
							idx += " (e.g. " + witness + " passes every enclosing guard; array length " + fmt.Sprint(alen) + ")"
						}
					}
				}
				c.Decide(lower && upper, "array-index-bounded", fmt.Sprintf("%s/%s#%d", fk, rules.ExprString(ix), perA), prog.Rel(ix.Pos()),
					"index tested from below and from above", fmt.Sprintf("the fixed-size array %s is indexed by the signed value %s without both bounds tested (lower %v, upper %v): an id from a path, a JSON document or a struct with a negative field id panics with index out of range", rules.ExprString(ix.X), idx, lower, upper))
				return true
			})
			// (b)
			ast.Inspect(fd.Body, func(n ast.Node) bool {
				fs, ok := n.(*ast.ForStmt)
				if !ok || fs.Cond == nil || fs.Post == nil {
					return true
				}
				be, ok := fs.Cond.(*ast.BinaryExpr)
				if !ok || be.Op != token.LSS {
					return true
				}
				iv := rules.ExprString(be.X)
				bound := strings.ReplaceAll(rules.ExprString(be.Y), " ", "")
				if !strings.HasPrefix(bound, "len(") {
					return true
				}
				extra := false
				ast.Inspect(fs.Body, func(m ast.Node) bool {
					switch x := m.(type) {
					case *ast.IncDecStmt:
						if rules.ExprString(x.X) == iv {
							extra = true
						}
					case *ast.AssignStmt:
						for _, l := range x.Lhs {
							if rules.ExprString(l) == iv {
								extra = true
							}
						}
					}
					return true
				})
				if !extra {
					return true
				}
				src := strings.TrimSuffix(strings.TrimPrefix(bound, "len("), ")")
				// uses of iv as a bound/index of src after the loop
				ast.Inspect(fd.Body, func(m ast.Node) bool {
					var usesIv bool
					var node ast.Node
					switch x := m.(type) {
					case *ast.SliceExpr:
						if strings.ReplaceAll(rules.ExprString(x.X), " ", "") == src && x.High != nil && rules.ExprString(x.High) == iv {
							usesIv, node = true, x
						}
					case *ast.IndexExpr:
						if strings.ReplaceAll(rules.ExprString(x.X), " ", "") == src && rules.ExprString(x.Index) == iv {
							usesIv, node = true, x
						}
					}
					if !usesIv || node.Pos() < fs.End() {
						return true
					}
					nB++
					// a clamp `if iv > len(src) { iv = len(src) }` (or a test that returns) between the loop and the use
					clamped := false
					ast.Inspect(fd.Body, func(k ast.Node) bool {
						is, ok := k.(*ast.IfStmt)
						if !ok || is.Pos() < fs.End() || is.Pos() > node.Pos() {
							return true
						}
						t := strings.ReplaceAll(rules.ExprString(is.Cond), " ", "")
						if t == iv+">"+bound || t == iv+">="+bound || t == bound+"<"+iv || t == bound+"<="+iv {
							clamped = true
						}
						return true
					})
					c.Decide(clamped, "scan-index-clamped", fmt.Sprintf("%s/%s", fk, rules.ExprString(node.(ast.Expr))), prog.Rel(node.Pos()),
						"the scan index is tested against the length before it is used",
						fmt.Sprintf("the loop also advances %s inside its body, so it can end at %s+1; %s then slices past the end when the input stops right after an escape character", iv, bound, rules.ExprString(node.(ast.Expr))))
					return true
				})
				return true
			})
		}
	}
	c.Analysed["array_index_sites"] = nA
	c.Analysed["scan_index_uses"] = nB
	c.Min("array-index-bounded", 2)
	c.Min("scan-index-clamped", 1)
	// (c)
	prog.SSA()
	sp := prog.SSAPkg(fmRel)
	var fns []*ssa.Function
	for fn := range ssautilAllFunctions(prog, sp) {
		if fn.Pos().IsValid() && !strings.HasSuffix(prog.Fset.File(fn.Pos()).Name(), "_test.go") {
			fns = append(fns, fn)
		}
	}
	sort.Slice(fns, func(i, j int) bool { return fns[i].Pos() < fns[j].Pos() })
	readsReceiver := func(callee *ssa.Function) bool {
		if callee == nil || len(callee.Blocks) == 0 || len(callee.Params) == 0 {
			return true
		}
		recv := callee.Params[0]
		// nil-safe when the entry block tests the receiver against nil before any access
		for _, ins := range callee.Blocks[0].Instrs {
			switch x := ins.(type) {
			case *ssa.FieldAddr:
				if x.X == ssa.Value(recv) {
					return true
				}
			case *ssa.UnOp:
				if x.X == ssa.Value(recv) && x.Op == token.MUL {
					return true
				}
			case *ssa.If:
				if bo, ok := x.Cond.(*ssa.BinOp); ok && (bo.X == ssa.Value(recv) || bo.Y == ssa.Value(recv)) {
					return false
				}
			}
		}
		return true
	}
	phis, bad := 0, 0
	for _, fn := range fns {
		for _, b := range fn.Blocks {
			for _, ins := range b.Instrs {
				ph, ok := ins.(*ssa.Phi)
				if !ok {
					break
				}
				if _, isPtr := ph.Type().Underlying().(*types.Pointer); !isPtr {
					continue
				}
				hasNil := false
				for _, e := range ph.Edges {
					if k, ok := e.(*ssa.Const); ok && k.IsNil() {
						hasNil = true
					}
				}
				if !hasNil {
					continue
				}
				phis++
				// blocks where ph is known non-nil: dominated by the non-nil successor of a test of ph
				nonNil := map[*ssa.BasicBlock]bool{}
				for _, ref := range *ph.Referrers() {
					bo, ok := ref.(*ssa.BinOp)
					if !ok || (bo.Op != token.EQL && bo.Op != token.NEQ) {
						continue
					}
					other := bo.Y
					if bo.Y == ssa.Value(ph) {
						other = bo.X
					}
					if k, ok := other.(*ssa.Const); !ok || !k.IsNil() {
						continue
					}
					for _, r2 := range *bo.Referrers() {
						iff, ok := r2.(*ssa.If)
						if !ok {
							continue
						}
						succ := iff.Block().Succs[0]
						if bo.Op == token.EQL {
							succ = iff.Block().Succs[1]
						}
						if len(succ.Preds) == 1 {
							for _, bb := range fn.Blocks {
								if succ.Dominates(bb) {
									nonNil[bb] = true
								}
							}
						}
					}
				}
				per := 0
				for _, ref := range *ph.Referrers() {
					deref := ""
					switch x := ref.(type) {
					case *ssa.FieldAddr:
						if x.X == ssa.Value(ph) {
							deref = "field access"
						}
					case *ssa.UnOp:
						if x.Op == token.MUL && x.X == ssa.Value(ph) {
							deref = "load"
						}
					case *ssa.Call:
						if len(x.Call.Args) > 0 && x.Call.Args[0] == ssa.Value(ph) && !x.Call.IsInvoke() {
							if cal := x.Call.StaticCallee(); cal != nil && cal.Signature.Recv() != nil && readsReceiver(cal) {
								deref = "call of " + cal.Name() + " (reads its receiver)"
							}
						}
					}
					if deref == "" || nonNil[ref.Block()] {
						continue
					}
					// correlated flag: a boolean φ of the same block that is a constant on every edge where ph is nil, and
					// a dominating branch on that flag which excludes those constants (`if all {…} else { f.X }`,
					// `next, ok = m.Get(k); if ok { next.X }`)
					if correlatedSafe(ph, ref.Block()) {
						continue
					}
					per++
					bad++
					c.Bad("nil-phi-deref", fmt.Sprintf("%s.%s/%s#%d", fmRel, fn.RelString(sp.Pkg), ph.Comment, per), prog.Rel(ref.Pos()),
						fmt.Sprintf("%s is nil on some path into this point (it is only assigned in some branches) and the %s dereferences it without a nil test: an input that takes the other branch makes the library panic", ph.Comment, deref))
				}
			}
		}
	}
	c.Analysed["nilable_phis"] = phis
	if bad == 0 {
		c.OK("nil-phi-deref", fmRel+"/nilable-pointers", fmRel, fmt.Sprintf("%d pointer φ-nodes with a nil edge, none dereferenced without a dominating nil test", phis))
	}
}

// correlatedSafe reports whether every nil edge of ph is excluded at block b by a dominating test of a boolean φ that lives
// in ph's block and is constant on those edges.
func correlatedSafe(ph *ssa.Phi, b *ssa.BasicBlock) bool {
	for _, ins := range ph.Block().Instrs {
		q, ok := ins.(*ssa.Phi)
		if !ok {
			break
		}
		if q == ph {
			continue
		}
		if bt, ok := q.Type().Underlying().(*types.Basic); !ok || bt.Kind() != types.Bool {
			continue
		}
		// value of q on the nil edges
		var vals []bool
		okAll := true
		for i, e := range ph.Edges {
			if k, isK := e.(*ssa.Const); isK && k.IsNil() {
				qk, isQK := q.Edges[i].(*ssa.Const)
				if !isQK || qk.Value == nil {
					okAll = false
					break
				}
				vals = append(vals, qk.Value.String() == "true")
			}
		}
		if !okAll || len(vals) == 0 {
			continue
		}
		// dominating branches on q (or !q)
		for _, ref := range *q.Referrers() {
			var iff *ssa.If
			neg := false
			switch x := ref.(type) {
			case *ssa.If:
				iff = x
			case *ssa.UnOp:
				if x.Op == token.NOT {
					for _, r2 := range *x.Referrers() {
						if i2, ok := r2.(*ssa.If); ok {
							iff, neg = i2, true
						}
					}
				}
			}
			if iff == nil {
				continue
			}
			for si, succ := range iff.Block().Succs {
				if len(succ.Preds) != 1 || !succ.Dominates(b) {
					continue
				}
				qVal := si == 0 // value of the condition on this edge
				if neg {
					qVal = !qVal
				}
				excluded := true
				for _, v := range vals {
					if v == qVal {
						excluded = false
					}
				}
				if excluded {
					return true
				}
			}
		}
	}
	return false
}

// ---------------------------------------------------------------------------------------------------------------------
// C15: an IDL file name may contain dots (`common.v1.thrift`), so a qualified name `common.v1.Item` is "everything before
// the last dot" + "the last segment". The compiler (semantic.SplitType) and the reflection runtime (utils.ParseAlias) must
// both cut at the last dot. Rule: neither function uses a first-separator primitive on "." and each uses a
// last-separator idiom.
func c15lastDot(c *core.Check) {
	for _, spec := range [][2]string{{"semantic", "SplitType"}, {"utils", "ParseAlias"}} {
		rel, name := spec[0], spec[1]
		fd := c.Prog.FuncDecl(rel, name)
		key := rel + "." + name + "/split"
		if fd == nil {
			c.Unknown("anchor", rel+"."+name, "", "missing")
			continue
		}
		info := c.Prog.Pkg(rel).TypesInfo
		first, last := "", ""
		isDot := func(e ast.Expr) bool {
			s, ok := rules.ConstString(info, e)
			return ok && s == "."
		}
		ast.Inspect(fd.Body, func(n ast.Node) bool {
			switch x := n.(type) {
			case *ast.CallExpr:
				fn := rules.Callee(info, x)
				if fn == nil || fn.Pkg() == nil || fn.Pkg().Path() != "strings" || len(x.Args) < 2 || !isDot(x.Args[1]) {
					return true
				}
				switch fn.Name() {
				case "SplitN", "Index", "IndexByte", "Cut", "SplitAfterN":
					first = "strings." + fn.Name()
				case "LastIndex", "LastIndexByte":
					last = "strings." + fn.Name()
				}
			case *ast.IndexExpr:
				// arr[len(arr)-1]
				t := strings.ReplaceAll(rules.ExprString(x.Index), " ", "")
				if t == "len("+rules.ExprString(x.X)+")-1" {
					last = rules.ExprString(x)
				}
			}
			return true
		})
		c.Decide(first == "" && last != "", "qualified-name-last-dot", key, c.Prog.Rel(fd.Pos()), "the name is cut at the last dot ("+last+")",
			fmt.Sprintf("%s cuts a qualified name with %s (first dot) / last-dot idiom %q: for an include whose file name contains a dot (common.v1.thrift) the prefix and the name are wrong and cross-file lookups fail", name, first, last))
	}
	c.Min("qualified-name-last-dot", 2)
}

// ---------------------------------------------------------------------------------------------------------------------
// C16: preProcess answers "is anything kept in this file or below it". Rule: its result only ever grows — the returned
// variable is initialised from markKeptPart and afterwards only set to true or or-ed; assigning it the result of one
// recursive call forgets everything found before.
func c16preProcessMonotone(c *core.Check) {
	rel := "tool/trimmer/trim"
	fd := c.Prog.FuncDecl(rel, "Trimmer.preProcess")
	key := rel + ".(Trimmer).preProcess/result"
	if fd == nil {
		c.Unknown("anchor", key, "", "missing")
		return
	}
	info := c.Prog.Pkg(rel).TypesInfo
	self := info.Defs[fd.Name]
	// returned variables
	rets := map[types.Object]bool{}
	ast.Inspect(fd.Body, func(n ast.Node) bool {
		if rs, ok := n.(*ast.ReturnStmt); ok && len(rs.Results) == 1 {
			if id, ok := rs.Results[0].(*ast.Ident); ok {
				rets[info.Uses[id]] = true
			}
		}
		return true
	})
	if len(rets) == 0 {
		c.Unknown("kept-result-monotone", key, c.Prog.Rel(fd.Pos()), "preProcess does not return a variable")
		return
	}
	var bad []string
	assigns := 0
	ast.Inspect(fd.Body, func(n ast.Node) bool {
		as, ok := n.(*ast.AssignStmt)
		if !ok {
			return true
		}
		for i, l := range as.Lhs {
			id, ok := l.(*ast.Ident)
			if !ok {
				continue
			}
			o := info.Defs[id]
			if o == nil {
				o = info.Uses[id]
			}
			if !rets[o] || i >= len(as.Rhs) {
				continue
			}
			assigns++
			rhs := ast.Unparen(as.Rhs[i])
			okr := false
			switch x := rhs.(type) {
			case *ast.Ident:
				okr = x.Name == "true"
			case *ast.BinaryExpr:
				okr = x.Op == token.LOR && (rules.ExprString(x.X) == id.Name || rules.ExprString(x.Y) == id.Name)
			case *ast.CallExpr:
				// the initialisation from the file's own kept parts
				fn := rules.Callee(info, x)
				okr = fn != nil && types.Object(fn) != self && as.Tok == token.DEFINE
			}
			if as.Tok == token.OR_ASSIGN {
				okr = true
			}
			if !okr {
				bad = append(bad, rules.ExprString(as.Lhs[i])+" = "+rules.ExprString(rhs)+" at "+c.Prog.Rel(as.Pos()))
			}
		}
		return true
	})
	c.Decide(len(bad) == 0 && assigns >= 2, "kept-result-monotone", key, c.Prog.Rel(fd.Pos()),
		fmt.Sprintf("%d assignments: initialised from the file's own kept parts, afterwards only set to true", assigns),
		fmt.Sprintf("the result of preProcess is overwritten (%v): it then reports only what the last include contains, so a file that is kept for its own constants, typedefs or @preserve structs is reported as empty and its includer drops the include", bad))
}

// ---------------------------------------------------------------------------------------------------------------------
// C20: with enable_nested_struct the documented adaptation is "no template given ⇒ slim"; an explicit slim or raw_struct is
// valid and must be kept. Rule: in args.checkOptions, if the loop that rewrites an explicit template option has an
// effective write (through the slice element, not through the range copy), its guard must be false when the template is
// slim or raw_struct — evaluated over the finite set of template names.
func c20nestedTemplate(c *core.Check) {
	fd := c.Prog.FuncDecl("args", "Arguments.checkOptions")
	key := "args.(Arguments).checkOptions/nested-template"
	if fd == nil {
		c.Unknown("anchor", key, "", "missing")
		return
	}
	info := c.Prog.Pkg("args").TypesInfo
	// assignments of "slim" to a .Desc
	type write struct {
		as        *ast.AssignStmt
		effective bool
		guards    []ast.Expr
	}
	var writes []write
	var stack []ast.Node
	ast.Inspect(fd.Body, func(n ast.Node) bool {
		if n == nil {
			stack = stack[:len(stack)-1]
			return true
		}
		stack = append(stack, n)
		as, ok := n.(*ast.AssignStmt)
		if !ok || len(as.Lhs) != 1 || len(as.Rhs) != 1 {
			return true
		}
		se, ok := as.Lhs[0].(*ast.SelectorExpr)
		if !ok || se.Sel.Name != "Desc" {
			return true
		}
		if s, ok := rules.ConstString(info, as.Rhs[0]); !ok || s != "slim" {
			return true
		}
		w := write{as: as}
		// effective when the base is an element of a slice/array or a pointer, not a by-value range variable
		switch b := ast.Unparen(se.X).(type) {
		case *ast.IndexExpr:
			w.effective = true
		case *ast.Ident:
			if o := info.Uses[b]; o != nil {
				if _, isPtr := o.Type().Underlying().(*types.Pointer); isPtr {
					w.effective = true
				}
			}
		case *ast.StarExpr:
			w.effective = true
		}
		for _, p := range stack {
			if is, ok := p.(*ast.IfStmt); ok && is.Body.Pos() <= as.Pos() && as.End() <= is.Body.End() {
				if strings.Contains(rules.ExprString(is.Cond), "Template()") {
					w.guards = append(w.guards, is.Cond)
				}
			}
		}
		writes = append(writes, w)
		return true
	})
	if len(writes) == 0 {
		c.OKTrivial("nested-keeps-valid-template", key, c.Prog.Rel(fd.Pos()), "checkOptions no longer rewrites an explicit template option")
		return
	}
	// evaluate a guard for a template name
	var eval func(e ast.Expr, v string) (bool, bool)
	eval = func(e ast.Expr, v string) (bool, bool) {
		switch x := ast.Unparen(e).(type) {
		case *ast.BinaryExpr:
			switch x.Op {
			case token.LOR, token.LAND:
				a, ok1 := eval(x.X, v)
				b, ok2 := eval(x.Y, v)
				if x.Op == token.LOR {
					return a || b, ok1 && ok2
				}
				return a && b, ok1 && ok2
			case token.EQL, token.NEQ:
				var lit string
				var okl bool
				if strings.HasSuffix(rules.ExprString(x.X), "Template()") {
					lit, okl = rules.ConstString(info, x.Y)
				} else if strings.HasSuffix(rules.ExprString(x.Y), "Template()") {
					lit, okl = rules.ConstString(info, x.X)
				}
				if !okl {
					return false, false
				}
				return (v == lit) == (x.Op == token.EQL), true
			}
		case *ast.UnaryExpr:
			if x.Op == token.NOT {
				a, ok := eval(x.X, v)
				return !a, ok
			}
		}
		return false, false
	}
	for i, w := range writes {
		wkey := fmt.Sprintf("%s#%d", key, i+1)
		if !w.effective {
			c.OK("nested-keeps-valid-template", wkey, c.Prog.Rel(w.as.Pos()), "the rewrite assigns to the range copy and has no effect: an explicit template is never overwritten")
			continue
		}
		var bad []string
		decided := true
		for _, v := range []string{"slim", "raw_struct"} {
			fires := true
			for _, g := range w.guards {
				r, ok := eval(g, v)
				if !ok {
					decided = false
				}
				fires = fires && r
			}
			if fires {
				bad = append(bad, v)
			}
		}
		if !decided {
			c.Unknown("nested-keeps-valid-template", wkey, c.Prog.Rel(w.as.Pos()), "cannot evaluate the guard of the template rewrite")
			continue
		}
		c.Decide(len(bad) == 0, "nested-keeps-valid-template", wkey, c.Prog.Rel(w.as.Pos()), "the rewrite does not fire for template=slim or template=raw_struct",
			fmt.Sprintf("with enable_nested_struct an explicit template=%v is overwritten with slim (the guard is true for it): raw_struct, which the README documents as valid for nested structs, silently produces slim code", bad))
	}
}

// ---------------------------------------------------------------------------------------------------------------------
// C08/C01: the result struct of a non-void method gets a synthesized field named "success" next to the declared throws
// fields. A throws field that is itself called `success` collides with it (both become `Success`, `GetSuccess`,
// `<Result>_Success_DEFAULT`). Rule: somewhere between the checker and buildSynthesized the name is refused or renamed —
// i.e. the literal "success" is compared against a throws field's name.
func c08successNameFree(c *core.Check) {
	key := golangRel + ".buildSynthesized/success-name"
	found := ""
	for _, spec := range [][2]string{{"semantic", "checker.CheckFunctions"}, {golangRel, "buildSynthesized"}, {golangRel, "Scope.buildFunction"}} {
		fd := c.Prog.FuncDecl(spec[0], spec[1])
		if fd == nil {
			continue
		}
		info := c.Prog.Pkg(spec[0]).TypesInfo
		ast.Inspect(fd.Body, func(n ast.Node) bool {
			be, ok := n.(*ast.BinaryExpr)
			if !ok || (be.Op != token.EQL && be.Op != token.NEQ) {
				return true
			}
			for _, side := range []ast.Expr{be.X, be.Y} {
				if s, ok := rules.ConstString(info, side); ok && strings.EqualFold(s, "success") {
					found = spec[1]
				}
			}
			return true
		})
	}
	// the synthesized success field also occupies id 0 of the result struct: a throws field may not carry that id on a
	// non-void function. Looked for: a comparison of the ID of an element of a Throws list with a constant, in the
	// functions that validate or synthesize
	idFound := ""
	for _, spec := range [][2]string{{"semantic", "checker.CheckFunctions"}, {golangRel, "buildSynthesized"}, {golangRel, "Scope.buildFunction"}} {
		fd := c.Prog.FuncDecl(spec[0], spec[1])
		if fd == nil {
			continue
		}
		info := c.Prog.Pkg(spec[0]).TypesInfo
		ast.Inspect(fd.Body, func(n ast.Node) bool {
			rs, ok := n.(*ast.RangeStmt)
			if !ok || !strings.HasSuffix(rules.ExprString(rs.X), ".Throws") || rs.Value == nil {
				return true
			}
			v := rules.ExprString(rs.Value)
			ast.Inspect(rs.Body, func(m ast.Node) bool {
				be, ok := m.(*ast.BinaryExpr)
				if !ok {
					return true
				}
				switch be.Op {
				case token.EQL, token.NEQ, token.LEQ, token.LSS, token.GEQ, token.GTR:
				default:
					return true
				}
				for i, side := range []ast.Expr{be.X, be.Y} {
					other := []ast.Expr{be.Y, be.X}[i]
					if rules.ExprString(side) == v+".ID" {
						if tv, ok := info.Types[other]; ok && tv.Value != nil {
							idFound = spec[1]
						}
					}
				}
				return true
			})
			return true
		})
	}
	c.Decide(idFound != "", "synth-success-name-free", golangRel+".buildSynthesized/success-id", "generator/golang/scope.go", "the id of a throws field is compared with a constant in "+idFound,
		"nothing compares a throws field's id with the id 0 of the synthesized success field: `i32 g() throws (0: E e)` gives the result struct two fields with id 0 (duplicate ReadField0/writeField0 methods and a duplicate switch case), thriftgo exits 0 and the generated package does not compile")
	c.Decide(found != "", "synth-success-name-free", key, "generator/golang/scope.go", "a throws field named success is handled in "+found,
		"nothing compares a throws field's name with the synthesized \"success\": `i32 g() throws (1: E success)` gives the result struct two fields called Success (redeclared Success_DEFAULT / GetSuccess), thriftgo exits 0 and the generated package does not compile")
}

// ---------------------------------------------------------------------------------------------------------------------
// C01: several IDL files may share one Go namespace and then land in one Go package. Rule: the fastgo backend, which writes
// one k-<file>.go per IDL file, declares no package-level identifier with a fixed name in every file, and imports no
// include that lives in the file's own package.
func c01fastgoPerFile(c *core.Check) {
	fd := c.Prog.FuncDecl(fastgoRel, "FastGoBackend.GenerateOne")
	key := fastgoRel + ".(FastGoBackend).GenerateOne"
	if fd == nil {
		c.Unknown("anchor", key, "", "missing")
		return
	}
	info := c.Prog.Pkg(fastgoRel).TypesInfo
	var fixed []string
	selfCheck := false
	ast.Inspect(fd.Body, func(n ast.Node) bool {
		switch x := n.(type) {
		case *ast.CallExpr:
			fn := rules.Callee(info, x)
			if fn == nil || fn.Pkg() == nil || fn.Pkg().Path() != "fmt" || !strings.HasPrefix(fn.Name(), "Fprint") || len(x.Args) < 2 {
				return true
			}
			s, ok := rules.ConstString(info, x.Args[1])
			if !ok {
				return true
			}
			t := strings.TrimSpace(s)
			for _, kw := range []string{"var ", "func ", "type ", "const "} {
				if strings.HasPrefix(t, kw) && !strings.Contains(strings.SplitN(t, "=", 2)[0], "%") && !strings.HasPrefix(t, "var (") {
					name := strings.Fields(t[len(kw):])
					if len(name) > 0 && len(x.Args) == 2 {
						fixed = append(fixed, kw+name[0])
					}
				}
			}
		case *ast.BinaryExpr:
			if (x.Op == token.EQL || x.Op == token.NEQ) && strings.Contains(rules.ExprString(x), "ImportPath") {
				selfCheck = true
			}
		}
		return true
	})
	c.Decide(len(fixed) == 0, "fastgo-per-file-names-unique", key+"/package-level-names", c.Prog.Rel(fd.Pos()), "no fixed package-level name is declared per file",
		fmt.Sprintf("every generated k-<file>.go declares %v: two IDL files of one Go namespace (an include in the same namespace is enough) give a package that does not compile (redeclared), although thriftgo exits 0", fixed))
	c.Decide(selfCheck, "fastgo-per-file-names-unique", key+"/self-import", c.Prog.Rel(fd.Pos()), "includes of the file's own package are not imported",
		"every include is imported without comparing its import path with the file's own: an include that shares the Go namespace makes the generated package import itself (import cycle)")
}

// ---------------------------------------------------------------------------------------------------------------------
// C04: "duplicate field id / field name" must be diagnosed in every kind of field list. Rule: every AST edge of type
// []*parser.Field (enumerated through go/types: StructLike.Fields, Function.Arguments, Function.Throws, …) is read inside a
// checker function that contains an id-uniqueness loop (a map[int32]bool indexed by a field's ID guarding an error).
func c04fieldListsChecked(c *core.Check) {
	ppk := c.Prog.Pkg("parser")
	spk := c.Prog.Pkg("semantic")
	info := spk.TypesInfo
	// the edges
	type edge struct{ owner, field string }
	var edges []edge
	sc := ppk.Types.Scope()
	for _, n := range sc.Names() {
		tn, ok := sc.Lookup(n).(*types.TypeName)
		if !ok {
			continue
		}
		st, ok := tn.Type().Underlying().(*types.Struct)
		if !ok {
			continue
		}
		for i := 0; i < st.NumFields(); i++ {
			if strings.HasSuffix(st.Field(i).Type().String(), "[]*"+core.Module+"/parser.Field") {
				edges = append(edges, edge{n, st.Field(i).Name()})
			}
		}
	}
	// checker functions with an id-uniqueness loop, and the field-list edges they read
	covered := map[string]string{}
	for _, f := range spk.Syntax {
		for _, d := range f.Decls {
			fd, ok := d.(*ast.FuncDecl)
			if !ok || fd.Body == nil || core.RecvName(fd) != "checker" {
				continue
			}
			// walk with a stack of enclosing range statements; at an id-uniqueness test record what the ranges iterate over
			var ranges []*ast.RangeStmt
			var stack []ast.Node
			noteEdges := func(e ast.Expr) {
				ast.Inspect(e, func(n ast.Node) bool {
					se, ok := n.(*ast.SelectorExpr)
					if !ok {
						return true
					}
					if sel, ok := info.Selections[se]; ok && sel.Kind() == types.FieldVal && strings.HasSuffix(sel.Type().String(), "[]*"+core.Module+"/parser.Field") {
						owner := sel.Recv().String()
						owner = owner[strings.LastIndex(owner, ".")+1:]
						covered[owner+"."+se.Sel.Name] = fd.Name.Name
					}
					return true
				})
			}
			ast.Inspect(fd.Body, func(n ast.Node) bool {
				if n == nil {
					top := stack[len(stack)-1]
					stack = stack[:len(stack)-1]
					if rs, ok := top.(*ast.RangeStmt); ok && len(ranges) > 0 && ranges[len(ranges)-1] == rs {
						ranges = ranges[:len(ranges)-1]
					}
					return true
				}
				stack = append(stack, n)
				if rs, ok := n.(*ast.RangeStmt); ok {
					ranges = append(ranges, rs)
				}
				is, ok := n.(*ast.IfStmt)
				if !ok {
					return true
				}
				ix, ok := ast.Unparen(is.Cond).(*ast.IndexExpr)
				if !ok || !strings.HasSuffix(rules.ExprString(ix.Index), ".ID") {
					return true
				}
				if tv, ok := info.Types[ix.X]; !ok || tv.Type.Underlying().String() != "map[int32]bool" {
					return true
				}
				diagnoses := false
				for _, st := range is.Body.List {
					if as, ok := st.(*ast.AssignStmt); ok && len(as.Lhs) == 1 && rules.ExprString(as.Lhs[0]) == "err" {
						diagnoses = true
					}
					if rs, ok := st.(*ast.ReturnStmt); ok && len(rs.Results) > 0 && !rules.IsNil(info, rs.Results[len(rs.Results)-1]) {
						diagnoses = true
					}
				}
				if !diagnoses || len(ranges) == 0 {
					return true
				}
				// the list the innermost loop iterates: a field-list edge itself, or a member of the element of an outer loop
				// over a literal that names the edges
				inner := ranges[len(ranges)-1]
				noteEdges(inner.X)
				if se, ok := ast.Unparen(inner.X).(*ast.SelectorExpr); ok {
					if base, ok := se.X.(*ast.Ident); ok {
						for _, outer := range ranges[:len(ranges)-1] {
							if v, ok := outer.Value.(*ast.Ident); ok && info.Defs[v] != nil && info.Uses[base] == info.Defs[v] {
								noteEdges(outer.X)
							}
						}
					}
				}
				return true
			})
		}
	}
	for _, e := range edges {
		k := e.owner + "." + e.field
		c.Decide(covered[k] != "", "field-lists-checked-for-duplicates", "semantic.checker/"+k, "semantic/checker.go",
			"ids (and names) of "+k+" are checked for duplicates in "+covered[k],
			"no checker function with an id-uniqueness test reads "+k+": a duplicate field id or name in that list is accepted with exit status 0 (for argument and throws lists this yields Go code that does not compile or an ambiguous wire format)")
	}
	c.Min("field-lists-checked-for-duplicates", 3)
}

// ---------------------------------------------------------------------------------------------------------------------
// C04: an invalid command line writes no generated file. With several -g languages the files of an earlier language are
// on disk before a later language is looked at, so an unknown language must be refused before the generating loop. Rule:
// in InvokeThriftgo the loop that calls Persist is preceded (on every path: same statement list) by a loop over the same
// language list that looks each language up and returns an error.
func c04languagesValidatedFirst(c *core.Check) {
	fd := c.Prog.FuncDecl("sdk", "InvokeThriftgo")
	key := "sdk.InvokeThriftgo/languages"
	if fd == nil {
		c.Unknown("anchor", key, "", "missing")
		return
	}
	info := c.Prog.Pkg("sdk").TypesInfo
	var gen *ast.RangeStmt
	genIdx := -1
	for i, s := range fd.Body.List {
		if rs, ok := s.(*ast.RangeStmt); ok {
			for _, call := range rules.Calls(rs.Body, false) {
				if fn := rules.Callee(info, call); fn != nil && fn.Name() == "Persist" {
					gen, genIdx = rs, i
				}
			}
		}
	}
	if gen == nil {
		c.Unknown("languages-validated-before-output", key, c.Prog.Rel(fd.Pos()), "no top-level loop that persists the generated files")
		return
	}
	validated := false
	for _, s := range fd.Body.List[:genIdx] {
		rs, ok := s.(*ast.RangeStmt)
		if !ok || rules.ExprString(rs.X) != rules.ExprString(gen.X) {
			continue
		}
		looks, fails := false, false
		for _, call := range rules.Calls(rs.Body, false) {
			if fn := rules.Callee(info, call); fn != nil && fn.Name() == "GetBackend" {
				looks = true
			}
		}
		ast.Inspect(rs.Body, func(n ast.Node) bool {
			if r, ok := n.(*ast.ReturnStmt); ok && len(r.Results) == 1 && !rules.IsNil(info, r.Results[0]) {
				fails = true
			}
			return true
		})
		if looks && fails {
			validated = true
		}
	}
	c.Decide(validated, "languages-validated-before-output", key, c.Prog.Rel(gen.Pos()), "every language of "+rules.ExprString(gen.X)+" is looked up, and an unknown one refused, before the first Persist",
		"the languages are only looked up while generating: `-g go -g nosuch` writes the go files and then exits non-zero, although an invalid command line must write nothing")
}

// ---------------------------------------------------------------------------------------------------------------------
// C20: an option leaves every other setting at its documented default. SetNamingStyle re-applies the remembered
// initialisms setting (cu.doInitialisms) to the style it installs, so the remembered value must start as the documented
// default of ignore_initialisms (false, i.e. correction enabled). Rule: every bool field of CodeUtils that a setter other
// than its own re-applies is initialised in NewCodeUtils to the value its own option's action stores for the option's
// default.
func c20rememberedDefaults(c *core.Check) {
	pk := c.Prog.Pkg(golangRel)
	info := pk.TypesInfo
	ctor := c.Prog.FuncDecl(golangRel, "NewCodeUtils")
	if ctor == nil {
		c.Unknown("anchor", golangRel+".NewCodeUtils", "", "missing")
		return
	}
	// bool fields of CodeUtils read inside a Set*/Use* method that does not assign them
	type use struct{ field, method string }
	var uses []use
	c.Prog.AllFuncDecls(golangRel, func(_ *ast.File, fd *ast.FuncDecl) {
		if core.RecvName(fd) != "CodeUtils" || !(strings.HasPrefix(fd.Name.Name, "Set") || strings.HasPrefix(fd.Name.Name, "Use")) {
			return
		}
		recv := recvNameOf(fd, "cu")
		assigned := map[string]bool{}
		ast.Inspect(fd.Body, func(n ast.Node) bool {
			if as, ok := n.(*ast.AssignStmt); ok {
				for _, l := range as.Lhs {
					assigned[rules.ExprString(l)] = true
				}
			}
			return true
		})
		ast.Inspect(fd.Body, func(n ast.Node) bool {
			se, ok := n.(*ast.SelectorExpr)
			if !ok || rules.ExprString(se.X) != recv || assigned[rules.ExprString(se)] {
				return true
			}
			if sel, ok := info.Selections[se]; ok && sel.Kind() == types.FieldVal {
				if b, ok := sel.Type().Underlying().(*types.Basic); ok && b.Kind() == types.Bool {
					uses = append(uses, use{se.Sel.Name, fd.Name.Name})
				}
			}
			return true
		})
	})
	n := 0
	for _, u := range uses {
		// the field's own setter and the option action calling it
		var own *ast.FuncDecl
		c.Prog.AllFuncDecls(golangRel, func(_ *ast.File, fd *ast.FuncDecl) {
			if core.RecvName(fd) != "CodeUtils" || fd.Name.Name == u.method {
				return
			}
			recv := recvNameOf(fd, "cu")
			ast.Inspect(fd.Body, func(n ast.Node) bool {
				if as, ok := n.(*ast.AssignStmt); ok && len(as.Lhs) == 1 && rules.ExprString(as.Lhs[0]) == recv+"."+u.field && len(fd.Type.Params.List) == 1 {
					own = fd
				}
				return true
			})
		})
		if own == nil {
			continue
		}
		// how the option's action calls the setter: cu.UseX(!v) or cu.UseX(v), v from checkBool (default of the option: false)
		want := "unknown"
		c.Prog.AllFuncDecls(golangRel, func(_ *ast.File, fd *ast.FuncDecl) {})
		for _, f := range pk.Syntax {
			ast.Inspect(f, func(nd ast.Node) bool {
				call, ok := nd.(*ast.CallExpr)
				if !ok || len(call.Args) != 1 {
					return true
				}
				if fn := rules.Callee(info, call); fn == nil || fn.Name() != own.Name.Name || fn.Pkg() != pk.Types {
					return true
				}
				switch a := ast.Unparen(call.Args[0]).(type) {
				case *ast.UnaryExpr:
					if a.Op == token.NOT {
						want = "true" // the option is a negative switch whose default is false
					}
				case *ast.Ident:
					if want == "unknown" && a.Name != "true" && a.Name != "false" {
						want = "false"
					}
				}
				return true
			})
		}
		if want == "unknown" {
			continue
		}
		n++
		// the constructor's literal
		got := "false"
		ast.Inspect(ctor.Body, func(nd ast.Node) bool {
			if kv, ok := nd.(*ast.KeyValueExpr); ok && rules.ExprString(kv.Key) == u.field {
				got = rules.ExprString(kv.Value)
			}
			return true
		})
		c.Decide(got == want, "remembered-default-agrees", golangRel+".CodeUtils."+u.field+"~"+u.method, c.Prog.Rel(ctor.Pos()),
			u.field+" starts as "+got+", the value its option stores for its default; "+u.method+" re-applies it",
			fmt.Sprintf("%s re-applies cu.%s, which starts as %s although the option behind it stores %s for its documented default: giving the other option explicitly silently changes this setting", u.method, u.field, got, want))
	}
	c.Min("remembered-default-agrees", 1)
}

// ---------------------------------------------------------------------------------------------------------------------
// C14: "serialising a mask to JSON and back yields a mask that answers every query identically". Rule: the marshalling
// code never builds a JSON value with strconv.Quote / %q (Go escapes such as \x01 or \a are not JSON); strings go through
// encoding/json.
func c14jsonStrings(c *core.Check) {
	pk := c.Prog.Pkg(fmRel)
	info := pk.TypesInfo
	n := 0
	var bad []string
	for _, f := range pk.Syntax {
		if !strings.HasSuffix(c.Prog.Fset.File(f.Pos()).Name(), "/serdes.go") {
			continue
		}
		for _, d := range f.Decls {
			fd, ok := d.(*ast.FuncDecl)
			if !ok || fd.Body == nil {
				continue
			}
			for _, call := range rules.Calls(fd.Body, true) {
				fn := rules.Callee(info, call)
				if fn == nil || fn.Pkg() == nil {
					continue
				}
				switch fn.Pkg().Path() + "." + fn.Name() {
				case "encoding/json.Marshal":
					n++
				case "strconv.Quote", "strconv.QuoteToASCII", "strconv.AppendQuote":
					n++
					bad = append(bad, fd.Name.Name+": "+rules.ExprString(call)+" at "+c.Prog.Rel(call.Pos()))
				case "fmt.Sprintf", "fmt.Fprintf":
					for _, a := range call.Args {
						if s, ok := rules.ConstString(info, a); ok && strings.Contains(s, "%q") {
							n++
							bad = append(bad, fd.Name.Name+": %q at "+c.Prog.Rel(call.Pos()))
						}
					}
				}
			}
		}
	}
	c.Analysed["json_string_encoders"] = n
	c.Decide(len(bad) == 0 && n > 0, "json-strings-by-json", fmRel+"/serdes.go/string-encoding", fmRel+"/serdes.go",
		"strings reach the JSON text through encoding/json only",
		fmt.Sprintf("JSON text is built with Go quoting (%v): a key containing a control character or other byte that Go escapes as \\\\x.., \\\\a, \\\\v is written as invalid JSON, so the marshalled mask cannot be read back", bad))
}

// ---------------------------------------------------------------------------------------------------------------------
// C17: "a double may be re-read as an integer literal of equal value" — but an integer literal has to fit 64 bits. Rule: the
// branch of printConstTypedValue that prints a double does not rely on the fixed-point format alone: some FormatFloat in
// it uses an exponent format (or the text is given a fraction).
func c17doubleReparsable(c *core.Check) {
	rel := "tool/trimmer/dump"
	fd := c.Prog.FuncDecl(rel, "printConstTypedValue")
	key := rel + ".printConstTypedValue/double"
	if fd == nil {
		c.Unknown("anchor", key, "", "missing")
		return
	}
	info := c.Prog.Pkg(rel).TypesInfo
	var branch *ast.IfStmt
	ast.Inspect(fd.Body, func(n ast.Node) bool {
		if is, ok := n.(*ast.IfStmt); ok && branch == nil && strings.Contains(rules.ExprString(is.Cond), ".Double") {
			branch = is
		}
		return true
	})
	if branch == nil {
		c.Unknown("double-literal-reparsable", key, c.Prog.Rel(fd.Pos()), "no branch for double constants")
		return
	}
	formats := map[string]bool{}
	fraction := false
	for _, call := range rules.Calls(branch.Body, true) {
		fn := rules.Callee(info, call)
		if fn != nil && fn.Pkg() != nil && fn.Pkg().Path() == "strconv" && fn.Name() == "FormatFloat" && len(call.Args) == 4 {
			if v, ok := rules.ConstInt(info, call.Args[1]); ok {
				formats[string(rune(v))] = true
			}
		}
	}
	ast.Inspect(branch.Body, func(n ast.Node) bool {
		if bl, ok := n.(*ast.BasicLit); ok && bl.Value == `".0"` {
			fraction = true
		}
		return true
	})
	okf := formats["e"] || formats["E"] || formats["g"] || formats["G"] || fraction
	c.Decide(okf && len(formats) > 0, "double-literal-reparsable", key, c.Prog.Rel(branch.Pos()),
		fmt.Sprintf("formats %v: a value that does not fit an integer literal is printed with an exponent (or a fraction)", keysOfBool(formats)),
		fmt.Sprintf("doubles are printed with format %v only: a value without a fraction beyond the int64 range (const double X = 1e21) is dumped as a 22-digit integer literal that the parser rejects (value out of range)", keysOfBool(formats)))
}

func keysOfBool(m map[string]bool) []string {
	var ks []string
	for k := range m {
		ks = append(ks, k)
	}
	sort.Strings(ks)
	return ks
}

// ---------------------------------------------------------------------------------------------------------------------
// C16: a kept service keeps its base service. The base is either in another file (Service.Reference set) or in the same
// file (only Service.Extends set). Rule: in markService the test of svc.Reference has a recursive markService call on both
// of its branches.
func c16baseMarkedBothWays(c *core.Check) {
	rel := "tool/trimmer/trim"
	fd := c.Prog.FuncDecl(rel, "Trimmer.markService")
	key := rel + ".(Trimmer).markService/extends"
	if fd == nil {
		c.Unknown("anchor", key, "", "missing")
		return
	}
	info := c.Prog.Pkg(rel).TypesInfo
	self := info.Defs[fd.Name]
	recurses := func(n ast.Node) bool {
		if n == nil {
			return false
		}
		found := false
		ast.Inspect(n, func(x ast.Node) bool {
			if call, ok := x.(*ast.CallExpr); ok {
				if fn := rules.Callee(info, call); fn != nil && types.Object(fn) == self {
					found = true
				}
			}
			return true
		})
		return found
	}
	var test *ast.IfStmt
	ast.Inspect(fd.Body, func(n ast.Node) bool {
		if is, ok := n.(*ast.IfStmt); ok && strings.Contains(strings.ReplaceAll(rules.ExprString(is.Cond), " ", ""), ".Reference!=nil") && recurses(is.Body) {
			test = is
		}
		return true
	})
	if test == nil {
		c.Unknown("base-service-kept", key, c.Prog.Rel(fd.Pos()), "no branch that follows a base service through Service.Reference")
		return
	}
	c.Decide(test.Else != nil && recurses(test.Else), "base-service-kept", key, c.Prog.Rel(test.Pos()),
		"the base service is marked through the reference and, when there is none, by name in the same file",
		"the base service is only followed through Service.Reference: a base defined in the same (included) file is not marked, is trimmed away, and re-resolution fails with 'base service not found'")
}
