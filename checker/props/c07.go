package props

import (
	"fmt"
	"go/ast"
	"go/constant"
	"go/token"
	"go/types"
	"regexp/syntax"
	"strings"

	"golang.org/x/tools/go/ssa"

	"verif/checker/core"
	"verif/checker/rules"
)

func init() { register("C07", c07) }

func c07(c *core.Check) {
	c.Explain = "ORDER: inside the call-graph closure (VTA) of sdk.InvokeThriftgo (both backends, trim_idl, reflection descriptors, meta.Marshal, plugin request marshalling through the checked-in fast codec) and of the trimmer's main (incl. dump), " +
		"every source of run-to-run variation is enumerated: range over a map, reflect MapRange/MapKeys, multi-case select, go statements, time.Now, math/rand, pid/env, %p. " +
		"Each site is classified automatically as order-insensitive when its body matches an idiom (into-map under the range key, collect-then-sort, commutative fold, error-choice only; iterator helpers are classified by the callbacks passed to them), " +
		"or discharged by a frozen table entry whose reason is re-verified mechanically where possible; everything else is a violation or a listed known finding. " +
		"A validation-only barrier (all results are error, no store into parser/golang/plugin values anywhere in its closure; checked on SSA) removes thrift_option.CheckOptionGrammar's sub-closure. " +
		"NOT decided: scheduler effects beyond data flow (C19), go/format stability, and the content-independence from -o (only listed)."
	c.RuleText = "one obligation per nondeterminism site (function + construct); non-trivial = classified by body shape or by a verified table reason"
	c.Assume = []string{
		"text/template ranges over maps in sorted key order (library behaviour)",
		"plugin-supplied insertion-point names contain no ')' (otherwise two replacer keys can overlap)",
		"use_package does not map two standard libraries to one import path",
		"VTA call graph over-approximates the real calls",
	}
	prog := c.Prog
	prog.SSA()
	inv := rules.Func(prog.SSAPkg("sdk"), "InvokeThriftgo")
	if inv == nil {
		c.Unknown("anchor", "sdk.InvokeThriftgo", "", "missing")
		return
	}
	roots := []*ssa.Function{inv}
	if f := rules.Func(prog.SSAPkg("tool/trimmer"), "main"); f != nil {
		roots = append(roots, f)
	} else {
		c.Unknown("anchor", "tool/trimmer.main", "", "missing")
	}
	var barriers []*ssa.Function
	if f := rules.Func(prog.SSAPkg("extension/thrift_option"), "CheckOptionGrammar"); f != nil {
		ok, fact := validationBarrier(c, f, []string{"parser", "generator/golang", "plugin", "generator"})
		if ok {
			barriers = append(barriers, f)
			c.OK("order-barrier", "extension/thrift_option.CheckOptionGrammar", prog.Rel(f.Pos()), "validation-only barrier: "+fact)
		} else {
			c.Note("CheckOptionGrammar is not a validation-only barrier any more (%s); its closure is analysed", fact)
		}
	}
	table := map[string]discharge{
		"generator.(insertionPointReplacer).Replace/range-map p.m": {
			Reason: "all keys found in the file match insertReg = literal '(' [^)]* ')' so no key is a proper prefix of another; strings.NewReplacer's result is then independent of argument order",
			Verify: verifyInsertRegPrefixFree,
		},
		"generator/fastgo.(bitsetCodeGen).GenIfNotSet/range-map g.m": {
			Reason: "map inversion m[v]=k is order-insensitive because g.m's values are pairwise distinct: the only writer stores the counter g.i and then increments it",
			Verify: verifyBitsetCounter,
		},
		"generator/golang.(importManager).init/range-map std": {
			Reason: "fresh namespace, literal keys distinct (compiler) and literal values distinct (constant evaluation) => Add never renames, result independent of order",
			Verify: verifyStdImportsDistinct,
		},
		"generator/golang.(Scope).resolveTypesAndValues/go go (func() literal)": {
			Reason: "single producer goroutine feeding an unbuffered channel consumed by one range loop", Verify: singleProducer(c, "generator/golang", "Scope.resolveTypesAndValues")},
		"parser.(Thrift).DepthFirstSearch/go go dfs": {
			Reason: "single producer goroutine: channel order is the DFS order", Verify: singleProducer(c, "parser", "Thrift.DepthFirstSearch")},
		"generator.(asyncPostProcess).OnFinished/go go (func(path string, content []byte) literal)": {
			Reason: "completion order carries no data: each worker writes its own path/content (C19 R6/R8); decided by property C19"},
		"generator.(asyncPostProcess).OnFinished/select select": {
			Reason: "the select only chooses between acquiring a slot and reporting an error; which error is reported is diagnostic text, file contents are unaffected (C19)"},
	}
	orderCheck(c, "order", roots, barriers, table, nil)
	c.Min("order", 10)
	c07truncates(c)
}

// verifyInsertRegPrefixFree re-derives the regular expression of generator.insertReg from constants and
// checks: <literal prefix> '(' <class>* ')' with ')' not in the class.
func verifyInsertRegPrefixFree(c *core.Check) (bool, string) {
	pat, err := insertRegPattern(c)
	if err != "" {
		return false, err
	}
	re, e := syntax.Parse(pat, syntax.Perl)
	if e != nil {
		return false, "insertReg does not parse: " + e.Error()
	}
	re = re.Simplify()
	// flatten concatenations and capture groups (the format's own "(%s)" is a group around the escaped parentheses)
	var flat []*syntax.Regexp
	var fl func(r *syntax.Regexp)
	fl = func(r *syntax.Regexp) {
		switch r.Op {
		case syntax.OpConcat:
			for _, s := range r.Sub {
				fl(s)
			}
		case syntax.OpCapture:
			fl(r.Sub[0])
		default:
			flat = append(flat, r)
		}
	}
	fl(re)
	if len(flat) < 3 {
		return false, "unexpected shape " + re.String()
	}
	re = &syntax.Regexp{Op: syntax.OpConcat, Sub: flat}
	last := re.Sub[len(re.Sub)-1]
	star := re.Sub[len(re.Sub)-2]
	if last.Op != syntax.OpLiteral || string(last.Rune) != ")" {
		return false, "pattern does not end in a literal ')'"
	}
	if star.Op != syntax.OpStar || star.Sub[0].Op != syntax.OpCharClass {
		return false, "no character-class star before the closing parenthesis"
	}
	cls := star.Sub[0].Rune
	for i := 0; i+1 < len(cls); i += 2 {
		if cls[i] <= ')' && ')' <= cls[i+1] {
			return false, "the name class contains ')': one marker can be a proper prefix of another"
		}
	}
	// the part before the star must end with '(' literal
	pre := re.Sub[len(re.Sub)-3]
	if pre.Op != syntax.OpLiteral || len(pre.Rune) == 0 || pre.Rune[len(pre.Rune)-1] != '(' {
		return false, "no literal '(' before the name class"
	}
	// the argument only covers a single pass over the text: the loop may do nothing but collect (key, value) pairs for
	// one strings.NewReplacer; replacing key by key in map order rescans inserted text and is order-dependent
	if ok, why := replaceIsSinglePass(c); !ok {
		return false, why
	}
	return true, "pattern " + pat + " has the shape literal'(' [class without ')']* ')' and Replace builds one strings.NewReplacer from the collected pairs"
}

// replaceIsSinglePass checks the shape of insertionPointReplacer.Replace: every range over the marker map only appends its
// key and value to one slice, and that slice is the variadic argument of strings.NewReplacer.
func replaceIsSinglePass(c *core.Check) (bool, string) {
	fd := c.Prog.FuncDecl("generator", "insertionPointReplacer.Replace")
	if fd == nil {
		return false, "insertionPointReplacer.Replace not found"
	}
	info := c.Prog.Pkg("generator").TypesInfo
	var collected types.Object
	okLoop, loops := true, 0
	ast.Inspect(fd.Body, func(n ast.Node) bool {
		rs, ok := n.(*ast.RangeStmt)
		if !ok {
			return true
		}
		if tv, ok := info.Types[rs.X]; !ok || !strings.HasPrefix(tv.Type.Underlying().String(), "map[") {
			return true
		}
		loops++
		if len(rs.Body.List) != 1 {
			okLoop = false
			return true
		}
		as, ok := rs.Body.List[0].(*ast.AssignStmt)
		if !ok || len(as.Lhs) != 1 || len(as.Rhs) != 1 {
			okLoop = false
			return true
		}
		call, ok := as.Rhs[0].(*ast.CallExpr)
		lhs, ok2 := as.Lhs[0].(*ast.Ident)
		if !ok || !ok2 || !rules.IsBuiltin(info, call, "append") || len(call.Args) != 3 || rules.ExprString(call.Args[0]) != lhs.Name ||
			rules.ExprString(call.Args[1]) != rules.ExprString(rs.Key) || rules.ExprString(call.Args[2]) != rules.ExprString(rs.Value) {
			okLoop = false
			return true
		}
		collected = info.Uses[lhs]
		return true
	})
	if loops == 0 || !okLoop || collected == nil {
		return false, "the loop over the marker map does more than collect (marker, replacement) pairs: replacing marker by marker in map order makes the output depend on the iteration order whenever an inserted text contains a marker"
	}
	single := false
	for _, call := range rules.Calls(fd.Body, false) {
		if fn := rules.Callee(info, call); fn != nil && fn.Pkg() != nil && fn.Pkg().Path() == "strings" && fn.Name() == "NewReplacer" && call.Ellipsis.IsValid() && len(call.Args) == 1 {
			if id, ok := call.Args[0].(*ast.Ident); ok && info.Uses[id] == collected {
				single = true
			}
		}
	}
	if !single {
		return false, "the collected pairs are not handed to one strings.NewReplacer"
	}
	return true, ""
}

// insertRegPattern folds fmt.Sprintf(plugin.InsertionPointFormat, "<const>") in generator.insertReg's initialiser.
func insertRegPattern(c *core.Check) (string, string) {
	pk := c.Prog.Pkg("generator")
	if pk == nil {
		return "", "package generator missing"
	}
	var init ast.Expr
	for _, f := range pk.Syntax {
		for _, d := range f.Decls {
			if gd, ok := d.(*ast.GenDecl); ok && gd.Tok == token.VAR {
				for _, s := range gd.Specs {
					vs := s.(*ast.ValueSpec)
					for i, n := range vs.Names {
						if n.Name == "insertReg" && i < len(vs.Values) {
							init = vs.Values[i]
						}
					}
				}
			}
		}
	}
	call, ok := init.(*ast.CallExpr)
	if !ok || !rules.IsPkgFunc(rules.Callee(pk.TypesInfo, call), "regexp", "MustCompile") || len(call.Args) != 1 {
		return "", "insertReg is not regexp.MustCompile(...)"
	}
	if s, ok := rules.ConstString(pk.TypesInfo, call.Args[0]); ok {
		return s, ""
	}
	sp, ok := call.Args[0].(*ast.CallExpr)
	if !ok || !rules.IsPkgFunc(rules.Callee(pk.TypesInfo, sp), "fmt", "Sprintf") || len(sp.Args) != 2 {
		return "", "pattern is neither constant nor fmt.Sprintf(const, const)"
	}
	f, ok1 := rules.ConstString(pk.TypesInfo, sp.Args[0])
	a, ok2 := rules.ConstString(pk.TypesInfo, sp.Args[1])
	if !ok1 || !ok2 || strings.Count(f, "%") != 1 || !strings.Contains(f, "%s") {
		return "", "Sprintf arguments are not constant / not a single %s"
	}
	// the format itself is used as a regular expression: its metacharacters must be only the parentheses around %s,
	// which the argument re-supplies escaped; thriftgo relies on "(%s)" → "(\(…\))" being a group around the escaped parens
	return strings.Replace(f, "%s", a, 1), ""
}

func verifyBitsetCounter(c *core.Check) (bool, string) {
	pkg := c.Prog.SSAPkg("generator/fastgo")
	if pkg == nil {
		return false, "package missing"
	}
	updates, okUpd, stores, okSt := 0, true, 0, true
	for _, m := range pkg.Members {
		_ = m
	}
	var fns []*ssa.Function
	for _, mem := range pkg.Members {
		if f, ok := mem.(*ssa.Function); ok {
			fns = append(fns, f)
		}
		if t, ok := mem.(*ssa.Type); ok {
			for _, tt := range []types.Type{t.Type(), types.NewPointer(t.Type())} {
				ms := c.Prog.SSA().MethodSets.MethodSet(tt)
				for i := 0; i < ms.Len(); i++ {
					if f := c.Prog.SSA().MethodValue(ms.At(i)); f != nil {
						fns = append(fns, f)
					}
				}
			}
		}
	}
	isField := func(v ssa.Value, name string) bool {
		u, ok := v.(*ssa.UnOp)
		if !ok {
			return false
		}
		fa, ok := u.X.(*ssa.FieldAddr)
		if !ok || !rules.IsNamed(fa.X.Type(), core.Module+"/generator/fastgo", "bitsetCodeGen") {
			return false
		}
		st := fa.X.Type().Underlying().(*types.Pointer).Elem().Underlying().(*types.Struct)
		return st.Field(fa.Field).Name() == name
	}
	seen := map[*ssa.Function]bool{}
	for _, f := range fns {
		if seen[f] {
			continue
		}
		seen[f] = true
		forEachInstrRec(f, func(ins ssa.Instruction) {
			switch x := ins.(type) {
			case *ssa.MapUpdate:
				if isField(x.Map, "m") {
					updates++
					if !isField(x.Value, "i") {
						okUpd = false
					}
				}
			case *ssa.Store:
				if fa, ok := x.Addr.(*ssa.FieldAddr); ok && rules.IsNamed(fa.X.Type(), core.Module+"/generator/fastgo", "bitsetCodeGen") {
					st := fa.X.Type().Underlying().(*types.Pointer).Elem().Underlying().(*types.Struct)
					if st.Field(fa.Field).Name() == "i" {
						stores++
						bo, ok := x.Val.(*ssa.BinOp)
						if !ok || bo.Op != token.ADD || !isField(bo.X, "i") {
							okSt = false
						} else if k, ok := bo.Y.(*ssa.Const); !ok || k.Value == nil || !constant.Compare(k.Value, token.EQL, constant.MakeInt64(1)) {
							okSt = false
						}
					}
				}
			}
		})
	}
	if updates == 1 && okUpd && stores == 1 && okSt {
		return true, "one writer of bitsetCodeGen.m (stores the counter i), one writer of i (i+1)"
	}
	return false, fmt.Sprintf("writers of m=%d (counter-valued: %v), writers of i=%d (increment: %v)", updates, okUpd, stores, okSt)
}

func verifyStdImportsDistinct(c *core.Check) (bool, string) {
	fd := c.Prog.FuncDecl(golangRel, "importManager.init")
	if fd == nil {
		return false, "importManager.init missing"
	}
	info := c.Prog.Pkg(golangRel).TypesInfo
	var lit *ast.CompositeLit
	ast.Inspect(fd.Body, func(n ast.Node) bool {
		if as, ok := n.(*ast.AssignStmt); ok && len(as.Lhs) == 1 {
			if id, ok := as.Lhs[0].(*ast.Ident); ok && id.Name == "std" {
				lit, _ = as.Rhs[0].(*ast.CompositeLit)
			}
		}
		return true
	})
	if lit == nil {
		return false, "std literal not found"
	}
	vals := map[string]string{}
	for _, e := range lit.Elts {
		kv, ok := e.(*ast.KeyValueExpr)
		if !ok {
			return false, "non key-value element"
		}
		k, ok1 := rules.ConstString(info, kv.Key)
		v, ok2 := rules.ConstString(info, kv.Value)
		if !ok1 || !ok2 {
			return false, "non-constant entry"
		}
		if prev, dup := vals[v]; dup {
			return false, fmt.Sprintf("std libraries %q and %q share the import path %q: which alias wins depends on map order", prev, k, v)
		}
		vals[v] = k
	}
	// namespace is created in the same function before the loop (fresh)
	fresh := false
	for _, call := range rules.Calls(fd.Body, false) {
		if fn := rules.Callee(info, call); fn != nil && fn.Name() == "NewNamespace" {
			fresh = true
		}
	}
	if !fresh {
		return false, "namespace is not created in init (not fresh)"
	}
	return true, fmt.Sprintf("%d entries, values pairwise distinct, namespace created in the same function", len(vals))
}
