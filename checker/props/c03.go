package props

import (
	"fmt"
	"go/ast"
	"go/constant"
	"go/printer"
	"go/token"
	"go/types"
	"os"
	"path/filepath"
	"regexp"
	"sort"
	"strconv"
	"strings"

	"verif/checker/core"
	"verif/checker/peg"
	"verif/checker/rules"

	"golang.org/x/tools/go/cfg"
	"golang.org/x/tools/go/ssa"
)

func init() { register("C03", c03) }

func c03(c *core.Check) {
	c.Explain = "SHAPE + SIB. (1) the grammar is read from the rule comments the peg generator left in parser/thrift.peg.go (that file is what executes; parser/thrift.peg is read with the same reader and a difference is only noted): no undefined rule, no left recursion, no `e*`/`e+` with a nullable body — the only ways a PEG recogniser fails to terminate; no capture <…> can begin at input offset 0 (pegText reads buffer[begin-1]). " +
		"(2) SHAPE: for every rule the regular over-approximation of its nodes' child-token sequences is built from the tree-construction semantics read off tokens32.AST (empty tokens are dropped, so nullable children are optional; predicates add nothing; captures add a PegText node), and every function of the tree walker in parser.go is abstractly interpreted on go/ssa: a *node32 value is a set of cursors (parent rule, automaton state, current rule) or nil; .up/.next step the automata, comparisons with rule constants and nil refine on branches, phis join, calls are analysed per abstract argument (memoised, fixpoint over recursion), the error result of a callee is correlated with its node result. Obligation: no field access through a *node32 whose cursor set contains nil. " +
		"(3) every `for …; n != nil; …` loop over nodes advances by .next in its post statement (the child list is finite, so the walk terminates). " +
		"(4) the four implementations of implicit field ids (parseStruct, parseUnion, parseException inline and addField for arguments/throws) are alpha-equivalent (compared with each other) and have the shape `previous+1, first = 1`; the implicit enum value is `0 if first else previous+1`. " +
		"(6) coverage: for every structured child kind R (a walker function starts with checkrule(node, ruleR)) that the walker processes inside a parent P, every transition of P's child automaton labelled R is handed to that function in some calling context — a position where the grammar admits an R that no walker path consumes is text that silently never reaches the AST. (5) where captures nest (DoubleConstant contains the IntConstant of its exponent) the text extractor takes the outer capture whole (go/cfg of pegText). NOT decided: faithfulness of the extracted text otherwise, layout independence, the index arithmetic inside pegText beyond the offset-0 fact, the 64 KiB time bound (only termination)."
	c.RuleText = "one obligation per grammar fact, per dereference site of the walker (grouped per function), per node loop, per sibling pair"
	c.Assume = []string{"the generated recogniser implements the grammar in its own rule comments and restores the token list after predicates and failed alternatives (pointlander/peg semantics; the generator is not installed)",
		"go/ssa faithfully represents parser.go"}
	// ---- grammar
	gsrc, err := grammarFromGenerated()
	if err != nil {
		c.Unknown("grammar", "parser/thrift.peg.go", "", err.Error())
		return
	}
	g, err := peg.Parse(gsrc)
	if err != nil {
		c.Unknown("grammar", "parser/thrift.peg.go", "", "rule comments do not parse: "+err.Error())
		return
	}
	c.Analysed["grammar_rules"] = len(g.Order)
	if b, e := os.ReadFile(filepath.Join(core.RepoDir(), "parser", "thrift.peg")); e == nil {
		if g2, e2 := peg.Parse(string(b)); e2 == nil {
			// compare what the analysis uses: nullability and the child automaton of every rule (insensitive to the
			// generator splitting literals into characters)
			d1, d2 := g.Children(), g2.Children()
			n1, n2 := g.Nullable(), g2.Nullable()
			var diff []string
			for _, r := range g.Order {
				if d2[r] == nil || d1[r].Describe() != d2[r].Describe() || n1[r] != n2[r] {
					diff = append(diff, r)
				}
			}
			if len(diff) > 0 || len(g2.Order) != len(g.Order) {
				c.Note("G0: parser/thrift.peg and the grammar embedded in thrift.peg.go differ in tree shape for %v (%d vs %d rules); the generated file is what executes and what is analysed", diff, len(g2.Order), len(g.Order))
			} else {
				c.Note("G0: parser/thrift.peg and the generated parser describe the same tree shapes for all %d rules", len(g.Order))
			}
		} else {
			c.Note("G0: parser/thrift.peg does not parse with the reader: %v", e2)
		}
	}
	und := g.UndefinedRefs()
	c.Decide(len(und) == 0, "grammar-wellformed", "grammar/undefined-rules", "parser/thrift.peg.go", "every referenced rule is defined", fmt.Sprintf("undefined rules: %v", und))
	lr := g.LeftRecursive()
	c.Decide(len(lr) == 0, "grammar-terminates", "grammar/left-recursion", "parser/thrift.peg.go", fmt.Sprintf("no rule of %d is left-recursive", len(g.Order)), fmt.Sprintf("left-recursive rules %v: the recogniser recurses without consuming input (stack overflow on some byte strings)", lr))
	nr := g.NullableRepetitions()
	c.Decide(len(nr) == 0, "grammar-terminates", "grammar/nullable-repetition", "parser/thrift.peg.go", "no repetition has a body that can match the empty string", fmt.Sprintf("repetitions with a nullable body %v: the recogniser loops forever without consuming input", nr))
	cs := g.CapturesAtStart("Document")
	c.Decide(len(cs) == 0, "capture-not-at-offset-0", "grammar/captures", "parser/thrift.peg.go", "every capture is preceded by at least one consumed character on every derivation from Document (pegText's buffer[begin-1] is in range)",
		fmt.Sprintf("captures in %v can begin at input offset 0: pegText reads buffer[-1] and panics", cs))
	c03nested(c, g)
	c03doubleText(c, g)
	c03intSpellings(c)
	c03annotationsAppend(c)
	c03annotations(c)
	// ---- SHAPE
	c03shape(c, g)
	// ---- loops advance
	c03loops(c)
	// ---- siblings
	c03implicit(c)
}

func stripOuterCapture(s string) string {
	s = strings.TrimSpace(s)
	for strings.HasPrefix(s, "<") && strings.HasSuffix(s, ">") {
		s = s[1 : len(s)-1]
	}
	for strings.HasPrefix(s, "(") && strings.HasSuffix(s, ")") && balanced(s[1:len(s)-1]) {
		s = s[1 : len(s)-1]
	}
	return s
}

func balanced(s string) bool {
	d := 0
	for _, ch := range s {
		switch ch {
		case '(':
			d++
		case ')':
			d--
			if d < 0 {
				return false
			}
		}
	}
	return d == 0
}

// grammarFromGenerated reassembles the grammar from the `/* n Rule <- <(…)> */` comments of thrift.peg.go.
func grammarFromGenerated() (string, error) {
	b, err := os.ReadFile(filepath.Join(core.RepoDir(), "parser", "thrift.peg.go"))
	if err != nil {
		return "", err
	}
	re := regexp.MustCompile(`(?s)/\* (\d+) (\w+) <- <(.*?)> \*/`)
	ms := re.FindAllStringSubmatch(string(b), -1)
	if len(ms) < 50 {
		return "", fmt.Errorf("only %d rule comments found in thrift.peg.go", len(ms))
	}
	var sb strings.Builder
	for _, m := range ms {
		fmt.Fprintf(&sb, "%s <- %s\n", m[2], m[3])
	}
	return sb.String(), nil
}

func c03shape(c *core.Check, g *peg.Grammar) {
	prog := c.Prog
	prog.SSA()
	pkg := prog.SSAPkg("parser")
	if pkg == nil {
		c.Unknown("anchor", "parser", "", "package missing")
		return
	}
	a := &shapeAnalysis{c: c, dfa: g.Children(), ruleOf: map[int64]string{}, pkg: pkg, memo: map[string]*shapeSummary{}, viol: map[string]string{}, derefs: map[string]bool{}, tops: map[string]bool{}, consumed: map[transition]map[string]bool{}}
	a.dfa["<root>"] = &peg.ChildDFA{Rule: "<root>", Trans: []map[string]int{{}}, Accept: []bool{true}}
	sc := prog.Pkg("parser").Types.Scope()
	for _, n := range sc.Names() {
		if !strings.HasPrefix(n, "rule") {
			continue
		}
		k, ok := sc.Lookup(n).(*types.Const)
		if !ok {
			continue
		}
		if nt, ok := k.Type().(*types.Named); !ok || nt.Obj().Name() != "pegRule" {
			continue
		}
		v, _ := constant.Int64Val(constant.ToInt(k.Val()))
		a.ruleOf[v] = strings.TrimPrefix(n, "rule")
	}
	if len(a.ruleOf) < 50 {
		c.Unknown("walker-nil-safe", "parser/rule constants", "", "rule constants not found")
		return
	}
	// every rule constant the walker can see must exist in the grammar
	entry := rules.Method(prog.SSA(), pkg, "parser", "parse")
	if entry == nil {
		c.Unknown("anchor", "parser.(parser).parse", "", "missing")
		return
	}
	// the analysis treats two loads of the same field of the same node as one value: no walker code may write a node
	stores := 0
	for fn := range ssautilAllFunctions(prog, pkg) {
		if fn.Pos().IsValid() && strings.HasSuffix(prog.Fset.File(fn.Pos()).Name(), "thrift.peg.go") {
			continue
		}
		for _, b := range fn.Blocks {
			for _, ins := range b.Instrs {
				if st, ok := ins.(*ssa.Store); ok {
					if fa, ok := st.Addr.(*ssa.FieldAddr); ok && a.isNode(fa.X.Type()) {
						stores++
						c.Bad("walker-nodes-immutable", "parser."+fn.Name()+"/store", prog.Rel(st.Pos()), "the tree walker writes a field of a syntax-tree node; the shape analysis (and the termination of the sibling loops) assumes the tree is immutable after AST()")
					}
				}
			}
		}
	}
	if stores == 0 {
		c.OK("walker-nodes-immutable", "parser/node-stores", "parser", "no function outside the generated file stores into a node32")
	}
	for round := 0; round < 12; round++ {
		a.changed = false
		a.memo2reset()
		a.viol = map[string]string{}
		a.analyze(entry, make([]cset, len(entry.Params)))
		if !a.changed {
			break
		}
	}
	// group obligations per function
	perFn := map[string][]string{}
	for site := range a.derefs {
		fn := site[:strings.Index(site, "@")]
		perFn[fn] = append(perFn[fn], site)
	}
	var fns []string
	for f := range perFn {
		fns = append(fns, f)
	}
	sort.Strings(fns)
	total := 0
	for _, f := range fns {
		sites := perFn[f]
		sort.Strings(sites)
		total += len(sites)
		var bad []string
		for _, s := range sites {
			if m, ok := a.viol[s]; ok {
				bad = append(bad, s[strings.Index(s, "@")+1:]+": "+m)
			}
		}
		key := "parser." + f + "/node-dereferences"
		if len(bad) > 0 {
			c.Bad("walker-nil-safe", key, sites[0][strings.Index(sites[0], "@")+1:], strings.Join(bad, " || "))
		} else {
			c.OK("walker-nil-safe", key, sites[0][strings.Index(sites[0], "@")+1:], fmt.Sprintf("%d dereference site(s): no absent node can reach them for any parse tree the grammar admits", len(sites)))
		}
	}
	c03coverage(c, a)
	c.Analysed["walker_dereference_sites"] = total
	c.Analysed["walker_contexts"] = len(a.memo)
	if len(a.tops) > 0 {
		var ts []string
		for t := range a.tops {
			ts = append(ts, t)
		}
		sort.Strings(ts)
		c.Note("node values the analysis could not follow (assumed to be anything, including nil): %v", ts)
	}
	c.Min("walker-nil-safe", 20)
}

// memo2reset keeps summaries between rounds (they are the fixpoint's current approximation) but allows recomputation.
func (a *shapeAnalysis) memo2reset() {
	old := a.memo
	a.memo = map[string]*shapeSummary{}
	a.prev = old
}

func c03loops(c *core.Check) {
	pk := c.Prog.Pkg("parser")
	info := pk.TypesInfo
	n := 0
	for _, f := range pk.Syntax {
		if !strings.HasSuffix(c.Prog.Fset.File(f.Pos()).Name(), "/parser.go") {
			continue
		}
		for _, d := range f.Decls {
			fd, ok := d.(*ast.FuncDecl)
			if !ok || fd.Body == nil {
				continue
			}
			ast.Inspect(fd.Body, func(nd ast.Node) bool {
				fs, ok := nd.(*ast.ForStmt)
				if !ok || fs.Cond == nil {
					return true
				}
				be, ok := fs.Cond.(*ast.BinaryExpr)
				if !ok || be.Op != token.NEQ || !rules.IsNil(info, be.Y) {
					return true
				}
				tv, ok := info.Types[be.X]
				if !ok || !strings.HasSuffix(tv.Type.String(), "node32") {
					return true
				}
				n++
				v := rules.ExprString(be.X)
				okPost := false
				if as, ok := fs.Post.(*ast.AssignStmt); ok && len(as.Lhs) == 1 && rules.ExprString(as.Lhs[0]) == v && rules.ExprString(as.Rhs[0]) == v+".next" {
					okPost = true
				}
				key := fmt.Sprintf("parser.%s/for %s#%d", fd.Name.Name, v, n)
				c.Decide(okPost, "walker-loop-advances", key, c.Prog.Rel(fs.Pos()), "post statement is "+v+" = "+v+".next: every iteration (also after continue) moves to the next sibling",
					"a loop over sibling nodes does not advance by .next in its post statement: a `continue` path repeats the same node forever")
				return true
			})
		}
	}
	c.Min("walker-loop-advances", 8)
}

func c03implicit(c *core.Check) {
	pk := c.Prog.Pkg("parser")
	info := pk.TypesInfo
	// collect `if X.ID == NOTSET { … }` blocks
	type blk struct {
		fn   string
		text string
		pos  token.Pos
	}
	var blocks []blk
	for _, f := range pk.Syntax {
		for _, d := range f.Decls {
			fd, ok := d.(*ast.FuncDecl)
			if !ok || fd.Body == nil {
				continue
			}
			ast.Inspect(fd.Body, func(nd ast.Node) bool {
				is, ok := nd.(*ast.IfStmt)
				if !ok {
					return true
				}
				be, ok := is.Cond.(*ast.BinaryExpr)
				if !ok || be.Op != token.EQL || rules.ExprString(be.Y) != "NOTSET" || !strings.HasSuffix(rules.ExprString(be.X), ".ID") {
					return true
				}
				var sb strings.Builder
				for _, s := range is.Body.List {
					sb.WriteString(nodeText(c, s))
					sb.WriteString(";")
				}
				t := strings.Join(strings.Fields(sb.String()), " ")
				// abstract the carried list: whatever len(…) is applied to inside the block
				if m := regexp.MustCompile(`len\(([A-Za-z_][A-Za-z0-9_.]*)\)`).FindStringSubmatch(t); m != nil {
					t = regexp.MustCompile(`(^|[^A-Za-z0-9_.])`+regexp.QuoteMeta(m[1])+`($|[^A-Za-z0-9_])`).ReplaceAllString(t, "${1}LIST${2}")
				}
				// and the field variable: the base of `.ID == NOTSET`
				t = strings.ReplaceAll(t, strings.TrimSuffix(rules.ExprString(be.X), ".ID")+".ID", "FIELD.ID")
				blocks = append(blocks, blk{fd.Name.Name, t, is.Pos()})
				return true
			})
		}
	}
	if len(blocks) < 4 {
		c.Unknown("implicit-id-siblings", "parser/implicit-field-id", "", fmt.Sprintf("expected four implicit-id blocks (struct, union, exception, addField), found %d", len(blocks)))
	} else {
		for _, b := range blocks[1:] {
			c.Decide(b.text == blocks[0].text, "implicit-id-siblings", "parser."+blocks[0].fn+"~"+b.fn, c.Prog.Rel(b.pos), "alpha-equivalent implicit-id rule",
				"the implicit field-id rule of "+b.fn+" differs from "+blocks[0].fn+":\n  "+blocks[0].text+"\n  "+b.text)
		}
		// shape: previous + 1, first = 1
		okShape := strings.Contains(blocks[0].text, "LIST[len(LIST)-1].ID + 1") && strings.Contains(blocks[0].text, ".ID = 1")
		c.Decide(okShape, "implicit-id-shape", "parser."+blocks[0].fn+"/implicit-id", c.Prog.Rel(blocks[0].pos), "id = previous + 1, first = 1", "the implicit field id is no longer previous+1 starting at 1: "+blocks[0].text)
	}
	// enum: 0 if first else previous + 1
	if fd := c.Prog.FuncDecl("parser", "parser.parseEnum"); fd != nil {
		ok := false
		ast.Inspect(fd.Body, func(nd ast.Node) bool {
			is, isIf := nd.(*ast.IfStmt)
			if !isIf {
				return true
			}
			// `len(X) == 0` for the list X of values collected so far
			cond := strings.ReplaceAll(rules.ExprString(is.Cond), " ", "")
			if !strings.HasPrefix(cond, "len(") || !strings.HasSuffix(cond, ")==0") {
				return true
			}
			list := strings.TrimSuffix(strings.TrimPrefix(cond, "len("), ")==0")
			thenT := ""
			for _, s := range is.Body.List {
				thenT += nodeText(c, s)
			}
			elseT := ""
			if b, isB := is.Else.(*ast.BlockStmt); isB {
				for _, s := range b.List {
					elseT += nodeText(c, s)
				}
			}
			if strings.Contains(thenT, ".Value = 0") && strings.Contains(strings.Join(strings.Fields(elseT), " "), list+"[len("+list+")-1].Value + 1") {
				ok = true
			}
			return true
		})
		c.Decide(ok, "implicit-enum-shape", "parser.parseEnum/implicit-value", c.Prog.Rel(fd.Pos()), "value = 0 if first else previous + 1", "the implicit enum value is no longer 0 for the first member and previous+1 afterwards")
	} else {
		c.Unknown("anchor", "parser.(parser).parseEnum", "", "missing")
	}
	_ = info
}

func nodeText(c *core.Check, n ast.Node) string {
	var sb strings.Builder
	_ = printer.Fprint(&sb, c.Prog.Fset, n)
	return sb.String()
}

// ssautilAllFunctions lists the functions and methods (and their closures) of one package.
func ssautilAllFunctions(prog *core.Program, pkg *ssa.Package) map[*ssa.Function]bool {
	out := map[*ssa.Function]bool{}
	var add func(f *ssa.Function)
	add = func(f *ssa.Function) {
		if f == nil || out[f] {
			return
		}
		out[f] = true
		for _, an := range f.AnonFuncs {
			add(an)
		}
	}
	for _, m := range pkg.Members {
		switch x := m.(type) {
		case *ssa.Function:
			add(x)
		case *ssa.Type:
			for _, t := range []types.Type{x.Type(), types.NewPointer(x.Type())} {
				ms := pkg.Prog.MethodSets.MethodSet(t)
				for i := 0; i < ms.Len(); i++ {
					add(pkg.Prog.MethodValue(ms.At(i)))
				}
			}
		}
	}
	return out
}

// c03nested: when the grammar nests captures (a <…> whose body produces another <…>), the text extractor must take a
// capture node as a whole; if it descends into a PegText node first, it returns the inner text (`1e5` was read as `5`).
// Decided on go/cfg of pegText: the recursive descent `p.pegText(X.up)` is only reachable through the false edge of
// `X.pegRule == rulePegText` (or the true edge of `!=`).
func c03nested(c *core.Check, g *peg.Grammar) {
	nested := g.NestedCaptures()
	key := "parser.(parser).pegText/descent"
	if len(nested) == 0 {
		c.OKTrivial("capture-taken-whole", key, "parser/thrift.peg.go", "no capture of the grammar contains another capture")
		return
	}
	fd := c.Prog.FuncDecl("parser", "parser.pegText")
	if fd == nil {
		c.Unknown("anchor", "parser.(parser).pegText", "", "missing")
		return
	}
	info := c.Prog.Pkg("parser").TypesInfo
	self := info.Defs[fd.Name]
	g2 := rules.CFG(info, fd.Body, nil)
	isDescent := func(n ast.Node) (string, bool) {
		found := ""
		rules.Inspect(n, false, func(x ast.Node) bool {
			call, ok := x.(*ast.CallExpr)
			if !ok || len(call.Args) != 1 {
				return true
			}
			if fn := rules.Callee(info, call); fn == nil || types.Object(fn) != self {
				return true
			}
			if se, ok := call.Args[0].(*ast.SelectorExpr); ok && se.Sel.Name == "up" {
				found = rules.ExprString(se.X)
			}
			return true
		})
		return found, found != ""
	}
	type st struct {
		b   int32
		est bool
	}
	seen := map[st]bool{}
	bad := ""
	sites := 0
	var visit func(b *cfg.Block, est bool)
	visit = func(b *cfg.Block, est bool) {
		if seen[st{b.Index, est}] {
			return
		}
		seen[st{b.Index, est}] = true
		for i, nd := range b.Nodes {
			// the branch condition itself is the last node; a descent inside the condition is evaluated before the branch
			if v, ok := isDescent(nd); ok {
				sites++
				if !est {
					bad = fmt.Sprintf("pegText(%s.up) at %s is reached for nodes that may be captures", v, c.Prog.Rel(nd.Pos()))
				}
			}
			if as, ok := nd.(*ast.AssignStmt); ok && i >= 0 {
				for _, l := range as.Lhs {
					if id, ok := l.(*ast.Ident); ok && id.Name == "n" {
						est = false
					}
				}
			}
		}
		if len(b.Succs) == 2 && len(b.Nodes) > 0 {
			if cond, ok := b.Nodes[len(b.Nodes)-1].(ast.Expr); ok {
				t := rules.ExprString(cond)
				switch {
				case strings.HasSuffix(t, ".pegRule != rulePegText"):
					visit(b.Succs[0], true)
					visit(b.Succs[1], false)
					return
				case strings.HasSuffix(t, ".pegRule == rulePegText"):
					visit(b.Succs[0], false)
					visit(b.Succs[1], true)
					return
				}
			}
		}
		for _, s := range b.Succs {
			visit(s, est)
		}
	}
	if len(g2.Blocks) > 0 {
		visit(g2.Blocks[0], false)
	}
	if sites == 0 {
		c.Unknown("capture-taken-whole", key, c.Prog.Rel(fd.Pos()), "pegText has no recursive descent; the extraction cannot be related to the tree shape")
		return
	}
	c.Decide(bad == "", "capture-taken-whole", key, c.Prog.Rel(fd.Pos()),
		fmt.Sprintf("captures nest in %v; pegText descends only into nodes that are not captures, so a capture's text is taken whole", nested),
		fmt.Sprintf("captures nest in %v but %s: the inner capture's text is returned instead of the whole (an exponent double `1e5` is read as `5`)", nested, bad))
}

// c03coverage: the walker must visit what the grammar can produce. A rule R is "structured" when a walker function F_R
// starts with checkrule(node, ruleR). If children of kind R of a parent P are handed to F_R anywhere, then every grammar
// transition of P's child automaton that is labelled R must be handed to F_R in some context: a transition that is never
// consumed is a position where the grammar admits an R (annotations after an explicit enum value, a default after a field
// name, …) that the AST silently loses.
func c03coverage(c *core.Check, a *shapeAnalysis) {
	pk := c.Prog.Pkg("parser")
	info := pk.TypesInfo
	consumer := map[string]string{} // rule -> function
	for _, f := range pk.Syntax {
		for _, d := range f.Decls {
			fd, ok := d.(*ast.FuncDecl)
			if !ok || fd.Body == nil {
				continue
			}
			for _, call := range rules.Calls(fd.Body, false) {
				if fn := rules.Callee(info, call); fn != nil && fn.Name() == "checkrule" && len(call.Args) == 2 {
					if id, ok := call.Args[1].(*ast.Ident); ok && strings.HasPrefix(id.Name, "rule") {
						consumer[strings.TrimPrefix(id.Name, "rule")] = fd.Name.Name
					}
					break
				}
			}
		}
	}
	c.Analysed["walker_structured_rules"] = len(consumer)
	// (parent, child) pairs the walker processes at all
	handled := map[[2]string]bool{}
	for t, fns := range a.consumed {
		if f, ok := consumer[t.Child]; ok && fns[f] {
			handled[[2]string{t.Parent, t.Child}] = true
		}
	}
	var parents []string
	for p := range a.dfa {
		parents = append(parents, p)
	}
	sort.Strings(parents)
	for _, p := range parents {
		d := a.dfa[p]
		byChild := map[string][]int{}
		for s, tr := range d.Trans {
			for tok := range tr {
				byChild[tok] = append(byChild[tok], s)
			}
		}
		var kids []string
		for k := range byChild {
			kids = append(kids, k)
		}
		sort.Strings(kids)
		for _, child := range kids {
			f, ok := consumer[child]
			if !ok || !handled[[2]string{p, child}] {
				continue
			}
			froms := byChild[child]
			sort.Ints(froms)
			var missing []int
			for _, s := range froms {
				if !a.consumed[transition{p, s, child}][f] {
					missing = append(missing, s)
				}
			}
			key := fmt.Sprintf("parser.%s/%s in %s", f, child, p)
			c.Decide(len(missing) == 0, "walker-covers-grammar", key, "parser/parser.go",
				fmt.Sprintf("all %d positions of a %s child in a %s node reach %s", len(froms), child, p, f),
				fmt.Sprintf("%s children of a %s node are handed to %s at some positions but not at %d of the %d positions the grammar allows (after %s): what is written there never reaches the AST", child, p, f, len(missing), len(froms), strings.Join(describeStates(d, missing), "; ")))
		}
	}
	c.Min("walker-covers-grammar", 15)
}

// describeStates names automaton states by the child kinds that lead into them.
func describeStates(d *peg.ChildDFA, states []int) []string {
	var out []string
	for _, s := range states {
		in := map[string]bool{}
		for _, tr := range d.Trans {
			for tok, dst := range tr {
				if dst == s {
					in[tok] = true
				}
			}
		}
		var ks []string
		for k := range in {
			ks = append(ks, k)
		}
		sort.Strings(ks)
		if len(ks) == 0 {
			ks = []string{"the start of the node"}
		}
		out = append(out, "a "+strings.Join(ks, "/"))
	}
	return out
}

// c03annotations: parseDefinition dereferences p.Annotations (`*p.Annotations = ann`) after the definition's own parse
// function returned without error. Rule: every function that parseDefinition's switch dispatches to assigns p.Annotations
// on every path to a nil-error return, and the dereference is only reachable after such a call.
func c03annotations(c *core.Check) {
	pd := c.Prog.FuncDecl("parser", "parser.parseDefinition")
	if pd == nil {
		c.Unknown("anchor", "parser.(parser).parseDefinition", "", "missing")
		return
	}
	info := c.Prog.Pkg("parser").TypesInfo
	// does parseDefinition still dereference the cursor?
	deref := false
	ast.Inspect(pd.Body, func(n ast.Node) bool {
		if st, ok := n.(*ast.StarExpr); ok && strings.HasSuffix(rules.ExprString(st.X), ".Annotations") && !strings.Contains(strings.TrimSuffix(rules.ExprString(st.X), ".Annotations"), ".") {
			deref = true
		}
		return true
	})
	if !deref {
		c.OKTrivial("annotations-cursor-assigned", "parser.(parser).parseDefinition/deref", c.Prog.Rel(pd.Pos()), "parseDefinition no longer writes through p.Annotations")
		return
	}
	var callees []*ast.FuncDecl
	ast.Inspect(pd.Body, func(n ast.Node) bool {
		cc, ok := n.(*ast.CaseClause)
		if !ok {
			return true
		}
		for _, call := range rules.Calls(&ast.BlockStmt{List: cc.Body}, false) {
			if fn := rules.Callee(info, call); fn != nil && strings.HasPrefix(fn.Name(), "parse") {
				if d := c.Prog.FuncDecl("parser", "parser."+fn.Name()); d != nil {
					callees = append(callees, d)
				}
			}
		}
		return true
	})
	for _, d := range callees {
		g := rules.CFG(info, d.Body, nil)
		missed, targets := rules.MustPass(g, func(x ast.Node) bool {
			as, ok := x.(*ast.AssignStmt)
			if !ok {
				return false
			}
			for _, l := range as.Lhs {
				if t := rules.ExprString(l); strings.HasSuffix(t, ".Annotations") && !strings.Contains(strings.TrimSuffix(t, ".Annotations"), ".") {
					return true
				}
			}
			return false
		}, func(x ast.Node) bool {
			rs, ok := x.(*ast.ReturnStmt)
			return ok && rules.ReturnsNilError(info, rs)
		})
		c.Decide(targets > 0 && len(missed) == 0, "annotations-cursor-assigned", "parser."+d.Name.Name+"/p.Annotations", c.Prog.Rel(d.Pos()),
			"p.Annotations is assigned on every path to a nil-error return",
			d.Name.Name+" can return without error and without pointing p.Annotations at the new definition: parseDefinition then writes the trailing annotations into the previous definition (or through a nil pointer for the first one)")
	}
	c.Min("annotations-cursor-assigned", 7)
}

// c03intSpellings: the grammar's IntConstant admits decimal, 0x… and 0o… spellings wherever an integer is written (field
// ids, enum values, integer constants). Rule: every strconv.ParseInt in the tree walker that reads such a text accepts
// them: some ParseInt on the same text expression in the same function uses base 0.
func c03intSpellings(c *core.Check) {
	pk := c.Prog.Pkg("parser")
	info := pk.TypesInfo
	// spellings of the grammar's IntConstant (`0x` hex / `0o` octal / [+-]? Digit+, the last one decimal whatever its
	// leading digit) and the value each denotes
	samples := []struct {
		text string
		want int64
	}{{"7", 7}, {"+7", 7}, {"-12", -12}, {"010", 10}, {"08", 8}, {"-012", -12}, {"0x1F", 31}, {"0o17", 15}, {"0", 0}}
	n := 0
	for _, f := range pk.Syntax {
		if !strings.HasSuffix(c.Prog.Fset.File(f.Pos()).Name(), "/parser.go") {
			continue
		}
		for _, d := range f.Decls {
			fd, ok := d.(*ast.FuncDecl)
			if !ok || fd.Body == nil {
				continue
			}
			// the conversions of one text, in source order, form a fallback chain (the next one is tried when the
			// previous one fails)
			chain := map[string][]int64{}
			pos := map[string]ast.Node{}
			for _, call := range rules.Calls(fd.Body, true) {
				fn := rules.Callee(info, call)
				if fn == nil || fn.Pkg() == nil || fn.Pkg().Path() != "strconv" || fn.Name() != "ParseInt" || len(call.Args) != 3 {
					continue
				}
				b, ok := rules.ConstInt(info, call.Args[1])
				if !ok {
					continue
				}
				t := rules.ExprString(call.Args[0])
				if _, seen := pos[t]; !seen {
					pos[t] = call
				}
				chain[t] = append(chain[t], b)
			}
			var ts []string
			for t := range chain {
				ts = append(ts, t)
			}
			sort.Strings(ts)
			for _, t := range ts {
				n++
				bad := ""
				for _, sm := range samples {
					got, ok := int64(0), false
					for _, b := range chain[t] {
						if v, err := strconv.ParseInt(sm.text, int(b), 64); err == nil {
							got, ok = v, true
							break
						}
					}
					if !ok {
						bad = fmt.Sprintf("the spelling %q, which the grammar accepts, is not convertible by the base sequence %v: the value is lost (or the document rejected)", sm.text, chain[t])
						break
					}
					if got != sm.want {
						bad = fmt.Sprintf("the spelling %q denotes %d but the base sequence %v yields %d", sm.text, sm.want, chain[t], got)
						break
					}
				}
				c.Decide(bad == "", "int-spellings-accepted", fmt.Sprintf("parser.%s/ParseInt(%s)", fd.Name.Name, t), c.Prog.Rel(pos[t].Pos()),
					fmt.Sprintf("base sequence %v converts every IntConstant spelling to the value it denotes (%d samples)", chain[t], len(samples)), bad)
			}
			// the error of a conversion is not thrown away: `x, _ = <conversion>(…)` makes garbage (0xZZ, overflow) a silent 0 / MaxInt
			ast.Inspect(fd.Body, func(m ast.Node) bool {
				as, ok := m.(*ast.AssignStmt)
				if !ok || len(as.Lhs) != 2 || len(as.Rhs) != 1 {
					return true
				}
				call, ok := as.Rhs[0].(*ast.CallExpr)
				if !ok {
					return true
				}
				fn := rules.Callee(info, call)
				if fn == nil || !(fn.Pkg() != nil && fn.Pkg().Path() == "strconv" && (fn.Name() == "ParseInt" || fn.Name() == "ParseFloat") || fn.Pkg() == pk.Types && convertsInt(c, fn)) {
					return true
				}
				if fn.Name() == "ParseFloat" {
					return true // doubles: the grammar's DoubleConstant is a subset of what ParseFloat accepts (C17 double rules)
				}
				n++
				id, isID := as.Lhs[1].(*ast.Ident)
				c.Decide(!(isID && id.Name == "_"), "int-conversion-error-kept", fmt.Sprintf("parser.%s/%s", fd.Name.Name, rules.ExprString(call)), c.Prog.Rel(as.Pos()),
					"the conversion's error is kept", "the error of the integer conversion is discarded: a text the grammar accepts but no integer denotes (0xZZ, a 20-digit number) silently becomes 0 or the type's extreme value instead of being reported")
				return true
			})
		}
	}
	c.Min("int-spellings-accepted", 1)
	c.Min("int-conversion-error-kept", 3)
}

// convertsInt reports whether a parser-package function wraps strconv.ParseInt and returns its error.
func convertsInt(c *core.Check, fn *types.Func) bool {
	sig, ok := fn.Type().(*types.Signature)
	if !ok || sig.Results().Len() != 2 || sig.Results().At(1).Type().String() != "error" {
		return false
	}
	fd := c.Prog.FuncDecl("parser", fn.Name())
	if fd == nil || fd.Body == nil {
		return false
	}
	info := c.Prog.Pkg("parser").TypesInfo
	for _, call := range rules.Calls(fd.Body, true) {
		if f := rules.Callee(info, call); f != nil && f.Pkg() != nil && f.Pkg().Path() == "strconv" && f.Name() == "ParseInt" {
			return true
		}
	}
	return false
}

func keysOf(m map[int64]bool) []int64 {
	var ks []int64
	for k := range m {
		ks = append(ks, k)
	}
	sort.Slice(ks, func(i, j int) bool { return ks[i] < ks[j] })
	return ks
}

// c03annotationsAppend: "repeated keys accumulate in order". The walker hands every written key/value pair to
// Annotations.Append (its only way to record one; annotations-cursor-assigned covers the hand-over), so Append has to
// record each pair it is given. Rule (go/cfg of Append): every path from the entry to an exit of the function passes an
// `append(…)` whose arguments mention the value parameter.
func c03annotationsAppend(c *core.Check) {
	fd := c.Prog.FuncDecl("parser", "Annotations.Append")
	key := "parser.(Annotations).Append/value"
	if fd == nil || fd.Body == nil {
		c.Unknown("anchor", "parser.(Annotations).Append", "", "missing")
		return
	}
	info := c.Prog.Pkg("parser").TypesInfo
	// the value parameter: the last string parameter
	var valueObj types.Object
	for _, f := range fd.Type.Params.List {
		for _, nm := range f.Names {
			valueObj = info.Defs[nm]
		}
	}
	if valueObj == nil {
		c.Unknown("annotation-pair-always-recorded", key, c.Prog.Rel(fd.Pos()), "no value parameter")
		return
	}
	records := func(n ast.Node) bool {
		found := false
		ast.Inspect(n, func(m ast.Node) bool {
			call, ok := m.(*ast.CallExpr)
			if !ok || !rules.IsBuiltin(info, call, "append") {
				return true
			}
			for _, a := range call.Args[1:] {
				ast.Inspect(a, func(k ast.Node) bool {
					if id, ok := k.(*ast.Ident); ok && info.Uses[id] == valueObj {
						found = true
					}
					return true
				})
			}
			return true
		})
		return found
	}
	g := rules.CFG(info, fd.Body, nil)
	seen := map[int32]bool{}
	var escape ast.Node
	escaped := false
	var visit func(b *cfg.Block)
	visit = func(b *cfg.Block) {
		if seen[b.Index] || escaped {
			return
		}
		seen[b.Index] = true
		for _, nd := range b.Nodes {
			if records(nd) {
				return // recorded on this path
			}
			if _, ok := nd.(*ast.ReturnStmt); ok {
				escaped, escape = true, nd
				return
			}
		}
		if len(b.Succs) == 0 {
			if !b.Live {
				return
			}
			escaped = true
			if len(b.Nodes) > 0 {
				escape = b.Nodes[len(b.Nodes)-1]
			}
			return
		}
		for _, s := range b.Succs {
			visit(s)
		}
	}
	if len(g.Blocks) > 0 {
		visit(g.Blocks[0])
	}
	where := c.Prog.Rel(fd.Pos())
	if escape != nil {
		where = c.Prog.Rel(escape.Pos())
	}
	c.Decide(!escaped, "annotation-pair-always-recorded", key, where,
		"every path through Append appends the value it was given",
		"Append can return without recording the value it was given: a written annotation pair (for instance a value repeated under the same key) is missing from the AST, so repeated keys do not accumulate every value in order")
}

// c03doubleText: the capture of a DoubleConstant contains its exponent, an IntConstant, and the grammar lets layout (Skip:
// blanks and comments) stand in front of and behind an IntConstant's digits. `1e 5` and `1e/*c*/5` are therefore
// grammatical and their matched text is not a number as it stands. Rule (armed while the grammar has a capture that
// contains another rule's capture): in the walker, the text handed to strconv.ParseFloat is produced by a function of the
// parser package (not the raw pegText, nor a strings helper applied to it), and ParseFloat's error is not discarded.
func c03doubleText(c *core.Check, g *peg.Grammar) {
	key := "parser.(parser).parseConstValue/ParseFloat"
	if len(g.NestedCaptures()) == 0 {
		c.OKTrivial("double-text-layout-free", key, "parser/thrift.peg.go", "no capture of the grammar contains another rule's capture")
		return
	}
	pk := c.Prog.Pkg("parser")
	info := pk.TypesInfo
	n := 0
	for _, f := range pk.Syntax {
		if !strings.HasSuffix(c.Prog.Fset.File(f.Pos()).Name(), "/parser.go") {
			continue
		}
		ast.Inspect(f, func(m ast.Node) bool {
			as, ok := m.(*ast.AssignStmt)
			if !ok || len(as.Rhs) != 1 || len(as.Lhs) != 2 {
				return true
			}
			call, ok := as.Rhs[0].(*ast.CallExpr)
			if !ok {
				return true
			}
			fn := rules.Callee(info, call)
			if fn == nil || fn.Pkg() == nil || fn.Pkg().Path() != "strconv" || fn.Name() != "ParseFloat" || len(call.Args) != 2 {
				return true
			}
			n++
			where := c.Prog.Rel(as.Pos())
			id, isID := as.Lhs[1].(*ast.Ident)
			c.Decide(!(isID && id.Name == "_"), "double-text-layout-free", fmt.Sprintf("%s#%d/error", key, n), where,
				"ParseFloat's error is kept", "the error of ParseFloat is discarded: a matched text that is no number (`1e 5` with its blank, `1e0x10`) silently becomes 0.0")
			local := false
			if inner, ok := ast.Unparen(call.Args[0]).(*ast.CallExpr); ok {
				if ifn := rules.Callee(info, inner); ifn != nil && ifn.Pkg() == pk.Types {
					if sig, ok := ifn.Type().(*types.Signature); ok && sig.Recv() == nil {
						local = true
					}
				}
			}
			c.Decide(local, "double-text-layout-free", fmt.Sprintf("%s#%d/text", key, n), where,
				"the matched text passes through a parser-package function before the conversion",
				"the text of the DoubleConstant capture ("+rules.ExprString(call.Args[0])+") goes to ParseFloat as it was matched: the exponent is an IntConstant with layout around its digits, so `const double d = 1e 5` (or `1e/*c*/5`) is grammatical and is not read as 100000")
			return true
		})
	}
	c.Min("double-text-layout-free", 2)
}
