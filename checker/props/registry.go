// Package props wires the generic rule engines to the twenty properties.
package props

import "go/ast"

import "verif/checker/core"

// Registry maps a property id to its check.
var Registry = map[string]func(*core.Check){}

func register(id string, f func(*core.Check)) { Registry[id] = f }

// recvNameOf returns the name of the method receiver (def when the function has none or it is unnamed).
func recvNameOf(fd *ast.FuncDecl, def string) string {
	if fd != nil && fd.Recv != nil && len(fd.Recv.List) == 1 && len(fd.Recv.List[0].Names) == 1 {
		return fd.Recv.List[0].Names[0].Name
	}
	return def
}
