// Package props wires the generic rule engines to the twenty properties.
package props

import "verif/checker/core"

// Registry maps a property id to its check.
var Registry = map[string]func(*core.Check){}

func register(id string, f func(*core.Check)) { Registry[id] = f }
