package props

import (
	"fmt"
	"go/ast"
	"go/token"
	"strings"

	"verif/checker/rules"
	"verif/checker/tmpl"
)

// shape is the type shape chosen for a field / element in one rendering.
type shape struct {
	Cat      string
	Key, Val *shape
}

func (s *shape) String() string {
	if s == nil {
		return "?"
	}
	switch s.Cat {
	case "Map":
		return fmt.Sprintf("map<%s,%s>", s.Key, s.Val)
	case "List", "Set":
		return fmt.Sprintf("%s<%s>", strings.ToLower(s.Cat), s.Val)
	}
	return strings.ToLower(s.Cat)
}

func (s *shape) isStructLike() bool {
	return s.Cat == "Struct" || s.Cat == "Union" || s.Cat == "Exception"
}
func (s *shape) isContainer() bool { return s.Cat == "Map" || s.Cat == "List" || s.Cat == "Set" }

func shapeOf(w *tmpl.World, t *tmpl.Obj) *shape {
	if t == nil {
		return nil
	}
	cv, ok := t.Peek("Category").(int64)
	if !ok {
		return nil
	}
	s := &shape{Cat: w.CategoryName(cv)}
	if s.Cat == "Map" {
		k, _ := t.Peek("KeyType").(*tmpl.Obj)
		s.Key = shapeOf(w, k)
	}
	if s.isContainer() {
		v, _ := t.Peek("ValueType").(*tmpl.Obj)
		s.Val = shapeOf(w, v)
	}
	return s
}

// fieldInfo describes one abstract field of the dot StructLike in a rendering.
type fieldInfo struct {
	Idx                                         int
	Shape                                       *shape
	Req                                         string // Default / Required / Optional ("" if not consulted)
	ID, Name, GoName, Reader, Writer, IsSet, DE string // rendered placeholder identifiers
	HasDefault                                  bool
}

func fieldsOf(r *rendered) []fieldInfo {
	dot, ok := r.R.Dot.(*tmpl.Obj)
	if !ok {
		return nil
	}
	l, ok := dot.Peek("fields").(*tmpl.List)
	if !ok {
		return nil
	}
	var out []fieldInfo
	for i, e := range l.Elems {
		fo, ok := e.(*tmpl.Obj)
		if !ok {
			continue
		}
		fi := fieldInfo{Idx: i}
		p := fo.Path
		fi.ID = tmpl.Ident(p + ".Field.ID")
		fi.Name = tmpl.Ident(p + ".Field.Name")
		fi.GoName = tmpl.Ident(p + ".name")
		fi.Reader = tmpl.Ident(p + ".reader")
		fi.Writer = tmpl.Ident(p + ".writer")
		fi.IsSet = tmpl.Ident(p + ".isset")
		fi.DE = tmpl.Ident(p + ".deepEqual")
		if t, ok := fo.Peek("Field", "Type").(*tmpl.Obj); ok {
			fi.Shape = shapeOf(r.W, t)
		}
		if rq, ok := fo.Peek("Field", "Requiredness").(int64); ok {
			fi.Req = strings.TrimPrefix(r.W.EnumName("parser", "FieldType", rq), "FieldType_")
		}
		if _, ok := fo.Peek("Field", "Default").(*tmpl.Obj); ok {
			fi.HasDefault = true
		}
		out = append(out, fi)
	}
	return out
}

func findFunc(f *ast.File, name string) *ast.FuncDecl {
	for _, d := range f.Decls {
		if fd, ok := d.(*ast.FuncDecl); ok && fd.Name.Name == name {
			return fd
		}
	}
	return nil
}

func isNilReturn(n ast.Node) bool {
	rs, ok := n.(*ast.ReturnStmt)
	if !ok || len(rs.Results) != 1 {
		return false
	}
	id, ok := rs.Results[0].(*ast.Ident)
	return ok && id.Name == "nil"
}

// valueAutomaton adds, from state `from`, the protocol-event sequence of one value of shape s and returns the end state.
// dir is "R" (read) or "W" (write). Event names: R:I32, W:String, R:Struct, RB:List / RE:List, WB:Map / WE:Map.
func valueAutomaton(a *rules.Automaton, from string, s *shape, dir string, n *int) string {
	fresh := func() string { *n++; return fmt.Sprintf("v%d", *n) }
	add := func(f, ev, t string) {
		if a.Trans[f] == nil {
			a.Trans[f] = map[string]string{}
		}
		a.Trans[f][ev] = t
		a.Alphabet[ev] = true
	}
	switch {
	case s == nil:
		return from
	case s.isStructLike():
		to := fresh()
		add(from, dir+":Struct", to)
		return to
	case s.isContainer():
		loop := fresh()
		add(from, dir+"B:"+s.Cat, loop)
		cur := loop
		if s.Cat == "Map" {
			cur = valueAutomaton(a, cur, s.Key, dir, n)
		}
		end := valueAutomaton(a, cur, s.Val, dir, n)
		// back edge: the last transition into `end` must lead to `loop` instead; simplest: add epsilon by
		// copying loop's outgoing transitions to `end`
		done := fresh()
		add(loop, dir+"E:"+s.Cat, done)
		for ev, t := range a.Trans[loop] {
			add(end, ev, t)
		}
		return done
	default:
		to := fresh()
		add(from, dir+":"+specByCategory[s.Cat].Method, to)
		return to
	}
}

// protoEvents classifies the protocol calls of one CFG node (iprot/oprot methods and nested Read/Write of struct values).
func protoEvents(n ast.Node) []string {
	var out []string
	if isNilReturn(n) {
		return []string{"RETNIL"}
	}
	for _, call := range rules.NodeCalls(n) {
		recv, name, _, ok := rules.SelectorCall(call)
		if !ok {
			continue
		}
		switch recv {
		case "iprot":
			switch {
			case name == "ReadStructBegin" || name == "ReadStructEnd" || name == "ReadFieldBegin" || name == "ReadFieldEnd":
				out = append(out, name)
			case name == "Skip":
				out = append(out, "Skip")
			case strings.HasSuffix(name, "Begin"):
				out = append(out, "RB:"+strings.TrimSuffix(strings.TrimPrefix(name, "Read"), "Begin"))
			case strings.HasSuffix(name, "End"):
				out = append(out, "RE:"+strings.TrimSuffix(strings.TrimPrefix(name, "Read"), "End"))
			case strings.HasPrefix(name, "Read"):
				out = append(out, "R:"+strings.TrimPrefix(name, "Read"))
			}
		case "oprot":
			switch {
			case name == "WriteStructBegin" || name == "WriteStructEnd" || name == "WriteFieldBegin" || name == "WriteFieldEnd" || name == "WriteFieldStop":
				out = append(out, name)
			case strings.HasSuffix(name, "Begin"):
				out = append(out, "WB:"+strings.TrimSuffix(strings.TrimPrefix(name, "Write"), "Begin"))
			case strings.HasSuffix(name, "End"):
				out = append(out, "WE:"+strings.TrimSuffix(strings.TrimPrefix(name, "Write"), "End"))
			case strings.HasPrefix(name, "Write"):
				out = append(out, "W:"+strings.TrimPrefix(name, "Write"))
			}
		default:
			if recv == "p" && strings.HasPrefix(name, "Φ") && len(call.Args) == 1 {
				switch rules.ExprText(call.Args[0]) {
				case "iprot":
					out = append(out, "FIELD-READ")
				case "oprot":
					out = append(out, "FIELD-WRITE")
				}
				continue
			}
			if name == "Read" && len(call.Args) == 1 && rules.ExprText(call.Args[0]) == "iprot" {
				out = append(out, "R:Struct")
			}
			if name == "Write" && len(call.Args) == 1 && rules.ExprText(call.Args[0]) == "oprot" {
				if strings.HasSuffix(recv, "_unknownFields") {
					out = append(out, "UNKNOWN-WRITE")
				} else {
					out = append(out, "W:Struct")
				}
			}
			if name == "Append" && strings.HasSuffix(recv, "_unknownFields") {
				out = append(out, "UNKNOWN-APPEND")
			}
		}
	}
	return out
}

// thriftConstArg returns X for an argument of the form thrift.X.
func thriftConstArg(e ast.Expr) string {
	if sel, ok := e.(*ast.SelectorExpr); ok {
		if id, ok := sel.X.(*ast.Ident); ok && id.Name == "thrift" {
			return sel.Sel.Name
		}
	}
	return ""
}

func callsNamed(n ast.Node, recv, name string) []*ast.CallExpr {
	var out []*ast.CallExpr
	ast.Inspect(n, func(x ast.Node) bool {
		if r, nm, c, ok := rules.SelectorCall(x); ok && nm == name && (recv == "" || r == recv) {
			out = append(out, c)
		}
		return true
	})
	return out
}

var _ = token.NoPos
