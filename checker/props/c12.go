package props

import (
	"fmt"
	"go/ast"
	"go/constant"
	"go/types"
	"os"
	"path/filepath"
	"regexp"
	"regexp/syntax"
	"sort"
	"strings"
	"text/template/parse"

	"verif/checker/core"
	"verif/checker/rules"
)

func init() { register("C12", c12) }

func c12(c *core.Check) {
	c.Explain = "alphabet inclusion + PATH + ORDER (narrow claim). (i) Every marker the writer can produce is recognised by the remover: the characters of IDL identifiers (PEG rule Identifier with its Letter/Digit sub-rules, read from parser/thrift.peg), of every literal word the templates pass to InsertionPoint, and the joining '.', all lie in the character class of generator.insertReg (read with regexp/syntax), and insertReg is built from the same InsertionPointFormat constant the writer uses. " +
		"(ii) FileManager.Feed: an item without a name while no target exists returns an error; every append to fm.files is preceded in its block by fm.index[name] = len(fm.files) (index and slice stay in lockstep). " +
		"(iii) BuildResponse appends exactly one item per element of fm.files, in order, with that file's name, and applies every patch registered under that file's name through the replacer. " +
		"(iv) the replacement is order-independent (markers found in a file are prefix-free; see C07's table entry, re-verified here). " +
		"(v) on go/ssa: whenever an iteration of Feed stores a file under a key (fm.index[K] = len(fm.files)), the loop-carried target of the following unnamed patches is that same K on every path through the store (also after a rename). " +
		"NOT decided: the rename probe loop itself (uniqueness of the fresh name), duplicate drop, patches for markers that do not occur."
	c.RuleText = "one obligation per alphabet source, literal word, append site and path rule"
	c.Assume = []string{"plugin-supplied insertion-point names use the same alphabet (a name outside it is never found by the remover)"}
	// (i) alphabet
	pat, errs := insertRegPattern(c)
	if errs != "" {
		c.Unknown("marker-alphabet", "generator.insertReg", "", errs)
		return
	}
	re, err := syntax.Parse(pat, syntax.Perl)
	if err != nil {
		c.Unknown("marker-alphabet", "generator.insertReg", "", err.Error())
		return
	}
	var class []rune
	var find func(r *syntax.Regexp)
	find = func(r *syntax.Regexp) {
		if r.Op == syntax.OpStar && len(r.Sub) == 1 && r.Sub[0].Op == syntax.OpCharClass {
			class = r.Sub[0].Rune
		}
		for _, s := range r.Sub {
			find(s)
		}
	}
	find(re)
	if class == nil {
		c.Unknown("marker-alphabet", "generator.insertReg", "", "no name character class found in "+pat)
		return
	}
	inClass := func(ch rune) bool {
		for i := 0; i+1 < len(class); i += 2 {
			if class[i] <= ch && ch <= class[i+1] {
				return true
			}
		}
		return false
	}
	// the regexp is built from the writer's format constant
	{
		fmtConst := ""
		if k := c.Prog.Pkg("plugin").Types.Scope().Lookup("InsertionPointFormat"); k != nil {
			if s, ok := constStringOf(k); ok {
				fmtConst = s
			}
		}
		prefix := strings.SplitN(fmtConst, "(%s)", 2)[0]
		c.Decide(fmtConst != "" && strings.HasPrefix(pat, regexp.QuoteMeta(prefix)) || strings.HasPrefix(pat, prefix), "marker-format-shared", "generator.insertReg/format", "", "insertReg starts with the literal prefix of plugin.InsertionPointFormat", "insertReg no longer shares the marker prefix with the writer's InsertionPointFormat")
		// the writer: InsertionPoint = Sprintf(InsertionPointFormat, strings.Join(names, "."))
		if fd := c.Prog.FuncDecl("plugin", "InsertionPoint"); fd != nil {
			info := c.Prog.Pkg("plugin").TypesInfo
			okW := false
			for _, call := range rules.Calls(fd.Body, false) {
				if fn := rules.Callee(info, call); rules.IsPkgFunc(fn, "strings", "Join") && len(call.Args) == 2 {
					if s, ok := rules.ConstString(info, call.Args[1]); ok {
						okW = true
						for _, ch := range s {
							c.Decide(inClass(ch), "marker-alphabet", fmt.Sprintf("plugin.InsertionPoint/join %q", string(ch)), c.Prog.Rel(call.Pos()), "the join character is in insertReg's class", "names are joined with a character insertReg does not accept: markers with several parts are never removed")
						}
					}
				}
			}
			if !okW {
				c.Unknown("marker-alphabet", "plugin.InsertionPoint", "", "join separator not found")
			}
		}
	}
	// identifier alphabet from the grammar
	alpha, gerr := identifierAlphabet()
	if gerr != "" {
		c.Unknown("marker-alphabet", "parser/thrift.peg:Identifier", "", gerr)
	} else {
		var bad []string
		for _, ch := range alpha {
			if !inClass(ch) {
				bad = append(bad, string(ch))
			}
		}
		c.Decide(len(bad) == 0, "marker-alphabet", "parser/thrift.peg:Identifier", "parser/thrift.peg", fmt.Sprintf("all %d identifier characters are accepted by insertReg", len(alpha)),
			fmt.Sprintf("IDL identifiers may contain %v, which insertReg's class does not accept: the marker of such a struct/field stays in the generated file", bad))
	}
	// literal words in templates
	st := tmplEngine(c)
	if st != nil {
		words := map[string]bool{}
		for _, set := range st.Sets {
			trees := []*parse.Tree{set.Root}
			for _, t := range set.Defs {
				trees = append(trees, t)
			}
			for _, t := range trees {
				if t == nil {
					continue
				}
				walkParse(t.Root, func(n parse.Node) {
					cmd, ok := n.(*parse.CommandNode)
					if !ok || len(cmd.Args) == 0 {
						return
					}
					if id, ok := cmd.Args[0].(*parse.IdentifierNode); ok && id.Ident == "InsertionPoint" {
						for _, a := range cmd.Args[1:] {
							if s, ok := a.(*parse.StringNode); ok {
								words[s.Text] = true
							}
						}
					}
				})
			}
		}
		var ws []string
		for w := range words {
			ws = append(ws, w)
		}
		sort.Strings(ws)
		for _, w := range ws {
			okW := true
			for _, ch := range w {
				if !inClass(ch) {
					okW = false
				}
			}
			c.Decide(okW, "marker-alphabet", fmt.Sprintf("templates/InsertionPoint word %q", w), "generator/golang/templates", "accepted by insertReg", "the literal marker word contains a character outside insertReg's class: this marker is never removed from generated code")
		}
		c.Min("marker-alphabet", 8)
	}
	// (iv)
	ok, fact := verifyInsertRegPrefixFree(c)
	c.Decide(ok, "replace-order-independent", "generator.(insertionPointReplacer).Replace", "", fact, fact)

	// (ii) Feed
	c12feed(c)
	// (iii) BuildResponse
	c12build(c)
}

func constStringOf(o types.Object) (string, bool) {
	k, ok := o.(*types.Const)
	if !ok || k.Val().Kind() != constant.String {
		return "", false
	}
	return constant.StringVal(k.Val()), true
}

// identifierAlphabet reads the PEG rule Identifier (the captured part) and expands Letter/Digit.
func identifierAlphabet() ([]rune, string) {
	b, err := os.ReadFile(filepath.Join(core.RepoDir(), "parser", "thrift.peg"))
	if err != nil {
		return nil, err.Error()
	}
	rulesTxt := map[string]string{}
	for _, line := range strings.Split(string(b), "\n") {
		if i := strings.Index(line, "<-"); i > 0 {
			rulesTxt[strings.TrimSpace(line[:i])] = strings.TrimSpace(line[i+2:])
		}
	}
	body, ok := rulesTxt["Identifier"]
	if !ok {
		return nil, "rule Identifier not found"
	}
	lt, gt := strings.Index(body, "<"), strings.LastIndex(body, ">")
	if lt < 0 || gt < lt {
		return nil, "Identifier has no capture"
	}
	set := map[rune]bool{}
	var expand func(expr string, depth int) string
	classRe := regexp.MustCompile(`\[([^\]]+)\]`)
	litRe := regexp.MustCompile(`'([^'])'`)
	refRe := regexp.MustCompile(`\b[A-Z][A-Za-z]*\b`)
	expand = func(expr string, depth int) string {
		if depth > 5 {
			return "rule nesting too deep"
		}
		for _, m := range classRe.FindAllStringSubmatch(expr, -1) {
			cl := m[1]
			for i := 0; i < len(cl); i++ {
				if i+2 < len(cl) && cl[i+1] == '-' {
					for ch := rune(cl[i]); ch <= rune(cl[i+2]); ch++ {
						set[ch] = true
					}
					i += 2
				} else {
					set[rune(cl[i])] = true
				}
			}
		}
		for _, m := range litRe.FindAllStringSubmatch(expr, -1) {
			set[rune(m[1][0])] = true
		}
		stripped := classRe.ReplaceAllString(litRe.ReplaceAllString(expr, ""), "")
		for _, ref := range refRe.FindAllString(stripped, -1) {
			sub, ok := rulesTxt[ref]
			if !ok {
				return "rule " + ref + " not found"
			}
			if e := expand(sub, depth+1); e != "" {
				return e
			}
		}
		return ""
	}
	if e := expand(body[lt+1:gt], 0); e != "" {
		return nil, e
	}
	var out []rune
	for ch := range set {
		out = append(out, ch)
	}
	sort.Slice(out, func(i, j int) bool { return out[i] < out[j] })
	if len(out) < 30 {
		return nil, fmt.Sprintf("only %d identifier characters derived", len(out))
	}
	return out, ""
}

func c12feed(c *core.Check) {
	c12patchTarget(c)
	c12skipPredicate(c)
	c12freshName(c)
	c12nameStorage(c)
	c12discardLineage(c)
	c12namedPatch(c)
	c12replacerAdd(c)
	c12patchFollowsMove(c)
	fd := c.Prog.FuncDecl("generator", "FileManager.Feed")
	key := "generator.(FileManager).Feed"
	if fd == nil {
		c.Unknown("anchor", key, "", "missing")
		return
	}
	info := c.Prog.Pkg("generator").TypesInfo
	// unnamed item with no target => error
	okErr := false
	ast.Inspect(fd.Body, func(n ast.Node) bool {
		is, ok := n.(*ast.IfStmt)
		if !ok || !strings.Contains(rules.ExprString(is.Cond), "IsSetName") {
			return true
		}
		// the variable under which unnamed items are filed: the key of fm.patch[...] in this branch
		target := ""
		ast.Inspect(is.Body, func(m ast.Node) bool {
			if ix, ok := m.(*ast.IndexExpr); ok && strings.HasSuffix(rules.ExprString(ix.X), ".patch") {
				target = rules.ExprString(ix.Index)
			}
			return true
		})
		for _, s := range is.Body.List {
			if inner, ok := s.(*ast.IfStmt); ok && target != "" && strings.ReplaceAll(rules.ExprString(inner.Cond), " ", "") == target+`==""` {
				for _, b := range inner.Body.List {
					if rs, ok := b.(*ast.ReturnStmt); ok && len(rs.Results) == 1 && !rules.IsNil(info, rs.Results[0]) {
						okErr = true
					}
				}
			}
		}
		return true
	})
	c.Decide(okErr, "patch-without-target", key+"/unnamed", c.Prog.Rel(fd.Pos()), "an unnamed item with no preceding named file returns an error", "a patch without a target file is no longer rejected")
	// every append to fm.files preceded in its block by fm.index[x] = len(fm.files)
	n := 0
	ast.Inspect(fd.Body, func(nd ast.Node) bool {
		var list []ast.Stmt
		switch b := nd.(type) {
		case *ast.BlockStmt:
			list = b.List
		case *ast.CaseClause:
			list = b.Body
		default:
			return true
		}
		for i, s := range list {
			as, ok := s.(*ast.AssignStmt)
			if !ok || len(as.Lhs) != 1 || rules.ExprString(as.Lhs[0]) != recvNameOf(fd, "fm")+".files" {
				continue
			}
			call, ok := as.Rhs[0].(*ast.CallExpr)
			if !ok || !rules.IsBuiltin(info, call, "append") {
				continue
			}
			n++
			paired := false
			for _, p := range list[:i] {
				if pa, ok := p.(*ast.AssignStmt); ok && len(pa.Lhs) == 1 {
					if ix, ok := pa.Lhs[0].(*ast.IndexExpr); ok && rules.ExprString(ix.X) == recvNameOf(fd, "fm")+".index" && rules.ExprString(pa.Rhs[0]) == "len("+recvNameOf(fd, "fm")+".files)" {
						paired = true
					}
				}
			}
			c.Decide(paired, "files-index-lockstep", fmt.Sprintf("%s/append#%d", key, n), c.Prog.Rel(as.Pos()), "fm.index[name] = len(fm.files) precedes the append in the same block", "a file is appended without recording its index: later duplicates of its name are not detected and patches cannot find it")
		}
		return true
	})
	c.Min("files-index-lockstep", 2)
}

func c12build(c *core.Check) {
	fd := c.Prog.FuncDecl("generator", "FileManager.BuildResponse")
	key := "generator.(FileManager).BuildResponse"
	if fd == nil {
		c.Unknown("anchor", key, "", "missing")
		return
	}
	info := c.Prog.Pkg("generator").TypesInfo
	recv := "fm"
	if fd.Recv != nil && len(fd.Recv.List) == 1 && len(fd.Recv.List[0].Names) == 1 {
		recv = fd.Recv.List[0].Names[0].Name
	}
	resName := "res"
	for _, s := range fd.Body.List {
		if rs, ok := s.(*ast.ReturnStmt); ok && len(rs.Results) == 1 {
			if id, ok := rs.Results[0].(*ast.Ident); ok {
				resName = id.Name
			}
		}
	}
	var loop *ast.RangeStmt
	for _, s := range fd.Body.List {
		if rs, ok := s.(*ast.RangeStmt); ok && rules.ExprString(rs.X) == recv+".files" {
			loop = rs
		}
	}
	if loop == nil {
		c.Bad("response-one-per-file", key, c.Prog.Rel(fd.Pos()), "BuildResponse no longer ranges over fm.files")
		return
	}
	counts := appendCounts(info, loop.Body.List, resName+".Contents")
	ok := len(counts) > 0
	for _, n := range counts {
		if n != 1 {
			ok = false
		}
	}
	c.Decide(ok, "response-one-per-file", key+"/append", c.Prog.Rel(loop.Pos()), "exactly one response item per managed file, in order", fmt.Sprintf("paths through the loop append %v items per file", counts))
	// name and content
	v := rules.ExprString(loop.Value)
	nameOK, contentOK, patchOK := false, false, false
	ast.Inspect(loop.Body, func(n ast.Node) bool {
		switch x := n.(type) {
		case *ast.KeyValueExpr:
			k := rules.ExprString(x.Key)
			if k == "Name" && rules.ExprString(x.Value) == v+".Name" {
				nameOK = true
			}
			if k == "Content" {
				if call, ok := x.Value.(*ast.CallExpr); ok {
					if fn := rules.Callee(info, call); fn != nil && fn.Name() == "Replace" && len(call.Args) == 1 && rules.ExprString(call.Args[0]) == v+".Content" {
						contentOK = true
					}
				}
			}
		case *ast.RangeStmt:
			if strings.HasPrefix(rules.ExprString(x.X), recv+".patch[") && strings.Contains(rules.ExprString(x.X), v+".GetName()") {
				for _, call := range rules.Calls(x.Body, false) {
					if fn := rules.Callee(info, call); fn != nil && fn.Name() == "Add" {
						patchOK = true
					}
				}
			}
		}
		return true
	})
	c.Decide(nameOK && contentOK, "response-own-content", key+"/item", c.Prog.Rel(loop.Pos()), "the item carries the file's own name and its own content after replacement", "a response item does not carry its file's own name/content")
	c.Decide(patchOK, "response-patches-applied", key+"/patches", c.Prog.Rel(loop.Pos()), "every patch registered under the file's name is added to the replacer", "patches registered for a file are no longer applied when the response is built")
}
