package props

import (
	"fmt"
	"go/ast"
	"go/token"
	"go/types"
	"strings"

	"verif/checker/core"
	"verif/checker/rules"
)

// c04includeSearch: a qualified name `prefix.Name` is resolved by searching the file's includes for the prefix. "Undefined
// symbol", "unknown base service" etc. are diagnosed only if the search's *failure* is turned into an error: after a loop
// over `.Includes` that records its result (a `.Reference`, or any variable it assigns), the statements that follow in the
// same block must test that result and return a non-nil error. A loop that merely `continue`s over non-matching includes
// and falls out at the end accepts a prefix no include carries.
func c04includeSearch(c *core.Check) {
	rel := "semantic"
	pk := c.Prog.Pkg(rel)
	if pk == nil {
		c.Unknown("anchor", rel, "", "package missing")
		return
	}
	info := pk.TypesInfo
	n := 0
	c.Prog.AllFuncDecls(rel, func(file *ast.File, fd *ast.FuncDecl) {
		if fd.Body == nil || strings.HasSuffix(c.Prog.Fset.File(fd.Pos()).Name(), "_test.go") {
			return
		}
		per := 0
		var visitList func(list []ast.Stmt)
		visitList = func(list []ast.Stmt) {
			for i, st := range list {
				rs, ok := st.(*ast.RangeStmt)
				if !ok || !strings.HasSuffix(rules.ExprString(rs.X), ".Includes") {
					continue
				}
				// results recorded by the loop
				results := map[string]bool{}
				resolves := false
				ast.Inspect(rs.Body, func(m ast.Node) bool {
					as, ok := m.(*ast.AssignStmt)
					if !ok {
						return true
					}
					for _, l := range as.Lhs {
						if _, isIdx := l.(*ast.IndexExpr); isIdx {
							continue
						}
						t := rules.ExprString(l)
						if strings.Contains(t, "[") || as.Tok == token.DEFINE {
							continue
						}
						results[t] = true
						if strings.HasSuffix(t, ".Reference") {
							resolves = true
						}
					}
					return true
				})
				if !resolves {
					continue
				}
				per++
				n++
				key := fmt.Sprintf("%s/range-includes#%d", core.FuncKey(rel, fd), per)
				where := c.Prog.Rel(rs.Pos())
				tested := false
				for _, later := range list[i+1:] {
					is, ok := later.(*ast.IfStmt)
					if !ok {
						continue
					}
					mentions := false
					for _, hdr := range []ast.Node{is.Init, is.Cond} {
						if hdr == nil || hdr == ast.Node((ast.Stmt)(nil)) {
							continue
						}
						ast.Inspect(hdr, func(m ast.Node) bool {
							if e, ok := m.(ast.Expr); ok && results[rules.ExprString(e)] {
								mentions = true
							}
							return true
						})
					}
					if !mentions {
						continue
					}
					for _, b := range is.Body.List {
						if ret, ok := b.(*ast.ReturnStmt); ok && len(ret.Results) > 0 && !rules.IsNil(info, ret.Results[len(ret.Results)-1]) {
							tested = true
						}
					}
				}
				c.Decide(tested, "include-search-miss-reported", key, where,
					"after the search over the includes its result is tested and a miss returns an error",
					"the search over the includes is not followed by a test of its result that returns an error: a qualified name whose prefix no include carries (or whose include lacks the name) is accepted, and thriftgo exits 0 with output for an undefined symbol")
			}
			for _, st := range list {
				switch x := st.(type) {
				case *ast.BlockStmt:
					visitList(x.List)
				case *ast.IfStmt:
					visitList(x.Body.List)
					if eb, ok := x.Else.(*ast.BlockStmt); ok {
						visitList(eb.List)
					}
				case *ast.ForStmt:
					visitList(x.Body.List)
				case *ast.RangeStmt:
					visitList(x.Body.List)
				case *ast.SwitchStmt:
					for _, cc := range x.Body.List {
						visitList(cc.(*ast.CaseClause).Body)
					}
				case *ast.TypeSwitchStmt:
					for _, cc := range x.Body.List {
						visitList(cc.(*ast.CaseClause).Body)
					}
				}
			}
		}
		visitList(fd.Body.List)
	})
	c.Min("include-search-miss-reported", 2)
}

// c04fieldDefaults: a parser.Field carries a type and an optional default value; both hold names that the semantic pass has
// to resolve (the default's identifiers get their ConstValueExtra there, and an undefined identifier is diagnosed there).
// The back end dereferences that resolution result without a nil test, so a field list whose types are resolved but whose
// defaults are not makes thriftgo die with a panic trace on `void f(1: i32 a = K)` — for a defined K as much as for an
// undefined one. Rule: wherever the resolver calls ResolveType(E.Type) on a *parser.Field E, the same function also
// resolves E.Default (ResolveConstValue(E.Default)).
func c04fieldDefaults(c *core.Check) {
	rel := "semantic"
	pk := c.Prog.Pkg(rel)
	if pk == nil {
		c.Unknown("anchor", rel, "", "package missing")
		return
	}
	info := pk.TypesInfo
	n := 0
	c.Prog.AllFuncDecls(rel, func(file *ast.File, fd *ast.FuncDecl) {
		if fd.Body == nil || strings.HasSuffix(c.Prog.Fset.File(fd.Pos()).Name(), "_test.go") {
			return
		}
		// scopes: the function body and every loop / closure body inside it
		scopes := []ast.Node{fd.Body}
		ast.Inspect(fd.Body, func(m ast.Node) bool {
			switch x := m.(type) {
			case *ast.RangeStmt:
				scopes = append(scopes, x.Body)
			case *ast.ForStmt:
				scopes = append(scopes, x.Body)
			case *ast.FuncLit:
				scopes = append(scopes, x.Body)
			}
			return true
		})
		innermost := func(pos token.Pos) ast.Node {
			var best ast.Node
			for _, sc := range scopes {
				if sc.Pos() <= pos && pos < sc.End() && (best == nil || sc.Pos() >= best.Pos()) {
					best = sc
				}
			}
			return best
		}
		fieldArg := func(call *ast.CallExpr, callee, field string) (string, bool) {
			fn := rules.Callee(info, call)
			if fn == nil || fn.Name() != callee || len(call.Args) != 1 {
				return "", false
			}
			sel, ok := ast.Unparen(call.Args[0]).(*ast.SelectorExpr)
			if !ok || sel.Sel.Name != field {
				return "", false
			}
			tv, ok := info.Types[sel.X]
			if !ok || !strings.HasSuffix(tv.Type.String(), "parser.Field") {
				return "", false
			}
			return rules.ExprString(sel.X), true
		}
		per := 0
		for _, call := range rules.Calls(fd.Body, true) {
			base, ok := fieldArg(call, "ResolveType", "Type")
			if !ok {
				continue
			}
			per++
			n++
			sc := innermost(call.Pos())
			done := false
			for _, other := range rules.Calls(sc, true) {
				if b2, ok := fieldArg(other, "ResolveConstValue", "Default"); ok && b2 == base {
					done = true
				}
			}
			c.Decide(done, "field-defaults-resolved", fmt.Sprintf("%s/%s#%d", core.FuncKey(rel, fd), base, per), c.Prog.Rel(call.Pos()),
				"the field's default value is resolved where its type is",
				"the type of field "+base+" is resolved here but its default value never is: an identifier in the default (`void f(1: i32 a = K)`) reaches the back end unresolved, which dereferences the missing resolution result — thriftgo prints a panic trace instead of code or a diagnostic, and an undefined identifier there is never reported")
		}
	})
	c.Min("field-defaults-resolved", 3)
}

func sortStrings(s []string) {
	for i := 1; i < len(s); i++ {
		for j := i; j > 0 && s[j] < s[j-1]; j-- {
			s[j], s[j-1] = s[j-1], s[j]
		}
	}
}

// c04backendRulesReach: some catalogue rules (a constant or default value of a kind its type cannot hold) are enforced by
// the Go backend's constant resolver while it builds the scope of a file, not by the semantic pass. A file's scope is built
// when the file is generated (the main file, every file with -r) or when it is an include that is *used*; buildIncludes
// skips includes whose Used flag is unset. A rule-breaking file that is included but not referenced is therefore never
// looked at without -r: thriftgo exits 0 although the IDL set breaks a rule it enforces.
func c04backendRulesReach(c *core.Check) {
	fd := c.Prog.FuncDecl(golangRel, "Scope.buildIncludes")
	key := golangRel + ".(Scope).buildIncludes/unused-includes"
	if fd == nil {
		c.Unknown("anchor", key, "", "missing")
		return
	}
	skip := ""
	ast.Inspect(fd.Body, func(n ast.Node) bool {
		is, ok := n.(*ast.IfStmt)
		if !ok || !strings.Contains(rules.ExprString(is.Cond), "Used") {
			return true
		}
		for _, st := range is.Body.List {
			if br, ok := st.(*ast.BranchStmt); ok && br.Tok == token.CONTINUE {
				skip = rules.ExprString(is.Cond)
			}
		}
		return true
	})
	// is a catalogue rule enforced in the backend at all?
	backend := c.Prog.FuncDecl(golangRel, "Resolver.resolveConst") != nil
	c.Decide(!(backend && skip != ""), "E7-backend-rules-reach-every-file", key, c.Prog.Rel(fd.Pos()),
		"every included file's scope is built (or no catalogue rule is enforced by the backend)",
		"the scope of an include is only built when `"+skip+"` does not hold, and the value-kind rules of the catalogue are enforced while a scope is built (Resolver.resolveConst): `include \"a.thrift\"` with `struct A {1: i32 x = \"str\"}` in a.thrift and no reference into it is accepted with exit 0 unless -r is given")
}

// c04includeIdentity: `include "common.thrift"` written in two files of different directories names two different files;
// what identifies an included file is what the include resolved to (Include.Reference, or its Filename), never the text
// of the include (Include.Path). A "visited" set keyed by that text makes a walk over the include graph skip the second
// file, and every rule the walk enforces is then not applied to it. Rule: in the compile-path packages no map is indexed
// with the Path of a *parser.Include.
func c04includeIdentity(c *core.Check) {
	n := 0
	var bad []string
	where := ""
	for _, rel := range []string{"semantic", "parser", "generator", "generator/golang", "generator/fastgo", "tool/trimmer/trim", "sdk", "."} {
		pk := c.Prog.Pkg(rel)
		if pk == nil {
			continue
		}
		info := pk.TypesInfo
		for _, f := range pk.Syntax {
			if strings.HasSuffix(c.Prog.Fset.File(f.Pos()).Name(), "_test.go") {
				continue
			}
			ast.Inspect(f, func(m ast.Node) bool {
				ix, ok := m.(*ast.IndexExpr)
				if !ok {
					return true
				}
				tv, ok := info.Types[ix.X]
				if !ok {
					return true
				}
				if _, isMap := tv.Type.Underlying().(*types.Map); !isMap {
					return true
				}
				n++
				sel, ok := ast.Unparen(ix.Index).(*ast.SelectorExpr)
				if !ok || sel.Sel.Name != "Path" {
					return true
				}
				if xt, ok := info.Types[sel.X]; ok && strings.HasSuffix(xt.Type.String(), "parser.Include") {
					bad = append(bad, c.Prog.Rel(ix.Pos())+": "+rules.ExprString(ix))
					if where == "" {
						where = c.Prog.Rel(ix.Pos())
					}
				}
				return true
			})
		}
	}
	c.Analysed["map_index_sites"] = n
	c.Decide(len(bad) == 0, "include-identity-is-resolved-file", "compile-path/map[Include.Path]", where,
		fmt.Sprintf("%d map index expressions, none keyed by the written path of an include", n),
		"a map is keyed by the text of an include ("+strings.Join(bad, "; ")+"): two files included as \"common.thrift\" from different directories collapse into one entry, so a walk that uses the map as its visited set never looks at the second file — its duplicate ids, enum overflows, oneway/throws and union-default errors go undiagnosed and thriftgo exits 0")
	if n < 50 {
		c.Unknown("include-identity-is-resolved-file", "compile-path/vacuity", "", fmt.Sprintf("only %d map index expressions were inspected", n))
	}
}
