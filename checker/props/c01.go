package props

import (
	"fmt"
	"go/ast"
	"go/token"
	"go/types"
	"sort"
	"strings"
	"sync"
	"text/template/parse"

	"verif/checker/core"
	"verif/checker/rules"
	"verif/checker/tmpl"
)

func init() { register("C01", c01) }

var templateBuiltins = map[string]bool{"and": true, "or": true, "not": true, "eq": true, "ne": true, "lt": true, "le": true, "gt": true, "ge": true,
	"len": true, "index": true, "slice": true, "print": true, "printf": true, "println": true, "html": true, "js": true, "urlquery": true, "call": true}

func allUnits(tier string) []unit {
	g := "generator/golang"
	var us []unit
	us = append(us, structUnits("default", true)...)
	for _, s := range []string{"slim", "raw_struct", "no_default_serdes"} {
		us = append(us, structUnits(s, false)...)
	}
	for _, s := range []string{"default", "slim", "raw_struct", "no_default_serdes"} {
		us = append(us,
			unit{Set: s, Def: "ThriftService", DotRel: g, DotType: "Service", Lists: []int{0, 1, 2}, Cats: []string{"I32", "Struct"}},
			unit{Set: s, Def: "ThriftClient", DotRel: g, DotType: "Service", Lists: []int{0, 1}, Cats: []string{"I32", "Struct"}, Stub: []string{"StructLike"}},
			unit{Set: s, Def: "ThriftProcessor", DotRel: g, DotType: "Service", Lists: []int{0, 1}, Cats: []string{"I32", "Struct"}, Stub: []string{"StructLike"}},
		)
	}
	us = append(us,
		unit{Set: "default", Def: "Enum", DotRel: g, DotType: "Enum", Lists: []int{0, 1, 2}},
		unit{Set: "default", Def: "Typedef", DotRel: g, DotType: "Typedef", Cats: []string{"I32", "Enum", "Struct", "Union", "List"}},
		unit{Set: "default", Def: "Constant", DotRel: g, DotType: "Scope", Lists: []int{0, 1, 2}, Cats: []string{"I32", "String", "List"}},
		unit{Set: "default", Def: "", Name: "File", DotRel: g, DotType: "Scope", Lists: []int{0, 1}, Stub: []string{"Constant", "Enum", "Typedef", "StructLike", "ThriftService", "ThriftClient", "ThriftProcessor"}},
		unit{Set: "raw_struct", Def: "", Name: "File", DotRel: g, DotType: "Scope", Lists: []int{0, 1}, Stub: []string{"Constant", "Enum", "Typedef", "StructLike", "ThriftService", "ThriftClient", "ThriftProcessor"}},
		unit{Set: "ref", Def: "", Name: "File", DotRel: g, DotType: "Scope", Lists: []int{0, 1}, Cats: []string{"I32", "Struct"}},
		unit{Set: "reflection", Def: "", Name: "File", DotRel: g, DotType: "Scope", Lists: []int{0, 1}, Cats: []string{"I32", "Struct"}},
		unit{Set: "reflection-ref", Def: "", Name: "File", DotRel: g, DotType: "Scope", Lists: []int{0, 1}, Cats: []string{"I32", "Struct"}},
	)
	return us
}

func c01(c *core.Check) {
	c.Explain = "TMPL: the text/template bodies of the Go backend are extracted statically from the repository's string variables (all seven template sets), parsed with text/template/parse and abstractly rendered " +
		"under every valuation of: feature flags, struct category, 0..2 fields, requiredness, default presence, and the type-shape domain (10 representative / all 15 categories, container nesting 1 / 2). " +
		"Repository helper functions called by templates (Category predicates, IsBaseType, NeedRedirect, SupportIsSet, GetTypeIDConstant, ZeroWriter, ReadWriteContext builders, GenID) are interpreted from their own Go bodies. " +
		"Decided: T0 every {{template}} target is defined in every set that contains the caller and every function is registered in BuildFuncMap; " +
		"every rendering of every function unit parses as Go (go/parser) and go/types reports none of: unused/undefined label, goto over a declaration or into a block, unused local, redeclaration, missing return; " +
		"within each unit the std-library qualifiers used equal the libraries declared through UseStdLibrary; go/token keywords are all in isKeywords; every method name a struct template emits as literal text is reserved in buildStructLike under the same condition. " +
		"NOT decided: cross-file name resolution, collision renaming for arbitrary names, go build of real output, fastgo's codewriter output."
	c.RuleText = "one obligation per (rule, template set, function unit), discharged when every distinct abstract rendering passes; non-trivial = needed rendering + Go front end"
	c.Assume = []string{"templates are recursive in one context parameter beyond the container-nesting bound", "placeholders stand for well-formed Go identifiers/expressions (names come from the naming styles, values from the resolver)",
		"the hand model of MkRWCtx/mkRWCtx/asKeyCtx (20 lines) matches the source (cross-checked structurally)"}
	st := tmplEngine(c)
	if st == nil {
		return
	}
	c01T0(c, st)
	agg := newAggregate()
	var libRule sync2
	units := allUnits(c.Tier)
	reserved, reservedOK := reservedTable(c)
	ambient := ambientConditions(c, st)
	type impRec struct {
		val        string
		used, decl map[string]bool
		choices    map[string]int
	}
	imports := map[string][]impRec{}
	optLinesQualified := getOptionLinesQualified(c)
	genFails := map[string]int{}
	family := func(key string) string {
		set, name, _ := strings.Cut(key, "/")
		switch {
		case strings.HasPrefix(name, "Thrift"):
			return set + "/service"
		case name == "File", name == "Enum", name == "Typedef", name == "Constant":
			return key
		}
		return "struct"
	}
	runUnits(c, st, units, func(r *rendered) {
		k := r.U.key()
		if gf, ok := r.R.Err.(*tmpl.GenFailure); ok {
			_ = gf
			libRule.Lock()
			genFails[k]++
			libRule.Unlock()
			return
		}
		agg.check("render-parses", k)
		if r.R.Err != nil {
			agg.fail("render-parses", k, fmt.Sprintf("abstract rendering fails under [%s]: %v", r.R.Valuation, r.R.Err))
			return
		}
		if r.ParseErr != nil {
			agg.fail("render-parses", k, fmt.Sprintf("rendering is not valid Go under [%s]: %v", r.R.Valuation, r.ParseErr))
			return
		}
		agg.check("render-typechecks", k)
		for _, d := range r.P.Diag {
			agg.fail("render-typechecks", k, fmt.Sprintf("under [%s]: %s", r.R.Valuation, d))
			break
		}
		if r.U.Def == "StructLikeDeepEqualField" || r.U.Def == "StructLikeWriteField" {
			c01valueElems(agg, r)
		}
		if r.U.Def == "Typedef" {
			// `type T S` (a defined type, use_type_alias=false) has none of S's methods, while the struct templates call
			// Read / Write / InitDefault / DeepEqual on every struct-like field or element whatever name its type was given
			var tsh *shape
			if dot, ok := r.R.Dot.(*tmpl.Obj); ok {
				if t, ok := dot.Peek("Typedef", "Type").(*tmpl.Obj); ok {
					tsh = shapeOf(r.W, t)
				}
			}
			if tsh != nil {
				switch {
				case tsh.isStructLike():
					agg.check("typedef-of-struct-keeps-methods", k)
					for _, d := range r.P.File.Decls {
						gd, ok := d.(*ast.GenDecl)
						if !ok || gd.Tok != token.TYPE {
							continue
						}
						for _, sp := range gd.Specs {
							if ts, ok := sp.(*ast.TypeSpec); ok && !ts.Assign.IsValid() {
								methods := 0
								for _, d2 := range r.P.File.Decls {
									if fd, ok := d2.(*ast.FuncDecl); ok && fd.Recv != nil && strings.Contains(types.ExprString(fd.Recv.List[0].Type), ts.Name.Name) {
										methods++
									}
								}
								if methods == 0 {
									agg.fail("typedef-of-struct-keeps-methods", k, "under ["+r.R.Valuation+"]: a typedef of a struct-like is emitted as the defined type `type "+ts.Name.Name+" …` without any method: `typedef S T  struct U {1: T t}` with use_type_alias=false generates `_field.Read` on a *T — T has no method Read, the package does not compile")
								}
							}
						}
					}
				}
			}
		}
		used := qualifiersUsed(r.P.File)
		decl := map[string]bool{}
		for _, l := range r.R.Libs {
			decl[l] = true
		}
		// imports written literally in a whole-file template
		for _, im := range r.P.File.Imports {
			path := strings.Trim(im.Path.Value, "\"`")
			name := path[strings.LastIndex(path, "/")+1:]
			if im.Name != nil {
				name = im.Name.Name
			}
			used[name] = true // literal imports are outside the UseStdLibrary discipline: only "used => available" is checked for them
			decl[name] = true
		}
		if optLinesQualified && strings.Contains(r.R.Text, "GetOption") {
			used["thrift_option"] = true
		}
		libRule.Lock()
		imports[k] = append(imports[k], impRec{r.R.Valuation, used, decl, r.R.Choices})
		libRule.Unlock()
		// reserved method names
		if reservedOK {
			for _, d := range r.P.File.Decls {
				fd, ok := d.(*ast.FuncDecl)
				if !ok || fd.Recv == nil || len(fd.Recv.List) == 0 {
					continue
				}
				recv := types.ExprString(fd.Recv.List[0].Type)
				recv = strings.TrimPrefix(recv, "*")
				isStructRecv := family(k) == "struct" || strings.Contains(recv, "structs_") || strings.Contains(recv, "unions_") || strings.Contains(recv, "exceptions_")
				if !isStructRecv || !strings.HasPrefix(recv, "Φ") {
					continue
				}
				name := fd.Name.Name
				if strings.HasPrefix(name, "Φ") {
					continue // allocated through the struct's name scope (Add/Get)
				}
				lit, plus := name, false
				if i := strings.Index(name, "Φ"); i > 0 {
					lit, plus = name[:i], name[i:] == recv
					if !plus {
						continue // literal + some other dynamic text: not a built-in method name
					}
				}
				mk := r.U.Set + "/method " + lit
				if plus {
					mk += "<TypeName>"
				}
				agg.check("reserved-method-name", mk)
				ch := r.R.Choices
				if amb := ambient[r.U.Set+"/"+r.U.Def]; len(amb) > 0 {
					ch = map[string]int{}
					for k, v := range r.R.Choices {
						ch[k] = v
					}
					for k, v := range amb {
						ch[k] = v
					}
				}
				if why := reserved.covers(lit, plus, ch); why != "" {
					agg.fail("reserved-method-name", mk, fmt.Sprintf("the struct templates emit method %s under [%s] but buildStructLike %s: a field whose Go name equals it compiles to 'field and method with the same name'", name, r.R.Valuation, why))
				}
			}
		}
	})
	for k, n := range genFails {
		c.Note("unit %s: %d valuation(s) make template execution itself fail (thriftgo reports an error; no code is written)", k, n)
	}
	// imports: libraries are imported per file; units of one family are always rendered together
	std := stdLibs(c)

	compatible := func(a, b map[string]int) bool {
		for k, v := range a {
			if w, ok := b[k]; ok && w != v {
				return false
			}
		}
		return true
	}
	// covered: some sibling unit of the family has lib q (by pick) in every rendering compatible with rec
	covered := func(fam, self string, rec impRec, q string, pick func(impRec) map[string]bool) bool {
		for k, recs := range imports {
			if family(k) != fam || k == self {
				continue
			}
			all, any := true, false
			for _, r := range recs {
				if !compatible(rec.choices, r.choices) {
					continue
				}
				any = true
				if !pick(r)[q] {
					all = false
					break
				}
			}
			if any && all {
				return true
			}
		}
		return false
	}
	var ikeys []string
	for k := range imports {
		ikeys = append(ikeys, k)
	}
	sort.Strings(ikeys)
	for _, k := range ikeys {
		fam := family(k)
		for _, r := range imports[k] {
			agg.check("imports-balanced", k)
			for q := range r.used {
				if std[q] && !r.decl[q] && !covered(fam, k, r, q, func(x impRec) map[string]bool { return x.decl }) {
					agg.fail("imports-balanced", k, fmt.Sprintf("under [%s]: qualifier %s. is used but UseStdLibrary %q is executed neither here nor unconditionally elsewhere in the %s family", r.val, q, q, fam))
				}
			}
			for q := range r.decl {
				if !r.used[q] && !covered(fam, k, r, q, func(x impRec) map[string]bool { return x.used }) {
					agg.fail("imports-balanced", k, fmt.Sprintf("under [%s]: UseStdLibrary %q is executed but neither this unit nor any always-rendered sibling uses %s. (imported and not used)", r.val, q, q))
				}
			}
		}
	}
	agg.flush(c, map[string]string{"render-parses": "parses as Go", "render-typechecks": "no label/goto/unused/redeclared/missing-return diagnostic", "imports-balanced": "declared libraries = used qualifiers",
		"value-elements-by-address":       "container elements reach DeepEqual by address iff value_type_in_container",
		"typedef-of-struct-keeps-methods": "a typedef of a struct-like is an alias, or the defined type gets the methods the struct templates call"})
	c.Min("value-elements-by-address", 2)
	c.Min("render-parses", 25)
	c.Min("reserved-method-name", 8)
	c01keywords(c)
	c01qualifiers(c)
}

// c01qualifiers: every Go package qualifier the backend builds for another scope ("<pkg>." + name) must come from
// the alias the import manager assigned to that include (Include.PackageName, or Scope.includeIDL which returns it):
// only that name is imported by the file, so any other spelling of the package name is an undefined identifier as
// soon as the import manager had to rename (two includes with the same package name, or a name like "context").
func c01qualifiers(c *core.Check) {
	pk := c.Prog.Pkg(golangRel)
	info := pk.TypesInfo
	allowedCall := map[string]bool{"includeIDL": true}
	n := 0
	for _, f := range pk.Syntax {
		fname := c.Prog.Fset.File(f.Pos()).Name()
		if strings.HasSuffix(fname, "frugal.go") {
			continue // builds frugal type strings (struct tags), not Go qualifiers
		}
		for _, d := range f.Decls {
			fd, ok := d.(*ast.FuncDecl)
			if !ok || fd.Body == nil {
				continue
			}
			// definitions of local variables (single := / = assignments)
			defs := map[types.Object][]ast.Expr{}
			ast.Inspect(fd.Body, func(nd ast.Node) bool {
				if as, ok := nd.(*ast.AssignStmt); ok && len(as.Lhs) == len(as.Rhs) {
					for i, l := range as.Lhs {
						if o := rules.ObjOf(info, l); o != nil {
							defs[o] = append(defs[o], as.Rhs[i])
						}
					}
				}
				if as, ok := nd.(*ast.AssignStmt); ok && len(as.Rhs) == 1 && len(as.Lhs) > 1 {
					for _, l := range as.Lhs {
						if o := rules.ObjOf(info, l); o != nil {
							defs[o] = append(defs[o], as.Rhs[0])
						}
					}
				}
				return true
			})
			var fromAlias func(e ast.Expr, depth int) bool
			fromAlias = func(e ast.Expr, depth int) bool {
				if depth > 4 {
					return false
				}
				switch x := ast.Unparen(e).(type) {
				case *ast.SelectorExpr:
					if fv := rules.FieldOf(info, x); fv != nil && fv.Name() == "PackageName" {
						return true
					}
				case *ast.CallExpr:
					if fn := rules.Callee(info, x); fn != nil && allowedCall[fn.Name()] {
						return true
					}
				case *ast.Ident:
					o := rules.ObjOf(info, x)
					ds := defs[o]
					if len(ds) == 0 {
						return false
					}
					for _, d := range ds {
						if !fromAlias(d, depth+1) {
							return false
						}
					}
					return true
				}
				return false
			}
			// concatenations that are call arguments (diagnostic names handed to helpers) are not qualifiers
			argExprs := map[ast.Expr]bool{}
			ast.Inspect(fd.Body, func(nd ast.Node) bool {
				if call, ok := nd.(*ast.CallExpr); ok {
					for _, a := range call.Args {
						ast.Inspect(a, func(m ast.Node) bool {
							if e, ok := m.(*ast.BinaryExpr); ok {
								argExprs[e] = true
							}
							return true
						})
					}
				}
				return true
			})
			ast.Inspect(fd.Body, func(nd ast.Node) bool {
				be, ok := nd.(*ast.BinaryExpr)
				if !ok || be.Op != token.ADD || argExprs[be] {
					return true
				}
				if s, ok := rules.ConstString(info, be.Y); !ok || s != "." {
					return true
				}
				if tv, ok := info.Types[be.X]; !ok || tv.Value != nil {
					return true
				}
				n++
				key := fmt.Sprintf("%s/qualifier %s", core.FuncKey(golangRel, fd), rules.ExprString(be.X))
				c.Decide(fromAlias(be.X, 0), "qualifier-is-import-alias", key, c.Prog.Rel(be.Pos()), "the qualifier is the include's import alias (Include.PackageName / includeIDL)",
					"the package qualifier "+rules.ExprString(be.X)+" is not the alias under which the include is imported: generated code refers to an undefined package whenever the import manager renames the include")
				return true
			})
		}
	}
	c.Analysed["qualifier_sites"] = n
	c.Min("qualifier-is-import-alias", 3)
	pkgIdentityByPath(c)
	c01mapKeyRepresentable(c)
	c01fastgoPerFile(c)
	c01fastgoValueElems(c)
	c01astSurgery(c)
}

type sync2 = sync.Mutex

// stdLibs reads the names registered in importManager.init's std literal.
func stdLibs(c *core.Check) map[string]bool {
	out := map[string]bool{}
	fd := c.Prog.FuncDecl(golangRel, "importManager.init")
	if fd == nil {
		c.Unknown("anchor", "generator/golang.(importManager).init", "", "missing")
		return out
	}
	info := c.Prog.Pkg(golangRel).TypesInfo
	ast.Inspect(fd.Body, func(n ast.Node) bool {
		if cl, ok := n.(*ast.CompositeLit); ok {
			for _, e := range cl.Elts {
				if kv, ok := e.(*ast.KeyValueExpr); ok {
					if s, ok := rules.ConstString(info, kv.Key); ok {
						out[s] = true
					}
				}
			}
		}
		return true
	})
	if len(out) < 10 {
		c.Unknown("anchor", "generator/golang.(importManager).init/std", "", "std library table not found")
	}
	return out
}

// qualifiersUsed lists identifiers X used as X.Sel where X is not declared in the file.
func qualifiersUsed(f *ast.File) map[string]bool {
	out := map[string]bool{}
	declared := map[string]bool{}
	ast.Inspect(f, func(n ast.Node) bool {
		switch x := n.(type) {
		case *ast.AssignStmt:
			if x.Tok == token.DEFINE {
				for _, l := range x.Lhs {
					if id, ok := l.(*ast.Ident); ok {
						declared[id.Name] = true
					}
				}
			}
		case *ast.Field:
			for _, n := range x.Names {
				declared[n.Name] = true
			}
		case *ast.ValueSpec:
			for _, n := range x.Names {
				declared[n.Name] = true
			}
		case *ast.RangeStmt:
			if id, ok := x.Key.(*ast.Ident); ok {
				declared[id.Name] = true
			}
			if id, ok := x.Value.(*ast.Ident); ok {
				declared[id.Name] = true
			}
		}
		return true
	})
	ast.Inspect(f, func(n ast.Node) bool {
		if sel, ok := n.(*ast.SelectorExpr); ok {
			if id, ok := sel.X.(*ast.Ident); ok && !declared[id.Name] && !strings.HasPrefix(id.Name, "Φ") {
				out[id.Name] = true
			}
		}
		return true
	})
	return out
}

// c01T0: template references and function names.
func c01T0(c *core.Check, st *tmpl.Static) {
	funcs := st.FuncNames()
	var setNames []string
	for n := range st.Sets {
		setNames = append(setNames, n)
	}
	sort.Strings(setNames)
	for _, sn := range setNames {
		set := st.Sets[sn]
		trees := map[string]*parse.Tree{}
		for n, t := range set.Defs {
			trees[n] = t
		}
		if set.Root != nil {
			trees["<root>"] = set.Root
		}
		var names []string
		for n := range trees {
			names = append(names, n)
		}
		sort.Strings(names)
		for _, n := range names {
			var badT, badF []string
			walkParse(trees[n].Root, func(nd parse.Node) {
				switch x := nd.(type) {
				case *parse.TemplateNode:
					if _, ok := set.Defs[x.Name]; !ok {
						badT = append(badT, x.Name)
					}
				case *parse.IdentifierNode:
					if !templateBuiltins[x.Ident] {
						if _, ok := funcs[x.Ident]; !ok && x.Ident != "Version" {
							badF = append(badF, x.Ident)
						}
					}
				}
			})
			key := sn + "/" + n
			if len(badT) > 0 || len(badF) > 0 {
				c.Bad("T0-references", key, set.Origin[n], fmt.Sprintf("undefined template(s) %v, unregistered function(s) %v: template parsing/execution fails at generation time", badT, badF))
			} else {
				c.OKTrivial("T0-references", key, set.Origin[n], "all template targets defined in this set; all functions registered")
			}
		}
	}
	c.Min("T0-references", 60)
}

func walkParse(n parse.Node, f func(parse.Node)) {
	if n == nil {
		return
	}
	f(n)
	switch x := n.(type) {
	case *parse.ListNode:
		if x == nil {
			return
		}
		for _, c := range x.Nodes {
			walkParse(c, f)
		}
	case *parse.ActionNode:
		walkParse(x.Pipe, f)
	case *parse.PipeNode:
		if x == nil {
			return
		}
		for _, c := range x.Cmds {
			walkParse(c, f)
		}
	case *parse.CommandNode:
		for _, a := range x.Args {
			walkParse(a, f)
		}
	case *parse.ChainNode:
		walkParse(x.Node, f)
	case *parse.IfNode:
		walkParse(x.Pipe, f)
		walkParse(x.List, f)
		walkParse(x.ElseList, f)
	case *parse.RangeNode:
		walkParse(x.Pipe, f)
		walkParse(x.List, f)
		walkParse(x.ElseList, f)
	case *parse.WithNode:
		walkParse(x.Pipe, f)
		walkParse(x.List, f)
		walkParse(x.ElseList, f)
	case *parse.TemplateNode:
		walkParse(x.Pipe, f)
	}
}

// c01keywords: Go's keywords (go/token) must all be keys of isKeywords with value true, because parameter
// names are only escaped when listed there.
func c01keywords(c *core.Check) {
	pk := c.Prog.Pkg(golangRel)
	init := pkgVarInit(pk, "isKeywords")
	lit, ok := init.(*ast.CompositeLit)
	if !ok {
		c.Unknown("keyword-table", "generator/golang.isKeywords", "", "table missing or not a literal")
		return
	}
	have := map[string]bool{}
	for _, e := range lit.Elts {
		if kv, ok := e.(*ast.KeyValueExpr); ok {
			k, ok1 := rules.ConstString(pk.TypesInfo, kv.Key)
			tv := pk.TypesInfo.Types[kv.Value]
			if ok1 && tv.Value != nil && tv.Value.String() == "true" {
				have[k] = true
			}
		}
	}
	for t := token.BREAK; t <= token.VAR; t++ {
		if !t.IsKeyword() {
			continue
		}
		kw := t.String()
		c.Decide(have[kw], "keyword-table", "generator/golang.isKeywords["+kw+"]", c.Prog.Rel(lit.Pos()), "listed", "Go keyword "+kw+" is not in isKeywords: an argument named "+kw+" is emitted unescaped and the generated code does not parse")
	}
	c.Min("keyword-table", 25)
}

// reservedNames is the table of method names buildStructLike reserves in a struct's name scope.
type reservedNames struct {
	entries []reservedEntry
}

type reservedEntry struct {
	lit    string
	plus   bool // literal + the struct's Go name
	guards []ast.Expr
	info   *types.Info
}

func reservedTable(c *core.Check) (*reservedNames, bool) {
	fd := c.Prog.FuncDecl(golangRel, "Scope.buildStructLike")
	if fd == nil {
		c.Unknown("anchor", "generator/golang.(Scope).buildStructLike", "", "missing")
		return nil, false
	}
	info := c.Prog.Pkg(golangRel).TypesInfo
	t := &reservedNames{}
	var funcsObj types.Object
	add := func(e ast.Expr, guards []ast.Expr) bool {
		if s, ok := rules.ConstString(info, e); ok {
			t.entries = append(t.entries, reservedEntry{s, false, guards, info})
			return true
		}
		if be, ok := e.(*ast.BinaryExpr); ok && be.Op == token.ADD {
			if s, ok := rules.ConstString(info, be.X); ok {
				if _, isId := be.Y.(*ast.Ident); isId {
					t.entries = append(t.entries, reservedEntry{s, true, guards, info})
					return true
				}
			}
		}
		return false
	}
	okAll := true
	var walk func(stmts []ast.Stmt, guards []ast.Expr)
	walk = func(stmts []ast.Stmt, guards []ast.Expr) {
		for _, st := range stmts {
			switch x := st.(type) {
			case *ast.AssignStmt:
				if len(x.Lhs) != 1 || len(x.Rhs) != 1 {
					continue
				}
				id, ok := x.Lhs[0].(*ast.Ident)
				if !ok || id.Name != "funcs" {
					continue
				}
				if x.Tok == token.DEFINE {
					funcsObj = info.Defs[id]
					if cl, ok := x.Rhs[0].(*ast.CompositeLit); ok {
						for _, e := range cl.Elts {
							okAll = add(e, guards) && okAll
						}
					} else {
						okAll = false
					}
				} else if call, ok := x.Rhs[0].(*ast.CallExpr); ok && rules.IsBuiltin(info, call, "append") {
					for _, a := range call.Args[1:] {
						okAll = add(a, guards) && okAll
					}
				} else {
					okAll = false
				}
			case *ast.IfStmt:
				if x.Init == nil {
					walk(x.Body.List, append(append([]ast.Expr{}, guards...), x.Cond))
				}
			}
		}
	}
	walk(fd.Body.List, nil)
	// the list must be what is reserved: a loop `for _, fn := range funcs { st.scope.MustReserve(fn, …) }`
	reservedLoop := false
	ast.Inspect(fd.Body, func(n ast.Node) bool {
		if rs, ok := n.(*ast.RangeStmt); ok && rules.ObjOf(info, rs.X) == funcsObj && funcsObj != nil {
			for _, call := range rules.Calls(rs.Body, false) {
				if fn := rules.Callee(info, call); fn != nil && (fn.Name() == "MustReserve" || fn.Name() == "Reserve") {
					reservedLoop = true
				}
			}
		}
		return true
	})
	if !okAll || !reservedLoop || len(t.entries) < 3 {
		c.Unknown("reserved-method-name", "generator/golang.(Scope).buildStructLike/funcs", c.Prog.Rel(fd.Pos()), "the list of reserved method names is not a literal/append construction reserved in a loop; cannot read it")
		return nil, false
	}
	return t, true
}

// covers returns "" if (lit, plus) is reserved under the valuation, else the reason it is not.
func (t *reservedNames) covers(lit string, plus bool, choices map[string]int) string {
	found := false
	for _, e := range t.entries {
		if e.lit != lit || e.plus != plus {
			continue
		}
		found = true
		all := true
		for _, g := range e.guards {
			if !evalGuard(e.info, g, choices) {
				all = false
			}
		}
		if all {
			return ""
		}
	}
	if found {
		return "reserves it only under a condition that does not hold in this rendering"
	}
	return "does not reserve it"
}

// evalGuard evaluates a condition of buildStructLike against the rendering's valuation.
func evalGuard(info *types.Info, g ast.Expr, choices map[string]int) bool {
	switch x := ast.Unparen(g).(type) {
	case *ast.BinaryExpr:
		switch x.Op {
		case token.LAND:
			return evalGuard(info, x.X, choices) && evalGuard(info, x.Y, choices)
		case token.LOR:
			return evalGuard(info, x.X, choices) || evalGuard(info, x.Y, choices)
		case token.EQL:
			if s, ok := rules.ConstString(info, x.Y); ok {
				for k, v := range choices {
					if strings.HasPrefix(k, "eq:") && strings.HasSuffix(k, "=="+s) && v == 1 {
						return true
					}
				}
				return false
			}
		}
	case *ast.UnaryExpr:
		if x.Op == token.NOT {
			if call, ok := x.X.(*ast.CallExpr); ok {
				if fn := rules.Callee(info, call); rules.IsPkgFunc(fn, "strings", "HasPrefix") {
					return true // user-declared struct (not a synthesized args/result type)
				}
			}
			return !evalGuard(info, x.X, choices)
		}
	case *ast.SelectorExpr:
		// cu.Features().X
		if call, ok := x.X.(*ast.CallExpr); ok {
			if fn := rules.Callee(info, call); fn != nil && fn.Name() == "Features" {
				return choices["Features."+x.Sel.Name] == 1
			}
		}
	}
	return false
}

// getOptionLinesQualified: every line Scope.GetOption can produce is built by fmt.Sprintf from a constant format that
// calls thrift_option.New…: so a rendering that prints such lines uses the thrift_option qualifier.
func getOptionLinesQualified(c *core.Check) bool {
	fd := c.Prog.FuncDecl(golangRel, "Scope.GetOption")
	if fd == nil {
		return false
	}
	info := c.Prog.Pkg(golangRel).TypesInfo
	n, ok := 0, true
	ast.Inspect(fd.Body, func(nd ast.Node) bool {
		call, isCall := nd.(*ast.CallExpr)
		if !isCall {
			return true
		}
		if fn := rules.Callee(info, call); rules.IsPkgFunc(fn, "fmt", "Sprintf") && len(call.Args) > 0 {
			n++
			f, isConst := rules.ConstString(info, call.Args[0])
			if !isConst || !strings.Contains(f, "= thrift_option.New") {
				ok = false
			}
		}
		return true
	})
	// and nothing else is appended
	ast.Inspect(fd.Body, func(nd ast.Node) bool {
		call, isCall := nd.(*ast.CallExpr)
		if isCall && rules.IsBuiltin(info, call, "append") && len(call.Args) == 2 {
			if inner, isC := call.Args[1].(*ast.CallExpr); !isC || !rules.IsPkgFunc(rules.Callee(info, inner), "fmt", "Sprintf") {
				ok = false
			}
		}
		return true
	})
	return ok && n > 0
}

// ambientConditions derives, for units that are only rendered under a condition of their caller, the feature
// atoms that hold whenever the unit is rendered: (a) sub-templates of StructLike: atoms that are 1 in every shell
// rendering that invokes them; (b) the reflection file: rendered by renderOneFile only inside `if Features().WithReflection`.
func ambientConditions(c *core.Check, st *tmpl.Static) map[string]map[string]int {
	out := map[string]map[string]int{}
	for _, set := range []string{"default", "slim", "raw_struct", "no_default_serdes"} {
		sub := []string{"FieldGetOrSet", "FieldIsSet", "StructLikeRead", "StructLikeReadField", "StructLikeWrite", "StructLikeWriteField", "StructLikeDeepEqual", "StructLikeDeepEqualField"}
		stub := map[string]bool{}
		for _, s := range sub {
			stub[s] = true
		}
		cfg := tmplConfig("quick")
		cfg.ListCounts = []int{0}
		cfg.MaxRuns = 20000
		first := map[string]bool{}
		_, _, err := st.EnumerateStub(set, "StructLike", stub, cfg, mkDotOf("generator/golang", "StructLike", "x"), func(r *tmpl.Rendering, w *tmpl.World) {
			if r.Err != nil {
				return
			}
			for callee, n := range r.Calls {
				if n == 0 || !stub[callee] {
					continue
				}
				k := set + "/" + callee
				if !first[k] {
					first[k] = true
					out[k] = map[string]int{}
					for ck, cv := range r.Choices {
						if strings.HasPrefix(ck, "Features.") && cv == 1 {
							out[k][ck] = 1
						}
					}
					continue
				}
				for ck := range out[k] {
					if r.Choices[ck] != 1 {
						delete(out[k], ck)
					}
				}
			}
		})
		if err != nil {
			c.Note("ambient conditions for set %s not derived: %v", set, err)
		}
	}
	// (b) reflection files
	if fd := c.Prog.FuncDecl(golangRel, "GoBackend.renderOneFile"); fd != nil {
		info := c.Prog.Pkg(golangRel).TypesInfo
		guarded := map[string]bool{}
		ast.Inspect(fd.Body, func(n ast.Node) bool {
			is, ok := n.(*ast.IfStmt)
			if !ok {
				return true
			}
			sel, ok := is.Cond.(*ast.SelectorExpr)
			if !ok || sel.Sel.Name != "WithReflection" {
				return true
			}
			for _, call := range rules.Calls(is.Body, false) {
				if fn := rules.Callee(info, call); fn != nil && fn.Name() == "renderByTemplate" && len(call.Args) >= 2 {
					guarded[types.ExprString(call.Args[1])] = true
				}
			}
			return true
		})
		// and no unguarded rendering of these templates
		unguarded := map[string]bool{}
		ast.Inspect(fd.Body, func(n ast.Node) bool {
			if call, ok := n.(*ast.CallExpr); ok {
				if fn := rules.Callee(info, call); fn != nil && fn.Name() == "renderByTemplate" && len(call.Args) >= 2 {
					unguarded[types.ExprString(call.Args[1])] = true
				}
			}
			return true
		})
		_ = unguarded
		if guarded["g.reflectionTpl"] {
			out["reflection/"] = map[string]int{"Features.WithReflection": 1}
		}
		if guarded["g.reflectionRefTpl"] {
			out["reflection-ref/"] = map[string]int{"Features.WithReflection": 1}
		}
	}
	return out
}
