package props

import (
	"fmt"
	"go/ast"
	"go/types"
	"strings"

	"verif/checker/core"
)

// c17scalarPrinted (after seed C17-7): the dumper walks lists of AST nodes with `for _, x := range …` and prints x's scalar
// attributes (an enum value's number, a field's id). The parser derives a number that is left out from the *previous*
// element (previous + 1, parser.go), never from the position, so whether such an attribute is printed may depend on the
// element alone.
//
// Rule (AST + types, package dump): for every range loop whose element is a *parser.<Node>, every statement that
// prints a basic-typed attribute x.F is governed, inside the loop body, only by conditions that mention nothing but
// the element, constants, functions and types — no other variable (the loop index, a counter, a parameter).
// Limitation, stated: a dumper that left a number out exactly when it equals previous+1 would be correct and would be
// reported; it does not exist today, and the rule is the structural necessary condition of the explicit form.
func c17scalarPrinted(c *core.Check) {
	const rule = "element-attribute-printed-independent-of-position"
	rel := "tool/trimmer/dump"
	pk := c.Prog.Pkg(rel)
	if pk == nil {
		c.Unknown("anchor", rel, "", "package missing")
		return
	}
	info := pk.TypesInfo
	loops, sites := 0, 0
	c.Prog.AllFuncDecls(rel, func(file *ast.File, fd *ast.FuncDecl) {
		if fd.Body == nil || strings.HasSuffix(c.Prog.Fset.File(fd.Pos()).Name(), "_test.go") {
			return
		}
		// path of ancestors
		var stack []ast.Node
		ast.Inspect(fd.Body, func(m ast.Node) bool {
			if m == nil {
				stack = stack[:len(stack)-1]
				return true
			}
			stack = append(stack, m)
			rs, ok := m.(*ast.RangeStmt)
			if !ok {
				return true
			}
			vid, ok := rs.Value.(*ast.Ident)
			if !ok {
				return true
			}
			elem := info.ObjectOf(vid)
			if elem == nil || !c17isParserNode(elem.Type()) {
				return true
			}
			loops++
			c17checkLoop(c, info, rule, fd, rs, elem, &sites)
			return true
		})
	})
	if loops < 4 || sites < 4 {
		c.Unknown(rule, rel, "", fmt.Sprintf("expected at least four loops over AST nodes that print a scalar attribute, found %d loops / %d print sites", loops, sites))
	}
}

func c17isParserNode(t types.Type) bool {
	p, ok := t.(*types.Pointer)
	if !ok {
		return false
	}
	n, ok := p.Elem().(*types.Named)
	return ok && n.Obj().Pkg() != nil && strings.HasSuffix(n.Obj().Pkg().Path(), "thriftgo/parser")
}

func c17checkLoop(c *core.Check, info *types.Info, rule string, fd *ast.FuncDecl, rs *ast.RangeStmt, elem types.Object, sites *int) {
	// collect governing conditions while descending
	type frame struct{ cond ast.Expr }
	var conds []ast.Expr
	var visit func(n ast.Node)
	reportStmt := func(st ast.Stmt) {
		// basic-typed attributes of the element in call arguments of this statement
		var fields []string
		ast.Inspect(st, func(m ast.Node) bool {
			call, ok := m.(*ast.CallExpr)
			if !ok {
				return true
			}
			for _, a := range call.Args {
				ast.Inspect(a, func(k ast.Node) bool {
					sel, ok := k.(*ast.SelectorExpr)
					if !ok {
						return true
					}
					id, ok := sel.X.(*ast.Ident)
					if !ok || info.ObjectOf(id) != elem {
						return true
					}
					if s := info.Selections[sel]; s != nil && s.Kind() == types.FieldVal {
						if _, ok := s.Type().Underlying().(*types.Basic); ok {
							fields = append(fields, sel.Sel.Name)
						}
					}
					return true
				})
			}
			return true
		})
		for _, f := range fields {
			*sites++
			var foreign types.Object
			for _, cd := range conds {
				ast.Inspect(cd, func(k ast.Node) bool {
					id, ok := k.(*ast.Ident)
					if !ok || foreign != nil {
						return true
					}
					if v, ok := info.Uses[id].(*types.Var); ok && v != elem && !v.IsField() && v.Parent() != v.Pkg().Scope() {
						foreign = v
					}
					return true
				})
			}
			key := fmt.Sprintf("tool/trimmer/dump.%s/range %s/%s.%s", fd.Name.Name, types.ExprString(rs.X), elem.Name(), f)
			c.Decide(foreign == nil, rule, key, c.Prog.Rel(st.Pos()),
				"printed under conditions on the element alone",
				func() string {
					if foreign == nil {
						return ""
					}
					return fmt.Sprintf("whether %s.%s is printed depends on `%s`, which is not part of the element: the re-parsed value is then derived by the parser from the previous element (previous + 1) and differs from the dumped AST whenever that is not what the condition assumed", elem.Name(), f, foreign.Name())
				}())
		}
	}
	visit = func(n ast.Node) {
		switch x := n.(type) {
		case *ast.BlockStmt:
			for _, s := range x.List {
				visit(s)
			}
		case *ast.IfStmt:
			conds = append(conds, x.Cond)
			visit(x.Body)
			if x.Else != nil {
				visit(x.Else)
			}
			conds = conds[:len(conds)-1]
		case *ast.SwitchStmt:
			if x.Tag != nil {
				conds = append(conds, x.Tag)
			}
			for _, cc := range x.Body.List {
				cl := cc.(*ast.CaseClause)
				k := len(conds)
				conds = append(conds, cl.List...)
				for _, s := range cl.Body {
					visit(s)
				}
				conds = conds[:k]
			}
			if x.Tag != nil {
				conds = conds[:len(conds)-1]
			}
		case *ast.ForStmt, *ast.RangeStmt:
			// inner loops are separate iterations
		case ast.Stmt:
			reportStmt(x)
		}
	}
	visit(rs.Body)
}
