package props

import (
	"fmt"
	"go/ast"
	"go/token"
	"go/types"
	"sort"
	"strings"

	"golang.org/x/tools/go/cfg"

	"verif/checker/core"
	"verif/checker/rules"
)

// c14nilStorage: a FieldMask allocates its per-kind child storage lazily (a struct mask without explicit fields — `$.*`, a
// leaf, a mask of another kind — has none). The map storages tolerate that by the language (lookup and range on a nil map);
// the pointer storage (fdMask *fieldMap) does not. Rule: in every exported method of FieldMask, a field or method of a
// pointer-typed storage member (or of a local copy of it) is used only
//   - after a nil test of that very expression in the same function, or
//   - through a method of the storage type whose first statement is a nil-receiver guard.
//
// Otherwise a query of the "wrong" kind (Field on a list mask) or ForEachChild on `$.*` dereferences nil.
func c14nilStorage(c *core.Check) {
	pk := c.Prog.Pkg(fmRel)
	info := pk.TypesInfo
	// storage members: fields of FieldMask whose type is a pointer to a package-local struct other than FieldMask
	storage := map[string]bool{}
	if obj := pk.Types.Scope().Lookup("FieldMask"); obj != nil {
		if st, ok := obj.Type().Underlying().(*types.Struct); ok {
			for i := 0; i < st.NumFields(); i++ {
				if p, ok := st.Field(i).Type().(*types.Pointer); ok {
					if n, ok := p.Elem().(*types.Named); ok && n.Obj().Pkg() == pk.Types && n.Obj().Name() != "FieldMask" {
						if _, ok := n.Underlying().(*types.Struct); ok {
							storage[st.Field(i).Name()] = true
						}
					}
				}
			}
		}
	}
	if len(storage) == 0 {
		c.OKTrivial("lazy-storage-nil-safe", fmRel+"/FieldMask", fmRel+"/mask.go", "FieldMask has no pointer-typed storage member")
		return
	}
	// methods of storage types with a leading nil-receiver guard
	guarded := func(fn *types.Func) bool {
		sig := fn.Type().(*types.Signature)
		if sig.Recv() == nil {
			return false
		}
		var decl *ast.FuncDecl
		c.Prog.AllFuncDecls(fmRel, func(_ *ast.File, fd *ast.FuncDecl) {
			if info.Defs[fd.Name] == fn {
				decl = fd
			}
		})
		if decl == nil || decl.Body == nil || len(decl.Body.List) == 0 || len(decl.Recv.List[0].Names) == 0 {
			return false
		}
		rn := decl.Recv.List[0].Names[0].Name
		is, ok := decl.Body.List[0].(*ast.IfStmt)
		if !ok {
			return false
		}
		t := strings.ReplaceAll(rules.ExprString(is.Cond), " ", "")
		if t != rn+"==nil" {
			return false
		}
		last := is.Body.List[len(is.Body.List)-1]
		_, isRet := last.(*ast.ReturnStmt)
		return isRet
	}
	type finding struct{ key, where, what string }
	n := 0
	var fds []*ast.FuncDecl
	c.Prog.AllFuncDecls(fmRel, func(f *ast.File, fd *ast.FuncDecl) {
		if fd.Body == nil || fd.Recv == nil || !fd.Name.IsExported() || strings.HasSuffix(c.Prog.Fset.File(fd.Pos()).Name(), "_test.go") {
			return
		}
		if !strings.HasSuffix(types.ExprString(fd.Recv.List[0].Type), "FieldMask") {
			return
		}
		fds = append(fds, fd)
	})
	sort.Slice(fds, func(i, j int) bool { return fds[i].Pos() < fds[j].Pos() })
	for _, fd := range fds {
		// expressions denoting a storage pointer: X.<storage>, and locals assigned from one
		isStorage := func(e ast.Expr) bool {
			if sel, ok := ast.Unparen(e).(*ast.SelectorExpr); ok && storage[sel.Sel.Name] {
				if tv, ok := info.Types[sel.X]; ok && strings.HasSuffix(strings.TrimPrefix(tv.Type.String(), "*"), "fieldmask.FieldMask") {
					return true
				}
			}
			return false
		}
		copies := map[string]bool{}
		ast.Inspect(fd.Body, func(m ast.Node) bool {
			if as, ok := m.(*ast.AssignStmt); ok && len(as.Lhs) == 1 && len(as.Rhs) == 1 && isStorage(as.Rhs[0]) {
				if id, ok := as.Lhs[0].(*ast.Ident); ok {
					copies[id.Name] = true
				}
			}
			return true
		})
		denotes := func(e ast.Expr) bool {
			if isStorage(e) {
				return true
			}
			id, ok := ast.Unparen(e).(*ast.Ident)
			return ok && copies[id.Name]
		}
		// nil tests: position of `if E == nil { ...return }` or enclosing `if E != nil {`
		type test struct {
			expr string
			pos  token.Pos
			body *ast.BlockStmt // non-nil: only inside this block
		}
		var tests []test
		ast.Inspect(fd.Body, func(m ast.Node) bool {
			is, ok := m.(*ast.IfStmt)
			if !ok {
				return true
			}
			be, ok := ast.Unparen(is.Cond).(*ast.BinaryExpr)
			if !ok || !denotes(be.X) || rules.ExprString(be.Y) != "nil" {
				return true
			}
			switch be.Op {
			case token.EQL:
				if len(is.Body.List) > 0 {
					if _, ok := is.Body.List[len(is.Body.List)-1].(*ast.ReturnStmt); ok {
						tests = append(tests, test{rules.ExprString(be.X), is.End(), nil})
					}
				}
			case token.NEQ:
				tests = append(tests, test{rules.ExprString(be.X), is.Body.Pos(), is.Body})
			}
			return true
		})
		safeAt := func(e ast.Expr, pos token.Pos) bool {
			t := rules.ExprString(e)
			for _, ts := range tests {
				if ts.expr != t {
					continue
				}
				if ts.body == nil && pos >= ts.pos {
					return true
				}
				if ts.body != nil && pos >= ts.body.Pos() && pos < ts.body.End() {
					return true
				}
			}
			return false
		}
		per := 0
		ast.Inspect(fd.Body, func(m ast.Node) bool {
			sel, ok := m.(*ast.SelectorExpr)
			if !ok || !denotes(sel.X) {
				return true
			}
			per++
			n++
			key := fmt.Sprintf("%s/%s#%d", core.FuncKey(fmRel, fd), rules.ExprString(sel), per)
			where := c.Prog.Rel(sel.Pos())
			if fn, ok := info.Uses[sel.Sel].(*types.Func); ok {
				if guarded(fn) || safeAt(sel.X, sel.Pos()) {
					c.OK("lazy-storage-nil-safe", key, where, "method with a leading nil-receiver guard (or called after a nil test)")
				} else {
					c.Bad("lazy-storage-nil-safe", key, where, fmt.Sprintf("%s is called on the lazily allocated storage %s, which is nil for a mask without explicit fields (`$.*`, a leaf, a mask of another kind), and %s dereferences its receiver unguarded: the query panics with a nil pointer dereference", fn.Name(), rules.ExprString(sel.X), fn.Name()))
				}
				return true
			}
			c.Decide(safeAt(sel.X, sel.Pos()), "lazy-storage-nil-safe", key, where, "dereferenced after a nil test of the same expression",
				fmt.Sprintf("%s is dereferenced without a nil test although the storage is allocated lazily: %s on `$.*` (or on a leaf or unmarshalled struct mask) panics with a nil pointer dereference", rules.ExprString(sel.X), fd.Name.Name))
			return true
		})
	}
	c.Min("lazy-storage-nil-safe", 3)
}

// c14closedSwitch decides the unreachability of a panic in the default arm of a switch over an enumeration type: the
// case lists must name every constant of the tag's type that the package declares, the zero value included.
func c14closedSwitch(c *core.Check, fd *ast.FuncDecl, panicCall *ast.CallExpr) (bool, string) {
	info := c.Prog.Pkg(fmRel).TypesInfo
	var sw *ast.SwitchStmt
	ast.Inspect(fd.Body, func(m ast.Node) bool {
		if s, ok := m.(*ast.SwitchStmt); ok && s.Pos() <= panicCall.Pos() && panicCall.End() <= s.End() {
			sw = s
		}
		return true
	})
	if sw == nil || sw.Tag == nil {
		return false, "the panic is not inside a switch over an enumeration"
	}
	nt, ok := info.TypeOf(sw.Tag).(*types.Named)
	if !ok {
		return false, "the switch tag has no named type"
	}
	inDefault := false
	listed := map[string]bool{}
	for _, s := range sw.Body.List {
		cc := s.(*ast.CaseClause)
		if cc.List == nil && cc.Pos() <= panicCall.Pos() && panicCall.End() <= cc.End() {
			inDefault = true
		}
		for _, e := range cc.List {
			if tv, ok := info.Types[e]; ok && tv.Value != nil {
				listed[tv.Value.ExactString()] = true
			}
		}
	}
	if !inDefault {
		return false, "the panic is not in the default arm"
	}
	var missing []string
	scope := nt.Obj().Pkg().Scope()
	for _, name := range scope.Names() {
		if cst, ok := scope.Lookup(name).(*types.Const); ok && types.Identical(cst.Type(), nt) && !listed[cst.Val().ExactString()] {
			missing = append(missing, name)
		}
	}
	if len(missing) > 0 {
		return false, fmt.Sprintf("the switch over %s has a panicking default arm and no case for %v: a mask of that kind (the zero FieldMaskType is what NewFieldMask returns for an empty path list) makes %s panic", nt.Obj().Name(), missing, fd.Name.Name)
	}
	return true, fmt.Sprintf("default arm unreachable: the cases list every declared constant of %s", nt.Obj().Name())
}

// c14blackStar: Options.BlackListMode documents that Field/Int/Str "return false for a **Complete** path". For an explicit
// child the queries decide that with ret(child): a child passes iff it is absent or *it* has children (the path goes on).
// Under '*' the child is self.all, so the same test has to be made on self.all; testing the receiver instead is always true
// (the receiver has the child `all`), and a complete black path `$.L[*]` lets every element pass.
func c14blackStar(c *core.Check) {
	info := c.Prog.Pkg(fmRel).TypesInfo
	_ = info
	var bad []string
	n := 0
	where := ""
	for _, q := range []string{"Field", "Int", "Str"} {
		fd := c.Prog.FuncDecl(fmRel, "FieldMask."+q)
		if fd == nil {
			c.Unknown("anchor", fmRel+".(FieldMask)."+q, "", "missing")
			return
		}
		ast.Inspect(fd.Body, func(m ast.Node) bool {
			is, ok := m.(*ast.IfStmt)
			if !ok || !strings.HasSuffix(rules.ExprString(is.Cond), ".isAll") {
				return true
			}
			for _, s := range is.Body.List {
				rs, ok := s.(*ast.ReturnStmt)
				if !ok || len(rs.Results) != 2 {
					continue
				}
				n++
				if where == "" {
					where = c.Prog.Rel(rs.Pos())
				}
				child := rules.ExprString(rs.Results[0])
				ast.Inspect(rs.Results[1], func(k ast.Node) bool {
					if call, ok := k.(*ast.CallExpr); ok {
						if sel, ok := call.Fun.(*ast.SelectorExpr); ok && sel.Sel.Name == "hasChild" && rules.ExprString(sel.X) != child {
							bad = append(bad, fmt.Sprintf("%s returns the sub-mask %s but decides existence with %s.hasChild()", q, child, rules.ExprString(sel.X)))
						}
					}
					return true
				})
			}
			return true
		})
	}
	key := fmRel + ".(FieldMask).Field~Int~Str/isAll"
	if n < 3 {
		c.Unknown("black-star-complete-excluded", key, where, fmt.Sprintf("expected the '*' branch in all three queries, found %d", n))
		return
	}
	c.Decide(len(bad) == 0, "black-star-complete-excluded", key, where,
		"under '*' the existence answer in black-list mode is decided on the returned child",
		strings.Join(bad, "; ")+": the receiver always has the child `all`, so in black-list mode every index/key/field passes under a complete path that ends in '*' (`$.L[*]`, `$.M{*}`, `$.*`), contrary to 'return false for a complete path'")
}

// c14descUnwrapped: addPath walks a path and a type descriptor in parallel; at every step it asks the descriptor for its
// kind (IsList, IsMap, GetStructDescriptor, …). A descriptor that names a typedef answers none of these, so every
// descriptor the loop continues with has to be the unwrapped one. Rule: each assignment to the loop's descriptor variable
// (the parameter of type *TypeDescriptor) has as right-hand side a call of unwrapDesc, or a local whose only definition is
// such a call. Otherwise `$.L[*].A` over `list<Key>` with `typedef Val Key` is rejected although `$.L[0].A` is accepted.
func c14descUnwrapped(c *core.Check) {
	// the two walkers over (path, descriptor): the one that builds a mask and the one that answers path membership
	c14descUnwrappedIn(c, "addPath", 3)
	c14descUnwrappedIn(c, "GetPath", 1)
}

func c14descUnwrappedIn(c *core.Check, fname string, min int) {
	fd := c.Prog.FuncDecl(fmRel, "FieldMask."+fname)
	key := fmRel + ".(FieldMask)." + fname + "/descriptor"
	if fd == nil {
		c.Unknown("anchor", key, "", "missing")
		return
	}
	info := c.Prog.Pkg(fmRel).TypesInfo
	// the descriptor parameter
	var desc types.Object
	for _, f := range fd.Type.Params.List {
		for _, nm := range f.Names {
			if o := info.Defs[nm]; o != nil && strings.HasSuffix(o.Type().String(), "TypeDescriptor") {
				desc = o
			}
		}
	}
	if desc == nil {
		c.Unknown("descriptor-unwrapped-before-use", key, c.Prog.Rel(fd.Pos()), "no descriptor parameter")
		return
	}
	isUnwrap := func(e ast.Expr) bool {
		call, ok := ast.Unparen(e).(*ast.CallExpr)
		if !ok {
			return false
		}
		fn := rules.Callee(info, call)
		return fn != nil && fn.Name() == "unwrapDesc"
	}
	// locals: all definitions
	defs := map[types.Object][]ast.Expr{}
	ast.Inspect(fd.Body, func(m ast.Node) bool {
		as, ok := m.(*ast.AssignStmt)
		if !ok || len(as.Lhs) != len(as.Rhs) {
			return true
		}
		for i, l := range as.Lhs {
			if id, ok := l.(*ast.Ident); ok {
				o := info.Defs[id]
				if o == nil {
					o = info.Uses[id]
				}
				if o != nil {
					defs[o] = append(defs[o], as.Rhs[i])
				}
			}
		}
		return true
	})
	n := 0
	for i, rhs := range defs[desc] {
		n++
		ok := isUnwrap(rhs)
		if id, isID := ast.Unparen(rhs).(*ast.Ident); isID && !ok {
			if o := info.Uses[id]; o != nil && len(defs[o]) > 0 {
				ok = true
				for _, d := range defs[o] {
					if !isUnwrap(d) {
						ok = false
					}
				}
			}
		}
		c.Decide(ok, "descriptor-unwrapped-before-use", fmt.Sprintf("%s#%d", key, i+1), c.Prog.Rel(rhs.Pos()),
			"the descriptor the loop continues with is the result of unwrapDesc",
			"the loop continues with the descriptor "+rules.ExprString(rhs)+", which is not the result of unwrapDesc: when it names a typedef the next segment's kind test fails, so `$.L[*].A` over `list<Key>` (typedef Val Key) is rejected with \"isn't STRUCT\" while `$.L[0].A` is accepted")
	}
	// a descriptor parameter that is used as it comes in has to be unwrapped first as well: the first kind test must come
	// after an assignment from unwrapDesc
	if len(defs[desc]) > 0 {
		first := defs[desc][0]
		used := false
		ast.Inspect(fd.Body, func(m ast.Node) bool {
			if sel, ok := m.(*ast.SelectorExpr); ok && sel.Pos() < first.Pos() {
				if id, ok := sel.X.(*ast.Ident); ok && info.Uses[id] == desc {
					used = true
				}
			}
			return true
		})
		// inside a loop the first textual assignment is not the first executed one unless it precedes the loop
		inLoop := false
		ast.Inspect(fd.Body, func(m ast.Node) bool {
			switch x := m.(type) {
			case *ast.ForStmt:
				if x.Body.Pos() <= first.Pos() && first.End() <= x.Body.End() {
					inLoop = true
				}
			case *ast.RangeStmt:
				if x.Body.Pos() <= first.Pos() && first.End() <= x.Body.End() {
					inLoop = true
				}
			}
			return true
		})
		n++
		c.Decide(!used && !inLoop && isUnwrap(first), "descriptor-unwrapped-before-use", key+"#entry", c.Prog.Rel(first.Pos()),
			"the incoming descriptor is unwrapped before the walk starts",
			"the descriptor passed to "+fname+" is used before (or without) being unwrapped: called with a descriptor that names a typedef, the first kind test fails")
	} else {
		n++
		c.Bad("descriptor-unwrapped-before-use", key+"#entry", c.Prog.Rel(fd.Pos()), "the descriptor passed to "+fname+" is never unwrapped: a root or field type that is a typedef fails the first kind test, so a path that was accepted by NewFieldMask is reported as not in the mask")
	}
	if n < min {
		c.Unknown("descriptor-unwrapped-before-use", key, c.Prog.Rel(fd.Pos()), fmt.Sprintf("expected at least %d assignments to the descriptor, found %d", min, n))
	}
}

// c14emptySets: `$.L[]` is rejected as an empty index set through a flag that is cleared when the loop has seen an
// element. A separator is not an element: if the flag is cleared before the token is known to be one, `$.L[,]` and
// `$.M{,}` are accepted and build a container mask that selects nothing (and whose JSON reads back as "everything").
// Rule (go/cfg of addPath): from every assignment `<flag> = false`, where <flag> guards an "empty … set" error, each
// path back to the loop head passes a node that records an element (an append to the id/key list, or the switch to
// "all"), or leaves the function.
func c14emptySets(c *core.Check) {
	fd := c.Prog.FuncDecl(fmRel, "FieldMask.addPath")
	key := fmRel + ".(FieldMask).addPath/empty-set"
	if fd == nil {
		c.Unknown("anchor", key, "", "missing")
		return
	}
	info := c.Prog.Pkg(fmRel).TypesInfo
	// flags: boolean locals tested in an if whose body returns an error built from a constant that mentions "empty"
	flags := map[types.Object]bool{}
	ast.Inspect(fd.Body, func(m ast.Node) bool {
		is, ok := m.(*ast.IfStmt)
		if !ok {
			return true
		}
		id, ok := ast.Unparen(is.Cond).(*ast.Ident)
		if !ok {
			return true
		}
		mentions := false
		ast.Inspect(is.Body, func(k ast.Node) bool {
			if bl, ok := k.(*ast.BasicLit); ok && bl.Kind == token.STRING && strings.Contains(bl.Value, "empty") {
				mentions = true
			}
			return true
		})
		if mentions {
			if o := info.Uses[id]; o != nil {
				flags[o] = true
			}
		}
		return true
	})
	if len(flags) == 0 {
		c.Unknown("empty-set-flag-cleared-by-elements-only", key, c.Prog.Rel(fd.Pos()), "no empty-set guard found in addPath")
		return
	}
	records := func(n ast.Node) bool {
		found := false
		ast.Inspect(n, func(m ast.Node) bool {
			switch x := m.(type) {
			case *ast.CallExpr:
				if rules.IsBuiltin(info, x, "append") {
					found = true
				}
			case *ast.AssignStmt:
				for _, l := range x.Lhs {
					if sel, ok := l.(*ast.SelectorExpr); ok && sel.Sel.Name == "isAll" {
						found = true
					}
				}
			case *ast.ReturnStmt:
				found = true
			}
			return !found
		})
		return found
	}
	g := rules.CFG(info, fd.Body, nil)
	n := 0
	for _, b := range g.Blocks {
		for i, nd := range b.Nodes {
			as, ok := nd.(*ast.AssignStmt)
			if !ok || len(as.Lhs) != 1 || len(as.Rhs) != 1 || rules.ExprString(as.Rhs[0]) != "false" {
				continue
			}
			id, ok := as.Lhs[0].(*ast.Ident)
			if !ok || !flags[info.Uses[id]] {
				continue
			}
			n++
			// forward exploration; a block that tests the flag again (the loop came round) ends a path
			bad := false
			seen := map[int32]bool{}
			var visit func(blk *cfg.Block, from int)
			visit = func(blk *cfg.Block, from int) {
				if bad {
					return
				}
				for _, x := range blk.Nodes[from:] {
					if records(x) {
						return
					}
					// reaching the next token fetch without a record: the loop came round
					if asg, ok := x.(*ast.AssignStmt); ok && len(asg.Rhs) == 1 {
						if _, name, _, ok := rules.SelectorCall(asg.Rhs[0]); ok && name == "Next" {
							bad = true
							return
						}
					}
				}
				for _, s := range blk.Succs {
					if !seen[s.Index] {
						seen[s.Index] = true
						visit(s, 0)
					}
				}
			}
			visit(b, i+1)
			c.Decide(!bad, "empty-set-flag-cleared-by-elements-only", fmt.Sprintf("%s#%d", key, n), c.Prog.Rel(as.Pos()),
				"after the flag is cleared the iteration records an element (or leaves)",
				"the flag that guards the empty-set error is cleared by a token that records nothing (a separator): `$.L[,]` / `$.M{,}` are accepted and give a container mask without children — it selects nothing, and its JSON form reads back as selecting everything")
		}
	}
	if n < 2 {
		c.Unknown("empty-set-flag-cleared-by-elements-only", key, c.Prog.Rel(fd.Pos()), fmt.Sprintf("expected two flag-clearing sites (index sets and key sets), found %d", n))
	}
}
