package props

import "verif/checker/core"

func tmplC09(c *core.Check) {}
