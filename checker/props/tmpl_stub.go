package props

import (
	"fmt"
	"go/ast"
	"go/token"
	"strings"

	"verif/checker/core"
	"verif/checker/rules"
	"verif/checker/tmpl"
)

// tmplC09: the keep_unknown_fields clauses on abstract renderings.
func tmplC09(c *core.Check) {
	st := tmplEngine(c)
	if st == nil {
		return
	}
	g := "generator/golang"
	sub := []string{"FieldGetOrSet", "FieldIsSet", "StructLikeRead", "StructLikeReadField", "StructLikeWrite", "StructLikeWriteField", "StructLikeDeepEqual", "StructLikeDeepEqualField"}
	units := []unit{
		{Set: "default", Def: "StructLikeRead", DotRel: g, DotType: "StructLike", Lists: []int{0, 1, 2}, Cats: []string{"I32", "Struct"}, Fixed: map[string]int{"Features.ApacheAdaptor": 0}},
		{Set: "default", Def: "StructLikeWrite", DotRel: g, DotType: "StructLike", Lists: []int{0, 1, 2}, Cats: []string{"I32", "Struct"}, Fixed: map[string]int{"Features.ApacheAdaptor": 0}},
		{Set: "default", Def: "StructLike", Name: "StructLike(shell)", DotRel: g, DotType: "StructLike", Stub: sub, Lists: []int{0, 1}, Cats: []string{"I32"},
			Fixed: map[string]int{"Features.KeepUnknownFields": 1, "Features.WithFieldMask": 0, "Features.GenerateTypeMeta": 0, "Features.JSONStringer": 0, "Features.ReserveComments": 0}},
	}
	agg := newAggregate()
	runUnits(c, st, units, func(r *rendered) {
		k := r.U.key()
		if _, gf := r.R.Err.(*tmpl.GenFailure); gf {
			return // the generator itself refuses this input: no generated code to judge
		}
		if r.R.Err != nil || r.ParseErr != nil {
			agg.check("renders", k)
			agg.fail("renders", k, fmt.Sprintf("under [%s]: %v %v", r.R.Valuation, r.R.Err, r.ParseErr))
			return
		}
		switch r.U.Def {
		case "StructLikeRead":
			sub := newAggregate()
			c02read(sub, r)
			relay(sub, agg, "unknown-read-arm", k, []string{"read-typestate", "read-guard"})
		case "StructLikeWrite":
			sub := newAggregate()
			c02write(sub, r)
			relay(sub, agg, "unknown-write-position", k, []string{"write-typestate"})
		case "StructLike":
			agg.check("unknown-carrying", k)
			fd := findFunc(r.P.File, "CarryingUnknownFields")
			if fd == nil {
				agg.fail("unknown-carrying", k, "under ["+r.R.Valuation+"]: keep_unknown_fields is on but CarryingUnknownFields is not generated")
				return
			}
			okBody := false
			if len(fd.Body.List) == 1 {
				if rs, ok := fd.Body.List[0].(*ast.ReturnStmt); ok && len(rs.Results) == 1 {
					t := rules.ExprText(rs.Results[0])
					okBody = strings.Contains(t, "len(p._unknownFields) > 0") || strings.Contains(t, "len() > 0") && strings.Contains(r.R.Text, "len(p._unknownFields) > 0")
				}
			}
			if !okBody {
				agg.fail("unknown-carrying", k, "under ["+r.R.Valuation+"]: CarryingUnknownFields does not report len(p._unknownFields) > 0")
			}
			// the struct declares the storage the Read/Write arms use
			if !strings.Contains(r.R.Text, "_unknownFields unknown.Fields") {
				agg.fail("unknown-carrying", k, "under ["+r.R.Valuation+"]: the struct has no _unknownFields unknown.Fields member")
			}
			// a union is only writable when exactly one member is counted as set: a member kept in _unknownFields (added by a
			// newer schema) has to count, otherwise the value can be read but never written back
			for _, d := range r.P.File.Decls {
				cf, ok := d.(*ast.FuncDecl)
				if !ok || !strings.HasPrefix(cf.Name.Name, "CountSetFields") {
					continue
				}
				agg.check("unknown-union-member-counted", k)
				counted := false
				ast.Inspect(cf.Body, func(n ast.Node) bool {
					if is, ok := n.(*ast.IfStmt); ok && strings.Contains(rules.ExprText(is.Cond), "_unknownFields") {
						for _, st := range is.Body.List {
							if inc, ok := st.(*ast.IncDecStmt); ok && inc.Tok == token.INC {
								counted = true
							}
						}
					}
					return true
				})
				if !counted {
					agg.fail("unknown-union-member-counted", k, "under ["+r.R.Valuation+"]: "+cf.Name.Name+" ignores _unknownFields: a union whose set member was added by a newer schema is read (the member is kept) but Write fails with 'exactly one field must be set (0 set)', so the data cannot be forwarded")
				}
			}
		}
	})
	agg.flush(c, map[string]string{
		"unknown-read-arm":             "the unknown-id arm appends to _unknownFields iff keep_unknown_fields (else skips); exactly one consumption per header",
		"unknown-write-position":       "_unknownFields.Write sits after all known field writers and before WriteFieldStop, iff keep_unknown_fields",
		"unknown-carrying":             "CarryingUnknownFields reports len(p._unknownFields) > 0 on the declared storage",
		"unknown-union-member-counted": "with keep_unknown_fields a union counts a member kept in _unknownFields as set",
	})
	c.Min("unknown-read-arm", 1)
	c.Min("unknown-write-position", 1)
	c.Min("unknown-carrying", 1)
	c.Min("unknown-union-member-counted", 1)
}

// relay copies the failures of selected rules of a sub-aggregate into one rule of the main aggregate.
func relay(sub, agg *aggregate, rule, key string, from []string) {
	agg.check(rule, key)
	for _, f := range from {
		for k, msgs := range sub.fails {
			if strings.HasPrefix(k, f+"\x00") {
				for _, m := range msgs {
					agg.fail(rule, key, m)
				}
			}
		}
	}
}
