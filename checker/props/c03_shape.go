package props

import (
	"fmt"
	"go/constant"
	"go/token"
	"go/types"
	"sort"
	"strings"

	"golang.org/x/tools/go/ssa"

	"verif/checker/core"
	"verif/checker/peg"
)

// cursor is an abstract *node32: a node of rule Cur that is a child of a Parent node whose child automaton is in State
// after consuming Cur. The zero Parent "<nil>" is the nil pointer.
type cursor struct {
	Parent string
	State  int
	Cur    string
	From   int // automaton state of the parent before Cur was consumed (identifies the grammar transition)
}

var nilCursor = cursor{Parent: "<nil>"}

type cset map[cursor]bool

func (c cset) clone() cset {
	n := cset{}
	for k := range c {
		n[k] = true
	}
	return n
}

func (c cset) union(o cset) bool {
	ch := false
	for k := range o {
		if !c[k] {
			c[k] = true
			ch = true
		}
	}
	return ch
}

func (c cset) String() string {
	var ks []string
	for k := range c {
		if k == nilCursor {
			ks = append(ks, "nil")
		} else {
			ks = append(ks, fmt.Sprintf("%s@%s/%d>%d", k.Cur, k.Parent, k.From, k.State))
		}
	}
	sort.Strings(ks)
	return "{" + strings.Join(ks, " ") + "}"
}

// shapeAnalysis holds the grammar automata and the interprocedural state.
type shapeAnalysis struct {
	c       *core.Check
	dfa     map[string]*peg.ChildDFA
	ruleOf  map[int64]string // pegRule constant value -> rule name
	pkg     *ssa.Package
	node32  types.Type
	memo    map[string]*shapeSummary
	viol    map[string]string // key -> message
	derefs  map[string]bool   // every dereference site seen (function + position)
	changed bool
	depth   int
	prev    map[string]*shapeSummary // summaries of the previous fixpoint round (used for calls in progress)
	// consumed records, per grammar transition (parent rule, state before, child rule), the walker functions that
	// received such a child as an argument
	consumed map[transition]map[string]bool
	tops     map[string]bool // places where an unknown node value had to be assumed
}

type shapeRet struct {
	nodes  map[int]cset // result index -> cursors
	errNil int          // 0 unknown / no error result, 1 nil, 2 non-nil
}

type shapeSummary struct {
	rets       []shapeRet
	inProgress bool
}

func (a *shapeAnalysis) isNode(t types.Type) bool {
	p, ok := t.(*types.Pointer)
	if !ok {
		return false
	}
	n, ok := p.Elem().(*types.Named)
	return ok && n.Obj().Name() == "node32"
}

func (a *shapeAnalysis) up(c cursor) cset {
	out := cset{}
	if c == nilCursor {
		return out
	}
	d, ok := a.dfa[c.Cur]
	if !ok {
		// unknown rule (inside captures): anything
		out[nilCursor] = true
		out[cursor{Parent: peg.PegText, State: 0, Cur: "?"}] = true
		return out
	}
	for tok, dst := range d.Trans[0] {
		out[cursor{Parent: c.Cur, State: dst, Cur: tok, From: 0}] = true
	}
	if d.Accept[0] {
		out[nilCursor] = true
	}
	return out
}

func (a *shapeAnalysis) next(c cursor) cset {
	out := cset{}
	if c == nilCursor {
		return out
	}
	d, ok := a.dfa[c.Parent]
	if !ok {
		if c.Parent == "<root>" {
			out[nilCursor] = true
			return out
		}
		out[nilCursor] = true
		out[cursor{Parent: c.Parent, State: 0, Cur: "?"}] = true
		return out
	}
	for tok, dst := range d.Trans[c.State] {
		out[cursor{Parent: c.Parent, State: dst, Cur: tok, From: c.State}] = true
	}
	if d.Accept[c.State] {
		out[nilCursor] = true
	}
	return out
}

type transition struct {
	Parent string
	From   int
	Child  string
}

const constParent = "<const>"

var topSet = func() cset {
	return cset{nilCursor: true, cursor{Parent: peg.PegText, State: 0, Cur: "?"}: true}
}

func argsKey(fn *ssa.Function, args []cset) string {
	var sb strings.Builder
	sb.WriteString(fn.String())
	for _, a := range args {
		sb.WriteString("|")
		if a != nil {
			sb.WriteString(a.String())
		}
	}
	return sb.String()
}

func (a *shapeAnalysis) fieldName(fa *ssa.FieldAddr) string {
	return fa.X.Type().(*types.Pointer).Elem().Underlying().(*types.Struct).Field(fa.Field).Name()
}

// nodeLoad recognises `*(&x.up)` / `*(&x.next)` and returns x and the field.
func (a *shapeAnalysis) nodeLoad(v ssa.Value) (ssa.Value, string) {
	u, ok := v.(*ssa.UnOp)
	if !ok || u.Op != token.MUL || !a.isNode(u.Type()) {
		return nil, ""
	}
	fa, ok := u.X.(*ssa.FieldAddr)
	if !ok || !a.isNode(fa.X.Type()) {
		return nil, ""
	}
	f := a.fieldName(fa)
	if f != "up" && f != "next" {
		return nil, ""
	}
	return fa.X, f
}

// funcShape is the per-function precomputation: loads of the same field of the same (canonical) node are one value,
// because the walker never stores into a node (checked separately).
type funcShape struct {
	canon map[ssa.Value]ssa.Value // load -> representative load
	root  map[ssa.Value]ssa.Value // representative load -> the non-load value it is reached from
}

func (a *shapeAnalysis) shapeOfFunc(fn *ssa.Function) *funcShape {
	fs := &funcShape{canon: map[ssa.Value]ssa.Value{}, root: map[ssa.Value]ssa.Value{}}
	type k struct {
		base  ssa.Value
		field string
	}
	reps := map[k]ssa.Value{}
	// dominator pre-order so that a representative is seen before the loads that depend on it
	var order []*ssa.BasicBlock
	var walk func(b *ssa.BasicBlock)
	walk = func(b *ssa.BasicBlock) {
		order = append(order, b)
		for _, d := range b.Dominees() {
			walk(d)
		}
	}
	if len(fn.Blocks) > 0 {
		walk(fn.Blocks[0])
	}
	cn := func(v ssa.Value) ssa.Value {
		if r, ok := fs.canon[v]; ok {
			return r
		}
		return v
	}
	for _, b := range order {
		for _, ins := range b.Instrs {
			v, ok := ins.(ssa.Value)
			if !ok {
				continue
			}
			base, f := a.nodeLoad(v)
			if base == nil {
				continue
			}
			key := k{cn(base), f}
			if r, ok := reps[key]; ok {
				fs.canon[v] = r
				continue
			}
			reps[key] = v
			fs.canon[v] = v
			if r, ok := fs.root[key.base]; ok {
				fs.root[v] = r
			} else {
				fs.root[v] = key.base
			}
		}
	}
	return fs
}

// analyze computes the summary of fn for the given abstract arguments (one entry per parameter; nil for parameters that
// are neither nodes nor rule constants).
func (a *shapeAnalysis) analyze(fn *ssa.Function, args []cset) *shapeSummary {
	key := argsKey(fn, args)
	if s, ok := a.memo[key]; ok {
		return s
	}
	sum := &shapeSummary{inProgress: true}
	if p := a.prev[key]; p != nil {
		sum.rets = p.rets
	}
	a.memo[key] = sum
	a.depth++
	defer func() { a.depth--; sum.inProgress = false }()
	if len(fn.Blocks) == 0 {
		return sum
	}
	if a.depth > 80 {
		a.tops["recursion depth exceeded in "+fn.Name()] = true
		return sum
	}
	fs := a.shapeOfFunc(fn)
	cn := func(v ssa.Value) ssa.Value {
		if r, ok := fs.canon[v]; ok {
			return r
		}
		return v
	}
	type state map[ssa.Value]cset
	in := make([]state, len(fn.Blocks))
	calls := map[*ssa.Call]*shapeSummary{}
	var eval func(st state, v ssa.Value) cset
	var step func(st state, base ssa.Value, f string) cset
	eval = func(st state, v ssa.Value) cset {
		if k, ok := v.(*ssa.Const); ok {
			if k.IsNil() {
				return cset{nilCursor: true}
			}
			if k.Value != nil && k.Value.Kind() == constant.Int {
				if kv, ok := constant.Int64Val(k.Value); ok {
					if nt, ok := k.Type().(*types.Named); ok && nt.Obj().Name() == "pegRule" {
						return cset{cursor{Parent: constParent, Cur: a.ruleOf[kv]}: true}
					}
				}
			}
			return cset{}
		}
		v = cn(v)
		if s, ok := st[v]; ok {
			return s
		}
		if base, f := a.nodeLoad(v); base != nil {
			return step(st, base, f) // forgotten at a join: recompute from the base
		}
		if a.isNode(v.Type()) {
			a.tops[fn.Name()+": "+v.String()] = true
			return topSet()
		}
		return cset{}
	}
	step = func(st state, base ssa.Value, f string) cset {
		res := cset{}
		for c := range eval(st, base) {
			if f == "up" {
				res.union(a.up(c))
			} else {
				res.union(a.next(c))
			}
		}
		return res
	}
	invalidate := func(st state, v ssa.Value) {
		for k := range st {
			if fs.root[k] == v && k != v {
				delete(st, k)
			}
		}
	}
	deref := func(st state, base ssa.Value, pos token.Pos, what string) {
		site := fmt.Sprintf("%s@%s", fn.Name(), a.c.Prog.Rel(pos))
		a.derefs[site] = true
		s := eval(st, base)
		if s[nilCursor] {
			var ctx []string
			for k := range s {
				if k != nilCursor {
					ctx = append(ctx, k.Cur+" in "+k.Parent)
				}
			}
			sort.Strings(ctx)
			if len(ctx) > 4 {
				ctx = append(ctx[:4], "…")
			}
			a.viol[site] = fmt.Sprintf("%s reads %s of a node that can be absent (nil); it is otherwise one of %v", fn.Name(), what, ctx)
			// execution continues only when the node was present
			n := cset{}
			for k := range s {
				if k != nilCursor {
					n[k] = true
				}
			}
			st[cn(base)] = n
		}
	}
	// pegRuleBase: v is a load of <base>.pegRule; returns base
	pegRuleBase := func(v ssa.Value) ssa.Value {
		u, ok := v.(*ssa.UnOp)
		if !ok || u.Op != token.MUL {
			return nil
		}
		fa, ok := u.X.(*ssa.FieldAddr)
		if !ok {
			return nil
		}
		if inner, ok := fa.X.(*ssa.FieldAddr); ok && a.isNode(inner.X.Type()) {
			if a.fieldName(inner) == "token32" {
				ts := inner.Type().(*types.Pointer).Elem().Underlying().(*types.Struct)
				if ts.Field(fa.Field).Name() == "pegRule" {
					return inner.X
				}
			}
		}
		return nil
	}
	constRule := func(st state, v ssa.Value) (string, bool) {
		s := eval(st, v)
		if len(s) != 1 {
			return "", false
		}
		for c := range s {
			if c.Parent == constParent && c.Cur != "" {
				return c.Cur, true
			}
		}
		return "", false
	}
	// refine returns the state on one branch edge, and false when that edge cannot be taken.
	refine := func(st state, cond ssa.Value, taken bool) (state, bool) {
		bo, ok := cond.(*ssa.BinOp)
		if !ok || (bo.Op != token.EQL && bo.Op != token.NEQ) {
			return st, true
		}
		eq := (bo.Op == token.EQL) == taken
		ns := state{}
		for k, v := range st {
			ns[k] = v
		}
		var x ssa.Value
		if k, ok := bo.Y.(*ssa.Const); ok && k.IsNil() {
			x = bo.X
		} else if k, ok := bo.X.(*ssa.Const); ok && k.IsNil() {
			x = bo.Y
		}
		if x != nil {
			if a.isNode(x.Type()) {
				cur := eval(st, x)
				n := cset{}
				for c := range cur {
					if (c == nilCursor) == eq {
						n[c] = true
					}
				}
				ns[cn(x)] = n
				return ns, len(n) > 0
			}
			// the error result of a walker call decides which of its node results are possible
			if ex, ok := x.(*ssa.Extract); ok {
				if call, ok := ex.Tuple.(*ssa.Call); ok {
					if cs := calls[call]; cs != nil {
						feasible := false
						for _, r := range cs.rets {
							if !((eq && r.errNil == 2) || (!eq && r.errNil == 1)) {
								feasible = true
							}
						}
						if !feasible {
							return ns, false
						}
						for _, ref := range *call.Referrers() {
							ex2, ok := ref.(*ssa.Extract)
							if !ok || !a.isNode(ex2.Type()) {
								continue
							}
							n := cset{}
							for _, r := range cs.rets {
								if (eq && r.errNil == 2) || (!eq && r.errNil == 1) {
									continue
								}
								if s := r.nodes[ex2.Index]; s != nil {
									n.union(s)
								}
							}
							cur, has := st[ex2]
							if !has {
								continue
							}
							m := cset{}
							for c := range n {
								if cur[c] {
									m[c] = true
								}
							}
							ns[ex2] = m
						}
					}
				}
			}
			return ns, true
		}
		var base, other ssa.Value
		if b := pegRuleBase(bo.X); b != nil {
			base, other = b, bo.Y
		} else if b := pegRuleBase(bo.Y); b != nil {
			base, other = b, bo.X
		}
		if base == nil {
			return ns, true
		}
		rule, ok := constRule(st, other)
		if !ok {
			return ns, true
		}
		cur := eval(st, base)
		n := cset{}
		for c := range cur {
			if c == nilCursor {
				continue // a nil base panicked at the load
			}
			switch {
			case c.Cur == "?" && eq:
				n[cursor{Parent: c.Parent, State: c.State, Cur: rule, From: c.From}] = true
			case c.Cur == "?":
				n[c] = true
			case (c.Cur == rule) == eq:
				n[c] = true
			}
		}
		ns[cn(base)] = n
		return ns, len(n) > 0
	}
	initial := state{}
	for i, p := range fn.Params {
		if i < len(args) && args[i] != nil {
			initial[p] = args[i].clone()
		} else if a.isNode(p.Type()) {
			initial[p] = cset{}
		}
	}
	in[0] = initial
	work := []int{0}
	queued := map[int]bool{0: true}
	retAt := map[*ssa.Return]shapeRet{}
	iter := 0
	for len(work) > 0 {
		iter++
		if iter > 20000 {
			a.tops["iteration bound hit in "+fn.Name()] = true
			break
		}
		bi := work[0]
		work = work[1:]
		queued[bi] = false
		b := fn.Blocks[bi]
		st := state{}
		for k, v := range in[bi] {
			st[k] = v.clone()
		}
		for _, ins := range b.Instrs {
			switch x := ins.(type) {
			case *ssa.FieldAddr:
				if a.isNode(x.X.Type()) {
					deref(st, x.X, x.Pos(), "field "+a.fieldName(x))
				}
			case *ssa.UnOp:
				if x.Op != token.MUL || !a.isNode(x.Type()) {
					break
				}
				if base, f := a.nodeLoad(x); base != nil {
					rep := cn(x)
					if _, ok := st[rep]; !ok {
						st[rep] = step(st, base, f)
					}
				} else {
					a.tops[fn.Name()+": load "+x.X.String()] = true
					st[x] = topSet()
					invalidate(st, x)
				}
			case *ssa.Call:
				callee := x.Call.StaticCallee()
				var res *shapeSummary
				if callee != nil && callee.Pkg == a.pkg && len(callee.Blocks) > 0 && callee.Name() != "AST" {
					var cargs []cset
					if x.Call.IsInvoke() {
						break
					}
					for _, arg := range x.Call.Args {
						if a.isNode(arg.Type()) {
							for cc := range eval(st, arg) {
								if cc != nilCursor {
									t := transition{cc.Parent, cc.From, cc.Cur}
									if a.consumed[t] == nil {
										a.consumed[t] = map[string]bool{}
									}
									a.consumed[t][callee.Name()] = true
								}
							}
							cargs = append(cargs, eval(st, arg).clone())
						} else if r, ok := constRule(st, arg); ok {
							cargs = append(cargs, cset{cursor{Parent: constParent, Cur: r}: true})
						} else {
							cargs = append(cargs, nil)
						}
					}
					res = a.analyze(callee, cargs)
					calls[x] = res
				}
				if a.isNode(x.Type()) {
					n := cset{}
					if callee != nil && callee.Name() == "AST" {
						n[nilCursor] = true
						n[cursor{Parent: "<root>", State: 0, Cur: "Document"}] = true
					} else if res != nil {
						for _, r := range res.rets {
							if s := r.nodes[0]; s != nil {
								n.union(s)
							}
						}
					} else {
						a.tops[fn.Name()+": call "+x.String()] = true
						n = topSet()
					}
					st[x] = n
					invalidate(st, x)
				}
			case *ssa.Extract:
				if a.isNode(x.Type()) {
					n := cset{}
					if call, ok := x.Tuple.(*ssa.Call); ok && calls[call] != nil {
						for _, r := range calls[call].rets {
							if s := r.nodes[x.Index]; s != nil {
								n.union(s)
							}
						}
					} else {
						a.tops[fn.Name()+": extract "+x.String()] = true
						n = topSet()
					}
					st[x] = n
					invalidate(st, x)
				}
			case *ssa.Return:
				r := shapeRet{nodes: map[int]cset{}}
				for i, rv := range x.Results {
					if a.isNode(rv.Type()) {
						r.nodes[i] = eval(st, rv).clone()
					}
					if rulesIsError(rv.Type()) {
						if k, ok := rv.(*ssa.Const); ok && k.IsNil() {
							r.errNil = 1
						} else if c, ok := rv.(*ssa.Call); ok && c.Call.StaticCallee() != nil && c.Call.StaticCallee().Pkg != a.pkg {
							r.errNil = 2 // fmt.Errorf / errors.New
						} else if _, ok := rv.(*ssa.MakeInterface); ok {
							r.errNil = 2
						}
					}
				}
				retAt[x] = r
			}
		}
		for si, succ := range b.Succs {
			es := st
			if ifi, ok := b.Instrs[len(b.Instrs)-1].(*ssa.If); ok {
				var feasible bool
				es, feasible = refine(st, ifi.Cond, si == 0)
				if !feasible {
					continue
				}
			}
			pi := -1
			for i, p := range succ.Preds {
				if p == b {
					pi = i
				}
			}
			ns := state{}
			for k, v := range es {
				ns[k] = v
			}
			var phis []*ssa.Phi
			for _, ins := range succ.Instrs {
				ph, ok := ins.(*ssa.Phi)
				if !ok {
					break
				}
				if a.isNode(ph.Type()) && pi >= 0 {
					phis = append(phis, ph)
				}
			}
			// phis are assigned simultaneously
			vals := make([]cset, len(phis))
			for i, ph := range phis {
				vals[i] = eval(es, ph.Edges[pi]).clone()
			}
			for i, ph := range phis {
				ns[ph] = vals[i]
				invalidate(ns, ph)
			}
			ch := false
			if in[succ.Index] == nil {
				in[succ.Index] = state{}
				for k, v := range ns {
					in[succ.Index][k] = v.clone()
				}
				ch = true
			} else {
				cur := in[succ.Index]
				for k := range cur {
					if _, ok := ns[k]; !ok {
						delete(cur, k) // not known on this path: forget (top)
						ch = true
					}
				}
				for k, v := range ns {
					if c, ok := cur[k]; ok && c.union(v) {
						ch = true
					}
				}
			}
			if ch && !queued[succ.Index] {
				queued[succ.Index] = true
				work = append(work, succ.Index)
			}
		}
	}
	var rs []*ssa.Return
	for r := range retAt {
		rs = append(rs, r)
	}
	sort.Slice(rs, func(i, j int) bool { return rs[i].Pos() < rs[j].Pos() })
	var rets []shapeRet
	for _, r := range rs {
		rets = append(rets, retAt[r])
	}
	if retsString(sum.rets) != retsString(rets) {
		a.changed = true
	}
	sum.rets = rets
	return sum
}

func retsString(rs []shapeRet) string {
	var sb strings.Builder
	for _, r := range rs {
		var ks []int
		for k := range r.nodes {
			ks = append(ks, k)
		}
		sort.Ints(ks)
		for _, k := range ks {
			fmt.Fprintf(&sb, "%d:%s", k, r.nodes[k])
		}
		fmt.Fprintf(&sb, "e%d;", r.errNil)
	}
	return sb.String()
}

func rulesIsError(t types.Type) bool {
	return t != nil && types.Identical(t, types.Universe.Lookup("error").Type())
}
