package props

import (
	"fmt"
	"go/ast"
	"go/token"
	"go/types"
	"sort"
	"strings"

	"verif/checker/core"
	"verif/checker/rules"
)

// c06scopes: scope discipline of the constant resolver. A constant literal is written in one file (value scope: identifiers
// inside it carry include indexes of that file) while the type it is checked against may live in another file (type scope)
// and may be a typedef (whose KeyType/ValueType are nil until dereferenced).
//
//	value-scope-invariant   every recursive resolveConst call and every getIDValue call made by an on* helper passes the
//	                        helper's own value-scope parameter (the first parameter) unchanged.
//	type-scope-paired       in every recursive resolveConst call the type-scope argument and the type argument come from
//	                        the same source: (tg, t) of the helper, or the two results of one deref/lookup call.
//	elem-type-after-deref   every read of Type.KeyType/ValueType in a function reachable from resolveConst is made on a
//	                        type that was returned by a deref call, except in the tabled functions.
var c06ElemTypeTable = map[string]string{
	"getContainerTypeName": "only called for the literal container names map/list/set (isContainerTypes[t.Name] guards the call), which always carry their element types",
}

func c06scopes(c *core.Check) {
	pk := c.Prog.Pkg(golangRel)
	info := pk.TypesInfo
	var handlers []*ast.FuncDecl
	for _, f := range pk.Syntax {
		for _, d := range f.Decls {
			fd, ok := d.(*ast.FuncDecl)
			if !ok || fd.Body == nil || core.RecvName(fd) != "Resolver" {
				continue
			}
			if fd.Name.Name == "resolveConst" || (strings.HasPrefix(fd.Name.Name, "on") && len(fd.Name.Name) > 2 && fd.Name.Name[2] >= 'A' && fd.Name.Name[2] <= 'Z') {
				handlers = append(handlers, fd)
			}
		}
	}
	sort.Slice(handlers, func(i, j int) bool { return handlers[i].Name.Name < handlers[j].Name.Name })
	if len(handlers) < 8 {
		c.Unknown("value-scope-invariant", golangRel+".(Resolver).on*", "", fmt.Sprintf("expected resolveConst and its on* helpers, found %d", len(handlers)))
		return
	}
	paramObj := func(fd *ast.FuncDecl, idx int) types.Object {
		i := 0
		for _, f := range fd.Type.Params.List {
			for _, n := range f.Names {
				if i == idx {
					return info.Defs[n]
				}
				i++
			}
		}
		return nil
	}
	paramNamed := func(fd *ast.FuncDecl, typeSuffix string, nth int) types.Object {
		k := 0
		for _, f := range fd.Type.Params.List {
			for _, n := range f.Names {
				if o := info.Defs[n]; o != nil && strings.HasSuffix(o.Type().String(), typeSuffix) {
					if k == nth {
						return o
					}
					k++
				}
			}
		}
		return nil
	}
	// definition site of an identifier: the assignment statement that defines it
	defStmt := func(fd *ast.FuncDecl, o types.Object) *ast.AssignStmt {
		var res *ast.AssignStmt
		ast.Inspect(fd.Body, func(n ast.Node) bool {
			if as, ok := n.(*ast.AssignStmt); ok {
				for _, l := range as.Lhs {
					if id, ok := l.(*ast.Ident); ok && (info.Defs[id] == o || (as.Tok == token.ASSIGN && info.Uses[id] == o)) {
						if res == nil {
							res = as
						}
					}
				}
			}
			return true
		})
		return res
	}
	// root identifier of a type expression: t, t.ValueType, r.bin2str(ct.KeyType), f.Type …
	var rootOf func(e ast.Expr) *ast.Ident
	rootOf = func(e ast.Expr) *ast.Ident {
		switch x := ast.Unparen(e).(type) {
		case *ast.Ident:
			return x
		case *ast.SelectorExpr:
			return rootOf(x.X)
		case *ast.CallExpr:
			if len(x.Args) == 1 {
				return rootOf(x.Args[0])
			}
		}
		return nil
	}
	recCalls, idCalls := 0, 0
	for _, fd := range handlers {
		g := paramObj(fd, 0)
		tg := paramNamed(fd, "golang.Scope", 1)
		tparam := paramNamed(fd, "parser.Type", 0)
		fkey := core.FuncKey(golangRel, fd)
		n := 0
		ast.Inspect(fd.Body, func(nd ast.Node) bool {
			call, ok := nd.(*ast.CallExpr)
			if !ok {
				return true
			}
			fn := rules.Callee(info, call)
			if fn == nil || fn.Pkg() != pk.Types {
				return true
			}
			switch {
			case fn.Name() == "getIDValue" && len(call.Args) == 2:
				idCalls++
				n++
				id, _ := call.Args[0].(*ast.Ident)
				ok := id != nil && info.Uses[id] == g
				c.Decide(ok, "value-scope-invariant", fmt.Sprintf("%s/getIDValue#%d", fkey, n), c.Prog.Rel(call.Pos()),
					"identifier values are looked up in the scope the literal was written in",
					"getIDValue is called with "+rules.ExprString(call.Args[0])+", not with the helper's value scope: identifiers written in the literal carry include indexes of the file containing the literal, so looking them up elsewhere picks the wrong file or panics")
			case (fn.Name() == "resolveConst" || (strings.HasPrefix(fn.Name(), "on") && fd.Name.Name == "resolveConst")) && len(call.Args) >= 5:
				recCalls++
				n++
				id, _ := call.Args[0].(*ast.Ident)
				ok := id != nil && info.Uses[id] == g
				c.Decide(ok, "value-scope-invariant", fmt.Sprintf("%s/%s#%d", fkey, fn.Name(), n), c.Prog.Rel(call.Pos()),
					"the value scope is passed on unchanged",
					"the recursive call passes "+rules.ExprString(call.Args[0])+" as the value scope instead of the helper's own: nested values would be resolved in another file's scope")
				// pairing of (type scope, type)
				sid, _ := call.Args[1].(*ast.Ident)
				troot := rootOf(call.Args[3])
				paired := false
				why := ""
				switch {
				case sid == nil || troot == nil:
					why = "cannot identify the type scope / type arguments"
				case info.Uses[sid] == tg && info.Uses[troot] == tparam:
					// (tg, t…): fine only when the type itself is passed, not one of its element types (those need a deref)
					paired = ast.Unparen(call.Args[3]) == ast.Expr(troot)
					if !paired {
						why = "the element type " + rules.ExprString(call.Args[3]) + " is read from the declared type without dereferencing typedefs"
					}
				default:
					so, to := info.Uses[sid], info.Uses[troot]
					ds := defStmt(fd, so)
					dt := defStmt(fd, to)
					// f.Type where f comes from st.GetField(..): follow to st
					for hops := 0; dt != nil && dt != ds && hops < 3; hops++ {
						if len(dt.Rhs) != 1 {
							break
						}
						callRhs, ok := dt.Rhs[0].(*ast.CallExpr)
						if !ok {
							break
						}
						sel, ok := callRhs.Fun.(*ast.SelectorExpr)
						if !ok {
							break
						}
						base := rootOf(sel.X)
						if base == nil {
							break
						}
						dt = defStmt(fd, info.Uses[base])
					}
					paired = ds != nil && ds == dt
					if !paired {
						why = "type scope " + sid.Name + " and type " + rules.ExprString(call.Args[3]) + " do not come from the same lookup"
					}
				}
				c.Decide(paired, "type-scope-paired", fmt.Sprintf("%s/%s#%d", fkey, fn.Name(), n), c.Prog.Rel(call.Pos()),
					"type and type scope come from the same source", why+": type names and nested struct lookups would be resolved in the wrong file")
			}
			return true
		})
	}
	c.Analysed["resolver_recursive_calls"] = recCalls
	c.Analysed["resolver_identifier_lookups"] = idCalls
	c.Min("value-scope-invariant", 15)
	c.Min("type-scope-paired", 4)
	// elem-type-after-deref over everything reachable from resolveConst inside the package
	reach := map[string]*ast.FuncDecl{}
	var visit func(fd *ast.FuncDecl)
	visit = func(fd *ast.FuncDecl) {
		k := core.FuncKey(golangRel, fd)
		if reach[k] != nil {
			return
		}
		reach[k] = fd
		for _, call := range rules.Calls(fd.Body, true) {
			if fn := rules.Callee(info, call); fn != nil && fn.Pkg() == pk.Types {
				recv := ""
				if sig, ok := fn.Type().(*types.Signature); ok && sig.Recv() != nil {
					recv = strings.TrimPrefix(sig.Recv().Type().String(), "*")
					recv = recv[strings.LastIndex(recv, ".")+1:]
				}
				name := fn.Name()
				if recv != "" {
					name = recv + "." + name
				}
				if d := c.Prog.FuncDecl(golangRel, name); d != nil && d.Body != nil {
					visit(d)
				}
			}
		}
	}
	for _, h := range handlers {
		visit(h)
	}
	var keys []string
	for k := range reach {
		keys = append(keys, k)
	}
	sort.Strings(keys)
	c.Analysed["functions_reachable_from_resolveConst"] = len(keys)
	for _, k := range keys {
		fd := reach[k]
		var reads []*ast.SelectorExpr
		ast.Inspect(fd.Body, func(n ast.Node) bool {
			se, ok := n.(*ast.SelectorExpr)
			if !ok || (se.Sel.Name != "KeyType" && se.Sel.Name != "ValueType") {
				return true
			}
			if tv, ok := info.Types[se.X]; ok && strings.HasSuffix(tv.Type.String(), "parser.Type") {
				reads = append(reads, se)
			}
			return true
		})
		if len(reads) == 0 {
			continue
		}
		if reason, ok := c06ElemTypeTable[fd.Name.Name]; ok {
			// verify the guard the table entry relies on
			guarded := true
			if fd.Name.Name == "getContainerTypeName" {
				guarded = false
				for _, caller := range reach {
					ast.Inspect(caller.Body, func(n ast.Node) bool {
						is, ok := n.(*ast.IfStmt)
						if ok && strings.Contains(rules.ExprString(is.Cond), "isContainerTypes[t.Name]") {
							for _, call := range rules.Calls(is.Body, false) {
								if fn := rules.Callee(info, call); fn != nil && fn.Name() == "getContainerTypeName" {
									guarded = true
								}
							}
						}
						return true
					})
				}
			}
			c.Decide(guarded, "elem-type-after-deref", k+"/tabled", c.Prog.Rel(reads[0].Pos()), "tabled: "+reason, "the guard the exemption of "+fd.Name.Name+" relies on is gone")
			continue
		}
		for i, r := range reads {
			root := rootOf(r.X)
			ok := false
			if root != nil {
				if ds := defStmt(fd, info.Uses[root]); ds != nil && len(ds.Rhs) == 1 {
					if call, isCall := ds.Rhs[0].(*ast.CallExpr); isCall {
						if fn := rules.Callee(info, call); fn != nil && (fn.Name() == "derefType" || fn.Name() == "Deref") {
							ok = true
						}
					}
				}
			}
			c.Decide(ok, "elem-type-after-deref", fmt.Sprintf("%s/%s#%d", k, r.Sel.Name, i+1), c.Prog.Rel(r.Pos()),
				"read from a dereferenced type", rules.ExprString(r)+" is read from a type that may be a typedef reference (then it is nil): a constant or default value of a typedef'd container type crashes the generator")
		}
	}
	c.Min("elem-type-after-deref", 4)
}

// c06redirect: inside a struct literal a field that the struct stores as a pointer (NeedRedirect) needs an addressable
// value. Constants (base types and enums) are made addressable with a temporary; values of struct-likes (a literal or a
// reference to a struct constant) are pointers already. Rule: in onStructLike every place that prefixes the rendered value
// with '&' is guarded by the same base-type predicate NeedRedirect itself uses (so the two cannot disagree about enums), and
// nothing prefixes '&' unconditionally.
func c06redirect(c *core.Check) {
	pk := c.Prog.Pkg(golangRel)
	info := pk.TypesInfo
	fd := c.Prog.FuncDecl(golangRel, "Resolver.onStructLike")
	nr := c.Prog.FuncDecl(golangRel, "NeedRedirect")
	key := golangRel + ".(Resolver).onStructLike/address-of"
	if fd == nil || nr == nil {
		c.Unknown("anchor", key, "", "onStructLike or NeedRedirect missing")
		return
	}
	// the predicate NeedRedirect applies to non-struct fields
	var pred *types.Func
	for _, call := range rules.Calls(nr.Body, false) {
		if fn := rules.Callee(info, call); fn != nil && fn.Pkg() == pk.Types && strings.Contains(fn.Name(), "BaseType") {
			pred = fn
		}
	}
	if pred == nil {
		c.Unknown("redirect-agrees", key, c.Prog.Rel(nr.Pos()), "NeedRedirect no longer classifies fields with a package predicate")
		return
	}
	// address-of constructions applied to a rendered value
	type site struct {
		n      ast.Node
		guards []ast.Expr
	}
	var sites []site
	var stack []ast.Node
	ast.Inspect(fd.Body, func(n ast.Node) bool {
		if n == nil {
			stack = stack[:len(stack)-1]
			return true
		}
		stack = append(stack, n)
		amp := false
		switch x := n.(type) {
		case *ast.BinaryExpr:
			if x.Op == token.ADD {
				if s, ok := rules.ConstString(info, x.X); ok && strings.HasPrefix(s, "&") {
					if _, isLit := ast.Unparen(x.Y).(*ast.BasicLit); !isLit && !strings.Contains(rules.ExprString(x.Y), "goType") {
						amp = true
					}
				}
			}
		case *ast.CallExpr:
			if fn := rules.Callee(info, x); fn != nil && fn.Pkg() != nil && fn.Pkg().Path() == "fmt" && fn.Name() == "Sprintf" && len(x.Args) >= 2 {
				if s, ok := rules.ConstString(info, x.Args[0]); ok && (strings.HasPrefix(s, "&(") || strings.HasPrefix(s, "(&")) {
					amp = true
				}
			}
		}
		if amp {
			var gs []ast.Expr
			for _, p := range stack {
				if is, ok := p.(*ast.IfStmt); ok && is.Body.Pos() <= n.Pos() && n.End() <= is.Body.End() {
					gs = append(gs, is.Cond)
				}
			}
			sites = append(sites, site{n, gs})
		}
		return true
	})
	if len(sites) == 0 {
		c.Unknown("redirect-agrees", key, c.Prog.Rel(fd.Pos()), "no address-of construction found in onStructLike")
		return
	}
	for i, s := range sites {
		guarded := false
		for _, g := range s.guards {
			ast.Inspect(g, func(n ast.Node) bool {
				if call, ok := n.(*ast.CallExpr); ok {
					if fn := rules.Callee(info, call); fn != nil && types.Object(fn) == types.Object(pred) {
						guarded = true
					}
				}
				return true
			})
		}
		c.Decide(guarded, "redirect-agrees", fmt.Sprintf("%s#%d", key, i+1), c.Prog.Rel(s.n.Pos()),
			"'&' is only applied under "+pred.Name()+", the predicate NeedRedirect uses",
			"a value is prefixed with '&' without the test "+pred.Name()+"(f.Type) that NeedRedirect applies: an optional enum field renders as &Color_X (address of a constant) or a reference to a struct constant as &NAME (pointer to pointer), and the generated package does not compile")
	}
}

// c06quoteEscape: a literal reaches onStrBin with only its own delimiter unescaped, so a single quoted IDL literal can
// still contain \" . Turning the text into a Go double quoted string must therefore leave already escaped quotes alone.
// Rule: onStrBin does not escape quotes with a context-free strings.ReplaceAll / Replacer on the literal.
func c06quoteEscape(c *core.Check) {
	fd := c.Prog.FuncDecl(golangRel, "Resolver.onStrBin")
	key := golangRel + ".(Resolver).onStrBin/quote-escape"
	if fd == nil {
		c.Unknown("anchor", key, "", "missing")
		return
	}
	info := c.Prog.Pkg(golangRel).TypesInfo
	bad := ""
	handles := false
	for _, call := range rules.Calls(fd.Body, true) {
		fn := rules.Callee(info, call)
		if fn == nil {
			continue
		}
		if fn.Pkg() != nil && fn.Pkg().Path() == "strings" && (fn.Name() == "ReplaceAll" || fn.Name() == "Replace") && len(call.Args) >= 3 {
			if a, ok := rules.ConstString(info, call.Args[1]); ok && a == "\"" {
				bad = rules.ExprString(call)
			}
		}
		if fn.Pkg() == c.Prog.Pkg(golangRel).Types && len(call.Args) == 1 && strings.Contains(strings.ToLower(fn.Name()), "quote") {
			handles = true
		}
	}
	// the text of an IDL literal may contain anything but its own delimiter: a line break and the escape \' are legal there
	// and illegal in the body of a Go "…" string. A byte-copying helper can only treat them specially if it compares
	// against them; strconv.Quote / %q need no such comparison.
	quoted := false
	mentions := map[string]bool{}
	var helpers []*ast.FuncDecl
	for _, call := range rules.Calls(fd.Body, true) {
		fn := rules.Callee(info, call)
		if fn == nil {
			continue
		}
		if fn.Pkg() != nil && fn.Pkg().Path() == "strconv" && strings.HasPrefix(fn.Name(), "Quote") {
			quoted = true
		}
		if fn.Pkg() == c.Prog.Pkg(golangRel).Types && len(call.Args) == 1 {
			if hd := c.Prog.FuncDecl(golangRel, fn.Name()); hd != nil && hd.Body != nil {
				helpers = append(helpers, hd)
			}
		}
	}
	for _, hd := range helpers {
		ast.Inspect(hd.Body, func(n ast.Node) bool {
			if bl, ok := n.(*ast.BasicLit); ok && bl.Kind == token.CHAR {
				mentions[bl.Value] = true
			}
			return true
		})
	}
	var unhandled []string
	if !quoted {
		for _, hz := range []struct{ lit, what string }{{`'\n'`, "a line break inside the literal"}, {`'\''`, `the escape \'`}} {
			if !mentions[hz.lit] {
				unhandled = append(unhandled, hz.what)
			}
		}
	}
	c.Decide(len(unhandled) == 0, "literal-text-valid-in-go-string", golangRel+".(Resolver).onStrBin/hazards", c.Prog.Rel(fd.Pos()),
		"the conversion treats a line break and \\' specially (or quotes with strconv)",
		fmt.Sprintf("the literal's text is copied into a Go \"…\" string without ever looking for %s: `const string B = \"two<newline>lines\"` or `\"it\\'s\"` is valid IDL, thriftgo exits 0, and the generated file does not parse (newline in string / unknown escape sequence)", strings.Join(unhandled, " or ")))
	c.Decide(bad == "" && handles, "quote-escape-respects-backslashes", key, c.Prog.Rel(fd.Pos()), "quotes are escaped by a helper that looks at preceding backslashes",
		"the literal's double quotes are escaped by "+bad+" regardless of a backslash in front of them: the single quoted literal 'a\\\"b' becomes \"a\\\\\"b\", which ends the Go string early — the generated file does not parse")
}

// c06containerElems: getContainerTypeName decides from value_type_in_container (Features().ValueTypeForSIC) whether the
// struct-like elements of a container are pointers or values. A constant of such a container is rendered element by element
// in onSetOrList / onMap; the elements must follow the same decision. Rule: each of the two helpers passes every rendered
// element through code that reads the same feature flag.
func c06containerElems(c *core.Check) {
	pk := c.Prog.Pkg(golangRel)
	info := pk.TypesInfo
	tn := c.Prog.FuncDecl(golangRel, "Resolver.getContainerTypeName")
	if tn == nil {
		c.Unknown("anchor", golangRel+".(Resolver).getContainerTypeName", "", "missing")
		return
	}
	flags := map[string]bool{}
	ast.Inspect(tn.Body, func(n ast.Node) bool {
		if se, ok := n.(*ast.SelectorExpr); ok && strings.HasSuffix(rules.ExprString(se.X), "Features()") {
			flags[se.Sel.Name] = true
		}
		return true
	})
	if len(flags) == 0 {
		c.OKTrivial("container-elem-kind-agrees", golangRel+".(Resolver).getContainerTypeName/flags", c.Prog.Rel(tn.Pos()), "the container type name does not depend on a feature flag")
		return
	}
	readsFlag := func(fd *ast.FuncDecl, flag string, depth int) bool {
		var rec func(fd *ast.FuncDecl, depth int) bool
		seen := map[*ast.FuncDecl]bool{}
		rec = func(fd *ast.FuncDecl, depth int) bool {
			if fd == nil || fd.Body == nil || seen[fd] || depth > 2 || fd == tn {
				return false
			}
			seen[fd] = true
			found := false
			ast.Inspect(fd.Body, func(n ast.Node) bool {
				if se, ok := n.(*ast.SelectorExpr); ok && se.Sel.Name == flag && strings.HasSuffix(rules.ExprString(se.X), "Features()") {
					found = true
				}
				return true
			})
			if found {
				return true
			}
			for _, call := range rules.Calls(fd.Body, false) {
				fn := rules.Callee(info, call)
				if fn == nil || fn.Pkg() != pk.Types || fn.Name() == "resolveConst" || fn.Name() == "getTypeName" {
					continue
				}
				name := fn.Name()
				if sig, ok := fn.Type().(*types.Signature); ok && sig.Recv() != nil {
					r := strings.TrimPrefix(sig.Recv().Type().String(), "*")
					name = r[strings.LastIndex(r, ".")+1:] + "." + name
				}
				if rec(c.Prog.FuncDecl(golangRel, name), depth+1) {
					return true
				}
			}
			return false
		}
		return rec(fd, depth)
	}
	for _, h := range []string{"onSetOrList", "onMap"} {
		fd := c.Prog.FuncDecl(golangRel, "Resolver."+h)
		if fd == nil {
			c.Unknown("anchor", golangRel+".(Resolver)."+h, "", "missing")
			continue
		}
		var missing []string
		for f := range flags {
			if !readsFlag(fd, f, 0) {
				missing = append(missing, f)
			}
		}
		sort.Strings(missing)
		c.Decide(len(missing) == 0, "container-elem-kind-agrees", golangRel+".(Resolver)."+h+"/elements", c.Prog.Rel(fd.Pos()),
			"rendered elements follow the feature flag(s) the container's type name depends on",
			fmt.Sprintf("the container's Go type depends on %v but %s renders its elements without looking at it: under value_type_in_container a constant list of structs is rendered []P{&P{…}} and does not compile", missing, h))
	}
}

// c06numericIdentifier: a constant may be initialised with the name of another constant of a different numeric type
// (`const i32 B = A  const double D = B`, `list<double> = [B]`). Integer constants are emitted typed once they refer to
// another constant (`B = int32(A)`), so the name cannot be dropped into a context of another type as it stands. onInt
// converts the referenced name to the target type; onDouble has to do the same (sibling agreement). Rule: in both, the
// value obtained from getIDValue does not reach the return as it was looked up — it passes through a formatting call or a
// concatenation first.
func c06numericIdentifier(c *core.Check) {
	info := c.Prog.Pkg(golangRel).TypesInfo
	for _, name := range []string{"onInt", "onDouble"} {
		fd := c.Prog.FuncDecl(golangRel, "Resolver."+name)
		key := golangRel + ".(Resolver)." + name + "/identifier"
		if fd == nil {
			c.Unknown("anchor", key, "", "missing")
			continue
		}
		decided := false
		ast.Inspect(fd.Body, func(n ast.Node) bool {
			is, ok := n.(*ast.IfStmt)
			if !ok || is.Init == nil || decided {
				return true
			}
			as, ok := is.Init.(*ast.AssignStmt)
			if !ok || len(as.Rhs) != 1 || len(as.Lhs) < 1 {
				return true
			}
			call, ok := as.Rhs[0].(*ast.CallExpr)
			if !ok {
				return true
			}
			if fn := rules.Callee(info, call); fn == nil || fn.Name() != "getIDValue" {
				return true
			}
			v := rules.ExprString(as.Lhs[0])
			converted := false
			raw := false
			for _, st := range is.Body.List {
				switch x := st.(type) {
				case *ast.AssignStmt:
					for i, l := range x.Lhs {
						if rules.ExprString(l) == v && i < len(x.Rhs) {
							if _, isCall := x.Rhs[i].(*ast.CallExpr); isCall {
								converted = true
							}
							if _, isBin := x.Rhs[i].(*ast.BinaryExpr); isBin {
								converted = true
							}
						}
					}
				case *ast.ReturnStmt:
					if len(x.Results) > 0 {
						if rules.ExprString(x.Results[0]) == v {
							raw = !converted
						}
					}
				}
			}
			decided = true
			c.Decide(!raw, "numeric-identifier-converted", key, c.Prog.Rel(is.Pos()),
				"the referenced constant's name is converted to the target type before it is returned",
				"the name of the referenced constant is returned as it is: `const i32 A = 1  const i32 B = A  const double D = B` makes D an int32 constant, and `const list<double> L = [B]` or a field default `double d = B` does not compile (cannot use B (constant of type int32) as float64 value)")
			return true
		})
		if !decided {
			c.Unknown("numeric-identifier-converted", key, c.Prog.Rel(fd.Pos()), "the getIDValue arm was not found")
		}
	}
	c.Min("numeric-identifier-converted", 2)
}
