package props

import (
	"fmt"
	"go/token"

	"golang.org/x/tools/go/ssa"

	"verif/checker/core"
	"verif/checker/rules"
)

// vval is one dynamic instance of an SSA value along a path (the n-th execution of its defining instruction).
type vval struct {
	v ssa.Value
	n int
}

// stickySwallowed lists error-swallowing branches: an `err != nil` branch from which a return of a nil (or
// nil-asserted) error is reachable although the function goes on executing (break/continue/fallthrough) instead of
// returning. table lists intentional cases (key -> reason).
var c04Swallow = map[string]string{
	"generator/golang.(GoBackend).PostProcess/err-branch#1": "documented behaviour: a file that go/format cannot parse is written unformatted with a warning (property C01 names this mechanism)",
}

// dependsOn: v is computed (through calls, comparisons, negations) from x.
func dependsOn(v, x ssa.Value, depth int) bool {
	if depth > 4 {
		return false
	}
	if v == x {
		return true
	}
	switch t := v.(type) {
	case *ssa.BinOp:
		return dependsOn(t.X, x, depth+1) || dependsOn(t.Y, x, depth+1)
	case *ssa.UnOp:
		return dependsOn(t.X, x, depth+1)
	case *ssa.Call:
		if t.Call.IsInvoke() && dependsOn(t.Call.Value, x, depth+1) {
			return true
		}
		for _, a := range t.Call.Args {
			if dependsOn(a, x, depth+1) {
				return true
			}
		}
	case *ssa.Phi:
		for _, e := range t.Edges {
			if e == x {
				return true
			}
		}
	case *ssa.MakeInterface:
		return dependsOn(t.X, x, depth+1)
	case *ssa.ChangeInterface:
		return dependsOn(t.X, x, depth+1)
	}
	return false
}

// c04E3sticky: rule E3c.
func c04E3sticky(c *core.Check, fns []*ssa.Function) {
	n := 0
	for _, fn := range fns {
		if fn.Signature.Results().Len() == 0 || !rules.IsErrorType(fn.Signature.Results().At(fn.Signature.Results().Len()-1).Type()) {
			continue
		}
		hasDefer := false
		forEachInstr(fn, func(ins ssa.Instruction) {
			if _, ok := ins.(*ssa.Defer); ok {
				hasDefer = true
			}
		})
		if hasDefer {
			continue // named results may be rewritten by deferred code; out of this rule's model
		}
		seen := 0
		for _, b := range fn.Blocks {
			ifi, ok := b.Instrs[len(b.Instrs)-1].(*ssa.If)
			if !ok {
				continue
			}
			bo, ok := ifi.Cond.(*ssa.BinOp)
			if !ok || (bo.Op != token.NEQ && bo.Op != token.EQL) {
				continue
			}
			var x ssa.Value
			if k, ok := bo.Y.(*ssa.Const); ok && k.IsNil() {
				x = bo.X
			} else if k, ok := bo.X.(*ssa.Const); ok && k.IsNil() {
				x = bo.Y
			} else {
				continue
			}
			if !rules.IsErrorType(x.Type()) {
				continue
			}
			errSucc := b.Succs[0]
			if bo.Op == token.EQL {
				errSucc = b.Succs[1]
			}
			// cheap filter: the error branch returns or panics straight away
			if endsStraight(errSucc) {
				continue
			}
			// the error is classified by a predicate on itself (os.IsExist(err), err.Error() == "…", errors.Is(err, …)):
			// tolerating one class of errors is a decision of the code, not a lost error
			if t, ok := errSucc.Instrs[len(errSucc.Instrs)-1].(*ssa.If); ok && dependsOn(t.Cond, x, 0) {
				continue
			}
			// fallback idiom: the error of a library call (not a diagnosis of this repository) selects an alternative way to
			// compute the same value, and the error of the alternative is discarded explicitly (`v, _ = f(…)`): the first
			// error is handled by the retry, it was never meant to be reported
			if isFallbackRetry(errSucc, x) {
				continue
			}
			seen++
			n++
			key := fmt.Sprintf("%s/err-branch#%d", core.FuncName(fn), seen)
			where := c.Prog.Rel(ifi.Pos())
			if where == "?" {
				where = c.Prog.Rel(x.Pos())
			}
			lost, detail, truncated := stickyPaths(fn, b, errSucc, x)
			if truncated {
				c.Note("sticky-error: path enumeration truncated in %s", key)
			}
			if lost {
				if why, ok := c04Swallow[key]; ok {
					c.OK("E3-error-sticky", key, where, "intentional: "+why)
					continue
				}
				c.Bad("E3-error-sticky", key, where, "after this error is detected the function keeps running and can still return a nil error: "+detail+" (a diagnosed failure is overwritten or forgotten, e.g. by a later loop iteration)")
			} else {
				c.OK("E3-error-sticky", key, where, "every return reachable from the error branch returns this error, another non-nil error, or a value not known to be nil")
			}
		}
	}
	c.Analysed["non_returning_error_branches"] = n
}

func endsStraight(b *ssa.BasicBlock) bool {
	for i := 0; i < 4; i++ {
		if len(b.Instrs) == 0 {
			return false
		}
		switch t := b.Instrs[len(b.Instrs)-1].(type) {
		case *ssa.Return, *ssa.Panic:
			return true
		case *ssa.Jump:
			// only follow jumps out of straight-line blocks without calls that could matter
			b = t.Block().Succs[0]
			if len(b.Preds) != 1 {
				// a join point: may be a loop header or shared return block; check whether it returns directly
				if _, ok := b.Instrs[len(b.Instrs)-1].(*ssa.Return); ok {
					// a shared return block: the returned value may be a phi: not "straight"
					return false
				}
				return false
			}
		default:
			return false
		}
	}
	return false
}

// stickyPaths explores bounded paths from the error successor and reports whether some return yields a nil error.
func stickyPaths(fn *ssa.Function, from, start *ssa.BasicBlock, tracked ssa.Value) (lost bool, detail string, truncated bool) {
	type state struct {
		ver    map[ssa.Value]int
		env    map[*ssa.Phi]vval
		facts  map[vval]bool // true = nil
		visits map[*ssa.BasicBlock]int
		// retried: on this path a second call of the library function whose error is tracked has succeeded (its own error
		// was tested to be nil): the value was obtained after all, returning nil is the point of the fallback
		retried bool
	}
	clone := func(s *state) *state {
		n := &state{ver: map[ssa.Value]int{}, env: map[*ssa.Phi]vval{}, facts: map[vval]bool{}, visits: map[*ssa.BasicBlock]int{}}
		for k, v := range s.ver {
			n.ver[k] = v
		}
		for k, v := range s.env {
			n.env[k] = v
		}
		for k, v := range s.facts {
			n.facts[k] = v
		}
		for k, v := range s.visits {
			n.visits[k] = v
		}
		n.retried = s.retried
		return n
	}
	// the library function whose error is tracked (nil when the error does not come straight from a call outside the repository)
	var origin *ssa.Function
	if ex, ok := tracked.(*ssa.Extract); ok {
		if first, ok := ex.Tuple.(*ssa.Call); ok && first.Call.StaticCallee() != nil && !core.InRepo(first.Call.StaticCallee()) {
			origin = first.Call.StaticCallee()
		}
	}
	isRetryErr := func(v ssa.Value) bool {
		ex, ok := v.(*ssa.Extract)
		if !ok || origin == nil {
			return false
		}
		call, ok := ex.Tuple.(*ssa.Call)
		return ok && call.Call.StaticCallee() == origin && call != tracked.(*ssa.Extract).Tuple
	}
	resolve := func(s *state, x ssa.Value) vval {
		if p, ok := x.(*ssa.Phi); ok {
			if v, ok := s.env[p]; ok {
				return v
			}
			return vval{p, s.ver[p]}
		}
		if _, ok := x.(*ssa.Const); ok {
			return vval{x, 0}
		}
		return vval{x, s.ver[x]}
	}
	init := &state{ver: map[ssa.Value]int{}, env: map[*ssa.Phi]vval{}, facts: map[vval]bool{}, visits: map[*ssa.BasicBlock]int{}}
	tv := resolve(init, tracked)
	init.facts[tv] = false
	paths := 0
	errIdx := fn.Signature.Results().Len() - 1
	var walk func(s *state, pred, b *ssa.BasicBlock, depth int)
	walk = func(s *state, pred, b *ssa.BasicBlock, depth int) {
		if lost || truncated {
			return
		}
		if depth > 80 || s.visits[b] >= 2 {
			return
		}
		s.visits[b]++
		// phis in parallel
		pi := -1
		for i, p := range b.Preds {
			if p == pred {
				pi = i
			}
		}
		newEnv := map[*ssa.Phi]vval{}
		for _, ins := range b.Instrs {
			ph, ok := ins.(*ssa.Phi)
			if !ok {
				break
			}
			if pi >= 0 {
				newEnv[ph] = resolve(s, ph.Edges[pi])
			}
		}
		for ph, v := range newEnv {
			s.env[ph] = v
		}
		for _, ins := range b.Instrs {
			if _, ok := ins.(*ssa.Phi); ok {
				continue
			}
			if v, ok := ins.(ssa.Value); ok {
				s.ver[v]++
			}
			switch x := ins.(type) {
			case *ssa.Return:
				paths++
				if paths > 3000 {
					truncated = true
					return
				}
				if errIdx < len(x.Results) {
					rv := resolve(s, x.Results[errIdx])
					if k, ok := rv.v.(*ssa.Const); ok && k.IsNil() {
						if s.retried {
							return // the fallback call succeeded on this path
						}
						lost, detail = true, "a path reaches `return …, nil`"
					} else if isNil, known := s.facts[rv]; known && isNil && rv != tv {
						lost, detail = true, "a path returns a different error value that was tested to be nil"
					}
				}
				return
			case *ssa.Panic:
				return
			case *ssa.If:
				cond, ok := x.Cond.(*ssa.BinOp)
				var operand ssa.Value
				if ok && (cond.Op == token.NEQ || cond.Op == token.EQL) {
					if k, ok := cond.Y.(*ssa.Const); ok && k.IsNil() {
						operand = cond.X
					} else if k, ok := cond.X.(*ssa.Const); ok && k.IsNil() {
						operand = cond.Y
					}
				}
				for si, succ := range b.Succs {
					ns := clone(s)
					if operand != nil && rules.IsErrorType(operand.Type()) {
						ov := resolve(ns, operand)
						isNil := (cond.Op == token.EQL) == (si == 0)
						if k, ok := ov.v.(*ssa.Const); ok && k.IsNil() {
							if !isNil {
								continue
							}
						} else {
							if old, known := ns.facts[ov]; known && old != isNil {
								continue // infeasible
							}
							ns.facts[ov] = isNil
						}
						if isNil && isRetryErr(operand) {
							ns.retried = true
						}
					}
					walk(ns, b, succ, depth+1)
				}
				return
			case *ssa.Jump:
				walk(s, b, b.Succs[0], depth+1)
				return
			}
		}
		// blocks ending in other terminators (range next etc. are ordinary instructions followed by If)
	}
	walk(init, from, start, 0)
	return
}

// isFallbackRetry recognises `v, err := lib(…); if err != nil { v, _ = lib(…) }`: err is the error result of a call into a
// package outside the repository, and the error branch consists of one call to the same function whose error result is
// never used, after which control rejoins the normal path.
func isFallbackRetry(errSucc *ssa.BasicBlock, x ssa.Value) bool {
	ex, ok := x.(*ssa.Extract)
	if !ok {
		return false
	}
	first, ok := ex.Tuple.(*ssa.Call)
	if !ok || first.Call.StaticCallee() == nil || core.InRepo(first.Call.StaticCallee()) {
		return false
	}
	retries := 0
	for _, ins := range errSucc.Instrs {
		switch v := ins.(type) {
		case *ssa.Call:
			if v.Call.StaticCallee() != first.Call.StaticCallee() {
				return false
			}
			// the retry's error result must be unused
			for _, ref := range *v.Referrers() {
				if e2, ok := ref.(*ssa.Extract); ok && rules.IsErrorType(e2.Type()) {
					for _, r3 := range *e2.Referrers() {
						if _, dbg := r3.(*ssa.DebugRef); !dbg {
							return false // the retry's error is looked at after all
						}
					}
				}
			}
			retries++
		case *ssa.Extract, *ssa.Jump, *ssa.DebugRef:
		default:
			return false
		}
	}
	return retries == 1
}
