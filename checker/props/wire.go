package props

import (
	"fmt"
	"go/ast"
	"go/constant"
	"go/token"
	"go/types"
	"sort"
	"strings"

	"golang.org/x/tools/go/packages"

	"verif/checker/core"
	"verif/checker/rules"
)

// wireSpec is the normative Thrift binary-protocol numbering (an external standard, not a copy of repository text).
type wireSpec struct {
	Wire   int    // TType number on the wire
	Size   int    // fixed encoded size of a value, 0 = variable
	Method string // TProtocol Read/Write method suffix
	Const  string // TType constant name
}

var specByCategory = map[string]wireSpec{
	"Bool":      {2, 1, "Bool", "BOOL"},
	"Byte":      {3, 1, "Byte", "BYTE"},
	"I16":       {6, 2, "I16", "I16"},
	"I32":       {8, 4, "I32", "I32"},
	"I64":       {10, 8, "I64", "I64"},
	"Double":    {4, 8, "Double", "DOUBLE"},
	"String":    {11, 0, "String", "STRING"},
	"Binary":    {11, 0, "Binary", "STRING"},
	"Map":       {13, 0, "Map", "MAP"},
	"List":      {15, 0, "List", "LIST"},
	"Set":       {14, 0, "Set", "SET"},
	"Enum":      {8, 4, "I32", "I32"},
	"Struct":    {12, 0, "Struct", "STRUCT"},
	"Union":     {12, 0, "Struct", "STRUCT"},
	"Exception": {12, 0, "Struct", "STRUCT"},
}

// the 11 value-bearing wire types of the binary protocol, by conventional name
var specWireTypes = map[string]int{"Bool": 2, "Byte": 3, "Double": 4, "I16": 6, "I32": 8, "I64": 10, "String": 11, "Struct": 12, "Map": 13, "Set": 14, "List": 15}

var valueCategories = []string{"Bool", "Byte", "I16", "I32", "I64", "Double", "String", "Binary", "Map", "List", "Set", "Enum", "Struct", "Union", "Exception"}

// categoryValues reads parser.Category_* constants through go/types.
func categoryValues(c *core.Check) map[string]int64 {
	pk := c.Prog.Pkg("parser")
	out := map[string]int64{}
	if pk == nil {
		return out
	}
	sc := pk.Types.Scope()
	for _, n := range sc.Names() {
		if !strings.HasPrefix(n, "Category_") {
			continue
		}
		if k, ok := sc.Lookup(n).(*types.Const); ok {
			if v, ok := constant.Int64Val(constant.ToInt(k.Val())); ok {
				out[strings.TrimPrefix(n, "Category_")] = v
			}
		}
	}
	return out
}

// pkgVarInit returns the initialiser expression of a package-level variable.
func pkgVarInit(pk *packages.Package, name string) ast.Expr {
	for _, f := range pk.Syntax {
		for _, d := range f.Decls {
			gd, ok := d.(*ast.GenDecl)
			if !ok || gd.Tok != token.VAR {
				continue
			}
			for _, s := range gd.Specs {
				vs := s.(*ast.ValueSpec)
				for i, n := range vs.Names {
					if n.Name == name && i < len(vs.Values) {
						return vs.Values[i]
					}
				}
			}
		}
	}
	return nil
}

// keyedLiteral evaluates a composite literal whose keys and values are constants: key(int) -> value.
func keyedLiteral(info *types.Info, e ast.Expr) (map[int64]constant.Value, bool) {
	lit, ok := e.(*ast.CompositeLit)
	if !ok {
		return nil, false
	}
	out := map[int64]constant.Value{}
	for _, el := range lit.Elts {
		kv, ok := el.(*ast.KeyValueExpr)
		if !ok {
			return nil, false
		}
		k, ok1 := rules.ConstInt(info, kv.Key)
		tv := info.Types[kv.Value]
		if !ok1 || tv.Value == nil {
			return nil, false
		}
		out[k] = tv.Value
	}
	return out, true
}

// checkCategoryTable compares one category-keyed table with the oracle through get(spec) and render(value).
func checkCategoryTable(c *core.Check, rule, rel, name string, required []string, want func(cat string) (string, bool)) {
	pk := c.Prog.Pkg(rel)
	key := rel + "." + name
	if pk == nil {
		c.Unknown(rule, key, "", "package missing")
		return
	}
	init := pkgVarInit(pk, name)
	if init == nil {
		c.Unknown(rule, key, "", "table variable missing")
		return
	}
	tab, ok := keyedLiteral(pk.TypesInfo, init)
	if !ok {
		c.Unknown(rule, key, c.Prog.Rel(init.Pos()), "table is not a constant keyed literal")
		return
	}
	cats := categoryValues(c)
	for _, cat := range required {
		w, need := want(cat)
		if !need {
			continue
		}
		cv, ok := cats[cat]
		k := key + "[" + cat + "]"
		if !ok {
			c.Unknown(rule, k, "", "parser.Category_"+cat+" missing")
			continue
		}
		v, present := tab[cv]
		if !present {
			c.Bad(rule, k, c.Prog.Rel(init.Pos()), "no entry for Category_"+cat+" (zero value would be used): expected "+w)
			continue
		}
		got := v.ExactString()
		if v.Kind() == constant.String {
			got = constant.StringVal(v)
		}
		c.Decide(got == w, rule, k, c.Prog.Rel(init.Pos()), "= "+got+" (binary protocol spec)", fmt.Sprintf("table says %s, the Thrift binary protocol requires %s", got, w))
	}
}

// switchArms returns, for a switch statement whose tag is an integer-constant enumeration, the arms keyed by constant name.
type arm struct {
	Names []string
	Body  []ast.Stmt
	Pos   token.Pos
}

func switchArms(info *types.Info, sw *ast.SwitchStmt) (arms []arm, def *arm) {
	for _, cc := range sw.Body.List {
		cl := cc.(*ast.CaseClause)
		a := arm{Body: cl.Body, Pos: cl.Pos()}
		if cl.List == nil {
			d := a
			def = &d
			continue
		}
		for _, e := range cl.List {
			a.Names = append(a.Names, constName(info, e))
		}
		arms = append(arms, a)
	}
	return
}

func constName(info *types.Info, e ast.Expr) string {
	switch x := ast.Unparen(e).(type) {
	case *ast.Ident:
		return x.Name
	case *ast.SelectorExpr:
		return x.Sel.Name
	}
	return types.ExprString(e)
}

// firstSwitchOn finds the first switch in fd whose tag mentions the identifier/field named tagName.
func firstSwitchOn(fd *ast.FuncDecl, tagName string) *ast.SwitchStmt {
	var out *ast.SwitchStmt
	ast.Inspect(fd.Body, func(n ast.Node) bool {
		if sw, ok := n.(*ast.SwitchStmt); ok && out == nil && sw.Tag != nil {
			if strings.Contains(types.ExprString(sw.Tag), tagName) {
				out = sw
			}
		}
		return out == nil
	})
	return out
}

// armFallsThroughSilently: a default arm that neither returns an error nor panics.
func armRejects(info *types.Info, body []ast.Stmt) bool {
	rej := false
	for _, s := range body {
		ast.Inspect(s, func(n ast.Node) bool {
			switch x := n.(type) {
			case *ast.ReturnStmt:
				for _, r := range x.Results {
					if tv, ok := info.Types[r]; ok && (rules.IsErrorType(tv.Type) || implementsErr(tv.Type)) && !tv.IsNil() {
						rej = true
					}
				}
			case *ast.CallExpr:
				if rules.IsBuiltin(info, x, "panic") {
					rej = true
				}
			case *ast.AssignStmt:
				for i, l := range x.Lhs {
					if tv, ok := info.Types[l]; ok && rules.IsErrorType(tv.Type) && i < len(x.Rhs) && !rules.IsNil(info, x.Rhs[i]) {
						rej = true
					}
				}
			}
			return true
		})
	}
	return rej
}

func implementsErr(t types.Type) bool {
	if t == nil {
		return false
	}
	errI := types.Universe.Lookup("error").Type().Underlying().(*types.Interface)
	return types.Implements(t, errI)
}

// methodSuffixes lists X for every call `recv.<prefix>X(...)` in the statements.
func methodSuffixes(body []ast.Stmt, prefix string) []string {
	set := map[string]bool{}
	for _, s := range body {
		ast.Inspect(s, func(n ast.Node) bool {
			if call, ok := n.(*ast.CallExpr); ok {
				if sel, ok := call.Fun.(*ast.SelectorExpr); ok && strings.HasPrefix(sel.Sel.Name, prefix) && len(sel.Sel.Name) > len(prefix) {
					set[strings.TrimPrefix(sel.Sel.Name, prefix)] = true
				}
			}
			return true
		})
	}
	var out []string
	for k := range set {
		out = append(out, k)
	}
	sort.Strings(out)
	return out
}

func callsFuncNamed(info *types.Info, body []ast.Stmt, fn *types.Func) bool {
	found := false
	for _, s := range body {
		ast.Inspect(s, func(n ast.Node) bool {
			if call, ok := n.(*ast.CallExpr); ok && rules.Callee(info, call) == fn && fn != nil {
				found = true
			}
			return true
		})
	}
	return found
}

func constInt(o types.Object) (int64, bool) {
	k, ok := o.(*types.Const)
	if !ok {
		return 0, false
	}
	v := constant.ToInt(k.Val())
	if v.Kind() != constant.Int {
		return 0, false
	}
	return constant.Int64Val(v)
}
