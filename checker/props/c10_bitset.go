package props

import (
	"fmt"
	"go/ast"
	"go/token"
	"go/types"
	"sort"
	"strings"

	"golang.org/x/tools/go/cfg"

	"verif/checker/core"
	"verif/checker/rules"
)

// c10visitsAll: GenIfNotSet must emit one test per registered element. The elements are numbered 0..g.i-1 (Add). The
// argument is a small loop-coverage proof read off the code: a counter that starts at 0, is only ever incremented by a
// `c++` that follows an unconditional callback for m[c] in the same loop body, and for which every way out of the
// function last saw `c < g.i` evaluate to false, has passed the callback for every index in [0, g.i).
func c10visitsAll(c *core.Check) {
	fd := c.Prog.FuncDecl(fastgoRel, "bitsetCodeGen.GenIfNotSet")
	key := fastgoRel + ".(bitsetCodeGen).GenIfNotSet"
	if fd == nil {
		c.Unknown("anchor", key, "", "missing")
		return
	}
	info := c.Prog.Pkg(fastgoRel).TypesInfo
	// the callback parameter
	var cb types.Object
	for _, f := range fd.Type.Params.List {
		if _, ok := f.Type.(*ast.FuncType); ok && len(f.Names) == 1 {
			cb = info.Defs[f.Names[0]]
		}
	}
	if cb == nil {
		c.Unknown("bitset-visits-all", key, c.Prog.Rel(fd.Pos()), "no callback parameter")
		return
	}
	// counters: identifiers X in cb(w, m[X])
	counterOf := func(call *ast.CallExpr) types.Object {
		id, ok := call.Fun.(*ast.Ident)
		if !ok || info.Uses[id] != cb || len(call.Args) != 2 {
			return nil
		}
		ix, ok := call.Args[1].(*ast.IndexExpr)
		if !ok {
			return nil
		}
		x, ok := ix.Index.(*ast.Ident)
		if !ok {
			return nil
		}
		return info.Uses[x]
	}
	counters := map[types.Object]bool{}
	ast.Inspect(fd.Body, func(n ast.Node) bool {
		if call, ok := n.(*ast.CallExpr); ok {
			if o := counterOf(call); o != nil {
				counters[o] = true
			}
		}
		return true
	})
	if len(counters) == 0 {
		c.Bad("bitset-visits-all", key+"/callback", c.Prog.Rel(fd.Pos()), "GenIfNotSet never calls its callback with an element: no required-field test is generated")
		return
	}
	recvName := "g"
	if fd.Recv != nil && len(fd.Recv.List) == 1 && len(fd.Recv.List[0].Names) == 1 {
		recvName = fd.Recv.List[0].Names[0].Name
	}
	isBound := func(e ast.Expr, v types.Object) bool {
		be, ok := ast.Unparen(e).(*ast.BinaryExpr)
		if !ok || be.Op != token.LSS {
			return false
		}
		x, ok := be.X.(*ast.Ident)
		if !ok || info.Uses[x] != v {
			return false
		}
		// the bound is the element counter field `i` of a bitsetCodeGen, whatever the variable is called
		if se, isSel := ast.Unparen(be.Y).(*ast.SelectorExpr); isSel && se.Sel.Name == "i" {
			if sel, okSel := info.Selections[se]; okSel && sel.Kind() == types.FieldVal && strings.HasSuffix(sel.Recv().String(), "bitsetCodeGen") {
				return true
			}
		}
		return rules.ExprString(be.Y) == recvName+".i"
	}
	g := rules.CFG(info, fd.Body, nil)
	var ordered []types.Object
	for v := range counters {
		ordered = append(ordered, v)
	}
	sort.Slice(ordered, func(i, j int) bool { return ordered[i].Pos() < ordered[j].Pos() })
	n := 0
	for _, v := range ordered {
		n++
		vkey := fmt.Sprintf("%s/counter %s#%d", key, v.Name(), n)
		where := c.Prog.Rel(v.Pos())
		// (1) starts at 0
		startsZero := false
		ast.Inspect(fd.Body, func(nd ast.Node) bool {
			if as, ok := nd.(*ast.AssignStmt); ok && as.Tok == token.DEFINE && len(as.Lhs) == 1 {
				if id, ok := as.Lhs[0].(*ast.Ident); ok && info.Defs[id] == v {
					if k, ok := rules.ConstInt(info, as.Rhs[0]); ok && k == 0 {
						startsZero = true
					}
				}
			}
			return true
		})
		// (2) every modification is the post `v++` of a loop whose body calls the callback for m[v] unconditionally first
		modsOK := true
		var why string
		ast.Inspect(fd.Body, func(nd ast.Node) bool {
			switch x := nd.(type) {
			case *ast.ForStmt:
				if inc, ok := x.Post.(*ast.IncDecStmt); ok && inc.Tok == token.INC {
					if id, ok := inc.X.(*ast.Ident); ok && info.Uses[id] == v {
						called := false
						for _, s := range x.Body.List {
							if es, ok := s.(*ast.ExprStmt); ok {
								if call, ok := es.X.(*ast.CallExpr); ok {
									if counterOf(call) == v {
										called = true
										break
									}
									continue // w.f(...) etc.
								}
							}
							break // anything else before the callback (if, continue, …) makes it conditional
						}
						if !called {
							modsOK, why = false, "the loop at "+c.Prog.Rel(x.Pos())+" advances "+v.Name()+" without an unconditional callback for that element"
						}
					}
				}
			case *ast.IncDecStmt:
				if id, ok := x.X.(*ast.Ident); ok && info.Uses[id] == v {
					// must be some loop's post
					isPost := false
					ast.Inspect(fd.Body, func(m ast.Node) bool {
						if fs, ok := m.(*ast.ForStmt); ok && fs.Post == x {
							isPost = true
						}
						return true
					})
					if !isPost || x.Tok != token.INC {
						modsOK, why = false, v.Name()+" is modified outside a loop post statement at "+c.Prog.Rel(x.Pos())
					}
				}
			case *ast.AssignStmt:
				for _, l := range x.Lhs {
					if id, ok := l.(*ast.Ident); ok && info.Uses[id] == v {
						modsOK, why = false, v.Name()+" is reassigned at "+c.Prog.Rel(x.Pos())
					}
				}
			}
			return true
		})
		// (3) every exit reachable after the definition last saw `v < g.i` false
		exitOK, exitWhy := exitsEstablish(c, g, info, v, isBound)
		ok := startsZero && modsOK && exitOK
		bad := why
		if !startsZero {
			bad = v.Name() + " does not start at 0"
		} else if modsOK && !exitOK {
			bad = exitWhy
		}
		c.Decide(ok, "bitset-visits-all", vkey, where, "counter starts at 0, advances only past elements it reported, and every exit follows a failed `"+v.Name()+" < "+recvName+".i`: every registered element gets its test",
			"cannot establish that every registered element is tested: "+bad+" — FastRead would accept a message that lacks some required field")
	}
	c.Min("bitset-visits-all", 2)
}

// exitsEstablish explores the CFG from the block defining v; state = whether `v < g.i` was last seen false.
func exitsEstablish(c *core.Check, g *cfg.CFG, info *types.Info, v types.Object, isBound func(ast.Expr, types.Object) bool) (bool, string) {
	defBlock := -1
	for _, b := range g.Blocks {
		for _, nd := range b.Nodes {
			ast.Inspect(nd, func(x ast.Node) bool {
				if id, ok := x.(*ast.Ident); ok && info.Defs[id] == v {
					defBlock = int(b.Index)
				}
				return true
			})
		}
	}
	if defBlock < 0 {
		return false, "definition of " + v.Name() + " not found in the control-flow graph"
	}
	type st struct {
		b   int32
		est bool
	}
	seen := map[st]bool{}
	var bad string
	var visit func(b *cfg.Block, est bool, fromDef bool)
	visit = func(b *cfg.Block, est bool, fromDef bool) {
		k := st{b.Index, est}
		if seen[k] && !fromDef {
			return
		}
		seen[k] = true
		for _, nd := range b.Nodes {
			if inc, ok := nd.(*ast.IncDecStmt); ok {
				if id, ok := inc.X.(*ast.Ident); ok && info.Uses[id] == v {
					est = false
				}
			}
			if _, ok := nd.(*ast.ReturnStmt); ok && !est {
				bad = "the return at " + c.Prog.Rel(nd.Pos()) + " can be reached with " + v.Name() + " < g.i"
			}
		}
		if len(b.Succs) == 0 {
			if !est && b.Live {
				isRet := false
				for _, nd := range b.Nodes {
					if _, ok := nd.(*ast.ReturnStmt); ok {
						isRet = true
					}
				}
				if !isRet {
					pos := "the end of the function"
					if len(b.Nodes) > 0 {
						pos = "the end of the function (after " + c.Prog.Rel(b.Nodes[len(b.Nodes)-1].Pos()) + ")"
					}
					bad = pos + " can be reached with " + v.Name() + " < g.i"
				}
			}
			return
		}
		if len(b.Succs) == 2 && len(b.Nodes) > 0 {
			if cond, ok := b.Nodes[len(b.Nodes)-1].(ast.Expr); ok && isBound(cond, v) {
				visit(b.Succs[0], false, false)
				visit(b.Succs[1], true, false)
				return
			}
		}
		for _, s := range b.Succs {
			visit(s, est, false)
		}
	}
	visit(g.Blocks[defBlock], false, true)
	if bad != "" {
		return false, bad
	}
	return true, ""
}

var _ = strings.Contains

// c10elemTypes: after semantic resolution a *parser.Type that names a typedef of a container has Category Map/List/Set but
// nil KeyType/ValueType; the read/write context resolves typedefs for its KeyCtx/ValCtx. The fastgo emitters therefore may
// not read Type.KeyType/ValueType, except at the tabled sites (nil-guarded shortcuts whose fallback computes the same).
var c10ElemTypeReads = map[string]string{}

func c10elemTypes(c *core.Check) {
	pk := c.Prog.Pkg(fastgoRel)
	info := pk.TypesInfo
	seen := map[string]bool{}
	for _, f := range pk.Syntax {
		if strings.HasSuffix(c.Prog.Fset.File(f.Pos()).Name(), "_test.go") {
			continue
		}
		for _, d := range f.Decls {
			fd, ok := d.(*ast.FuncDecl)
			if !ok || fd.Body == nil {
				continue
			}
			var reads []*ast.SelectorExpr
			ast.Inspect(fd.Body, func(n ast.Node) bool {
				se, ok := n.(*ast.SelectorExpr)
				if !ok || (se.Sel.Name != "KeyType" && se.Sel.Name != "ValueType") {
					return true
				}
				if tv, ok := info.Types[se.X]; ok && strings.HasSuffix(tv.Type.String(), "parser.Type") {
					reads = append(reads, se)
				}
				return true
			})
			if len(reads) == 0 {
				continue
			}
			key := core.FuncKey(fastgoRel, fd) + "/reads Type.KeyType|ValueType"
			seen[fd.Name.Name] = true
			reason, tabled := c10ElemTypeReads[fd.Name.Name]
			if !tabled {
				c.Bad("elem-type-from-context", key, c.Prog.Rel(reads[0].Pos()), fd.Name.Name+" reads "+rules.ExprString(reads[0])+": for a field declared through a typedef of a container this is nil (the element types are only available from rwctx.KeyCtx/ValCtx), so the emitter crashes or takes the wrong decision for such fields")
				continue
			}
			// tabled: every read must sit under a nil test of the same expression
			guarded := true
			for _, r := range reads {
				txt := rules.ExprString(r)
				ok := false
				ast.Inspect(fd.Body, func(n ast.Node) bool {
					is, isIf := n.(*ast.IfStmt)
					if !isIf {
						return true
					}
					if rules.ExprString(is.Cond) == txt+" != nil" && (is.Cond.Pos() <= r.Pos() && r.End() <= is.Body.End()) {
						ok = true
					}
					return true
				})
				if !ok {
					guarded = false
				}
			}
			c.Decide(guarded, "elem-type-from-context", key, c.Prog.Rel(reads[0].Pos()), "tabled: "+reason, fd.Name.Name+" reads the element type of a possibly typedef'd container without the nil test the table entry relies on")
		}
	}
	for name := range c10ElemTypeReads {
		if !seen[name] {
			c.OKTrivial("elem-type-from-context", fastgoRel+"."+name+"/reads Type.KeyType|ValueType", "", "tabled site no longer reads the fields")
		}
	}
	c.OK("elem-type-from-context", fastgoRel+"/all-other-functions", fastgoRel, "no other fastgo function reads Type.KeyType/ValueType")
}
