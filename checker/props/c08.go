package props

import (
	"fmt"
	"go/ast"
	"go/token"
	"strings"

	"verif/checker/core"
	"verif/checker/rules"
	"verif/checker/tmpl"
)

func init() { register("C08", c08) }

type funcInfo struct {
	Idx                    int
	Name, GoName           string // placeholders: IDL name (inside string literals), Go method name
	Oneway, Void           bool
	KnownOneway, KnownVoid bool
	NArgs, NThrows         int
	ThrowsKnown            bool
}

func functionsOf(r *rendered) []funcInfo {
	dot, ok := r.R.Dot.(*tmpl.Obj)
	if !ok {
		return nil
	}
	l, ok := dot.Peek("functions").(*tmpl.List)
	if !ok {
		return nil
	}
	var out []funcInfo
	for i, e := range l.Elems {
		fo, ok := e.(*tmpl.Obj)
		if !ok {
			continue
		}
		fi := funcInfo{Idx: i, Name: tmpl.Ident(fo.Path + ".Function.Name"), GoName: tmpl.Ident(fo.Path + ".name")}
		if b, ok := fo.Peek("Function", "Oneway").(bool); ok {
			fi.Oneway, fi.KnownOneway = b, true
		}
		if b, ok := fo.Peek("Function", "Void").(bool); ok {
			fi.Void, fi.KnownVoid = b, true
		}
		if a, ok := fo.Peek("arguments").(*tmpl.List); ok {
			fi.NArgs = len(a.Elems)
		}
		if a, ok := fo.Peek("throws").(*tmpl.List); ok {
			fi.NThrows = len(a.Elems)
			fi.ThrowsKnown = true
		}
		out = append(out, fi)
	}
	return out
}

func c08(c *core.Check) {
	c.Explain = "constants + TMPL/PATH. (i) buildSynthesized (AST + constant evaluation): the args struct takes the function's arguments unchanged (IDL ids); a result struct exists iff the function is not oneway; its first field is {ID: 0, Name: \"success\", Requiredness: Optional, Type: FunctionType} iff the function is not void; the throws follow it. " +
		"(ii) every abstract rendering of ThriftClient (void/oneway x 0..1 args x 0..1 throws x extends): one Call(ctx, \"<IDL name>\", &_args, nil iff oneway else &_result); every argument is copied into _args; each declared exception is tested and returned before the success value; non-void returns _result.GetSuccess(). " +
		"(iii) every rendering of ThriftProcessor: the dispatch key, the client's call name and every WriteMessageBegin name are the same IDL-name placeholder (not the Go name); success path: WriteMessageBegin(name, thrift.REPLY, seqId), result.Write, WriteMessageEnd, Flush in this order (go/cfg typestate); a failed args.Read and an undeclared handler error write an EXCEPTION message; the type switch has one case per throws field assigning that result field; non-void stores retval into result.Success; oneway functions never touch oprot; without extends Process answers an unknown method with Skip(STRUCT) + EXCEPTION, with extends the base processor is embedded and constructed. " +
		"(iv) the base of `extends inc.Y` is looked up in the scope of the include the reference points to. NOT decided: values, seq-id checking inside apache TStandardClient, streaming methods (they panic by design)."
	c.RuleText = "one obligation per (rule, unit) over all distinct renderings plus one per buildSynthesized clause"
	c.Assume = []string{"apache/thrift's TStandardClient.Call and TProcessor contract", "args/result structs are rendered by the StructLike templates (C02)"}
	c08synth(c)
	c08baseScope(c)
	c08successNameFree(c)
	st := tmplEngine(c)
	if st == nil {
		return
	}
	g := "generator/golang"
	fixed := map[string]int{"Features.NoProcessor": 0}
	units := []unit{
		{Set: "default", Def: "ThriftClient", DotRel: g, DotType: "Service", Lists: []int{0, 1, 2}, Cats: []string{"I32", "Struct"}, Stub: []string{"StructLike"}, Fixed: fixed},
		{Set: "default", Def: "ThriftProcessor", DotRel: g, DotType: "Service", Lists: []int{0, 1, 2}, Cats: []string{"I32", "Struct"}, Stub: []string{"StructLike"}, Fixed: fixed, MaxRuns: 120000},
	}
	agg := newAggregate()
	runUnits(c, st, units, func(r *rendered) {
		k := r.U.key()
		if _, gf := r.R.Err.(*tmpl.GenFailure); gf {
			return
		}
		if r.R.Err != nil || r.ParseErr != nil {
			agg.check("renders", k)
			agg.fail("renders", k, fmt.Sprintf("under [%s]: %v %v", r.R.Valuation, r.R.Err, r.ParseErr))
			return
		}
		for ck, cv := range r.R.Choices {
			if strings.HasSuffix(ck, "streaming.IsStreaming") && cv == 1 {
				return // streaming methods panic by design; out of the statement
			}
		}
		fns := functionsOf(r)
		switch r.U.Def {
		case "ThriftClient":
			c08client(agg, r, fns)
		case "ThriftProcessor":
			c08processor(agg, r, fns)
		}
	})
	agg.flush(c, map[string]string{
		"client-call":                             "Call(ctx, IDL name, &_args, nil iff oneway); arguments copied; exceptions before success",
		"processor-dispatch":                      "dispatch key = IDL name placeholder, registered once per function",
		"processor-reply":                         "REPLY framing on the success path; EXCEPTION on read failure and undeclared error; one case per throws; oneway silent",
		"processor-unknown":                       "unknown method: Skip(STRUCT) + EXCEPTION; base processor embedded iff extends",
		"processor-dispatches-every-request-kind": "before the dispatch lookup Process gives up only on a ReadMessageBegin error; CALL and ONEWAY both reach the handler",
		"throws-same-type-compiles":               "the exception dispatch still compiles when two throws fields share a type",
	})
	for _, k := range []string{"client-call", "processor-dispatch", "processor-reply", "processor-unknown"} {
		c.Min(k, 1)
	}
}

func c08synth(c *core.Check) {
	fd := c.Prog.FuncDecl(golangRel, "buildSynthesized")
	key := "generator/golang.buildSynthesized"
	if fd == nil {
		c.Unknown("anchor", key, "", "missing")
		return
	}
	info := c.Prog.Pkg(golangRel).TypesInfo
	where := c.Prog.Rel(fd.Pos())
	// argType literal: Fields: v.Arguments
	argsOK := false
	var successLit *ast.CompositeLit
	var successGuard, resGuard ast.Expr
	var throwsAppendAfter bool
	var successPos, throwsPos token.Pos
	var walk func(stmts []ast.Stmt, guards []ast.Expr)
	walk = func(stmts []ast.Stmt, guards []ast.Expr) {
		for _, s := range stmts {
			switch x := s.(type) {
			case *ast.IfStmt:
				walk(x.Body.List, append(append([]ast.Expr{}, guards...), x.Cond))
			case *ast.AssignStmt:
				ast.Inspect(x, func(n ast.Node) bool {
					cl, ok := n.(*ast.CompositeLit)
					if !ok {
						return true
					}
					tn := rules.NamedOf(info.Types[cl].Type)
					if tn == nil {
						return true
					}
					switch tn.Obj().Name() {
					case "StructLike":
						for _, e := range cl.Elts {
							kv, ok := e.(*ast.KeyValueExpr)
							if !ok {
								continue
							}
							if kv.Key.(*ast.Ident).Name == "Fields" && rules.ExprString(kv.Value) == "v.Arguments" {
								argsOK = true
							}
							if kv.Key.(*ast.Ident).Name == "Name" {
								if be, ok := kv.Value.(*ast.BinaryExpr); ok {
									if s, _ := rules.ConstString(info, be.Y); s == "_result" && len(guards) > 0 {
										resGuard = guards[len(guards)-1]
									}
								}
							}
						}
					case "Field":
						successLit = cl
						if len(guards) > 0 {
							successGuard = guards[len(guards)-1]
						}
						successPos = cl.Pos()
					}
					return true
				})
				if call, ok := x.Rhs[0].(*ast.CallExpr); ok && rules.IsBuiltin(info, call, "append") && call.Ellipsis.IsValid() {
					if rules.ExprString(call.Args[len(call.Args)-1]) == "v.Throws" {
						throwsPos = x.Pos()
					}
				}
			}
		}
	}
	walk(fd.Body.List, nil)
	throwsAppendAfter = successPos.IsValid() && throwsPos.IsValid() && throwsPos > successPos
	c.Decide(argsOK, "synth", key+"/args", where, "args struct Fields = v.Arguments (IDL ids unchanged)", "the args struct no longer takes the function's arguments unchanged")
	c.Decide(resGuard != nil && rules.ExprString(resGuard) == "!v.Oneway", "synth", key+"/result-iff-not-oneway", where, "result struct built iff !v.Oneway", "result struct is not guarded by !v.Oneway")
	if successLit == nil {
		c.Bad("synth", key+"/success", where, "no synthesized success field")
		return
	}
	got := map[string]string{}
	for _, e := range successLit.Elts {
		if kv, ok := e.(*ast.KeyValueExpr); ok {
			k := kv.Key.(*ast.Ident).Name
			if tv := info.Types[kv.Value]; tv.Value != nil {
				got[k] = tv.Value.ExactString()
			} else {
				got[k] = rules.ExprString(kv.Value)
			}
		}
	}
	reqOK := false
	if v, ok := got["Requiredness"]; ok {
		// parser.FieldType_Optional
		if k, ok := c.Prog.Pkg("parser").Types.Scope().Lookup("FieldType_Optional").(interface {
			Val() interface{ ExactString() string }
		}); ok {
			_ = k
		}
		reqOK = v == constExact(c, "parser", "FieldType_Optional")
	}
	c.Decide(got["ID"] == "0" && got["Name"] == "\"success\"" && reqOK && got["Type"] == "v.FunctionType", "synth", key+"/success", where,
		"success = {ID: 0, Name: \"success\", Requiredness: Optional, Type: v.FunctionType}", fmt.Sprintf("synthesized success field is %v; the wire contract needs id 0, name success, optional, the function's type", got))
	c.Decide(successGuard != nil && rules.ExprString(successGuard) == "!v.Void", "synth", key+"/success-iff-not-void", where, "added iff !v.Void", "success field is not guarded by !v.Void")
	c.Decide(throwsAppendAfter, "synth", key+"/throws-after-success", where, "v.Throws appended after the success field", "declared exceptions are not appended after success")
}

func constExact(c *core.Check, rel, name string) string {
	pk := c.Prog.Pkg(rel)
	if pk == nil {
		return "?"
	}
	if k, ok := constInt(pk.Types.Scope().Lookup(name)); ok {
		return fmt.Sprint(k)
	}
	return "?"
}

func methodsNamed(f *ast.File, name string) []*ast.FuncDecl {
	var out []*ast.FuncDecl
	for _, d := range f.Decls {
		if fd, ok := d.(*ast.FuncDecl); ok && fd.Name.Name == name {
			out = append(out, fd)
		}
	}
	return out
}

func c08client(agg *aggregate, r *rendered, fns []funcInfo) {
	k := r.U.key()
	for _, f := range fns {
		agg.check("client-call", k)
		fail := func(msg string) {
			agg.fail("client-call", k, fmt.Sprintf("under [%s] function %d: %s", r.R.Valuation, f.Idx, msg))
		}
		var fd *ast.FuncDecl
		for _, m := range methodsNamed(r.P.File, f.GoName) {
			if m.Recv != nil && strings.HasSuffix(rules.ExprText(m.Recv.List[0].Type), "Client") {
				fd = m
			}
		}
		if fd == nil {
			fail("no client method rendered")
			continue
		}
		calls := callsNamed(fd.Body, "", "Call")
		if len(calls) != 1 || len(calls[0].Args) != 4 {
			fail(fmt.Sprintf("%d Call invocations (expected one with 4 arguments)", len(calls)))
			continue
		}
		call := calls[0]
		if nm := rules.ExprText(call.Args[1]); nm != "\""+f.Name+"\"" {
			fail(fmt.Sprintf("the call is sent as %s, the IDL name placeholder is %q", nm, f.Name))
		}
		if a := rules.ExprText(call.Args[2]); a != "&_args" {
			fail("third Call argument is " + a + ", expected &_args")
		}
		res := rules.ExprText(call.Args[3])
		if f.KnownOneway && f.Oneway && f.KnownVoid && f.Void {
			if res != "nil" {
				fail("oneway call waits for a result (" + res + ")")
			}
		} else if res != "&_result" {
			fail("non-oneway call passes " + res + " instead of &_result: the reply is never decoded")
		}
		// arguments copied
		nAssign := 0
		ast.Inspect(fd.Body, func(n ast.Node) bool {
			if as, ok := n.(*ast.AssignStmt); ok && len(as.Lhs) == 1 && strings.HasPrefix(rules.ExprText(as.Lhs[0]), "_args.") {
				nAssign++
			}
			return true
		})
		if nAssign != f.NArgs {
			fail(fmt.Sprintf("%d argument(s) copied into _args, the function has %d", nAssign, f.NArgs))
		}
		// exceptions before success
		if res == "&_result" {
			if !f.ThrowsKnown {
				fail("the method never looks at the function's declared exceptions: a thrown exception is silently dropped")
			}
			cases := 0
			ast.Inspect(fd.Body, func(n ast.Node) bool {
				if cc, ok := n.(*ast.CaseClause); ok && len(cc.List) == 1 {
					be, ok := cc.List[0].(*ast.BinaryExpr)
					if ok && be.Op == token.NEQ && strings.HasPrefix(rules.ExprText(be.X), "_result.") && rules.ExprText(be.Y) == "nil" && len(cc.Body) == 1 {
						if rs, ok := cc.Body[0].(*ast.ReturnStmt); ok && rules.ExprText(rs.Results[len(rs.Results)-1]) == rules.ExprText(be.X) {
							cases++
						}
					}
				}
				return true
			})
			if cases != f.NThrows {
				fail(fmt.Sprintf("%d declared exception(s) are tested and returned, the function throws %d", cases, f.NThrows))
			}
			last := fd.Body.List[len(fd.Body.List)-1]
			rs, ok := last.(*ast.ReturnStmt)
			if !ok {
				fail("method does not end in a return")
			} else if f.KnownVoid && !f.Void {
				if len(rs.Results) != 2 || rules.ExprText(rs.Results[0]) != "_result.GetSuccess()" || rules.ExprText(rs.Results[1]) != "nil" {
					fail("non-void method does not end with `return _result.GetSuccess(), nil`")
				}
			}
		}
	}
}

var replyAutomaton = rules.NewAutomaton("P0",
	"P0 MB:REPLY P1", "P1 RESULT-WRITE P2", "P2 ME P3", "P3 FLUSH P4", "P4 RET-TRUE P5",
	"P0 MB:EXCEPTION X1", "X1 X-WRITE X2", "X2 ME X3", "X3 FLUSH X4", "X4 RET-ERR P5", "P0 RET-ERR P5", "P4 RET-ERR P5")

func procEvents(n ast.Node) []string {
	var out []string
	if rs, ok := n.(*ast.ReturnStmt); ok {
		if len(rs.Results) == 2 && rules.ExprText(rs.Results[0]) == "true" && rules.ExprText(rs.Results[1]) == "err" {
			return []string{"RET-TRUE"}
		}
		return []string{"RET-ERR"}
	}
	for _, call := range rules.NodeCalls(n) {
		recv, name, _, ok := rules.SelectorCall(call)
		if !ok {
			continue
		}
		switch {
		case recv == "oprot" && name == "WriteMessageBegin" && len(call.Args) == 3:
			out = append(out, "MB:"+thriftConstArg(call.Args[1]))
		case recv == "oprot" && name == "WriteMessageEnd":
			out = append(out, "ME")
		case recv == "oprot" && name == "Flush":
			out = append(out, "FLUSH")
		case recv == "result" && name == "Write":
			out = append(out, "RESULT-WRITE")
		case recv == "x" && name == "Write":
			out = append(out, "X-WRITE")
		}
	}
	return out
}

// c08sameTypeThrows: two throws fields may name the same exception type (`throws (1: E a, 2: E b)` is legal IDL). The
// rendering is re-checked with the type of every later throws field identified with the first one: whatever construct
// dispatches on the exception type must still compile (a type switch with one case per field does not: duplicate case).
func c08sameTypeThrows(agg *aggregate, r *rendered) {
	k := r.U.key()
	var labels []string
	ast.Inspect(r.P.File, func(n ast.Node) bool {
		ts, ok := n.(*ast.TypeSwitchStmt)
		if !ok {
			return true
		}
		var ls []string
		for _, cc := range ts.Body.List {
			for _, e := range cc.(*ast.CaseClause).List {
				ls = append(ls, rules.ExprText(e))
			}
		}
		if len(ls) >= 2 && len(labels) == 0 {
			labels = ls
		}
		return true
	})
	if len(labels) < 2 {
		return
	}
	agg.check("throws-same-type-compiles", k)
	// labels that mention nothing but the field's type collapse into one when the types are equal; Go rejects a type
	// switch with two identical cases
	typeOnly := true
	for _, l := range labels {
		if !strings.Contains(l, "typeName") && !strings.Contains(l, "TypeName") {
			typeOnly = false
		}
	}
	// the template handles equal types when it compares them: the abstract rendering then carries a choice `eq:<type a>==<type b>`
	compares := false
	for ck := range r.R.Choices {
		if strings.HasPrefix(ck, "eq:") && strings.Contains(ck, "throws") && strings.Contains(ck, "ypeName") {
			compares = true
		}
	}
	// a comparison of the *spelled* Go type names cannot see that `typedef E ME` makes *ME the same Go type as *E when
	// typedefs are emitted as aliases (the default): the comparison has to be on resolved types, or the rendering has to
	// consult the aliasing option
	if typeOnly && compares {
		agg.check("throws-alias-type-compiles", k)
		if _, consulted := r.R.Choices["Features.TypedefAsTypeAlias"]; !consulted {
			agg.fail("throws-alias-type-compiles", k, "under ["+r.R.Valuation+"]: equal exception types are recognised by comparing the spelled Go type names of the throws fields, and the aliasing of typedefs is never consulted: `typedef E ME … throws (1: E a, 2: ME b)` yields `case *E:` and `case *ME:` with `type ME = E` — duplicate case in type switch, the generated package does not compile")
		}
	}
	if typeOnly && !compares {
		agg.fail("throws-same-type-compiles", k, "under ["+r.R.Valuation+"]: the processor dispatches a handler error with a type switch that has one case per throws field, labelled with the field's type only ("+strings.Join(labels, ", ")+"), and nothing compares the types: two throws fields of the same exception type give two identical cases, thriftgo exits 0 and the generated package does not compile (duplicate case in type switch)")
	}
}

func c08processor(agg *aggregate, r *rendered, fns []funcInfo) {
	k := r.U.key()
	c08sameTypeThrows(agg, r)
	extends := r.R.Choices["nonempty:x.Service.Extends"] == 1
	// dispatch registration
	agg.check("processor-dispatch", k)
	var ctor *ast.FuncDecl
	for _, d := range r.P.File.Decls {
		if fd, ok := d.(*ast.FuncDecl); ok && fd.Recv == nil && strings.HasPrefix(fd.Name.Name, "New") && strings.HasSuffix(fd.Name.Name, "Processor") {
			ctor = fd
		}
	}
	if ctor == nil {
		agg.fail("processor-dispatch", k, "under ["+r.R.Valuation+"]: no processor constructor")
		return
	}
	regs := callsNamed(ctor.Body, "self", "AddToProcessorMap")
	if len(regs) != len(fns) {
		agg.fail("processor-dispatch", k, fmt.Sprintf("under [%s]: %d functions registered, the service declares %d", r.R.Valuation, len(regs), len(fns)))
	}
	for i, reg := range regs {
		if i < len(fns) && rules.ExprText(reg.Args[0]) != "\""+fns[i].Name+"\"" {
			agg.fail("processor-dispatch", k, fmt.Sprintf("under [%s]: function %d is registered under %s, the client calls %q", r.R.Valuation, i, rules.ExprText(reg.Args[0]), fns[i].Name))
		}
	}
	// unknown method / extends
	agg.check("processor-unknown", k)
	var base *ast.FuncDecl
	for _, m := range methodsNamed(r.P.File, "Process") {
		if len(m.Type.Params.List) == 2 { // (ctx, iprot/oprot)
			base = m
		}
	}
	if extends {
		if base != nil {
			agg.fail("processor-unknown", k, "under ["+r.R.Valuation+"]: an extending processor defines its own Process; inherited methods would not be dispatched")
		}
		if !strings.Contains(r.R.Text, "Processor(handler) }") {
			agg.fail("processor-unknown", k, "under ["+r.R.Valuation+"]: the base processor is not constructed with the handler")
		}
	} else if base == nil {
		agg.fail("processor-unknown", k, "under ["+r.R.Valuation+"]: no Process method")
	} else {
		t := r.P.Src[r.P.Fset.Position(base.Pos()).Offset:r.P.Fset.Position(base.End()).Offset]
		for _, need := range []string{"iprot.Skip(thrift.STRUCT)", "thrift.UNKNOWN_METHOD", "oprot.WriteMessageBegin(name, thrift.EXCEPTION, seqId)", "return false, x"} {
			if !strings.Contains(t, need) {
				agg.fail("processor-unknown", k, "under ["+r.R.Valuation+"]: the unknown-method path lacks `"+need+"`")
			}
		}
		// every request kind reaches the dispatch: before the lookup, Process may give up only because ReadMessageBegin
		// failed; a filter on the message type has to let both request kinds of the protocol (CALL and ONEWAY) through
		agg.check("processor-dispatches-every-request-kind", k)
		var errVar, typVar string
		for _, st := range base.Body.List {
			if as, ok := st.(*ast.AssignStmt); ok && len(as.Rhs) == 1 && len(as.Lhs) == 4 {
				if _, name, _, ok := rules.SelectorCall(as.Rhs[0]); ok && name == "ReadMessageBegin" {
					typVar, errVar = rules.ExprText(as.Lhs[1]), rules.ExprText(as.Lhs[3])
				}
				continue
			}
			is, ok := st.(*ast.IfStmt)
			if !ok {
				continue
			}
			isLookup := false
			ast.Inspect(is, func(m ast.Node) bool {
				if m == is.Body {
					return false
				}
				if _, name, _, ok := rules.SelectorCall(m); ok && name == "GetProcessorFunction" {
					isLookup = true
				}
				return true
			})
			if isLookup {
				break
			}
			exits := false
			for _, b := range is.Body.List {
				if _, ok := b.(*ast.ReturnStmt); ok {
					exits = true
				}
			}
			if !exits {
				continue
			}
			cond := strings.ReplaceAll(rules.ExprText(is.Cond), " ", "")
			if errVar != "" && cond == errVar+"!=nil" {
				continue
			}
			// Thrift message types (protocol constants): CALL 1, REPLY 2, EXCEPTION 3, ONEWAY 4
			for _, req := range []struct {
				name string
				v    int64
			}{{"CALL", 1}, {"ONEWAY", 4}} {
				env := map[string]tint{typVar: {v: req.v, bits: 32, signed: true}, "thrift.CALL": {v: 1, bits: 32, signed: true, untyp: true}, "thrift.REPLY": {v: 2, bits: 32, signed: true, untyp: true}, "thrift.EXCEPTION": {v: 3, bits: 32, signed: true, untyp: true}, "thrift.ONEWAY": {v: 4, bits: 32, signed: true, untyp: true}}
				rejected, err := evalCond(r.P.Info, is.Cond, env)
				if err != nil {
					agg.fail("processor-dispatches-every-request-kind", k, fmt.Sprintf("under [%s]: Process returns before the dispatch under `%s`, which is neither the ReadMessageBegin error test nor a decidable message-type test (%v)", r.R.Valuation, rules.ExprText(is.Cond), err))
					break
				}
				if rejected {
					agg.fail("processor-dispatches-every-request-kind", k, fmt.Sprintf("under [%s]: Process returns before the dispatch under `%s`, which holds for a %s request: such requests never reach the handler (and a oneway request is answered with a message the caller does not read)", r.R.Valuation, rules.ExprText(is.Cond), req.name))
				}
			}
		}
		g := rules.CFG(r.P.Info, base.Body, nil)
		missed, targets := rules.MustPass(g, func(n ast.Node) bool {
			_, name, _, ok := rules.SelectorCall(n)
			return ok && name == "GetProcessorFunction"
		}, func(n ast.Node) bool {
			recv, name, _, ok := rules.SelectorCall(n)
			return ok && recv == "iprot" && name == "Skip"
		})
		if targets == 0 || len(missed) > 0 {
			agg.fail("processor-unknown", k, "under ["+r.R.Valuation+"]: the unknown-method answer is not preceded by the dispatch lookup")
		}
	}
	// per function Process
	for _, f := range fns {
		agg.check("processor-reply", k)
		fail := func(msg string) {
			agg.fail("processor-reply", k, fmt.Sprintf("under [%s] function %d: %s", r.R.Valuation, f.Idx, msg))
		}
		var fd *ast.FuncDecl
		for _, m := range methodsNamed(r.P.File, "Process") {
			if len(m.Type.Params.List) == 3 && strings.Contains(rules.ExprText(m.Recv.List[0].Type), f.GoName) {
				fd = m
			}
		}
		if fd == nil {
			fail("no per-function Process method")
			continue
		}
		// names
		for _, mb := range callsNamed(fd.Body, "oprot", "WriteMessageBegin") {
			if rules.ExprText(mb.Args[0]) != "\""+f.Name+"\"" {
				fail("a message is written under the name " + rules.ExprText(mb.Args[0]) + " instead of the IDL name")
			}
		}
		oneway := f.KnownOneway && f.Oneway
		nOprot := 0
		ast.Inspect(fd.Body, func(n ast.Node) bool {
			if recv, _, _, ok := rules.SelectorCall(n); ok && recv == "oprot" {
				nOprot++
			}
			return true
		})
		if oneway {
			if nOprot != 0 {
				fail("a oneway function writes to oprot")
			}
			continue
		}
		if !f.ThrowsKnown {
			fail("the processor never looks at the function's declared exceptions")
		}
		g := rules.CFG(r.P.Info, fd.Body, nil)
		for _, v := range rules.RunTypestate(g, replyAutomaton, procEvents) {
			fail(v + " (reply framing: MessageBegin(REPLY) result.Write MessageEnd Flush return true | MessageBegin(EXCEPTION) x.Write MessageEnd Flush return err)")
		}
		// read failure branch writes an exception
		first, ok := findIfInit(fd.Body, "args", "Read")
		if !ok || len(callsNamed(first.Body, "oprot", "WriteMessageBegin")) != 1 {
			fail("a failed args.Read does not answer with an EXCEPTION message")
		}
		// throws type switch
		cases, assigns := 0, 0
		defaultExc := false
		ast.Inspect(fd.Body, func(n ast.Node) bool {
			ts, ok := n.(*ast.TypeSwitchStmt)
			if !ok {
				return true
			}
			for _, cc := range ts.Body.List {
				cl := cc.(*ast.CaseClause)
				if cl.List == nil {
					defaultExc = len(callsNamed(cl, "oprot", "WriteMessageBegin")) == 1
					continue
				}
				cases++
				if len(cl.Body) == 1 {
					if as, ok := cl.Body[0].(*ast.AssignStmt); ok && strings.HasPrefix(rules.ExprText(as.Lhs[0]), "result.") && rules.ExprText(as.Rhs[0]) == "v" {
						assigns++
					}
				}
			}
			return true
		})
		// throws fields whose exception type equals an earlier one share that one's case (a type can only have one)
		distinct := f.NThrows
		for ck, cv := range r.R.Choices {
			if strings.HasPrefix(ck, "eq:") && strings.Contains(ck, fmt.Sprintf("functions_%d__throws", f.Idx)) && strings.Contains(ck, "ypeName") && cv == 1 {
				distinct--
			}
		}
		if cases != distinct || assigns != distinct {
			fail(fmt.Sprintf("%d exception case(s) with %d result assignment(s), the function throws %d exception(s) of %d distinct type(s)", cases, assigns, f.NThrows, distinct))
		}
		if f.NThrows > 0 && !defaultExc {
			fail("an undeclared handler error is not answered with an EXCEPTION message")
		}
		if f.KnownVoid && !f.Void && !strings.Contains(r.R.Text, "result.Success = ") {
			fail("the handler's return value is not stored into result.Success")
		}
	}
}

func findIfInit(body *ast.BlockStmt, recv, name string) (*ast.IfStmt, bool) {
	for _, s := range body.List {
		if is, ok := s.(*ast.IfStmt); ok && is.Init != nil {
			if len(callsNamed(is.Init, recv, name)) == 1 {
				return is, true
			}
		}
	}
	return nil, false
}
