package props

import (
	"fmt"
	"go/ast"
	"go/constant"
	"go/token"
	"go/types"
	"sort"

	"verif/checker/core"
	"verif/checker/rules"
)

// evalCond evaluates a boolean expression over one integer variable: &&, ||, !, comparisons of expressions of the
// evalInt subset; constants are taken from the type checker.
func evalCond(info *types.Info, e ast.Expr, env map[string]tint) (bool, error) {
	switch x := ast.Unparen(e).(type) {
	case *ast.UnaryExpr:
		if x.Op == token.NOT {
			v, err := evalCond(info, x.X, env)
			return !v, err
		}
	case *ast.BinaryExpr:
		switch x.Op {
		case token.LAND, token.LOR:
			a, err := evalCond(info, x.X, env)
			if err != nil {
				return false, err
			}
			b, err := evalCond(info, x.Y, env)
			if err != nil {
				return false, err
			}
			if x.Op == token.LAND {
				return a && b, nil
			}
			return a || b, nil
		case token.LSS, token.LEQ, token.GTR, token.GEQ, token.EQL, token.NEQ:
			side := func(s ast.Expr) (int64, error) {
				if tv, ok := info.Types[s]; ok && tv.Value != nil && tv.Value.Kind() == constant.Int {
					if v, ok := constant.Int64Val(tv.Value); ok {
						return v, nil
					}
				}
				t, err := evalInt(s, env)
				return t.v, err
			}
			a, err := side(x.X)
			if err != nil {
				return false, err
			}
			b, err := side(x.Y)
			if err != nil {
				return false, err
			}
			switch x.Op {
			case token.LSS:
				return a < b, nil
			case token.LEQ:
				return a <= b, nil
			case token.GTR:
				return a > b, nil
			case token.GEQ:
				return a >= b, nil
			case token.EQL:
				return a == b, nil
			default:
				return a != b, nil
			}
		}
	}
	return false, fmt.Errorf("condition %s is outside the evaluated subset", rules.ExprString(e))
}

// headTailPartition: fieldMap keeps the sub-masks of small field ids in the array `head` and all others in the map `tail`.
// Every method that chooses between the two by a condition on the id has to choose identically for every id: an id filed
// under head by SetIfNotExist and looked up in tail by Get is simply not found (the field is treated as masked out or,
// for a black list, as selected). The conditions are closed integer predicates over the id, so they are evaluated for
// every id in [-70000, 70000] (all 16-bit Thrift ids and both sides of every bound) and compared.
func headTailPartition(c *core.Check) {
	rel := "fieldmask"
	pkg := c.Prog.Pkg(rel)
	if pkg == nil {
		c.Unknown("anchor", rel, "", "package missing")
		return
	}
	info := pkg.TypesInfo
	type site struct {
		fn    string
		cond  ast.Expr
		param string
		bits  int
		sgn   bool
		pos   token.Pos
	}
	var sites []site
	c.Prog.AllFuncDecls(rel, func(file *ast.File, fd *ast.FuncDecl) {
		if fd.Recv == nil || fd.Body == nil || len(fd.Recv.List) == 0 {
			return
		}
		rt := info.TypeOf(fd.Recv.List[0].Type)
		if p, ok := rt.(*types.Pointer); ok {
			rt = p.Elem()
		}
		st, ok := rt.Underlying().(*types.Struct)
		if !ok {
			return
		}
		// the struct has one array field and one map field with the same element type, the map keyed by an integer type
		var arr, mp string
		for i := 0; i < st.NumFields(); i++ {
			switch t := st.Field(i).Type().(type) {
			case *types.Array:
				arr = st.Field(i).Name()
			case *types.Map:
				if b, ok := t.Key().Underlying().(*types.Basic); ok && b.Info()&types.IsInteger != 0 {
					mp = st.Field(i).Name()
				}
			}
		}
		if arr == "" || mp == "" || st.NumFields() != 2 {
			return
		}
		uses := func(n ast.Node, field string) (idx string) {
			ast.Inspect(n, func(m ast.Node) bool {
				if ix, ok := m.(*ast.IndexExpr); ok {
					if sel, ok := ix.X.(*ast.SelectorExpr); ok && sel.Sel.Name == field {
						if id, ok := ix.Index.(*ast.Ident); ok {
							idx = id.Name
						}
					}
				}
				return true
			})
			return
		}
		ast.Inspect(fd.Body, func(n ast.Node) bool {
			is, ok := n.(*ast.IfStmt)
			if !ok || is.Else == nil {
				return true
			}
			a, b := uses(is.Body, arr), uses(is.Else, mp)
			if a == "" || a != b {
				return true
			}
			var obj types.Object
			ast.Inspect(is.Cond, func(m ast.Node) bool {
				if id, ok := m.(*ast.Ident); ok && id.Name == a {
					obj = info.Uses[id]
				}
				return true
			})
			if obj == nil {
				return true
			}
			bt, ok := obj.Type().Underlying().(*types.Basic)
			if !ok {
				return true
			}
			bits, sgn, ok := basicInt(bt.Name())
			if !ok {
				return true
			}
			name := fd.Name.Name
			sites = append(sites, site{fn: name, cond: is.Cond, param: a, bits: bits, sgn: sgn, pos: is.Pos()})
			return true
		})
	})
	sort.Slice(sites, func(i, j int) bool { return sites[i].pos < sites[j].pos })
	key := "fieldmask.fieldMap/head~tail"
	if len(sites) < 2 {
		c.Unknown("head-tail-partition-agrees", key, rel+"/storage.go", fmt.Sprintf("expected at least two methods choosing between the array and the map by id, found %d", len(sites)))
		return
	}
	ref := sites[0]
	for _, s := range sites[1:] {
		bad := ""
		for id := int64(-70000); id <= 70000 && bad == ""; id++ {
			r, e1 := evalCond(info, ref.cond, map[string]tint{ref.param: {v: wrap(id, ref.bits, ref.sgn), bits: ref.bits, signed: ref.sgn}})
			v, e2 := evalCond(info, s.cond, map[string]tint{s.param: {v: wrap(id, s.bits, s.sgn), bits: s.bits, signed: s.sgn}})
			if e1 != nil || e2 != nil {
				c.Unknown("head-tail-partition-agrees", key+"/"+s.fn, c.Prog.Rel(s.pos), fmt.Sprintf("cannot evaluate: %v %v", e1, e2))
				bad = "-"
				break
			}
			if r != v {
				bad = fmt.Sprintf("for id %d %s decides [%s]=%v but %s decides [%s]=%v", id, ref.fn, rules.ExprString(ref.cond), r, s.fn, rules.ExprString(s.cond), v)
			}
		}
		if bad == "-" {
			continue
		}
		c.Decide(bad == "", "head-tail-partition-agrees", key+"/"+ref.fn+"~"+s.fn, c.Prog.Rel(s.pos),
			fmt.Sprintf("%s and %s choose array/map identically for every id in [-70000,70000]", ref.fn, s.fn),
			bad+": a sub-mask stored by one method is not found by the other, the field's mask is lost")
	}
	c.Min("head-tail-partition-agrees", 1)
}

var _ = core.Module
