package props

import (
	"fmt"
	"go/ast"
	"go/token"
	"go/types"
	"sort"
	"strings"

	"golang.org/x/tools/go/cfg"

	"verif/checker/core"
	"verif/checker/rules"
)

// c14closedSets (after D73): `$.L[1` — an index or key set that the path's end cuts short — is malformed. Both walkers
// over a path (addPath, GetPath) read the elements of a set in a loop `for it.HasNext()` that `break`s at the closing
// bracket, so the loop has two exits that join: the bracket, and the end of the input.
//
// Rule (go/cfg of each walker, boolean locals tracked as constants along the path): from the exit of a bracket loop
// that is taken when its condition fails (end of input), every path reaches a failing return (a non-nil error for
// addPath, `false` for GetPath) before any statement other than a test of a tracked boolean. A bracket loop without a
// condition has no such exit and discharges the obligation trivially.
func c14closedSets(c *core.Check) {
	const rule = "bracket-set-closed-or-rejected"
	info := c.Prog.Pkg(fmRel).TypesInfo
	total := 0
	for _, fn := range []string{"FieldMask.addPath", "FieldMask.GetPath"} {
		fd := c.Prog.FuncDecl(fmRel, fn)
		key := fmRel + ".(" + strings.Replace(fn, ".", ").", 1) + "/closed-set"
		if fd == nil {
			c.Unknown("anchor", key, "", "missing")
			continue
		}
		// failing return: the last result is not the identifier nil / is the constant false
		sig := info.Defs[fd.Name].Type().(*types.Signature)
		lastIsErr := sig.Results().Len() > 0 && sig.Results().At(sig.Results().Len()-1).Type().String() == "error"
		fails := func(r *ast.ReturnStmt) bool {
			if len(r.Results) == 0 {
				return false
			}
			last := ast.Unparen(r.Results[len(r.Results)-1])
			if lastIsErr {
				if id, ok := last.(*ast.Ident); ok && id.Name == "nil" {
					return false
				}
				return true
			}
			if tv, ok := info.Types[last]; ok && tv.Value != nil {
				return tv.Value.String() == "false"
			}
			return false
		}
		g := rules.CFG(info, fd.Body, nil)
		n := 0
		for _, b := range g.Blocks {
			fs, ok := b.Stmt.(*ast.ForStmt)
			if !ok || !c14mentionsCloser(info, fs) {
				continue
			}
			if fs.Cond == nil {
				if b.Kind == cfg.KindForBody {
					n++
					c.Decide(true, rule, fmt.Sprintf("%s#%d", key, n), c.Prog.Rel(fs.Pos()),
						"the element loop has no condition: it is left at the closing bracket or by a return only", "")
				}
				continue
			}
			if b.Kind != cfg.KindForLoop || len(b.Succs) != 2 {
				continue
			}
			n++
			init := c14boolInits(info, fd.Body, fs)
			bad, why := c14eofExit(info, b, init, fails)
			c.Decide(bad == nil, rule, fmt.Sprintf("%s#%d", key, n), c.Prog.Rel(fs.Pos()),
				"when the input ends inside the set, every path leaves with a failing return before anything else happens",
				func() string {
					if bad == nil {
						return ""
					}
					return fmt.Sprintf("the element loop is also left when the path ends before the closing bracket, and from that exit the %T at %s is reached without a failing return: an unterminated set like `$.L[1` is accepted as if it were closed (%s)", bad, c.Prog.Rel(bad.Pos()), why)
				}())
		}
		total += n
	}
	if total < 4 {
		c.Unknown(rule, fmRel+"/closed-set", "", fmt.Sprintf("expected four element loops (index sets and key sets in addPath and GetPath), found %d", total))
	}
}

// c14mentionsCloser: the loop compares a token type with one of the closing brackets.
func c14mentionsCloser(info *types.Info, fs *ast.ForStmt) bool {
	found := false
	ast.Inspect(fs.Body, func(m ast.Node) bool {
		if _, ok := m.(*ast.ForStmt); ok {
			return false // the walker's outer loop contains the element loops
		}
		if id, ok := m.(*ast.Ident); ok {
			if k, ok := info.Uses[id].(*types.Const); ok && (k.Name() == "pathTypeIndexR" || k.Name() == "pathTypeMapR") {
				found = true
			}
		}
		return !found
	})
	return found
}

// c14boolInits: boolean locals defined with a constant by a sibling statement before the loop.
func c14boolInits(info *types.Info, body *ast.BlockStmt, fs *ast.ForStmt) map[types.Object]bool {
	out := map[types.Object]bool{}
	var list []ast.Stmt
	ast.Inspect(body, func(m ast.Node) bool {
		if bl, ok := m.(*ast.BlockStmt); ok {
			for _, s := range bl.List {
				if s == fs {
					list = bl.List
				}
			}
		}
		return list == nil
	})
	for _, s := range list {
		if s == fs {
			break
		}
		as, ok := s.(*ast.AssignStmt)
		if !ok || len(as.Lhs) != len(as.Rhs) {
			continue
		}
		for i, l := range as.Lhs {
			id, ok := l.(*ast.Ident)
			if !ok {
				continue
			}
			o := info.ObjectOf(id)
			if o == nil {
				continue
			}
			if tv, ok := info.Types[as.Rhs[i]]; ok && tv.Value != nil && (tv.Value.String() == "true" || tv.Value.String() == "false") {
				out[o] = tv.Value.String() == "true"
			} else {
				delete(out, o)
			}
		}
	}
	return out
}

type c14state map[types.Object]bool

func (s c14state) key() string {
	var ks []string
	for o, v := range s {
		ks = append(ks, fmt.Sprintf("%s@%d=%v", o.Name(), o.Pos(), v))
	}
	sort.Strings(ks)
	return strings.Join(ks, ",")
}
func (s c14state) clone() c14state {
	t := c14state{}
	for k, v := range s {
		t[k] = v
	}
	return t
}

// c14eofExit explores the loop body from its head with the boolean state, collects the states in which the head is
// reached, and from the condition-false exit walks forward: the first node that is neither a test of a tracked boolean
// nor a failing return is returned.
func c14eofExit(info *types.Info, head *cfg.Block, init map[types.Object]bool, fails func(*ast.ReturnStmt) bool) (ast.Node, string) {
	assign := func(st c14state, nd ast.Node) {
		as, ok := nd.(*ast.AssignStmt)
		if !ok {
			return
		}
		for i, l := range as.Lhs {
			id, ok := l.(*ast.Ident)
			if !ok {
				continue
			}
			o := info.ObjectOf(id)
			if o == nil {
				continue
			}
			if len(as.Lhs) == len(as.Rhs) {
				if tv, ok := info.Types[as.Rhs[i]]; ok && tv.Value != nil && (tv.Value.String() == "true" || tv.Value.String() == "false") {
					st[o] = tv.Value.String() == "true"
					continue
				}
			}
			delete(st, o)
		}
	}
	// value of a branch condition under st: 1 true, 0 false, -1 unknown
	var eval func(st c14state, e ast.Expr) int
	eval = func(st c14state, e ast.Expr) int {
		switch x := ast.Unparen(e).(type) {
		case *ast.Ident:
			if v, ok := st[info.ObjectOf(x)]; ok {
				if v {
					return 1
				}
				return 0
			}
		case *ast.UnaryExpr:
			if x.Op == token.NOT {
				if v := eval(st, x.X); v >= 0 {
					return 1 - v
				}
			}
		}
		return -1
	}
	// phase 1: states at the loop head
	headStates := map[string]c14state{}
	type item struct {
		b  *cfg.Block
		st c14state
	}
	seen := map[string]bool{}
	var work []item
	push := func(b *cfg.Block, st c14state) {
		k := fmt.Sprintf("%d|%s", b.Index, st.key())
		if seen[k] {
			return
		}
		seen[k] = true
		if b == head {
			headStates[st.key()] = st
		}
		work = append(work, item{b, st})
	}
	push(head, c14state(init).clone())
	done := head.Succs[1]
	for len(work) > 0 {
		it := work[len(work)-1]
		work = work[:len(work)-1]
		if it.b == done {
			continue // left through break (the head's own false edge is handled in phase 2)
		}
		st := it.st.clone()
		returned := false
		for _, nd := range it.b.Nodes {
			if _, ok := nd.(*ast.ReturnStmt); ok {
				returned = true
				break
			}
			assign(st, nd)
		}
		if returned {
			continue
		}
		if it.b == head {
			push(head.Succs[0], st)
			continue
		}
		if len(it.b.Succs) == 2 && len(it.b.Nodes) > 0 {
			if e, ok := it.b.Nodes[len(it.b.Nodes)-1].(ast.Expr); ok {
				switch eval(st, e) {
				case 1:
					push(it.b.Succs[0], st)
					continue
				case 0:
					push(it.b.Succs[1], st)
					continue
				}
			}
		}
		for _, s := range it.b.Succs {
			push(s, st)
		}
	}
	// phase 2: from the end-of-input exit
	var keys []string
	for k := range headStates {
		keys = append(keys, k)
	}
	sort.Strings(keys)
	for _, k := range keys {
		seen2 := map[string]bool{}
		var walk func(b *cfg.Block, st c14state) ast.Node
		walk = func(b *cfg.Block, st c14state) ast.Node {
			kk := fmt.Sprintf("%d|%s", b.Index, st.key())
			if seen2[kk] {
				return nil
			}
			seen2[kk] = true
			for i, nd := range b.Nodes {
				if r, ok := nd.(*ast.ReturnStmt); ok {
					if fails(r) {
						return nil
					}
					return nd
				}
				if e, ok := nd.(ast.Expr); ok && i == len(b.Nodes)-1 && len(b.Succs) == 2 {
					switch eval(st, e) {
					case 1:
						return walk(b.Succs[0], st)
					case 0:
						return walk(b.Succs[1], st)
					}
				}
				return nd
			}
			for _, s := range b.Succs {
				if bad := walk(s, st); bad != nil {
					return bad
				}
			}
			if len(b.Succs) == 0 {
				// fell off the end of the function: an implicit plain return
				return b.Stmt
			}
			return nil
		}
		if bad := walk(done, headStates[k]); bad != nil {
			return bad, "boolean state at the loop head: {" + k + "}"
		}
	}
	return nil, ""
}
