package props

import (
	"fmt"
	"go/ast"
	"go/parser"
	"go/types"
	"strings"

	"verif/checker/core"
	"verif/checker/rules"
)

// inlineHelpers replaces calls of package-local functions whose body is a single return by that expression, with the
// arguments substituted for the parameters (textually, parenthesised), up to three levels.
func inlineHelpers(c *core.Check, rel string, info *types.Info, e ast.Expr) ast.Expr {
	for depth := 0; depth < 3; depth++ {
		changed := false
		var rewrite func(x ast.Expr) string
		rewrite = func(x ast.Expr) string {
			switch v := x.(type) {
			case *ast.ParenExpr:
				return "(" + rewrite(v.X) + ")"
			case *ast.UnaryExpr:
				return v.Op.String() + rewrite(v.X)
			case *ast.BinaryExpr:
				return rewrite(v.X) + " " + v.Op.String() + " " + rewrite(v.Y)
			case *ast.CallExpr:
				fn := rules.Callee(info, v)
				if fn != nil && fn.Pkg() != nil && c.Prog.Pkg(rel) != nil && fn.Pkg() == c.Prog.Pkg(rel).Types && fn.Type().(*types.Signature).Recv() == nil {
					if hd := c.Prog.FuncDecl(rel, fn.Name()); hd != nil && hd.Body != nil && len(hd.Body.List) == 1 {
						if ret, ok := hd.Body.List[0].(*ast.ReturnStmt); ok && len(ret.Results) == 1 {
							sub := map[string]string{}
							i := 0
							for _, f := range hd.Type.Params.List {
								for _, nm := range f.Names {
									if i < len(v.Args) {
										if id, ok := v.Args[i].(*ast.Ident); ok {
											sub[nm.Name] = id.Name
										} else {
											sub[nm.Name] = "(" + rules.ExprString(v.Args[i]) + ")"
										}
									}
									i++
								}
							}
							changed = true
							return "(" + substIdents(ret.Results[0], sub) + ")"
						}
					}
				}
			}
			return rules.ExprString(x)
		}
		txt := rewrite(e)
		if !changed {
			return e
		}
		ne, err := parser.ParseExpr(txt)
		if err != nil {
			return e
		}
		e = ne
		info = &types.Info{} // the re-parsed expression has no type information; callee resolution falls back to names below
		_ = info
		return e
	}
	return e
}

func substIdents(e ast.Expr, sub map[string]string) string {
	switch v := e.(type) {
	case *ast.Ident:
		if s, ok := sub[v.Name]; ok {
			return s
		}
		return v.Name
	case *ast.ParenExpr:
		return "(" + substIdents(v.X, sub) + ")"
	case *ast.UnaryExpr:
		return v.Op.String() + substIdents(v.X, sub)
	case *ast.BinaryExpr:
		return substIdents(v.X, sub) + " " + v.Op.String() + " " + substIdents(v.Y, sub)
	case *ast.CallExpr:
		var as []string
		for _, a := range v.Args {
			as = append(as, substIdents(a, sub))
		}
		return rules.ExprString(v.Fun) + "(" + strings.Join(as, ", ") + ")"
	case *ast.SelectorExpr:
		return substIdents(v.X, sub) + "." + v.Sel.Name
	case *ast.IndexExpr:
		return substIdents(v.X, sub) + "[" + substIdents(v.Index, sub) + "]"
	}
	return rules.ExprString(e)
}

// c09lengthGuards: the unknown-fields store decodes its own buffer with Binary.ReadString / ReadBinary when the object is
// written again. Each guards the copy `buf[off : off+size]` with a length test that returns InvalidDataLength. For data
// that is really there — 0 <= size and off+size <= len(buf) — the test must not fire, otherwise unknown fields that were
// read without error cannot be written back (an empty string at the very end of the buffer is the boundary case). The
// guard is a closed predicate over (len(buf), off, size); it is evaluated for every len(buf) <= 12, off <= len(buf) and
// -3 <= size <= len(buf)+3, reading single-return helpers through.
func c09lengthGuards(c *core.Check) {
	rel := "generator/golang/extension/unknown"
	pk := c.Prog.Pkg(rel)
	if pk == nil {
		c.Unknown("anchor", rel, "", "package missing")
		return
	}
	info := pk.TypesInfo
	n := 0
	c.Prog.AllFuncDecls(rel, func(file *ast.File, fd *ast.FuncDecl) {
		if fd.Body == nil || strings.HasSuffix(c.Prog.Fset.File(fd.Pos()).Name(), "_test.go") {
			return
		}
		for i, st := range fd.Body.List {
			is, ok := st.(*ast.IfStmt)
			if !ok || !returnsIdent(is.Body, "InvalidDataLength") {
				continue
			}
			// the slice the guard protects: the first buf[A:B] after it
			var sl *ast.SliceExpr
			for _, later := range fd.Body.List[i+1:] {
				ast.Inspect(later, func(m ast.Node) bool {
					if s, ok := m.(*ast.SliceExpr); ok && sl == nil && s.Low != nil && s.High != nil {
						sl = s
					}
					return true
				})
			}
			if sl == nil {
				continue
			}
			n++
			key := fmt.Sprintf("%s/guard~%s", core.FuncKey(rel, fd), rules.ExprString(sl))
			where := c.Prog.Rel(is.Pos())
			buf := rules.ExprString(sl.X)
			cond := inlineHelpers(c, rel, info, is.Cond)
			// free variables: the identifiers of Low and High other than buf; High = Low + int(size) in this code base
			vars := map[string]bool{}
			for _, e := range []ast.Expr{sl.Low, sl.High, cond} {
				ast.Inspect(e, func(m ast.Node) bool {
					if id, ok := m.(*ast.Ident); ok && id.Name != buf && id.Name != "len" && id.Name != "int" && id.Name != "nil" {
						if _, _, isT := basicInt(id.Name); !isT {
							vars[id.Name] = true
						}
					}
					return true
				})
			}
			var names []string
			for v := range vars {
				names = append(names, v)
			}
			if len(names) == 0 || len(names) > 2 {
				c.Unknown("length-guard-admits-present-data", key, where, fmt.Sprintf("guard/slice variables %v not recognised", names))
				continue
			}
			bad, undec := "", ""
			var rec func(i int, env map[string]tint, L int64)
			rec = func(i int, env map[string]tint, L int64) {
				if bad != "" || undec != "" {
					return
				}
				if i == len(names) {
					lo, e1 := evalInt(sl.Low, env)
					hi, e2 := evalInt(sl.High, env)
					if e1 != nil || e2 != nil {
						undec = fmt.Sprint(e1, e2)
						return
					}
					valid := 0 <= lo.v && lo.v <= hi.v && hi.v <= L
					if !valid {
						return
					}
					rej, err := evalCond(info, cond, env)
					if err != nil {
						undec = err.Error()
						return
					}
					if rej {
						bad = fmt.Sprintf("with len(%s)=%d and %v the bytes %s are all there, yet the guard `%s` reports InvalidDataLength", buf, L, envText(env, names), rules.ExprString(sl), rules.ExprString(is.Cond))
					}
					return
				}
				for v := int64(-3); v <= L+3; v++ {
					env[names[i]] = tint{v: v, bits: 64, signed: true}
					rec(i+1, env, L)
				}
			}
			for L := int64(0); L <= 12 && bad == "" && undec == ""; L++ {
				env := map[string]tint{"len(" + buf + ")": {v: L, bits: 64, signed: true}}
				rec(0, env, L)
			}
			if undec != "" {
				c.Unknown("length-guard-admits-present-data", key, where, "cannot evaluate the guard: "+undec)
				continue
			}
			c.Decide(bad == "", "length-guard-admits-present-data", key, where,
				"the guard never fires when the bytes it protects are present (all buffers up to 12 bytes)",
				bad+": unknown fields that were read without error (an empty string or binary at the end of the stored buffer) cannot be written back")
		}
	})
	c.Min("length-guard-admits-present-data", 2)
}

func envText(env map[string]tint, names []string) string {
	var out []string
	for _, n := range names {
		out = append(out, fmt.Sprintf("%s=%d", n, env[n].v))
	}
	return strings.Join(out, ", ")
}

func returnsIdent(b *ast.BlockStmt, name string) bool {
	found := false
	ast.Inspect(b, func(m ast.Node) bool {
		if rs, ok := m.(*ast.ReturnStmt); ok {
			for _, r := range rs.Results {
				if id, ok := r.(*ast.Ident); ok && id.Name == name {
					found = true
				}
			}
		}
		return true
	})
	return found
}
