package props

import (
	"fmt"
	"go/ast"
	"go/token"
)

// c01valueElems: with value_type_in_container the resolver makes a container of struct-likes hold values ([]Foo instead of
// []*Foo, Resolver.getContainerTypeName), while the generated DeepEqual of a struct-like takes a pointer. A rendered unit
// that passes a container element to DeepEqual therefore has to pass its address exactly when the option is on:
//   - an identifier bound to an element (x := C[i]; x, ok := C[k]; for _, x := range C; a closure parameter bound to C[i])
//     is handed over as &x iff Features.ValueTypeForSIC = 1;
//   - a closure that compares its parameters with DeepEqual is called with &C[i] iff Features.ValueTypeForSIC = 1.
// A rendering that contains such a call but never consulted the option cannot be right for both settings.
// (The engine's types are placeholders, so this is decided on the shape of the rendered code, not by go/types.)
func c01valueElems(agg *aggregate, r *rendered) {
	k := r.U.key()
	flag, consulted := r.R.Choices["Features.ValueTypeForSIC"]
	for _, d := range r.P.File.Decls {
		fd, ok := d.(*ast.FuncDecl)
		if !ok || fd.Body == nil {
			continue
		}
		derived := map[string]bool{}
		isElem := func(e ast.Expr) bool {
			_, ok := ast.Unparen(e).(*ast.IndexExpr)
			return ok
		}
		// closures: parameters bound to element arguments
		type clos struct {
			lit  *ast.FuncLit
			call *ast.CallExpr
		}
		var closures []clos
		ast.Inspect(fd.Body, func(n ast.Node) bool {
			switch x := n.(type) {
			case *ast.AssignStmt:
				if x.Tok == token.DEFINE && len(x.Rhs) == 1 && isElem(x.Rhs[0]) {
					if id, ok := x.Lhs[0].(*ast.Ident); ok {
						derived[id.Name] = true
					}
				}
			case *ast.RangeStmt:
				if id, ok := x.Value.(*ast.Ident); ok && id.Name != "_" {
					derived[id.Name] = true
				}
			case *ast.CallExpr:
				if fl, ok := x.Fun.(*ast.FuncLit); ok {
					closures = append(closures, clos{fl, x})
				}
			}
			return true
		})
		params := map[string]bool{}
		for _, cl := range closures {
			i := 0
			for _, f := range cl.lit.Type.Params.List {
				for _, nm := range f.Names {
					if i < len(cl.call.Args) && isElem(cl.call.Args[i]) {
						derived[nm.Name] = true
					}
					params[nm.Name] = true
					i++
				}
			}
		}
		report := func(what string, amp bool, pos token.Pos) {
			agg.check("value-elements-by-address", k)
			switch {
			case !consulted:
				agg.fail("value-elements-by-address", k, fmt.Sprintf("under [%s]: %s, but the unit never consults value_type_in_container: the element is a value with the option and a pointer without it, so one of the two settings does not compile", r.R.Valuation, what))
			case amp != (flag == 1):
				agg.fail("value-elements-by-address", k, fmt.Sprintf("under [%s]: %s (address taken: %v) although value_type_in_container=%d makes the element a %s: the generated code does not type-check", r.R.Valuation, what, amp, flag, map[bool]string{true: "value", false: "pointer"}[flag == 1]))
			}
		}
		ast.Inspect(fd.Body, func(n ast.Node) bool {
			call, ok := n.(*ast.CallExpr)
			if !ok {
				return true
			}
			sel, ok := call.Fun.(*ast.SelectorExpr)
			if !ok || sel.Sel.Name != "DeepEqual" || len(call.Args) != 1 {
				return true
			}
			arg, amp := ast.Unparen(call.Args[0]), false
			if u, ok := arg.(*ast.UnaryExpr); ok && u.Op == token.AND {
				arg, amp = ast.Unparen(u.X), true
			}
			id, ok := arg.(*ast.Ident)
			if !ok {
				return true
			}
			if derived[id.Name] {
				report("the container element "+id.Name+" is passed to DeepEqual", amp, call.Pos())
			}
			return true
		})
		for _, cl := range closures {
			// does the closure compare its own parameters directly?
			direct := false
			ast.Inspect(cl.lit.Body, func(n ast.Node) bool {
				call, ok := n.(*ast.CallExpr)
				if !ok {
					return true
				}
				if sel, ok := call.Fun.(*ast.SelectorExpr); ok && sel.Sel.Name == "DeepEqual" && len(call.Args) == 1 {
					if id, ok := ast.Unparen(call.Args[0]).(*ast.Ident); ok && params[id.Name] {
						if rid, ok := sel.X.(*ast.Ident); ok && params[rid.Name] {
							direct = true
						}
					}
				}
				return true
			})
			if !direct {
				continue
			}
			for _, a := range cl.call.Args {
				if u, ok := ast.Unparen(a).(*ast.UnaryExpr); ok && u.Op == token.AND && isElem(u.X) {
					report("a closure comparing its parameters with DeepEqual is called with the address of a container element", true, a.Pos())
				}
			}
		}
	}
}
