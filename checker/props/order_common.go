package props

import (
	"fmt"
	"go/ast"
	"go/token"
	"go/types"
	"sort"
	"strings"

	"golang.org/x/tools/go/ssa"

	"verif/checker/core"
	"verif/checker/rules"
)

// discharge is a frozen, reasoned entry of the ORDER table; Verify (optional)
// re-establishes the reason mechanically on the current tree.
type discharge struct {
	Reason string
	Verify func(c *core.Check) (bool, string)
}

// validationBarrier decides whether fn can influence output only through its
// error result: all results are `error`, and no function of its closure stores
// into a field of a value whose type is declared in one of the packages `sinks`.
func validationBarrier(c *core.Check, fn *ssa.Function, sinks []string) (bool, string) {
	res := fn.Signature.Results()
	if res.Len() == 0 {
		return false, "no results"
	}
	for i := 0; i < res.Len(); i++ {
		if !rules.IsErrorType(res.At(i).Type()) {
			return false, "has a non-error result"
		}
	}
	isSink := func(t types.Type) bool {
		n := rules.NamedOf(t)
		if n == nil || n.Obj().Pkg() == nil {
			return false
		}
		st, isStruct := n.Underlying().(*types.Struct)
		if !isStruct {
			return false
		}
		for _, s := range sinks {
			if n.Obj().Pkg().Path() == core.Module+"/"+s {
				if s == "parser" {
					// AST node types only: the generated structs whose fields carry thrift tags
					tagged := false
					for i := 0; i < st.NumFields(); i++ {
						if strings.Contains(st.Tag(i), "thrift:") {
							tagged = true
						}
					}
					return tagged
				}
				return true
			}
		}
		return false
	}
	// fresh: the address is rooted in an allocation made by the same function (a value that did not exist
	// before the call and therefore cannot be the caller's AST/scope)
	var fresh func(v ssa.Value, d int) bool
	fresh = func(v ssa.Value, d int) bool {
		if d > 8 {
			return false
		}
		switch x := v.(type) {
		case *ssa.Alloc:
			return true
		case *ssa.FieldAddr:
			return fresh(x.X, d+1)
		case *ssa.IndexAddr:
			return fresh(x.X, d+1)
		case *ssa.MakeMap, *ssa.MakeSlice:
			return true
		case *ssa.UnOp:
			// load of a pointer from a local variable cell that only ever holds fresh values
			if al, ok := x.X.(*ssa.Alloc); ok {
				sts := rules.StoresTo(al)
				if len(sts) == 0 {
					return false
				}
				for _, st := range sts {
					if !fresh(st.Val, d+1) {
						return false
					}
				}
				return true
			}
			return false
		case *ssa.Phi:
			for _, e := range x.Edges {
				if !fresh(e, d+1) {
					return false
				}
			}
			return true
		case *ssa.Call:
			// constructor: a function of the repository named New*/new* returning a pointer
			if f := x.Call.StaticCallee(); f != nil && (strings.HasPrefix(f.Name(), "New") || strings.HasPrefix(f.Name(), "new")) {
				return true
			}
			return false
		}
		return false
	}
	closure := c.Prog.Reach([]*ssa.Function{fn}, nil)
	for f := range closure {
		if !core.InRepo(f) {
			continue
		}
		for _, b := range f.Blocks {
			for _, ins := range b.Instrs {
				switch x := ins.(type) {
				case *ssa.Store:
					if fa, ok := x.Addr.(*ssa.FieldAddr); ok && isSink(fa.X.Type()) && !fresh(fa.X, 0) {
						return false, fmt.Sprintf("%s stores into a field of a pre-existing %s at %s", core.FuncName(f), fa.X.Type(), c.Prog.Rel(x.Pos()))
					}
					if ia, ok := x.Addr.(*ssa.IndexAddr); ok {
						if u, ok := ia.X.(*ssa.UnOp); ok {
							if fa, ok := u.X.(*ssa.FieldAddr); ok && isSink(fa.X.Type()) && !fresh(fa.X, 0) {
								return false, fmt.Sprintf("%s stores into an element of a field of a pre-existing %s at %s", core.FuncName(f), fa.X.Type(), c.Prog.Rel(x.Pos()))
							}
						}
					}
				case *ssa.MapUpdate:
					if u, ok := x.Map.(*ssa.UnOp); ok {
						if fa, ok := u.X.(*ssa.FieldAddr); ok && isSink(fa.X.Type()) && !fresh(fa.X, 0) {
							return false, fmt.Sprintf("%s updates a map field of a pre-existing %s at %s", core.FuncName(f), fa.X.Type(), c.Prog.Rel(x.Pos()))
						}
					}
				}
			}
		}
	}
	return true, fmt.Sprintf("all results are error; %d functions in its closure, none stores into a pre-existing AST / %v value", len(closure), sinks)
}

// orderCheck enumerates the nondeterministic-order sources in the closure of
// roots and turns each into an obligation.
func orderCheck(c *core.Check, rule string, roots []*ssa.Function, barriers []*ssa.Function, table map[string]discharge, skipKinds map[string]string) {
	prog := c.Prog
	for _, pk := range prog.Pkgs {
		rules.RegisterDecls(pk.TypesInfo, pk.Syntax)
	}
	rules.PureFunc = func(fn *types.Func) bool { return ssaPure(prog.SSA().FuncValue(fn), 0, map[*ssa.Function]bool{}) }
	isBarrier := map[*ssa.Function]bool{}
	for _, b := range barriers {
		isBarrier[b] = true
	}
	reach, parent := prog.ReachWithParents(roots, func(f *ssa.Function) bool { return isBarrier[f] })
	fns := core.SortedFuncs(reach)
	c.Analysed["functions_in_closure"] += len(fns)
	used := map[string]bool{}
	seenKey := map[string]int{}
	for _, fn := range fns {
		info := prog.InfoAt(fn.Pos())
		body := core.Body(fn)
		if info == nil || body == nil {
			continue
		}
		for _, s := range rules.FindOrderSites(info, body) {
			c.Analysed["order_sites"]++
			key := fmt.Sprintf("%s/%s %s", core.FuncName(fn), s.Kind, s.Expr)
			seenKey[key]++
			if n := seenKey[key]; n > 1 {
				key = fmt.Sprintf("%s #%d", key, n)
			}
			where := prog.Rel(s.Node.Pos())
			if why, ok := skipKinds[s.Kind]; ok {
				c.OKTrivial(rule, key, where, why)
				continue
			}
			// iterator helper: delegate to the callbacks at each call site
			if s.Kind == "range-map" && s.Class == "" {
				if rs := s.Node.(*ast.RangeStmt); isIteratorHelper(info, fn, rs) {
					n, bad := classifyCallbacks(c, fn, reach)
					if n > 0 && bad == "" {
						c.OK(rule, key, where, fmt.Sprintf("iterator helper; all %d callback(s) passed to it inside the closure have order-insensitive bodies", n))
						continue
					}
					if bad != "" {
						s.Reason = "callback " + bad + " is order-sensitive"
					}
				}
			}
			if s.Class != "" {
				c.OK(rule, key, where, s.Class+": "+s.Reason)
				continue
			}
			if d, ok := table[key]; ok {
				used[key] = true
				if d.Verify != nil {
					okv, fact := d.Verify(c)
					if !okv {
						c.Bad(rule, key, where, "frozen discharge reason no longer verifiable: "+fact+" ("+d.Reason+")")
						continue
					}
					c.OK(rule, key, where, "table: "+d.Reason+" ["+fact+"]")
				} else {
					c.OK(rule, key, where, "table: "+d.Reason)
				}
				continue
			}
			c.Bad(rule, key, where, fmt.Sprintf("%s over %s reaches output in iteration/arrival order (no sort, not an order-insensitive idiom). call path: %s. %s", s.Kind, s.Expr, core.CallPath(parent, fn), s.Reason))
		}
	}
	var unused []string
	for k := range table {
		if !used[k] {
			unused = append(unused, k)
		}
	}
	sort.Strings(unused)
	for _, k := range unused {
		c.Note("discharge-table entry no longer matches a site (site gone or auto-classified): %s", k)
	}
}

// isIteratorHelper: the range body only calls a func-typed parameter of fn with the range variables
// (optionally breaking when it returns false).
func isIteratorHelper(info *types.Info, fn *ssa.Function, rs *ast.RangeStmt) bool {
	params := map[types.Object]bool{}
	for _, p := range fn.Params {
		if _, ok := p.Type().Underlying().(*types.Signature); ok && p.Object() != nil {
			params[p.Object()] = true
		}
	}
	if len(params) == 0 {
		return false
	}
	calls := rules.Calls(rs.Body, false)
	if len(calls) != 1 {
		return false
	}
	o := rules.ObjOf(info, calls[0].Fun)
	if o == nil || !params[o] {
		return false
	}
	// nothing else with effects
	okShape := true
	for _, st := range rs.Body.List {
		switch x := st.(type) {
		case *ast.ExprStmt:
			if x.X != ast.Expr(calls[0]) {
				okShape = false
			}
		case *ast.IfStmt:
			for _, b := range x.Body.List {
				if br, ok := b.(*ast.BranchStmt); !ok || br.Tok != token.BREAK {
					okShape = false
				}
			}
		default:
			okShape = false
		}
	}
	return okShape
}

// classifyCallbacks inspects every function literal passed (inside the closure) to the iterator helper.
func classifyCallbacks(c *core.Check, helper *ssa.Function, reach map[*ssa.Function]bool) (n int, bad string) {
	g := c.Prog.CallGraph()
	node := g.Nodes[helper]
	if node == nil {
		return 0, ""
	}
	var visit func(callee *ssa.Function, depth int)
	seen := map[*ssa.Function]bool{}
	visit = func(callee *ssa.Function, depth int) {
		nd := g.Nodes[callee]
		if nd == nil || depth > 3 || seen[callee] {
			return
		}
		seen[callee] = true
		for _, e := range nd.In {
			caller := e.Caller.Func
			if !reach[caller] {
				continue
			}
			if !core.InRepo(caller) || caller.Syntax() == nil {
				// wrapper (embedded interface promotion): look through
				visit(caller, depth+1)
				continue
			}
			var lit *ssa.Function
			for _, a := range e.Site.Common().Args {
				if mc, ok := a.(*ssa.MakeClosure); ok {
					lit = mc.Fn.(*ssa.Function)
				} else if f, ok := a.(*ssa.Function); ok {
					lit = f
				}
			}
			if lit == nil {
				// forwards its own parameter: the caller is a wrapper
				visit(caller, depth+1)
				continue
			}
			n++
			info := c.Prog.InfoAt(lit.Pos())
			if info == nil || !callbackInsensitive(info, lit) {
				bad = core.FuncName(lit) + " at " + c.Prog.Rel(lit.Pos())
			}
		}
	}
	visit(helper, 0)
	return n, bad
}

// callbackInsensitive: the literal's body only stores into maps (keyed by its parameters) / deletes,
// and returns true (continue) on every path.
func callbackInsensitive(info *types.Info, lit *ssa.Function) bool {
	body := core.Body(lit)
	if body == nil {
		return false
	}
	params := map[types.Object]bool{}
	for _, p := range lit.Params {
		if p.Object() != nil {
			params[p.Object()] = true
		}
	}
	ok := true
	var walk func(stmts []ast.Stmt)
	walk = func(stmts []ast.Stmt) {
		for _, s := range stmts {
			switch x := s.(type) {
			case *ast.ReturnStmt:
				if len(x.Results) != 1 {
					ok = false
					continue
				}
				if tv := info.Types[x.Results[0]]; tv.Value == nil || tv.Value.String() != "true" {
					ok = false
				}
			case *ast.AssignStmt:
				for _, l := range x.Lhs {
					ix, isIx := l.(*ast.IndexExpr)
					if !isIx {
						ok = false
						continue
					}
					if _, isMap := info.Types[ix.X].Type.Underlying().(*types.Map); !isMap {
						ok = false
					}
					mentionsParam := false
					ast.Inspect(ix.Index, func(n ast.Node) bool {
						if id, isId := n.(*ast.Ident); isId && params[info.Uses[id]] {
							mentionsParam = true
						}
						return true
					})
					if !mentionsParam {
						ok = false
					}
				}
			case *ast.IfStmt:
				walk(x.Body.List)
				if b, isB := x.Else.(*ast.BlockStmt); isB {
					walk(b.List)
				} else if x.Else != nil {
					walk([]ast.Stmt{x.Else})
				}
			case *ast.ExprStmt:
				call, isC := x.X.(*ast.CallExpr)
				if !isC || !rules.IsBuiltin(info, call, "delete") {
					ok = false
				}
			default:
				ok = false
			}
		}
	}
	walk(body.List)
	return ok
}

// singleProducerGoroutines discharges `go` sites of the form: one go statement outside any loop in a function
// that creates an unbuffered channel, the goroutine being the only sender: arrival order = producer order.
func singleProducer(c *core.Check, relPkg, fn string) func(*core.Check) (bool, string) {
	return func(c *core.Check) (bool, string) {
		parts := strings.SplitN(fn, ".", 2)
		var f *ssa.Function
		if len(parts) == 2 {
			f = rules.Method(c.Prog.SSA(), c.Prog.SSAPkg(relPkg), parts[0], parts[1])
		} else {
			f = rules.Func(c.Prog.SSAPkg(relPkg), fn)
		}
		if f == nil {
			return false, "function not found"
		}
		gos, makes := 0, 0
		inLoop := false
		for _, b := range f.Blocks {
			for _, ins := range b.Instrs {
				switch ins.(type) {
				case *ssa.Go:
					gos++
					if rules.InCycle(b) {
						inLoop = true
					}
				case *ssa.MakeChan:
					makes++
				}
			}
		}
		if gos == 1 && !inLoop && makes == 1 {
			return true, "exactly one go statement, outside any loop, one channel made here: a single producer, so the consumer sees the producer's (deterministic) order"
		}
		return false, fmt.Sprintf("go statements=%d inLoop=%v channels=%d", gos, inLoop, makes)
	}
}

// ssaPure: the function (and, to depth 3, its static callees) stores only into its own locals, updates no map,
// sends on no channel, starts no goroutine and makes no dynamic call.
func ssaPure(fn *ssa.Function, depth int, seen map[*ssa.Function]bool) bool {
	if fn == nil || len(fn.Blocks) == 0 || depth > 3 {
		return false
	}
	if seen[fn] {
		return true
	}
	seen[fn] = true
	for _, b := range fn.Blocks {
		for _, ins := range b.Instrs {
			switch x := ins.(type) {
			case *ssa.Store:
				if _, local := x.Addr.(*ssa.Alloc); !local {
					return false
				}
			case *ssa.MapUpdate, *ssa.Send, *ssa.Go, *ssa.Defer, *ssa.Panic:
				return false
			case *ssa.Call:
				if _, isBuiltin := x.Call.Value.(*ssa.Builtin); isBuiltin {
					continue
				}
				callee := x.Call.StaticCallee()
				if callee == nil {
					return false
				}
				if !core.InRepo(callee) {
					if callee.Pkg != nil {
						switch callee.Pkg.Pkg.Path() {
						case "strings", "strconv", "unicode", "bytes", "math", "errors", "unsafe":
							continue
						}
					}
					return false
				}
				if !ssaPure(callee, depth+1, seen) {
					return false
				}
			}
		}
	}
	return true
}
