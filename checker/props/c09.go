package props

import (
	"fmt"
	"go/ast"
	"go/constant"
	"go/token"
	"go/types"
	"sort"
	"strings"

	"verif/checker/core"
	"verif/checker/rules"
)

func init() { register("C09", c09) }

const unknownRel = "generator/golang/extension/unknown"

func c09(c *core.Check) {
	c.Explain = "ENUM + TMPL: (1) the unknown-field codec (extension/unknown read/write) is total and symmetric over the 11 value-bearing wire types of the binary protocol: the T* constants equal the spec numbers, both switches have exactly those arms, the default arm rejects, each scalar arm uses the Read/Write methods of its own type, each container arm frames Begin..End of its own kind and recurses for every element (map: key and value; struct: until STOP), and read's recursion passes maxDepth-1 and tests the bound; " +
		"(2) on every abstract rendering of the struct templates (TMPL engine, see C02): with keep_unknown_fields the unknown-id arm of Read appends to _unknownFields (else it skips), Write emits _unknownFields after all known fields and before WriteFieldStop, and CarryingUnknownFields tests the same field. " +
		"(3) every Binary.Write* into the self-growing unknown-fields buffer is preceded by ensureBytesLen at the same offset whose length argument, evaluated symbolically through binary.go (constants and len() terms), covers the byte count the write returns. " +
		"NOT decided: byte-level preservation of values across schema pairs."
	c.RuleText = "one obligation per (switch arm, rule) and per rendering-level rule; non-trivial = needed arm/method agreement, recursion or path reasoning"
	c.Assume = []string{"the TProtocol implementation behind iprot/oprot follows the binary protocol", "templates are recursive in one context parameter beyond the rendering depth bound"}
	pk := c.Prog.Pkg(unknownRel)
	if pk == nil {
		c.Unknown("anchor", unknownRel, "", "package missing")
		return
	}
	info := pk.TypesInfo
	// T* constants vs spec
	sc := pk.Types.Scope()
	for name, num := range specWireTypes {
		k, ok := sc.Lookup("T" + name).(*types.Const)
		key := unknownRel + ".T" + name
		if !ok {
			c.Bad("wire-const", key, "", "constant missing")
			continue
		}
		v, _ := constant.Int64Val(constant.ToInt(k.Val()))
		c.Decide(v == int64(num), "wire-const", key, c.Prog.Rel(k.Pos()), fmt.Sprintf("= %d (binary protocol)", v), fmt.Sprintf("= %d, the binary protocol numbers this type %d", v, num))
	}
	if k, ok := sc.Lookup("TStop").(*types.Const); ok {
		v, _ := constant.Int64Val(constant.ToInt(k.Val()))
		c.Decide(v == 0, "wire-const", unknownRel+".TStop", c.Prog.Rel(k.Pos()), "= 0", "STOP must be 0")
	}
	armsOf := map[string]map[string]arm{}
	for _, fname := range []string{"read", "write"} {
		fd := c.Prog.FuncDecl(unknownRel, fname)
		key := unknownRel + "." + fname
		if fd == nil {
			c.Unknown("anchor", key, "", "missing")
			continue
		}
		self, _ := pk.Types.Scope().Lookup(fname).(*types.Func)
		sw := firstSwitchOn(fd, "fieldType")
		if sw == nil {
			c.Unknown("codec-total", key, c.Prog.Rel(fd.Pos()), "no switch over the field type")
			continue
		}
		arms, def := switchArms(info, sw)
		got := map[string]arm{}
		for _, a := range arms {
			for _, n := range a.Names {
				got[strings.TrimPrefix(n, "T")] = a
			}
		}
		armsOf[fname] = got
		var missing, extra []string
		for n := range specWireTypes {
			if _, ok := got[n]; !ok {
				missing = append(missing, n)
			}
		}
		for n := range got {
			if _, ok := specWireTypes[n]; !ok {
				extra = append(extra, n)
			}
		}
		sort.Strings(missing)
		sort.Strings(extra)
		c.Decide(len(missing) == 0, "codec-total", key+"/switch", c.Prog.Rel(sw.Pos()), fmt.Sprintf("%d arms cover all 11 wire types", len(got)),
			fmt.Sprintf("no arm for wire type(s) %v: an unknown field of that type is rejected or corrupts the stream", missing))
		if len(extra) > 0 {
			c.Note("%s has extra arms %v", key, extra)
		}
		c.Decide(def != nil && armRejects(info, def.Body), "codec-default-rejects", key+"/default", c.Prog.Rel(sw.Pos()), "the default arm returns an error", "an unknown wire type falls through silently (data dropped without error)")
		// per arm
		for n := range specWireTypes {
			a, ok := got[n]
			if !ok {
				continue
			}
			ak := key + "/case T" + n
			where := c.Prog.Rel(a.Pos)
			switch n {
			case "Set", "List", "Map", "Struct":
				rb, wb := methodSuffixes(a.Body, "Read"), methodSuffixes(a.Body, "Write")
				okFrame := contains(rb, n+"Begin") && contains(rb, n+"End") && contains(wb, n+"Begin") && contains(wb, n+"End")
				if n == "Struct" {
					// StructBegin/StructEnd carry no bytes in the binary protocol; the wire-visible framing of a nested
					// struct is FieldBegin../FieldStop (checked below). An asymmetric Begin/End is only noted.
					if !okFrame {
						c.Note("%s: StructBegin/StructEnd not paired on both sides (Read*: %v, Write*: %v); invisible on the binary protocol, would matter for stateful protocols", ak, rb, wb)
					}
					okFrame = true
				}
				c.Decide(okFrame, "codec-framing", ak, where, "reads and writes "+n+"Begin .. "+n+"End", fmt.Sprintf("container arm does not frame %sBegin/%sEnd on both sides (Read*: %v, Write*: %v)", n, n, rb, wb))
				// recursion inside a loop
				rec := 0
				for _, s := range a.Body {
					ast.Inspect(s, func(x ast.Node) bool {
						if fs, ok := x.(*ast.ForStmt); ok {
							for _, call := range rules.Calls(fs.Body, false) {
								if rules.Callee(info, call) == self {
									rec++
									if fname == "read" {
										// last argument is maxDepth-1
										last := call.Args[len(call.Args)-1]
										be, ok := last.(*ast.BinaryExpr)
										if !ok || be.Op != token.SUB {
											c.Bad("codec-depth", ak, c.Prog.Rel(call.Pos()), "recursive read does not decrement the depth bound")
										} else {
											c.OK("codec-depth", ak, c.Prog.Rel(call.Pos()), "recursion passes maxDepth-1")
										}
									}
								}
							}
							return false
						}
						return true
					})
				}
				want := 1
				if n == "Map" {
					want = 2
				}
				c.Decide(rec >= want, "codec-recursion", ak, where, fmt.Sprintf("%d recursive call(s) per element inside the element loop", rec),
					fmt.Sprintf("container arm recurses %d time(s) per element, needs %d: elements are dropped", rec, want))
				if n == "Struct" {
					stop := false
					for _, s := range a.Body {
						ast.Inspect(s, func(x ast.Node) bool {
							if be, ok := x.(*ast.BinaryExpr); ok && be.Op == token.EQL && constName(info, be.Y) == "TStop" {
								stop = true
							}
							return true
						})
					}
					c.Decide(stop, "codec-framing", ak+"/stop", where, "the nested-struct loop ends at STOP", "nested struct loop has no STOP test")
					fb := contains(rb, "FieldBegin") && contains(wb, "FieldBegin") && contains(wb, "FieldStop")
					c.Decide(fb, "codec-framing", ak+"/fields", where, "nested fields are re-framed FieldBegin.. and FieldStop is written", "nested struct fields are not re-framed (FieldBegin/FieldStop)")
				}
			default:
				rs, ws := methodSuffixes(a.Body, "Read"), methodSuffixes(a.Body, "Write")
				ok := len(rs) == 1 && rs[0] == n && len(ws) == 1 && ws[0] == n
				c.Decide(ok, "codec-arm-method", ak, where, "uses Read"+n+" and Write"+n, fmt.Sprintf("arm for T%s uses Read%v / Write%v: value re-encoded with the wrong type", n, rs, ws))
			}
		}
	}
	// read tests the depth bound before the switch
	if fd := c.Prog.FuncDecl(unknownRel, "read"); fd != nil {
		ok := false
		if len(fd.Body.List) > 0 {
			if is, isIf := fd.Body.List[0].(*ast.IfStmt); isIf {
				if be, isB := is.Cond.(*ast.BinaryExpr); isB && (be.Op == token.LEQ || be.Op == token.LSS) && strings.Contains(types.ExprString(be.X), "maxDepth") {
					ok = armRejects(info, is.Body.List)
				}
			}
		}
		c.Decide(ok, "codec-depth", unknownRel+".read/bound", c.Prog.Rel(fd.Pos()), "read returns an error when the depth bound is exhausted", "read has no depth bound test: nesting attacks recurse without limit")
	}
	if len(armsOf) == 2 {
		same := len(armsOf["read"]) == len(armsOf["write"])
		for k := range armsOf["read"] {
			if _, ok := armsOf["write"][k]; !ok {
				same = false
			}
		}
		c.Decide(same, "codec-symmetric", unknownRel+".read~write", "", "read and write handle the same set of wire types", "read and write handle different sets of wire types: a field that was stored cannot be written back")
	}
	c.Min("codec-arm-method", 14)
	c.Min("codec-framing", 10)
	// Append / Write in Fields drive read/write for every stored field
	c09fields(c)
	c09reserve(c)
	// template clauses
	tmplC09(c)
	c09lengthGuards(c)
}

func contains(xs []string, s string) bool {
	for _, x := range xs {
		if x == s {
			return true
		}
	}
	return false
}

func c09fields(c *core.Check) {
	pk := c.Prog.Pkg(unknownRel)
	info := pk.TypesInfo
	readFn, _ := pk.Types.Scope().Lookup("read").(*types.Func)
	writeFn, _ := pk.Types.Scope().Lookup("write").(*types.Func)
	if fd := c.Prog.FuncDecl(unknownRel, "Fields.Append"); fd != nil {
		ok := callsFuncNamed(info, fd.Body.List, readFn) && len(droppedErrors(info, fd.Body)) == 0
		c.Decide(ok, "fields-append", unknownRel+".(Fields).Append", c.Prog.Rel(fd.Pos()), "Append re-encodes the field through read and returns its error", "Append no longer stores the field through read (or drops its error)")
	} else {
		c.Unknown("anchor", unknownRel+".(Fields).Append", "", "missing")
	}
	if fd := c.Prog.FuncDecl(unknownRel, "Fields.Write"); fd != nil {
		// a loop over the stored bytes calling write
		inLoop := false
		ast.Inspect(fd.Body, func(n ast.Node) bool {
			if fs, ok := n.(*ast.ForStmt); ok {
				if callsFuncNamed(info, fs.Body.List, writeFn) {
					inLoop = true
				}
			}
			return true
		})
		c.Decide(inLoop, "fields-write", unknownRel+".(Fields).Write", c.Prog.Rel(fd.Pos()), "Write replays every stored field through write in a loop", "Fields.Write does not replay every stored field")
	} else {
		c.Unknown("anchor", unknownRel+".(Fields).Write", "", "missing")
	}
}
