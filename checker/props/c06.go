package props

import (
	"fmt"
	"go/ast"
	"go/token"
	"sort"
	"strings"

	"verif/checker/core"
	"verif/checker/rules"
	"verif/checker/tmpl"
)

func init() { register("C06", c06) }

// value kinds each category must accept according to the property text and docs (a superset is fine).
var c06Accept = map[string][]string{
	"onBool":       {"ConstInt", "ConstIdentifier"},
	"onInt":        {"ConstInt", "ConstIdentifier"},
	"onDouble":     {"ConstInt", "ConstDouble", "ConstIdentifier"},
	"onStrBin":     {"ConstLiteral", "ConstIdentifier"},
	"onEnum":       {"ConstInt", "ConstIdentifier"},
	"onSetOrList":  {"ConstList", "ConstIdentifier"},
	"onMap":        {"ConstMap", "ConstIdentifier"},
	"onStructLike": {"ConstMap", "ConstIdentifier"},
}

func c06(c *core.Check) {
	c.Explain = "ENUM + TMPL siblings. (1) Resolver.resolveConst dispatches every one of the 15 value categories to a helper and rejects everything else with an error; each on* helper switches over the written value kind, accepts at least the kinds the documentation allows for that category (int for double, 0/1/true/false for bool, int or identifier for enum, …) and ends in an error for any other kind (a string for an integer is rejected, C04). " +
		"(2) Constants.GoConstants and GoVariables filter with IsConstantInGo in opposite polarity (a partition: every constant is declared exactly once), and the Constant template prints the const block from GoConstants and the var block from GoVariables with the same `name = initialization` pair. " +
		"(3) on every abstract rendering of the struct shell: NewX's composite literal and InitDefault set exactly the fields with IsSetDefault to the same DefaultValue placeholder (sibling agreement, compared with each other); " +
		"(4) on every rendering of FieldGetOrSet / FieldIsSet: the <Type>_<Field>_DEFAULT variable is declared iff the field supports IsSet, initialised with the field's DefaultValue iff it has a default, returned by the getter when the field is unset, and it is the same variable IsSet compares against. " +
		"(5) scope discipline of the resolver: every recursive resolveConst / getIDValue call keeps the value scope (the file the literal is written in) unchanged, the type scope passed along is the one the type was looked up in, and element types are read only from dereferenced types (a typedef reference has nil KeyType/ValueType). " +
		"NOT decided: any value (numbers, escaping)."
	c.RuleText = "one obligation per category / helper / sibling pair / rendering-level rule"
	c.Assume = []string{"templates are the only producers of constant and default code"}
	pk := c.Prog.Pkg(golangRel)
	info := pk.TypesInfo
	// (1)
	if fd := c.Prog.FuncDecl(golangRel, "Resolver.resolveConst"); fd != nil {
		sw := firstSwitchOn(fd, "Category")
		if sw == nil {
			c.Unknown("const-dispatch", golangRel+".(Resolver).resolveConst", "", "no switch over the category")
		} else {
			arms, _ := switchArms(info, sw)
			cov := map[string]string{}
			for _, a := range arms {
				helper := ""
				for _, call := range rules.Calls(&ast.BlockStmt{List: a.Body}, false) {
					if fn := rules.Callee(info, call); fn != nil && strings.HasPrefix(fn.Name(), "on") {
						helper = fn.Name()
					}
				}
				for _, n := range a.Names {
					cov[strings.TrimPrefix(n, "Category_")] = helper
				}
			}
			for _, cat := range valueCategories {
				h, ok := cov[cat]
				c.Decide(ok && h != "", "const-dispatch", golangRel+".(Resolver).resolveConst/"+cat, c.Prog.Rel(sw.Pos()), "handled by "+h, "constants of category "+cat+" have no arm: a valid constant of that type is rejected (or silently dropped)")
			}
			last := fd.Body.List[len(fd.Body.List)-1]
			rs, ok := last.(*ast.ReturnStmt)
			c.Decide(ok && len(rs.Results) == 2 && !rules.IsNil(info, rs.Results[1]), "const-dispatch", golangRel+".(Resolver).resolveConst/fallthrough", c.Prog.Rel(last.Pos()), "any other category is an error", "an unhandled category no longer produces an error")
		}
	} else {
		c.Unknown("anchor", golangRel+".(Resolver).resolveConst", "", "missing")
	}
	var helpers []string
	for h := range c06Accept {
		helpers = append(helpers, h)
	}
	sort.Strings(helpers)
	for _, h := range helpers {
		fd := c.Prog.FuncDecl(golangRel, "Resolver."+h)
		key := golangRel + ".(Resolver)." + h
		if fd == nil {
			c.Unknown("const-kinds", key, "", "helper missing")
			continue
		}
		// value kinds mentioned in the helper, in switch-form or if-form
		have := map[string]bool{}
		ast.Inspect(fd.Body, func(n ast.Node) bool {
			switch x := n.(type) {
			case *ast.CaseClause:
				for _, e := range x.List {
					if nm := constName(info, e); strings.HasPrefix(nm, "ConstType_") {
						have[strings.TrimPrefix(nm, "ConstType_")] = true
					}
				}
			case *ast.BinaryExpr:
				if strings.HasSuffix(rules.ExprString(x.X), "v.Type") {
					if nm := constName(info, x.Y); strings.HasPrefix(nm, "ConstType_") {
						have[strings.TrimPrefix(nm, "ConstType_")] = true
					}
				}
			}
			return true
		})
		var missing []string
		for _, k := range c06Accept[h] {
			if !have[k] {
				missing = append(missing, k)
			}
		}
		c.Decide(len(missing) == 0, "const-kinds", key+"/accepts", c.Prog.Rel(fd.Pos()), fmt.Sprintf("accepts %v", c06Accept[h]), fmt.Sprintf("%s no longer accepts value kind(s) %v that the IDL documentation allows for this category", h, missing))
		if h == "onSetOrList" || h == "onMap" {
			c.Note("%s tolerates values of another kind by producing an empty container (\"fault tolerance\" in the source); the catalogue of rejected kinds covers scalar and struct types only", h)
			continue
		}
		// rejection of the rest: a switch default / statement after the switch / `if v.Type != K` arm that returns an error
		rej := false
		if sw := firstSwitchOn(fd, "v.Type"); sw != nil {
			_, def := switchArms(info, sw)
			rej = def != nil && armRejects(info, def.Body)
			if !rej {
				for i, s := range fd.Body.List {
					if s == ast.Stmt(sw) && i+1 < len(fd.Body.List) {
						rej = armRejects(info, fd.Body.List[i+1:])
					}
				}
			}
		} else {
			ast.Inspect(fd.Body, func(n ast.Node) bool {
				if is, ok := n.(*ast.IfStmt); ok {
					if be, ok := is.Cond.(*ast.BinaryExpr); ok && be.Op == token.NEQ && strings.HasSuffix(rules.ExprString(be.X), "v.Type") && armRejects(info, is.Body.List) {
						rej = true
					}
				}
				return true
			})
		}
		c.Decide(rej, "const-kinds", key+"/rejects-others", c.Prog.Rel(fd.Pos()), "any other value kind ends in an error", "a value of a kind the category cannot hold is no longer rejected by "+h)
	}
	// (2)
	pol := map[string]string{}
	for _, m := range []string{"GoConstants", "GoVariables"} {
		fd := c.Prog.FuncDecl(golangRel, "Constants."+m)
		if fd == nil {
			c.Unknown("const-partition", golangRel+".(Constants)."+m, "", "missing")
			continue
		}
		ast.Inspect(fd.Body, func(n ast.Node) bool {
			if is, ok := n.(*ast.IfStmt); ok {
				cond := rules.ExprString(is.Cond)
				if strings.Contains(cond, "IsConstantInGo(") {
					if strings.HasPrefix(cond, "!") {
						pol[m] = "neg"
					} else {
						pol[m] = "pos"
					}
				}
			}
			return true
		})
	}
	c.Decide(pol["GoConstants"] == "pos" && pol["GoVariables"] == "neg", "const-partition", golangRel+".(Constants).GoConstants~GoVariables", "", "IsConstantInGo / !IsConstantInGo: the two lists partition the constants",
		fmt.Sprintf("GoConstants filters with %q and GoVariables with %q: a constant is declared twice or not at all", pol["GoConstants"], pol["GoVariables"]))
	// templates
	c06scopes(c)
	c06redirect(c)
	c06quoteEscape(c)
	c06containerElems(c)
	c06numericIdentifier(c)
	pkgIdentityByPath(c)
	st := tmplEngine(c)
	if st == nil {
		return
	}
	g := "generator/golang"
	sub := []string{"FieldGetOrSet", "FieldIsSet", "StructLikeRead", "StructLikeReadField", "StructLikeWrite", "StructLikeWriteField", "StructLikeDeepEqual", "StructLikeDeepEqualField"}
	quiet := map[string]int{"Features.KeepUnknownFields": 0, "Features.WithFieldMask": 0, "Features.GenerateTypeMeta": 0, "Features.JSONStringer": 0, "Features.ReserveComments": 0, "Features.GenDeepEqual": 0}
	units := []unit{
		{Set: "default", Def: "StructLike", Name: "StructLike(shell)", DotRel: g, DotType: "StructLike", Stub: sub, Lists: []int{0, 1, 2}, Cats: []string{"I32", "Struct"}, Fixed: quiet},
		{Set: "slim", Def: "StructLike", Name: "StructLike(shell)", DotRel: g, DotType: "StructLike", Stub: sub, Lists: []int{0, 1, 2}, Cats: []string{"I32", "Struct"}, Fixed: quiet},
		{Set: "default", Def: "FieldGetOrSet", DotRel: g, DotType: "StructLike", Lists: []int{1}, Cats: []string{"I32", "Binary", "Struct", "List"}, Fixed: map[string]int{"Features.GenerateSetter": 0}},
		{Set: "default", Def: "FieldIsSet", DotRel: g, DotType: "StructLike", Lists: []int{1}, Cats: []string{"I32", "Binary", "Struct", "List"}},
		{Set: "default", Def: "Constant", DotRel: g, DotType: "Scope", Lists: []int{0, 1, 2}, Cats: []string{"I32"}},
	}
	agg := newAggregate()
	runUnits(c, st, units, func(r *rendered) {
		k := r.U.key()
		if _, gf := r.R.Err.(*tmpl.GenFailure); gf {
			return
		}
		if r.R.Err != nil || r.ParseErr != nil {
			agg.check("renders", k)
			agg.fail("renders", k, fmt.Sprintf("under [%s]: %v %v", r.R.Valuation, r.R.Err, r.ParseErr))
			return
		}
		switch r.U.Def {
		case "StructLike":
			c06defaults(agg, r)
		case "FieldGetOrSet":
			c06getter(agg, r)
		case "FieldIsSet":
			c06isset(agg, r)
		case "Constant":
			c06constant(agg, r)
		}
	})
	agg.flush(c, map[string]string{
		"default-siblings": "NewX's literal and InitDefault set the same fields to the same default placeholders",
		"default-variable": "the DEFAULT variable is declared iff IsSet is supported, initialised iff the field has a default, returned when unset",
		"isset-default":    "IsSet compares against the same DEFAULT variable (or nil)",
		"const-blocks":     "const block from GoConstants, var block from GoVariables, name = initialization",
	})
	for _, k := range []string{"default-siblings", "default-variable", "isset-default", "const-blocks"} {
		c.Min(k, 1)
	}
}

func c06defaults(agg *aggregate, r *rendered) {
	k := r.U.key()
	agg.check("default-siblings", k)
	fields := fieldsOf(r)
	lit := map[string]string{}
	var newFn, initFn *ast.FuncDecl
	for _, d := range r.P.File.Decls {
		if fd, ok := d.(*ast.FuncDecl); ok {
			if fd.Recv == nil && strings.HasPrefix(fd.Name.Name, "New") {
				newFn = fd
			}
			if fd.Name.Name == "InitDefault" {
				initFn = fd
			}
		}
	}
	if newFn == nil || initFn == nil {
		agg.fail("default-siblings", k, "under ["+r.R.Valuation+"]: NewX or InitDefault is not generated")
		return
	}
	ast.Inspect(newFn.Body, func(n ast.Node) bool {
		if cl, ok := n.(*ast.CompositeLit); ok {
			for _, e := range cl.Elts {
				if kv, ok := e.(*ast.KeyValueExpr); ok {
					lit[rules.ExprText(kv.Key)] = rules.ExprText(kv.Value)
				}
			}
		}
		return true
	})
	ini := map[string]string{}
	for _, s := range initFn.Body.List {
		if as, ok := s.(*ast.AssignStmt); ok && len(as.Lhs) == 1 {
			ini[strings.TrimPrefix(rules.ExprText(as.Lhs[0]), "p.")] = rules.ExprText(as.Rhs[0])
		}
	}
	if fmt.Sprint(lit) != fmt.Sprint(ini) {
		agg.fail("default-siblings", k, fmt.Sprintf("under [%s]: NewX initialises %v but InitDefault sets %v", r.R.Valuation, lit, ini))
	}
	// exactly the fields with IsSetDefault, to their DefaultValue placeholder
	dot, _ := r.R.Dot.(*tmpl.Obj)
	for _, f := range fields {
		want := false
		if fo, ok := dot.Peek("fields").(*tmpl.List); ok && f.Idx < len(fo.Elems) {
			if o, ok := fo.Elems[f.Idx].(*tmpl.Obj); ok {
				_, want = o.Peek("Field", "Default").(*tmpl.Obj)
			}
		}
		v, has := lit[f.GoName]
		if want != has {
			agg.fail("default-siblings", k, fmt.Sprintf("under [%s]: field %d has a declared default: %v, initialised by NewX: %v", r.R.Valuation, f.Idx, want, has))
		}
		if has && !strings.Contains(v, "defaultValue") {
			agg.fail("default-siblings", k, fmt.Sprintf("under [%s]: field %d is initialised with %s, not with its DefaultValue", r.R.Valuation, f.Idx, v))
		}
	}
}

func c06getter(agg *aggregate, r *rendered) {
	k := r.U.key()
	fields := fieldsOf(r)
	if len(fields) != 1 {
		return
	}
	f := fields[0]
	agg.check("default-variable", k)
	var defVar *ast.ValueSpec
	for _, d := range r.P.File.Decls {
		if gd, ok := d.(*ast.GenDecl); ok {
			for _, s := range gd.Specs {
				if vs, ok := s.(*ast.ValueSpec); ok && strings.HasSuffix(vs.Names[0].Name, "_DEFAULT") {
					defVar = vs
				}
			}
		}
	}
	getter := findFunc(r.P.File, tmpl.Ident("x.fields[0].getter"))
	if getter == nil {
		agg.fail("default-variable", k, "under ["+r.R.Valuation+"]: no getter generated")
		return
	}
	callsIsSet := len(callsNamed(getter.Body, "p", f.IsSet)) > 0
	if (defVar != nil) != callsIsSet {
		agg.fail("default-variable", k, fmt.Sprintf("under [%s]: DEFAULT variable declared: %v, getter consults IsSet: %v", r.R.Valuation, defVar != nil, callsIsSet))
	}
	if defVar == nil {
		return
	}
	name := defVar.Names[0].Name
	if !strings.Contains(name, f.GoName) {
		agg.fail("default-variable", k, "under ["+r.R.Valuation+"]: the DEFAULT variable "+name+" is not named after the field")
	}
	if f.HasDefault != (len(defVar.Values) == 1) {
		agg.fail("default-variable", k, fmt.Sprintf("under [%s]: field has a declared default: %v, DEFAULT variable initialised: %v", r.R.Valuation, f.HasDefault, len(defVar.Values) == 1))
	}
	if len(defVar.Values) == 1 && !strings.Contains(rules.ExprText(defVar.Values[0]), "defaultValue") {
		agg.fail("default-variable", k, "under ["+r.R.Valuation+"]: the DEFAULT variable is not initialised with the field's DefaultValue")
	}
	// returned when unset
	ok := false
	ast.Inspect(getter.Body, func(n ast.Node) bool {
		if is, isIf := n.(*ast.IfStmt); isIf {
			if u, isU := is.Cond.(*ast.UnaryExpr); isU && strings.Contains(rules.ExprText(u.X), f.IsSet) && len(is.Body.List) == 1 {
				if rs, isR := is.Body.List[0].(*ast.ReturnStmt); isR && len(rs.Results) == 1 && rules.ExprText(rs.Results[0]) == name {
					ok = true
				}
			}
		}
		return true
	})
	if !ok {
		agg.fail("default-variable", k, "under ["+r.R.Valuation+"]: the getter does not return "+name+" when the field is not set")
	}
}

func c06isset(agg *aggregate, r *rendered) {
	k := r.U.key()
	fields := fieldsOf(r)
	if len(fields) != 1 {
		return
	}
	f := fields[0]
	fd := findFunc(r.P.File, f.IsSet)
	if fd == nil {
		return // SupportIsSet false
	}
	agg.check("isset-default", k)
	if len(fd.Body.List) != 1 {
		agg.fail("isset-default", k, "under ["+r.R.Valuation+"]: IsSet is not a single return")
		return
	}
	rs, ok := fd.Body.List[0].(*ast.ReturnStmt)
	if !ok {
		agg.fail("isset-default", k, "under ["+r.R.Valuation+"]: IsSet is not a single return")
		return
	}
	t := rules.ExprText(rs.Results[0])
	base := f.Shape != nil && !f.Shape.isStructLike() && !f.Shape.isContainer()
	if f.HasDefault && base {
		if !strings.Contains(t, "_DEFAULT") || !strings.Contains(t, f.GoName) || !strings.Contains(t, "!=") {
			agg.fail("isset-default", k, fmt.Sprintf("under [%s] shape %s: a base-typed field with a default must be compared against its DEFAULT variable, got `%s`", r.R.Valuation, f.Shape, t))
		}
	} else if t != "p."+f.GoName+" != nil" {
		agg.fail("isset-default", k, fmt.Sprintf("under [%s] shape %s: IsSet is `%s`, expected a nil test of the field", r.R.Valuation, f.Shape, t))
	}
}

func c06constant(agg *aggregate, r *rendered) {
	k := r.U.key()
	agg.check("const-blocks", k)
	for _, d := range r.P.File.Decls {
		gd, ok := d.(*ast.GenDecl)
		if !ok {
			continue
		}
		for _, s := range gd.Specs {
			vs, ok := s.(*ast.ValueSpec)
			if !ok || len(vs.Names) != 1 || len(vs.Values) != 1 {
				continue
			}
			n, v := vs.Names[0].Name, rules.ExprText(vs.Values[0])
			src := "GoConstants"
			if gd.Tok.String() == "var" {
				src = "GoVariables"
			}
			if !strings.Contains(n, src) || !strings.Contains(v, src) {
				agg.fail("const-blocks", k, fmt.Sprintf("under [%s]: %s block declares %s = %s, which does not come from %s", r.R.Valuation, gd.Tok, n, v, src))
			}
			if strings.Replace(n, "_name", "", 1) != strings.Replace(v, "_init", "", 1) && !(strings.HasSuffix(n, "name") && strings.HasSuffix(v, "init")) {
				agg.fail("const-blocks", k, fmt.Sprintf("under [%s]: %s = %s pairs the name of one constant with the initialiser of another", r.R.Valuation, n, v))
			}
		}
	}
}

var _ = core.Module
