package props

import (
	"fmt"
	"go/ast"
	"go/constant"
	"go/token"
	"go/types"
	"golang.org/x/tools/go/packages"
	"strings"

	"verif/checker/core"
	"verif/checker/rules"
	"verif/checker/tmpl"
)

func init() { register("C13", c13) }

func c13(c *core.Check) {
	c.Explain = "TMPL+PATH on every abstract rendering of StructLikeWriteField / StructLikeReadField with with_field_mask on (x field_mask_halfway x field_mask_zero_required x requiredness x all type shapes): " +
		"M1 count/loop agreement: the count passed to Write{List,Set,Map}Begin is len(target) or a variable initialised to len(target) and decremented in a loop that visits every index/key of the same target (loop-invariant bound: no variable of the loop condition is assigned in the body; the bound is len(target) or a range over target) under the same mask query (receiver and Int/Str kind) the element loop uses to skip; " +
		"M2 the element loop writes nothing for a missed element and exactly the element's protocol events for a hit (typestate over go/cfg); on read a missed element is skipped with the element's spec wire type and a hit reads exactly one element, map keys are always read; a masked-out field is skipped with the field's wire type; " +
		"M3 required fields pass WriteFieldBegin..WriteFieldEnd on every path; non-required fields write nothing when the mask misses (the zero-value arm exists only for required fields); " +
		"M4 struct-typed children receive Set_FieldMask/Pass_FieldMask with the variable bound by the innermost enclosing mask query. " +
		"NOT decided: the fieldmask library's query semantics (C14); maps with non-scalar keys (header is len(target), elements are filtered by Int(0): only consistent if such masks are all-or-nothing)."
	c.RuleText = "one obligation per (rule, unit) over all distinct renderings; non-trivial = typestate / loop-invariance / def-use argument on the rendering's AST and CFG"
	c.Assume = []string{"fieldmask.FieldMask queries are pure and deterministic", "templates are recursive in one context parameter beyond the nesting bound"}
	st := tmplEngine(c)
	if st == nil {
		return
	}
	g := "generator/golang"
	mask := map[string]int{"Features.WithFieldMask": 1, "Features.ApacheAdaptor": 0}
	units := []unit{
		{Set: "default", Def: "StructLikeReadField", DotRel: g, DotType: "StructLike", Lists: []int{1}, Fixed: mask},
		{Set: "default", Def: "StructLikeWriteField", DotRel: g, DotType: "StructLike", Lists: []int{1}, Fixed: mask},
	}
	agg := newAggregate()
	runUnits(c, st, units, func(r *rendered) {
		k := r.U.key()
		if _, gf := r.R.Err.(*tmpl.GenFailure); gf {
			// the generator itself refuses this input (e.g. ZeroWriter has no arm for union/exception fields, DESIGN D9):
			// no code is produced, so no clause about generated code applies
			return
		}
		if r.R.Err != nil || r.ParseErr != nil {
			agg.check("renders", k)
			agg.fail("renders", k, fmt.Sprintf("under [%s]: %v %v", r.R.Valuation, r.R.Err, r.ParseErr))
			return
		}
		fields := fieldsOf(r)
		if len(fields) != 1 || fields[0].Shape == nil {
			return
		}
		f := fields[0]
		switch r.U.Def {
		case "StructLikeWriteField":
			fd := findFunc(r.P.File, f.Writer)
			if fd == nil {
				agg.check("renders", k)
				agg.fail("renders", k, "writer not rendered under ["+r.R.Valuation+"]")
				return
			}
			c13count(agg, r, fd, f)
			c13shortcut(agg, r, fd, f)
			c13writeFrame(agg, r, fd, f)
			c13propagation(agg, r, fd)
		case "StructLikeReadField":
			fd := findFunc(r.P.File, f.Reader)
			if fd == nil {
				agg.check("renders", k)
				agg.fail("renders", k, "reader not rendered under ["+r.R.Valuation+"]")
				return
			}
			c13read(agg, r, fd, f)
			c13propagation(agg, r, fd)
		}
	})
	agg.flush(c, map[string]string{
		"M1-count-loop":         "header count is len(target) or a variable counted over every index/key of target with the element loop's predicate",
		"M1-loop-bound":         "no counting loop assigns a variable of its own condition in its body",
		"M2-write-filter":       "element loop: nothing for a miss, the element's events for a hit; field frame per requiredness",
		"M2-read-filter":        "miss: Skip with the spec wire type; hit: exactly one element; field-level miss skips the field",
		"M3-zero-only-required": "the zero-value arm exists only for required fields",
		"M4-propagation":        "child structs receive the sub-mask bound by the innermost enclosing query",
		"M4-mask-before-write":  "a child that is handed a sub-mask receives it on every path to its Write",
		"M1-all-shortcut-consistent": "under the All() short cut of the header no element is dropped",
	})
	for _, k := range []string{"M1-count-loop", "M1-loop-bound", "M2-write-filter", "M2-read-filter", "M3-zero-only-required", "M4-propagation", "M4-mask-before-write", "M1-all-shortcut-consistent"} {
		c.Min(k, 1)
	}
	c13keyKinds(c)
	headTailPartition(c)
	c14trie(c)
}

// c13keyKinds (M5): the generator and the mask library must classify map key types identically. The templates pick the
// query (Int / Str / all-or-nothing Int(0)) with IsIntType / IsStrType on the key's category; the library decides how a
// map mask is stored (FtIntMap / FtStrMap / scalar) in switchFt from the key's type name. A key kind that one side treats
// as string-keyed and the other as "other" is filtered with the wrong query and the header count is not adjusted.
func c13keyKinds(c *core.Check) {
	gpk := c.Prog.Pkg(golangRel)
	gen := map[string]string{} // category -> int | str
	for fn, kind := range map[string]string{"IsIntType": "int", "IsStrType": "str"} {
		fd := c.Prog.FuncDecl(golangRel, fn)
		if fd == nil {
			c.Unknown("M5-key-kind-agreement", golangRel+"."+fn, "", "predicate missing")
			return
		}
		sw := firstSwitchOn(fd, "Category")
		if sw == nil {
			// a single boolean expression over the category: evaluate it for every category constant
			cats, ok := evalCategoryPredicate(c, gpk, fd)
			if !ok {
				c.Unknown("M5-key-kind-agreement", golangRel+"."+fn, c.Prog.Rel(fd.Pos()), "predicate is neither a switch over the category nor a single comparison expression")
				return
			}
			for _, n := range cats {
				gen[n] = kind
			}
			continue
		}
		arms, _ := switchArms(gpk.TypesInfo, sw)
		for _, a := range arms {
			ret := false
			for _, s := range a.Body {
				if rs, ok := s.(*ast.ReturnStmt); ok && len(rs.Results) == 1 && rules.ExprString(rs.Results[0]) == "true" {
					ret = true
				}
			}
			if ret {
				for _, n := range a.Names {
					gen[strings.TrimPrefix(n, "Category_")] = kind
				}
			}
		}
	}
	// library side
	fd := c.Prog.FuncDecl("fieldmask", "switchFt")
	if fd == nil {
		c.Unknown("M5-key-kind-agreement", "fieldmask.switchFt", "", "missing")
		return
	}
	fpk := c.Prog.Pkg("fieldmask")
	lib := map[string]string{} // type name -> int | str
	enumInt := false
	ast.Inspect(fd.Body, func(n ast.Node) bool {
		switch x := n.(type) {
		case *ast.SwitchStmt:
			if x.Tag == nil || !strings.Contains(rules.ExprString(x.Tag), "GetName") {
				return true
			}
			for _, cc := range x.Body.List {
				cl := cc.(*ast.CaseClause)
				kind := ""
				for _, s := range cl.Body {
					if rs, ok := s.(*ast.ReturnStmt); ok && len(rs.Results) == 1 {
						switch rules.ExprString(rs.Results[0]) {
						case "FtIntMap":
							kind = "int"
						case "FtStrMap":
							kind = "str"
						}
					}
				}
				for _, e := range cl.List {
					if s, ok := rules.ConstString(fpk.TypesInfo, e); ok && kind != "" {
						lib[s] = kind
					}
				}
			}
		case *ast.IfStmt:
			if strings.Contains(rules.ExprString(x.Cond), "IsEnum()") {
				for _, s := range x.Body.List {
					if rs, ok := s.(*ast.ReturnStmt); ok && len(rs.Results) == 1 && rules.ExprString(rs.Results[0]) == "FtIntMap" {
						enumInt = true
					}
				}
			}
		}
		return true
	})
	// IDL type name -> category, from the resolver's own table
	spk := c.Prog.Pkg("semantic")
	nameCat := map[string]string{}
	if init := pkgVarInit(spk, "categoryMap"); init != nil {
		if cl, ok := init.(*ast.CompositeLit); ok {
			for _, e := range cl.Elts {
				kv := e.(*ast.KeyValueExpr)
				if s, ok := rules.ConstString(spk.TypesInfo, kv.Key); ok {
					nameCat[s] = strings.TrimPrefix(constName(spk.TypesInfo, kv.Value), "Category_")
				}
			}
		}
	}
	if len(nameCat) < 9 || len(lib) == 0 {
		c.Unknown("M5-key-kind-agreement", "semantic.categoryMap|fieldmask.switchFt", "", "tables not found")
		return
	}
	libCat := map[string]string{}
	for n, k := range lib {
		if cat, ok := nameCat[n]; ok {
			libCat[cat] = k
		}
	}
	if enumInt {
		libCat["Enum"] = "int"
	}
	for _, cat := range valueCategories {
		g, l := gen[cat], libCat[cat]
		if g == "" {
			g = "other"
		}
		if l == "" {
			l = "other"
		}
		c.Decide(g == l, "M5-key-kind-agreement", "map key "+cat, "", "generator and mask library both treat "+cat+" keys as "+g,
			fmt.Sprintf("map keys of category %s are %s-keyed for the mask library (switchFt) but %s-keyed for the generated code (IsIntType/IsStrType): the mask is queried with the wrong key kind and filtered maps get a wrong header or lose selected entries", cat, l, g))
	}
}

// maskQuery recognises `X.Field(..)`, `X.Int(..)`, `X.Str(..)` calls: returns receiver and method.
func maskQuery(e ast.Expr) (recv, method string, ok bool) {
	r, name, _, isCall := rules.SelectorCall(e)
	if !isCall {
		return "", "", false
	}
	switch name {
	case "Field", "Int", "Str":
		return r, name, true
	}
	return "", "", false
}

// c13count: M1.
// c13shortcut: when the header of a container is written with len(target) because the mask says All(), the element loop
// must write every element in that case: each `continue` that drops an element has to be conditional on !<mask>.All().
func c13shortcut(agg *aggregate, r *rendered, fd *ast.FuncDecl, f fieldInfo) {
	k := r.U.key()
	ast.Inspect(fd.Body, func(n ast.Node) bool {
		is, ok := n.(*ast.IfStmt)
		if !ok || is.Else == nil {
			return true
		}
		cond := strings.ReplaceAll(rules.ExprText(is.Cond), " ", "")
		if !strings.HasPrefix(cond, "!") || !strings.HasSuffix(cond, ".All()") {
			return true
		}
		mask := strings.TrimSuffix(strings.TrimPrefix(cond, "!"), ".All()")
		// the else branch writes a header with len(X)
		target := ""
		ast.Inspect(is.Else, func(m ast.Node) bool {
			if call, ok := m.(*ast.CallExpr); ok && strings.HasSuffix(rules.ExprText(call.Fun), "Begin") && len(call.Args) >= 2 {
				last := strings.ReplaceAll(rules.ExprText(call.Args[len(call.Args)-1]), " ", "")
				if strings.HasPrefix(last, "len(") {
					target = strings.TrimSuffix(strings.TrimPrefix(last, "len("), ")")
				}
			}
			return true
		})
		if target == "" {
			return true
		}
		// the loop over the same target that writes the elements (not the counting loop inside the then-branch)
		ast.Inspect(fd.Body, func(m ast.Node) bool {
			rs, ok := m.(*ast.RangeStmt)
			if !ok || strings.ReplaceAll(rules.ExprText(rs.X), " ", "") != target || (is.Body.Pos() <= rs.Pos() && rs.End() <= is.Body.End()) {
				return true
			}
			agg.check("M1-all-shortcut-consistent", k)
			ast.Inspect(rs.Body, func(x ast.Node) bool {
				inner, ok := x.(*ast.IfStmt)
				if !ok {
					return true
				}
				drops := false
				for _, st := range inner.Body.List {
					if b, ok := st.(*ast.BranchStmt); ok && b.Tok == token.CONTINUE {
						drops = true
					}
				}
				initText := ""
				if as, ok := inner.Init.(*ast.AssignStmt); ok && len(as.Rhs) == 1 {
					initText = rules.ExprText(as.Rhs[0])
				}
				if !drops || !strings.HasPrefix(initText, mask+".") {
					return true
				}
				ic := strings.ReplaceAll(rules.ExprText(inner.Cond), " ", "")
				if !strings.Contains(ic, "!"+mask+".All()") {
					agg.fail("M1-all-shortcut-consistent", k, fmt.Sprintf("under [%s] shape %s: when %s.All() holds the header is written with len(%s), but the element loop still drops an element whenever the query `%s` fails (condition `%s`): a required container under a black-list mask that covers it completely is announced with n elements and written with none — the encoding is malformed", r.R.Valuation, f.Shape, mask, target, initText, rules.ExprText(inner.Cond)))
				}
				return true
			})
			return true
		})
		return true
	})
}

func c13count(agg *aggregate, r *rendered, fd *ast.FuncDecl, f fieldInfo) {
	k := r.U.key()
	// every counting for-loop: loop-bound invariance
	ast.Inspect(fd.Body, func(n ast.Node) bool {
		fs, ok := n.(*ast.ForStmt)
		if !ok || fs.Cond == nil {
			return true
		}
		agg.check("M1-loop-bound", k)
		condVars := map[string]bool{}
		ast.Inspect(fs.Cond, func(x ast.Node) bool {
			if id, ok := x.(*ast.Ident); ok {
				condVars[id.Name] = true
			}
			return true
		})
		ast.Inspect(fs.Body, func(x ast.Node) bool {
			switch s := x.(type) {
			case *ast.IncDecStmt:
				if id, ok := s.X.(*ast.Ident); ok && condVars[id.Name] {
					agg.fail("M1-loop-bound", k, fmt.Sprintf("under [%s] shape %s: loop `for …; %s; …` changes %s in its body: the bound shrinks while counting, so trailing elements are never inspected and the header count is too large", r.R.Valuation, f.Shape, rules.ExprText(fs.Cond), id.Name))
				}
			case *ast.AssignStmt:
				if s.Tok != token.DEFINE {
					for _, l := range s.Lhs {
						if id, ok := l.(*ast.Ident); ok && condVars[id.Name] {
							agg.fail("M1-loop-bound", k, fmt.Sprintf("under [%s] shape %s: loop condition variable %s is assigned in the loop body", r.R.Valuation, f.Shape, id.Name))
						}
					}
				}
			}
			return true
		})
		return true
	})
	// each container header
	ast.Inspect(fd.Body, func(n ast.Node) bool {
		blk, ok := n.(*ast.BlockStmt)
		if !ok {
			return true
		}
		for i, s := range blk.List {
			is, ok := s.(*ast.IfStmt)
			if !ok {
				continue
			}
			begins := beginCalls(is.Body)
			if len(begins) == 0 || is.Init == nil {
				// only statements of the form `if err := oprot.WriteXBegin(..., cnt); err != nil`
				if as, ok2 := is.Init.(*ast.AssignStmt); !ok2 || len(as.Rhs) != 1 {
					continue
				}
			}
			as, ok := is.Init.(*ast.AssignStmt)
			if !ok || len(as.Rhs) != 1 {
				continue
			}
			recv, name, call, okc := rules.SelectorCall(as.Rhs[0])
			if !okc || recv != "oprot" || !strings.HasSuffix(name, "Begin") || name == "WriteFieldBegin" || name == "WriteStructBegin" {
				continue
			}
			agg.check("M1-count-loop", k)
			cnt := call.Args[len(call.Args)-1]
			if c, ok := cnt.(*ast.CallExpr); ok && rules.ExprText(c.Fun) == "len" {
				continue // len(target)
			}
			if bl, ok := cnt.(*ast.BasicLit); ok && bl.Value == "0" {
				continue // the zero value of a container (ZeroWriter): an empty header
			}
			id, ok := cnt.(*ast.Ident)
			if !ok {
				agg.fail("M1-count-loop", k, fmt.Sprintf("under [%s]: %s count %s is neither len(target) nor a counted variable", r.R.Valuation, name, rules.ExprText(cnt)))
				continue
			}
			// find `id := len(T)` and the counting loop before statement i in this block
			var target string
			var loop ast.Stmt
			for _, p := range blk.List[:i] {
				switch x := p.(type) {
				case *ast.AssignStmt:
					if len(x.Lhs) == 1 && rules.ExprText(x.Lhs[0]) == id.Name && len(x.Rhs) == 1 {
						if c, ok := x.Rhs[0].(*ast.CallExpr); ok && rules.ExprText(c.Fun) == "len" {
							target = rules.ExprText(c.Args[0])
						}
					}
				case *ast.ForStmt, *ast.RangeStmt:
					loop = x
				}
			}
			if target == "" || loop == nil {
				agg.fail("M1-count-loop", k, fmt.Sprintf("under [%s]: count variable %s is not initialised to len(target) and adjusted by a loop in the same block", r.R.Valuation, id.Name))
				continue
			}
			// the loop visits every index/key of target
			var body *ast.BlockStmt
			visits := false
			switch x := loop.(type) {
			case *ast.RangeStmt:
				visits = rules.ExprText(x.X) == target
				body = x.Body
			case *ast.ForStmt:
				body = x.Body
				if be, ok := x.Cond.(*ast.BinaryExpr); ok && be.Op == token.LSS {
					if c, ok := be.Y.(*ast.CallExpr); ok && rules.ExprText(c.Fun) == "len" && rules.ExprText(c.Args[0]) == target {
						visits = true
					}
					// a bound variable is acceptable only if it is loop-invariant and equals len(target): it must not be the count variable itself
					if bid, ok := be.Y.(*ast.Ident); ok && bid.Name != id.Name {
						visits = true // invariance is rule M1-loop-bound
					}
				}
			}
			if !visits {
				agg.fail("M1-count-loop", k, fmt.Sprintf("under [%s] shape %s: the counting loop for %s does not range over every index of %s (its bound is the count variable that it decrements)", r.R.Valuation, f.Shape, name, target))
			}
			// predicate agreement with the element loop that follows
			preRecv, preM := "", ""
			ast.Inspect(body, func(x ast.Node) bool {
				if e, ok := x.(ast.Expr); ok {
					if rcv, m, ok := maskQuery(e); ok {
						preRecv, preM = rcv, m
					}
				}
				return true
			})
			// the element loop: next range over target after the enclosing if/else (search the whole function for a
			// range over the same target whose body starts with a mask query)
			postRecv, postM := "", ""
			ast.Inspect(fd.Body, func(x ast.Node) bool {
				rs, ok := x.(*ast.RangeStmt)
				if !ok || rules.ExprText(rs.X) != target || rs == loop {
					return true
				}
				for _, st := range rs.Body.List {
					if ifs, ok := st.(*ast.IfStmt); ok && ifs.Init != nil {
						if as2, ok := ifs.Init.(*ast.AssignStmt); ok && len(as2.Rhs) == 1 {
							if rcv, m, ok := maskQuery(as2.Rhs[0]); ok {
								postRecv, postM = rcv, m
							}
						}
					}
				}
				return true
			})
			if preM == "" || preRecv != postRecv || preM != postM {
				agg.fail("M1-count-loop", k, fmt.Sprintf("under [%s] shape %s: the header is counted with %s.%s but elements are filtered with %s.%s", r.R.Valuation, f.Shape, preRecv, preM, postRecv, postM))
			}
		}
		return true
	})
}

func beginCalls(n ast.Node) []*ast.CallExpr {
	var out []*ast.CallExpr
	ast.Inspect(n, func(x ast.Node) bool {
		if recv, name, c, ok := rules.SelectorCall(x); ok && recv == "oprot" && strings.HasSuffix(name, "Begin") {
			out = append(out, c)
		}
		return true
	})
	return out
}

// c13writeFrame: M2 (write side) + M3.
func c13writeFrame(agg *aggregate, r *rendered, fd *ast.FuncDecl, f fieldInfo) {
	k := r.U.key()
	agg.check("M2-write-filter", k)
	zero := r.R.Choices["Features.FieldMaskZeroRequired"] == 1
	a := rules.NewAutomaton("F0", "F0 WriteFieldBegin F1")
	n := 0
	end := valueAutomaton(a, "F1", f.Shape, "W", &n)
	a.Trans[end] = mergeTrans(a.Trans[end], map[string]string{"WriteFieldEnd": "F2"})
	a.Alphabet["WriteFieldEnd"] = true
	a.Trans["F2"] = map[string]string{"RETNIL": "F3"}
	a.Alphabet["RETNIL"] = true
	if f.Req != "Required" {
		a.Trans["F0"]["RETNIL"] = "F3" // optional unset, or masked out
	}
	if f.Req == "Required" && zero {
		// zero arm: FieldBegin zero-events FieldEnd — same frame with the zero value's events
		z := valueAutomatonZero(a, "F1", f.Shape, &n)
		a.Trans[z] = mergeTrans(a.Trans[z], map[string]string{"WriteFieldEnd": "F2"})
	}
	for _, m := range []string{"Bool", "Byte", "I16", "I32", "I64", "Double", "String", "Binary", "Struct"} {
		a.Alphabet["W:"+m] = true
	}
	for _, m := range []string{"Map", "List", "Set"} {
		a.Alphabet["WB:"+m] = true
		a.Alphabet["WE:"+m] = true
	}
	a.Alphabet["WriteStructBegin"], a.Alphabet["WriteFieldStop"], a.Alphabet["WriteStructEnd"] = true, true, true
	g := rules.CFG(r.P.Info, fd.Body, nil)
	for _, v := range rules.RunTypestate(g, a, protoEvents) {
		agg.fail("M2-write-filter", k, fmt.Sprintf("under [%s] shape %s %s: %s", r.R.Valuation, f.Shape, f.Req, v))
	}
	// M3: the else arm of the field-level mask test writes only for required fields
	agg.check("M3-zero-only-required", k)
	ast.Inspect(fd.Body, func(nd ast.Node) bool {
		is, ok := nd.(*ast.IfStmt)
		if !ok || is.Init == nil || is.Else == nil {
			return true
		}
		as, ok := is.Init.(*ast.AssignStmt)
		if !ok || len(as.Rhs) != 1 {
			return true
		}
		if _, m, ok := maskQuery(as.Rhs[0]); !ok || m != "Field" {
			return true
		}
		if len(callsNamed(is.Else, "oprot", "WriteFieldBegin")) > 0 && f.Req != "Required" {
			agg.fail("M3-zero-only-required", k, fmt.Sprintf("under [%s]: a %s field that the mask filters out is still written (with its zero value): the field is present although no mask path covers it", r.R.Valuation, strings.ToLower(f.Req)))
		}
		return true
	})
}

// valueAutomatonZero adds the events ZeroWriter emits for a shape.
func valueAutomatonZero(a *rules.Automaton, from string, s *shape, n *int) string {
	fresh := func() string { *n++; return fmt.Sprintf("z%d", *n) }
	add := func(f, ev, t string) {
		if a.Trans[f] == nil {
			a.Trans[f] = map[string]string{}
		}
		if _, exists := a.Trans[f][ev]; exists {
			return // same event already leads somewhere from here (normal value path): share it
		}
		a.Trans[f][ev] = t
		a.Alphabet[ev] = true
	}
	switch {
	case s.isStructLike():
		s1, s2, s3 := fresh(), fresh(), fresh()
		add(from, "WriteStructBegin", s1)
		add(s1, "WriteFieldStop", s2)
		add(s2, "WriteStructEnd", s3)
		return s3
	case s.isContainer():
		s1, s2 := fresh(), fresh()
		if t, ok := a.Trans[from]["WB:"+s.Cat]; ok {
			// the normal path's loop state also accepts the End event directly (empty container)
			return a.Trans[t]["WE:"+s.Cat]
		}
		add(from, "WB:"+s.Cat, s1)
		add(s1, "WE:"+s.Cat, s2)
		return s2
	default:
		ev := "W:" + specByCategory[s.Cat].Method
		if t, ok := a.Trans[from][ev]; ok {
			return t
		}
		s1 := fresh()
		add(from, ev, s1)
		return s1
	}
}

// c13read: M2 (read side).
func c13read(agg *aggregate, r *rendered, fd *ast.FuncDecl, f fieldInfo) {
	k := r.U.key()
	agg.check("M2-read-filter", k)
	a := rules.NewAutomaton("V0")
	n := 0
	end := valueAutomatonMasked(a, "V0", f.Shape, &n)
	a.Trans[end] = mergeTrans(a.Trans[end], map[string]string{"RETNIL": "DONE"})
	a.Trans["V0"] = mergeTrans(a.Trans["V0"], map[string]string{"Skip": "SK"})
	a.Trans["SK"] = map[string]string{"RETNIL": "DONE"}
	a.Alphabet["RETNIL"], a.Alphabet["Skip"] = true, true
	for _, m := range []string{"Bool", "Byte", "I16", "I32", "I64", "Double", "String", "Binary", "Struct"} {
		a.Alphabet["R:"+m] = true
	}
	for _, m := range []string{"Map", "List", "Set"} {
		a.Alphabet["RB:"+m] = true
		a.Alphabet["RE:"+m] = true
	}
	g := rules.CFG(r.P.Info, fd.Body, nil)
	for _, v := range rules.RunTypestate(g, a, protoEvents) {
		agg.fail("M2-read-filter", k, fmt.Sprintf("under [%s] shape %s: %s", r.R.Valuation, f.Shape, v))
	}
	// every Skip names the spec wire type of what is skipped: the field itself at top level, the element inside loops
	var wantConsts []string
	var walk func(s *shape)
	walk = func(s *shape) {
		if s == nil || !s.isContainer() {
			return
		}
		if s.Cat == "Map" {
			walk(s.Key)
		}
		wantConsts = append(wantConsts, specByCategory[s.Val.Cat].Const)
		walk(s.Val)
	}
	walk(f.Shape)
	wantConsts = append(wantConsts, specByCategory[f.Shape.Cat].Const) // the field-level skip comes last in the source
	var got []string
	ast.Inspect(fd.Body, func(nd ast.Node) bool {
		if recv, name, call, ok := rules.SelectorCall(nd); ok && recv == "iprot" && name == "Skip" && len(call.Args) == 1 {
			got = append(got, strings.ReplaceAll(thriftConstArg(call.Args[0]), "I08", "BYTE"))
		}
		return true
	})
	if strings.Join(got, ",") != strings.Join(wantConsts, ",") {
		agg.fail("M2-read-filter", k, fmt.Sprintf("under [%s] shape %s: Skip calls name wire types %v, the shape requires %v: a filtered element is skipped with the wrong type and the stream desynchronises", r.R.Valuation, f.Shape, got, wantConsts))
	}
	// a miss continues, a hit does not
	ast.Inspect(fd.Body, func(nd ast.Node) bool {
		is, ok := nd.(*ast.IfStmt)
		if !ok || is.Init == nil {
			return true
		}
		as, ok := is.Init.(*ast.AssignStmt)
		if !ok || len(as.Rhs) != 1 {
			return true
		}
		if _, m, ok := maskQuery(as.Rhs[0]); !ok || m == "Field" {
			return true
		}
		u, ok := is.Cond.(*ast.UnaryExpr)
		if !ok || u.Op != token.NOT {
			agg.fail("M2-read-filter", k, "under ["+r.R.Valuation+"]: element mask test is not of the form `!ex`")
			return true
		}
		last := is.Body.List[len(is.Body.List)-1]
		if br, ok := last.(*ast.BranchStmt); !ok || br.Tok != token.CONTINUE {
			agg.fail("M2-read-filter", k, "under ["+r.R.Valuation+"]: the mask-miss arm does not end in continue")
		}
		return true
	})
}

// valueAutomatonMasked: like valueAutomaton for reads, but each container element may be replaced by one Skip
// (map: key is always read, then value or Skip).
func valueAutomatonMasked(a *rules.Automaton, from string, s *shape, n *int) string {
	fresh := func() string { *n++; return fmt.Sprintf("m%d", *n) }
	add := func(f, ev, t string) {
		if a.Trans[f] == nil {
			a.Trans[f] = map[string]string{}
		}
		a.Trans[f][ev] = t
		a.Alphabet[ev] = true
	}
	switch {
	case s == nil:
		return from
	case s.isStructLike():
		to := fresh()
		add(from, "R:Struct", to)
		return to
	case s.isContainer():
		loop := fresh()
		add(from, "RB:"+s.Cat, loop)
		cur := loop
		if s.Cat == "Map" {
			cur = valueAutomaton(a, cur, s.Key, "R", n)
		}
		end := valueAutomatonMasked(a, cur, s.Val, n)
		add(cur, "Skip", end)
		done := fresh()
		add(loop, "RE:"+s.Cat, done)
		for ev, t := range a.Trans[loop] {
			add(end, ev, t)
		}
		return done
	default:
		to := fresh()
		add(from, "R:"+specByCategory[s.Cat].Method, to)
		return to
	}
}

// c13propagation: M4.
func c13propagation(agg *aggregate, r *rendered, fd *ast.FuncDecl) {
	k := r.U.key()
	type binding struct{ name string }
	var stack []binding
	var visit func(n ast.Node)
	bindOf := func(s ast.Stmt) (string, bool) {
		as, ok := s.(*ast.AssignStmt)
		if !ok || len(as.Rhs) != 1 || len(as.Lhs) != 2 {
			return "", false
		}
		if _, _, ok := maskQuery(as.Rhs[0]); !ok {
			return "", false
		}
		return rules.ExprText(as.Lhs[0]), true
	}
	visit = func(n ast.Node) {
		switch x := n.(type) {
		case nil:
			return
		case *ast.IfStmt:
			pushed := false
			if x.Init != nil {
				if nm, ok := bindOf(x.Init); ok {
					stack = append(stack, binding{nm})
					pushed = true
				}
			}
			visit(x.Body)
			if x.Else != nil {
				visit(x.Else)
			}
			if pushed {
				stack = stack[:len(stack)-1]
			}
			return
		case *ast.BlockStmt:
			mark := len(stack)
			for _, s := range x.List {
				if nm, ok := bindOf(s); ok {
					stack = append(stack, binding{nm}) // `fm, _ := p._fieldmask.Field(id)`
					continue
				}
				visit(s)
			}
			stack = stack[:mark]
			return
		case *ast.ExprStmt:
			if _, name, call, ok := rules.SelectorCall(x.X); ok && (name == "Set_FieldMask" || name == "Pass_FieldMask") && len(call.Args) == 1 {
				agg.check("M4-propagation", k)
				arg := rules.ExprText(call.Args[0])
				if len(stack) == 0 {
					agg.fail("M4-propagation", k, fmt.Sprintf("under [%s]: %s(%s) outside any mask query", r.R.Valuation, name, arg))
				} else if top := stack[len(stack)-1].name; top != arg {
					agg.fail("M4-propagation", k, fmt.Sprintf("under [%s]: child receives %s but the innermost enclosing mask query binds %s: the child is filtered with the wrong (parent's) mask", r.R.Valuation, arg, top))
				}
				want := "Set_FieldMask"
				if r.R.Choices["Features.FieldMaskHalfway"] == 1 {
					want = "Pass_FieldMask"
				}
				if name != want {
					agg.fail("M4-propagation", k, fmt.Sprintf("under [%s]: %s used, the option selects %s", r.R.Valuation, name, want))
				}
			}
			return
		case *ast.ForStmt:
			visit(x.Body)
			return
		case *ast.RangeStmt:
			visit(x.Body)
			return
		case *ast.LabeledStmt:
			visit(x.Stmt)
			return
		}
	}
	visit(fd.Body)
	// every struct child that is handed a mask at all must get it on every path to its Write: a child written without it
	// keeps whatever sub-mask an earlier Write (or an earlier position of the same Write) left on it
	g := rules.CFG(r.P.Info, fd.Body, nil)
	masked := map[string]bool{}
	for _, call := range rules.NodeCalls(fd.Body) {
		if recv, name, _, ok := rules.SelectorCall(call); ok && (name == "Set_FieldMask" || name == "Pass_FieldMask") {
			masked[recv] = true
		}
	}
	for _, call := range rules.NodeCalls(fd.Body) {
		recv, name, wc, ok := rules.SelectorCall(call)
		if !ok || name != "Write" || !masked[recv] || len(wc.Args) != 1 {
			continue
		}
		agg.check("M4-mask-before-write", k)
		missed, targets := rules.MustPass(g, func(x ast.Node) bool {
			es, ok := x.(*ast.ExprStmt)
			if !ok {
				return false
			}
			rv, nm, _, ok := rules.SelectorCall(es.X)
			return ok && rv == recv && (nm == "Set_FieldMask" || nm == "Pass_FieldMask")
		}, func(x ast.Node) bool { return x == ast.Node(wc) })
		if targets == 0 || len(missed) > 0 {
			agg.fail("M4-mask-before-write", k, fmt.Sprintf("under [%s]: %s.Write can be reached without handing %s its sub-mask (the assignment is conditional): with no mask in effect the child is written under a stale sub-mask left by an earlier Write", r.R.Valuation, recv, recv))
		}
	}
}

// evalCategoryPredicate evaluates `return <expr>` where expr is built from <x>.Category, parser.Category_* constants,
// comparisons, &&, || and !, for every category constant; it returns the category names for which it is true.
func evalCategoryPredicate(c *core.Check, pk *packages.Package, fd *ast.FuncDecl) ([]string, bool) {
	if len(fd.Body.List) != 1 {
		return nil, false
	}
	rs, ok := fd.Body.List[0].(*ast.ReturnStmt)
	if !ok || len(rs.Results) != 1 {
		return nil, false
	}
	info := pk.TypesInfo
	ppk := c.Prog.Pkg("parser")
	type cat struct {
		name string
		val  int64
	}
	var cats []cat
	sc := ppk.Types.Scope()
	for _, n := range sc.Names() {
		if k, ok := sc.Lookup(n).(*types.Const); ok && strings.HasPrefix(n, "Category_") {
			v, _ := constant.Int64Val(constant.ToInt(k.Val()))
			cats = append(cats, cat{strings.TrimPrefix(n, "Category_"), v})
		}
	}
	okAll := true
	var num func(e ast.Expr, cur int64) int64
	num = func(e ast.Expr, cur int64) int64 {
		e = ast.Unparen(e)
		if tv, ok := info.Types[e]; ok && tv.Value != nil {
			v, _ := constant.Int64Val(constant.ToInt(tv.Value))
			return v
		}
		if se, ok := e.(*ast.SelectorExpr); ok && se.Sel.Name == "Category" {
			return cur
		}
		okAll = false
		return 0
	}
	var ev func(e ast.Expr, cur int64) bool
	ev = func(e ast.Expr, cur int64) bool {
		switch x := ast.Unparen(e).(type) {
		case *ast.BinaryExpr:
			switch x.Op {
			case token.LAND:
				return ev(x.X, cur) && ev(x.Y, cur)
			case token.LOR:
				return ev(x.X, cur) || ev(x.Y, cur)
			case token.EQL:
				return num(x.X, cur) == num(x.Y, cur)
			case token.NEQ:
				return num(x.X, cur) != num(x.Y, cur)
			case token.LSS:
				return num(x.X, cur) < num(x.Y, cur)
			case token.LEQ:
				return num(x.X, cur) <= num(x.Y, cur)
			case token.GTR:
				return num(x.X, cur) > num(x.Y, cur)
			case token.GEQ:
				return num(x.X, cur) >= num(x.Y, cur)
			}
		case *ast.UnaryExpr:
			if x.Op == token.NOT {
				return !ev(x.X, cur)
			}
		}
		okAll = false
		return false
	}
	var out []string
	for _, k := range cats {
		if ev(rs.Results[0], k.val) {
			out = append(out, k.name)
		}
	}
	return out, okAll
}
