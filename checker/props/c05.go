package props

import (
	"fmt"
	"go/ast"
	"go/token"
	"go/types"
	"strings"

	"golang.org/x/tools/go/ssa"

	"verif/checker/core"
	"verif/checker/rules"
)

func init() { register("C05", c05) }

func c05(c *core.Check) {
	c.Explain = "COVER + PATH in package semantic. (1) Inside the call-graph closure of resolver.ResolveAST every type edge of the AST (Typedef.Type, Constant.Type, Field.Type, Function.FunctionType, Type.KeyType, Type.ValueType) is read as an argument of ResolveType, every value edge (Constant.Value, Field.Default) as an argument of ResolveConstValue, list/map constant members are read in a function that recurses into ResolveConstValue, Service.Extends is read by ResolveBaseService; node fields are enumerated through go/types, so a new *Type / *ConstValue field becomes a new obligation. " +
		"(2) In ResolveAST (go/cfg): includes are resolved first, RegisterNames precedes every Resolve* call (order independence), ResolveTypedefs lies on every nil-error path, and each closure passed to the ForEach* helpers routes the resolver's error through guard. " +
		"(3) Reference => Used pairing: every composite literal of parser.Reference / parser.ConstValueExtra whose Index comes from the key of a `range …Includes` loop has, in the same block, `…Includes[idx].Used = &yes`; there is no other writer of Include.Used in the package. " +
		"(4) IsTypedef is set exactly in the branches guarded by `c == Category_Typedef` (local and include-qualified: two sibling sites). " +
		"(+) on go/ssa, the typedef whose category resolves a reference is looked up in the reference's own AST under its own name on every path. NOT decided: that the right include is chosen when base names clash, ambiguity rules of SplitValue, Deref."
	c.RuleText = "one obligation per AST edge / path rule / literal site; non-trivial = call-argument flow, dominance, or same-block pairing"
	c.Assume = []string{"VTA call graph over-approximates calls", "ForEach* helpers invoke their callback for every element (checked for shape only)"}
	prog := c.Prog
	prog.SSA()
	sem := prog.SSAPkg("semantic")
	ra := rules.Method(prog.SSA(), sem, "resolver", "ResolveAST")
	if ra == nil {
		c.Unknown("anchor", "semantic.(resolver).ResolveAST", "", "missing")
		return
	}
	acc, nf := walkerAccesses(c, []*ssa.Function{ra}, nil)
	c.Analysed["functions_in_closure"] = nf
	// (1) typed edges discovered from the node types
	for _, nt := range []string{"Typedef", "Constant", "Field", "Function", "Type", "Service", "ConstTypedValue", "MapConstValue"} {
		pk := prog.Pkg("parser")
		tn := pk.Types.Scope().Lookup(nt)
		if tn == nil {
			c.Unknown("anchor", "parser."+nt, "", "node type missing")
			continue
		}
		st := structOf(tn.Type())
		for i := 0; i < st.NumFields(); i++ {
			f := st.Field(i)
			key := nt + "." + f.Name()
			elem := f.Type()
			isSlice := false
			if sl, ok := elem.(*types.Slice); ok {
				elem, isSlice = sl.Elem(), true
			}
			switch {
			case rules.IsNamed(elem, parserPath, "Type"):
				a, ok := readInto(acc, key, ".(resolver).ResolveType")
				c.Decide(ok, "cover-type-edge", "semantic/"+key, prog.Rel(a.Pos), "read as an argument of ResolveType in "+a.Func,
					"type edge "+key+" never reaches ResolveType: a reference through it keeps category 0 and is never checked")
			case rules.IsNamed(elem, parserPath, "ConstValue"):
				if isSlice || nt == "ConstTypedValue" || nt == "MapConstValue" {
					a, ok := hasRead(acc, key)
					inRec := ok && (strings.HasSuffix(a.Func, "ResolveConstValue") || hasReadIn(acc, key, "ResolveConstValue"))
					c.Decide(inRec, "cover-value-edge", "semantic/"+key, prog.Rel(a.Pos), "members are read inside ResolveConstValue (recursion)", "constant members under "+key+" are never resolved")
				} else {
					a, ok := readInto(acc, key, ".(resolver).ResolveConstValue")
					c.Decide(ok, "cover-value-edge", "semantic/"+key, prog.Rel(a.Pos), "read as an argument of ResolveConstValue in "+a.Func,
						"value edge "+key+" never reaches ResolveConstValue: identifiers in it stay unbound")
				}
			case rules.IsNamed(elem, parserPath, "MapConstValue"):
				a, ok := hasRead(acc, key)
				c.Decide(ok && hasReadIn(acc, key, "ResolveConstValue"), "cover-value-edge", "semantic/"+key, prog.Rel(a.Pos), "map members are iterated inside ResolveConstValue", "map constant members are never resolved")
			}
		}
	}
	{
		a, ok := hasRead(acc, "Service.Extends")
		c.Decide(ok && hasReadIn(acc, "Service.Extends", "ResolveBaseService"), "cover-type-edge", "semantic/Service.Extends", prog.Rel(a.Pos), "read by ResolveBaseService", "Service.Extends is never resolved")
	}
	c.Min("cover-type-edge", 7)
	c.Min("cover-value-edge", 5)

	// (2) order in ResolveAST
	fd := prog.FuncDecl("semantic", "resolver.ResolveAST")
	info := prog.Pkg("semantic").TypesInfo
	if fd == nil {
		c.Unknown("anchor", "semantic.(resolver).ResolveAST/decl", "", "missing")
		return
	}
	// top-level statement order: ForEachInclude … RegisterNames … resolves … ResolveTypedefs
	var order []string
	pos := map[string]token.Pos{}
	for _, s := range fd.Body.List {
		for _, call := range rules.Calls(s, true) {
			if fn := rules.Callee(info, call); fn != nil {
				n := fn.Name()
				switch {
				case n == "RegisterNames", n == "ResolveTypedefs", n == "ResolveSymbols", strings.HasPrefix(n, "Resolve"):
					if _, seen := pos[n]; !seen {
						pos[n] = call.Pos()
						order = append(order, n)
					}
				}
			}
		}
	}
	reg, okReg := pos["RegisterNames"]
	c.Decide(okReg, "resolve-order", "semantic.(resolver).ResolveAST/RegisterNames", prog.Rel(fd.Pos()), "RegisterNames is called", "RegisterNames is no longer called: local names are unknown during resolution")
	for _, n := range order {
		if n == "RegisterNames" {
			continue
		}
		key := "semantic.(resolver).ResolveAST/" + n
		if n == "ResolveSymbols" {
			c.Decide(pos[n] < reg, "resolve-order", key, prog.Rel(pos[n]), "includes are resolved before local names are registered", "includes are resolved after local names: qualified references see unresolved includes")
			continue
		}
		c.Decide(okReg && pos[n] > reg, "resolve-order", key, prog.Rel(pos[n]), "runs after RegisterNames (independent of definition order)", n+" runs before all local names are registered: resolution depends on the order of definitions")
	}
	c.Min("resolve-order", 6)
	// ResolveTypedefs on every nil-error path: last statement is guard(r.ResolveTypedefs()) followed by return
	{
		g := rules.CFG(info, fd.Body, nil)
		missed, targets := rules.MustPass(g, func(n ast.Node) bool {
			call, ok := n.(*ast.CallExpr)
			if !ok {
				return false
			}
			fn := rules.Callee(info, call)
			return fn != nil && fn.Name() == "ResolveTypedefs"
		}, func(n ast.Node) bool { _, ok := n.(*ast.ReturnStmt); return ok })
		c.Decide(targets > 0 && len(missed) == 0, "typedef-fixpoint", "semantic.(resolver).ResolveAST/ResolveTypedefs", prog.Rel(fd.Pos()),
			"every return of ResolveAST passes ResolveTypedefs", "ResolveAST can return without running the typedef fixpoint: typedef'd references keep Category_Typedef")
		// its error is routed through guard
		guarded := false
		ast.Inspect(fd.Body, func(n ast.Node) bool {
			if call, ok := n.(*ast.CallExpr); ok {
				if fn := rules.Callee(info, call); fn != nil && fn.Name() == "guard" && len(call.Args) == 1 {
					if inner, ok := call.Args[0].(*ast.CallExpr); ok {
						if f2 := rules.Callee(info, inner); f2 != nil && f2.Name() == "ResolveTypedefs" {
							guarded = true
						}
					}
				}
			}
			return true
		})
		c.Decide(guarded, "typedef-fixpoint", "semantic.(resolver).ResolveAST/ResolveTypedefs-error", prog.Rel(fd.Pos()), "its error goes through guard (recovered into the result)", "the typedef fixpoint's error is dropped")
	}
	// each Resolve* call inside the ForEach closures is wrapped by guard (or its error returned)
	nGuard := map[string]int{}
	ast.Inspect(fd.Body, func(n ast.Node) bool {
		lit, ok := n.(*ast.FuncLit)
		if !ok {
			return true
		}
		for _, call := range rules.Calls(lit.Body, false) {
			fn := rules.Callee(info, call)
			if fn == nil || !strings.HasPrefix(fn.Name(), "Resolve") || fn.Name() == "ResolveSymbols" {
				continue
			}
			nGuard[fn.Name()]++
			key := fmt.Sprintf("semantic.(resolver).ResolveAST/closure/%s#%d", fn.Name(), nGuard[fn.Name()])
			wrapped := false
			ast.Inspect(lit.Body, func(m ast.Node) bool {
				if outer, ok := m.(*ast.CallExpr); ok && outer != call {
					if f2 := rules.Callee(info, outer); f2 != nil && f2.Name() == "guard" {
						for _, a := range outer.Args {
							if a == ast.Expr(call) {
								wrapped = true
							}
						}
					}
				}
				return true
			})
			c.Decide(wrapped, "resolve-error-guarded", key, prog.Rel(call.Pos()), "error routed through guard", "the error of "+fn.Name()+" is ignored inside the ForEach closure")
		}
		return true
	})
	c.Min("resolve-error-guarded", 5)

	// (3) Reference => Used pairing
	c05pairing(c)
	c05searchLoops(c)
	// (4) IsTypedef
	c05typedefFlag(c)
}

func hasReadIn(acc map[string][]rules.FieldAccess, key, fnSuffix string) bool {
	for _, a := range acc[key] {
		if !a.Write && strings.HasSuffix(a.Func, fnSuffix) {
			return true
		}
	}
	return false
}

func c05pairing(c *core.Check) {
	pk := c.Prog.Pkg("semantic")
	info := pk.TypesInfo
	nLit, nUsed := 0, 0
	for _, f := range pk.Syntax {
		// blocks: for every statement list, collect literals with Index from an Includes range key, and Used assignments
		ast.Inspect(f, func(n ast.Node) bool {
			var list []ast.Stmt
			switch b := n.(type) {
			case *ast.BlockStmt:
				list = b.List
			case *ast.CaseClause:
				list = b.Body
			default:
				return true
			}
			type lit struct {
				idx string
				pos token.Pos
				typ string
			}
			var lits []lit
			used := map[string]bool{}
			for _, s := range list {
				// do not descend into nested blocks (they are visited on their own)
				shallow(s, func(m ast.Node) {
					switch x := m.(type) {
					case *ast.CompositeLit:
						tn := rules.NamedOf(info.Types[x].Type)
						if tn == nil || tn.Obj().Pkg() == nil || tn.Obj().Pkg().Path() != parserPath {
							return
						}
						if tn.Obj().Name() != "Reference" && tn.Obj().Name() != "ConstValueExtra" {
							return
						}
						for _, e := range x.Elts {
							kv, ok := e.(*ast.KeyValueExpr)
							if !ok || kv.Key.(*ast.Ident).Name != "Index" {
								continue
							}
							v := kv.Value
							if call, ok := v.(*ast.CallExpr); ok && len(call.Args) == 1 {
								v = call.Args[0]
							}
							id, ok := v.(*ast.Ident)
							if !ok {
								continue
							}
							if isIncludesRangeKey(info, f, id) {
								lits = append(lits, lit{id.Name, x.Pos(), tn.Obj().Name()})
							}
						}
					case *ast.AssignStmt:
						for _, l := range x.Lhs {
							sel, ok := l.(*ast.SelectorExpr)
							if !ok || sel.Sel.Name != "Used" {
								continue
							}
							fv := rules.FieldOf(info, sel)
							if fv == nil {
								continue
							}
							if ix, ok := sel.X.(*ast.IndexExpr); ok {
								used[rules.ExprString(ix.Index)] = true
							} else {
								used["?"+rules.ExprString(sel.X)] = true
							}
						}
					}
				})
			}
			for _, l := range lits {
				nLit++
				key := fmt.Sprintf("semantic/%s{Index:%s}#%d", l.typ, l.idx, nLit)
				c.Decide(used[l.idx], "reference-marks-used", key, c.Prog.Rel(l.pos), "same block sets Includes["+l.idx+"].Used", "a reference into include "+l.idx+" is recorded without marking the include used: the import is dropped from generated code")
			}
			for u := range used {
				nUsed++
				key := fmt.Sprintf("semantic/Used[%s]#%d", u, nUsed)
				paired := false
				for _, l := range lits {
					if l.idx == u {
						paired = true
					}
				}
				c.Decide(paired, "used-only-when-referenced", key, c.Prog.Rel(n.Pos()), "the block also records a reference with this index", "an include is marked used without a reference being recorded in the same block")
			}
			return true
		})
	}
	c.Min("reference-marks-used", 4)
	c.Min("used-only-when-referenced", 4)
}

// shallow visits the nodes of a statement without entering nested statement blocks.
func shallow(s ast.Stmt, f func(ast.Node)) {
	ast.Inspect(s, func(n ast.Node) bool {
		if n == nil {
			return false
		}
		if n != ast.Node(s) {
			switch n.(type) {
			case *ast.BlockStmt, *ast.CaseClause, *ast.FuncLit:
				return false
			}
		}
		f(n)
		return true
	})
}

// isIncludesRangeKey: id is the key variable of an enclosing `for id, _ := range <…>.Includes`.
func isIncludesRangeKey(info *types.Info, file *ast.File, id *ast.Ident) bool {
	obj := info.Uses[id]
	if obj == nil {
		return false
	}
	found := false
	ast.Inspect(file, func(n ast.Node) bool {
		rs, ok := n.(*ast.RangeStmt)
		if !ok || rs.Key == nil {
			return true
		}
		if k, ok := rs.Key.(*ast.Ident); ok && info.Defs[k] == obj {
			if sel, ok := rs.X.(*ast.SelectorExpr); ok && sel.Sel.Name == "Includes" {
				found = true
			}
		}
		return true
	})
	return found
}

func c05typedefFlag(c *core.Check) {
	fd := c.Prog.FuncDecl("semantic", "resolver.ResolveType")
	if fd == nil {
		c.Unknown("anchor", "semantic.(resolver).ResolveType", "", "missing")
		return
	}
	info := c.Prog.Pkg("semantic").TypesInfo
	n := 0
	ast.Inspect(fd.Body, func(nd ast.Node) bool {
		as, ok := nd.(*ast.AssignStmt)
		if !ok || len(as.Lhs) != 1 {
			return true
		}
		sel, ok := as.Lhs[0].(*ast.SelectorExpr)
		if !ok || sel.Sel.Name != "IsTypedef" {
			return true
		}
		n++
		// enclosing if condition must be `c == parser.Category_Typedef`
		guard := enclosingIfCond(fd.Body, as)
		ok2 := guard != nil && strings.HasSuffix(rules.ExprString(guard), "== parser.Category_Typedef")
		c.Decide(ok2, "istypedef-flag", fmt.Sprintf("semantic.(resolver).ResolveType/IsTypedef#%d", n), c.Prog.Rel(as.Pos()),
			"set inside `if c == Category_Typedef`", "IsTypedef is set under a condition other than the looked-up category being Typedef")
		_ = info
		return true
	})
	c.Decide(n == 2, "istypedef-flag", "semantic.(resolver).ResolveType/sites", c.Prog.Rel(fd.Pos()), "two sibling sites (local and include-qualified)", fmt.Sprintf("%d sites set IsTypedef, expected the local and the include-qualified branch", n))
}

func enclosingIfCond(root ast.Node, target ast.Node) ast.Expr {
	var cond ast.Expr
	ast.Inspect(root, func(n ast.Node) bool {
		is, ok := n.(*ast.IfStmt)
		if !ok {
			return true
		}
		if is.Body.Pos() <= target.Pos() && target.End() <= is.Body.End() {
			cond = is.Cond // innermost wins because inspection continues inward
		}
		return true
	})
	return cond
}

// c05searchLoops: a loop that searches the include list for a prefix may only be left (break) in a block that records
// the binding; leaving it on a miss would hide a later include with the same base name.
func c05searchLoops(c *core.Check) {
	pk := c.Prog.Pkg("semantic")
	info := pk.TypesInfo
	n := 0
	for _, f := range pk.Syntax {
		for _, d := range f.Decls {
			fd, ok := d.(*ast.FuncDecl)
			if !ok || fd.Body == nil {
				continue
			}
			ast.Inspect(fd.Body, func(nd ast.Node) bool {
				rs, ok := nd.(*ast.RangeStmt)
				if !ok {
					return true
				}
				sel, ok := rs.X.(*ast.SelectorExpr)
				if !ok || sel.Sel.Name != "Includes" {
					return true
				}
				// breaks that target this loop: not nested in an inner for/switch/select
				var breaks []*ast.BranchStmt
				var walk func(n ast.Node, inner bool)
				walk = func(n ast.Node, inner bool) {
					ast.Inspect(n, func(m ast.Node) bool {
						switch x := m.(type) {
						case *ast.ForStmt, *ast.RangeStmt, *ast.SwitchStmt, *ast.TypeSwitchStmt, *ast.SelectStmt:
							if m != n {
								return false // a break inside belongs to the inner statement
							}
						case *ast.FuncLit:
							return false
						case *ast.BranchStmt:
							if x.Tok == token.BREAK && x.Label == nil {
								breaks = append(breaks, x)
							}
						}
						return true
					})
				}
				walk(rs.Body, false)
				for _, br := range breaks {
					n++
					key := fmt.Sprintf("semantic.%s/range %s/break#%d", fd.Name.Name, rules.ExprString(rs.X), n)
					// the innermost block containing the break must record a binding: an assignment to .Reference / .Used
					blk := enclosingBlock(rs.Body, br)
					okB := false
					if blk != nil {
						for _, s := range blk {
							shallow(s, func(m ast.Node) {
								if as, ok := m.(*ast.AssignStmt); ok {
									for _, l := range as.Lhs {
										t := rules.ExprString(l)
										if strings.HasSuffix(t, ".Reference") || strings.HasSuffix(t, ".Used") {
											okB = true
										}
									}
								}
							})
						}
					}
					c.Decide(okB, "include-search-complete", key, c.Prog.Rel(br.Pos()), "the loop is left only after a binding was recorded",
						"the search over the include list is abandoned on a miss: a later include with the same base name is never considered (\"undefined type\" for a type that exists)")
				}
				return true
			})
		}
	}
	_ = info
	c.Min("include-search-complete", 2)
	c05typedefSource(c)
	c05enumIndex(c)
	c04fieldDefaults(c)
}

// enclosingBlock returns the statement list of the innermost block that directly contains target.
func enclosingBlock(root ast.Node, target ast.Node) []ast.Stmt {
	var out []ast.Stmt
	ast.Inspect(root, func(n ast.Node) bool {
		var list []ast.Stmt
		switch b := n.(type) {
		case *ast.BlockStmt:
			list = b.List
		case *ast.CaseClause:
			list = b.Body
		default:
			return true
		}
		for _, s := range list {
			if s == target {
				out = list
			}
		}
		return true
	})
	return out
}
