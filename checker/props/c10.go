package props

import (
	"fmt"
	"go/ast"
	"go/parser"
	"go/token"
	"go/types"
	"sort"
	"strings"

	"verif/checker/core"
	"verif/checker/rules"
	"verif/checker/tmpl"
)

func init() { register("C10", c10) }

const fastgoRel = "generator/fastgo"

func c10(c *core.Check) {
	c.Explain = "ENUM + GENPAIR + CODEC. (1) fastgo's wire-type, size and gopkg-constant tables equal the binary-protocol numbering (shared with C02). " +
		"(2) GENPAIR: the fastgo emitters genBLengthField, genFastAppendField and genFastReadAny are partially evaluated from their own Go bodies (Go-subset interpreter with a native codewriter that records the w.f lines) for every type shape (all categories x container nesting x pointer-ness) x requiredness x default presence; the emitted statements are parsed and compared: " +
		"the symbolic byte count of the BLength code equals that of the FastAppend code (off += k / len / BLength() versus append arity, AppendI16/I32/I64/Double = 2/4/8/8, AppendListBegin 5, AppendMapBegin 6, append(b, s...) = len(s), nested loops summed; `len(x)*k` equals a loop of constant-size elements); " +
		"the optional-skip guards of the two are textually identical; the field header is append(b, <spec wire type>, idHi, idLo); the wire-event tree FastRead consumes (ReadI32, ReadString, ReadListBegin + loop, FastRead of a struct, …) equals the tree FastAppend produces. " +
		"(3) the same byte-count rule on the 21 checked-in generated structs of parser/k-AST.go and plugin/k-protocol.go (whole BLength vs whole FastAppend). " +
		"(4) genFastRead registers every required field in the bitset (Add), sets its bit in the field's case (GenSetbit) and tests the set after the loop (GenIfNotSet), and skips unknown ids in the default arm. " +
		"(5) GenIfNotSet visits every registered element: a loop-coverage argument read off the code (counter starts at 0, advances only by the post `c++` of a loop whose body first reports element m[c], and every exit follows a failed `c < g.i`). " +
		"(6) no fastgo function reads Type.KeyType/ValueType (nil for a typedef of a container) except the tabled nil-guarded shortcut; element types come from the resolved sub-contexts. " +
		"NOT decided: behaviour on truncated/corrupt input (implemented in cloudwego/gopkg), equality with the standard codec's bytes."
	c.RuleText = "one obligation per (rule, emitter family) over all interpreted shapes, per checked-in struct, per bitset pairing"
	c.Assume = []string{"cloudwego/gopkg Append*/Read* helpers write/read the sizes their names say", "the Go-subset interpreter is faithful on the emitters (it fails closed on anything outside the subset)"}
	c02fastgoTables(c)
	st := tmplEngine(c)
	if st == nil {
		return
	}
	c10genpair(c, st)
	c10checkedIn(c, "parser", "k-AST.go")
	c10checkedIn(c, "plugin", "k-protocol.go")
	c.Min("blength-equals-append", 18)
	c10bitset(c)
}

func c02fastgoTables(c *core.Check) {
	all := valueCategories
	num := func(cat string) (string, bool) { return fmt.Sprint(specByCategory[cat].Wire), true }
	checkCategoryTable(c, "wire-table", fastgoRel, "category2ThriftWireType", all, num)
	checkCategoryTable(c, "wire-table", fastgoRel, "category2WireSize", []string{"Bool", "Byte", "I16", "I32", "I64", "Double", "Enum"}, func(cat string) (string, bool) { return fmt.Sprint(specByCategory[cat].Size), true })
	// variable-size categories must have size 0 (absent)
	checkCategoryTable(c, "wire-table", fastgoRel, "category2GopkgConsts", all, func(cat string) (string, bool) {
		n := specByCategory[cat].Const
		if n == "BYTE" {
			n = "I08"
		}
		return "thrift." + n, true
	})
}

// ---- symbolic costs

type cost struct {
	K     int
	Terms map[string]int // "len(x)" -> coefficient, "S(x)" -> count
	Loops []loopCost
	Ifs   []ifCost
}

type loopCost struct {
	Over string
	Body *cost
}

type ifCost struct {
	Cond string
	Body *cost
}

func newCost() *cost { return &cost{Terms: map[string]int{}} }

func (c *cost) String() string {
	var parts []string
	if c.K != 0 {
		parts = append(parts, fmt.Sprint(c.K))
	}
	var ts []string
	for t, n := range c.Terms {
		if n != 0 {
			ts = append(ts, fmt.Sprintf("%d*%s", n, t))
		}
	}
	sort.Strings(ts)
	parts = append(parts, ts...)
	var ls []string
	for _, l := range c.Loops {
		ls = append(ls, "Σ["+l.Over+"]{"+l.Body.String()+"}")
	}
	sort.Strings(ls)
	parts = append(parts, ls...)
	for _, i := range c.Ifs {
		parts = append(parts, "if("+i.Cond+"){"+i.Body.String()+"}")
	}
	if len(parts) == 0 {
		return "0"
	}
	return strings.Join(parts, " + ")
}

// normalize turns loops with a constant body into len(over)*k terms.
func (c *cost) normalize() {
	var keep []loopCost
	for _, l := range c.Loops {
		l.Body.normalize()
		// pull the constant part of the body out of the sum: Σ[X]{k + r} = k*len(X) + Σ[X]{r}
		if l.Body.K != 0 {
			c.Terms["len("+l.Over+")"] += l.Body.K
			l.Body.K = 0
		}
		empty := len(l.Body.Loops) == 0 && len(l.Body.Ifs) == 0
		for _, n := range l.Body.Terms {
			if n != 0 {
				empty = false
			}
		}
		if empty {
			continue
		}
		keep = append(keep, l)
	}
	c.Loops = keep
	for _, i := range c.Ifs {
		i.Body.normalize()
	}
}

type loopVars map[string]string

func renameExpr(s string, lv loopVars) string {
	// replace whole identifiers
	var sb strings.Builder
	isId := func(ch byte) bool {
		return ch == '_' || ch >= 'a' && ch <= 'z' || ch >= 'A' && ch <= 'Z' || ch >= '0' && ch <= '9'
	}
	for i := 0; i < len(s); {
		if isId(s[i]) && (i == 0 || !isId(s[i-1])) {
			j := i
			for j < len(s) && isId(s[j]) {
				j++
			}
			w := s[i:j]
			if r, ok := lv[w]; ok && (i == 0 || s[i-1] != '.') {
				sb.WriteString(r)
			} else {
				sb.WriteString(w)
			}
			i = j
			continue
		}
		sb.WriteByte(s[i])
		i++
	}
	out := sb.String()
	out = strings.TrimPrefix(out, "*")
	return strings.ReplaceAll(out, "(*", "(")
}

// sizeOfStmts computes the symbolic number of bytes a statement list accounts for. mode: "blength" or "append".
func sizeOfStmts(stmts []ast.Stmt, mode string, lv loopVars, depth int) (*cost, string) {
	c := newCost()
	for _, s := range stmts {
		switch x := s.(type) {
		case *ast.AssignStmt:
			if len(x.Lhs) != 1 || len(x.Rhs) != 1 {
				continue
			}
			lhs := rules.ExprText(x.Lhs[0])
			if mode == "blength" && lhs == "off" && x.Tok == token.ADD_ASSIGN {
				if e := addSizeExpr(c, x.Rhs[0], lv); e != "" {
					return nil, e
				}
			}
			if mode == "append" && lhs == "b" && x.Tok == token.ASSIGN {
				if e := addAppendExpr(c, x.Rhs[0], lv); e != "" {
					return nil, e
				}
			}
		case *ast.RangeStmt:
			nlv := loopVars{}
			for k, v := range lv {
				nlv[k] = v
			}
			if id, ok := x.Key.(*ast.Ident); ok && id.Name != "_" {
				nlv[id.Name] = fmt.Sprintf("$k%d", depth)
			}
			if id, ok := x.Value.(*ast.Ident); ok && id.Name != "_" {
				nlv[id.Name] = fmt.Sprintf("$v%d", depth)
			}
			body, e := sizeOfStmts(x.Body.List, mode, nlv, depth+1)
			if e != "" {
				return nil, e
			}
			c.Loops = append(c.Loops, loopCost{renameExpr(rules.ExprText(x.X), lv), body})
		case *ast.IfStmt:
			cond := rules.ExprText(x.Cond)
			if cond == "p == nil" {
				continue // nil receiver prologue: 1 byte on both sides (checked separately by the STOP byte)
			}
			body, e := sizeOfStmts(x.Body.List, mode, lv, depth)
			if e != "" {
				return nil, e
			}
			c.Ifs = append(c.Ifs, ifCost{renameExpr(cond, lv), body})
		case *ast.BlockStmt:
			body, e := sizeOfStmts(x.List, mode, lv, depth)
			if e != "" {
				return nil, e
			}
			c.K += body.K
			for t, n := range body.Terms {
				c.Terms[t] += n
			}
			c.Loops = append(c.Loops, body.Loops...)
			c.Ifs = append(c.Ifs, body.Ifs...)
		case *ast.ReturnStmt:
			if len(x.Results) == 1 {
				if mode == "blength" {
					if be, ok := x.Results[0].(*ast.BinaryExpr); ok && be.Op == token.ADD && rules.ExprText(be.X) == "off" && rules.ExprText(be.Y) == "1" {
						c.K++
					}
				} else if call, ok := x.Results[0].(*ast.CallExpr); ok && rules.ExprText(call.Fun) == "append" && len(call.Args) == 2 {
					c.K++
				}
			}
		}
	}
	return c, ""
}

func addSizeExpr(c *cost, e ast.Expr, lv loopVars) string {
	switch x := e.(type) {
	case *ast.BasicLit:
		var n int
		fmt.Sscan(x.Value, &n)
		c.K += n
		return ""
	case *ast.BinaryExpr:
		switch x.Op {
		case token.ADD:
			if e := addSizeExpr(c, x.X, lv); e != "" {
				return e
			}
			return addSizeExpr(c, x.Y, lv)
		case token.MUL:
			// len(X) * k  or  len(X) * (a+b)
			if call, ok := x.X.(*ast.CallExpr); ok && rules.ExprText(call.Fun) == "len" {
				k, ok := constSum(x.Y)
				if !ok {
					return "unsupported multiplier " + rules.ExprText(x.Y)
				}
				c.Terms["len("+renameExpr(rules.ExprText(call.Args[0]), lv)+")"] += k
				return ""
			}
		}
	case *ast.CallExpr:
		fn := rules.ExprText(x.Fun)
		if fn == "len" && len(x.Args) == 1 {
			c.Terms["len("+renameExpr(rules.ExprText(x.Args[0]), lv)+")"]++
			return ""
		}
		if strings.HasSuffix(fn, ".BLength") {
			c.Terms["S("+renameExpr(strings.TrimSuffix(fn, ".BLength"), lv)+")"]++
			return ""
		}
	case *ast.ParenExpr:
		return addSizeExpr(c, x.X, lv)
	}
	return "unsupported size expression " + rules.ExprText(e)
}

func constSum(e ast.Expr) (int, bool) {
	switch x := e.(type) {
	case *ast.BasicLit:
		var n int
		_, err := fmt.Sscan(x.Value, &n)
		return n, err == nil
	case *ast.ParenExpr:
		return constSum(x.X)
	case *ast.BinaryExpr:
		if x.Op == token.ADD {
			a, ok1 := constSum(x.X)
			b, ok2 := constSum(x.Y)
			return a + b, ok1 && ok2
		}
	}
	return 0, false
}

var appendSizes = map[string]int{"AppendI16": 2, "AppendI32": 4, "AppendI64": 8, "AppendDouble": 8, "AppendListBegin": 5, "AppendSetBegin": 5, "AppendMapBegin": 6, "AppendBool": 1, "AppendByte": 1}

func addAppendExpr(c *cost, e ast.Expr, lv loopVars) string {
	call, ok := e.(*ast.CallExpr)
	if !ok {
		return "unsupported append expression " + rules.ExprText(e)
	}
	fn := rules.ExprText(call.Fun)
	switch {
	case fn == "append":
		if call.Ellipsis.IsValid() && len(call.Args) == 2 {
			c.Terms["len("+renameExpr(rules.ExprText(call.Args[1]), lv)+")"]++
			return ""
		}
		c.K += len(call.Args) - 1
		return ""
	case strings.HasPrefix(fn, "x.Append"):
		n, ok := appendSizes[strings.TrimPrefix(fn, "x.")]
		if !ok {
			return "unknown encoder " + fn
		}
		c.K += n
		return ""
	case strings.HasSuffix(fn, ".FastAppend"):
		c.Terms["S("+renameExpr(strings.TrimSuffix(fn, ".FastAppend"), lv)+")"]++
		return ""
	}
	return "unsupported append call " + fn
}

func parseStmts(lines []string) ([]ast.Stmt, error) {
	src := "package p\nfunc f() {\n" + strings.Join(lines, "\n") + "\n}\n"
	f, err := parser.ParseFile(token.NewFileSet(), "emitted.go", src, parser.SkipObjectResolution)
	if err != nil {
		return nil, err
	}
	return f.Decls[0].(*ast.FuncDecl).Body.List, nil
}

// ---- wire events: what FastAppend produces vs what FastRead consumes

func appendEvents(stmts []ast.Stmt) string {
	var out []string
	for i := 0; i < len(stmts); i++ {
		switch x := stmts[i].(type) {
		case *ast.AssignStmt:
			if len(x.Rhs) != 1 {
				continue
			}
			call, ok := x.Rhs[0].(*ast.CallExpr)
			if !ok {
				continue
			}
			fn := rules.ExprText(call.Fun)
			switch {
			case fn == "x.AppendI32" && len(call.Args) == 2 && strings.HasPrefix(rules.ExprText(call.Args[1]), "int32(len("):
				// length prefix followed by the bytes
				if i+1 < len(stmts) {
					if as2, ok := stmts[i+1].(*ast.AssignStmt); ok {
						if c2, ok := as2.Rhs[0].(*ast.CallExpr); ok && rules.ExprText(c2.Fun) == "append" && c2.Ellipsis.IsValid() {
							out = append(out, "BYTES")
							i++
							continue
						}
					}
				}
				out = append(out, "I32")
			case strings.HasPrefix(fn, "x.Append"):
				out = append(out, strings.TrimPrefix(fn, "x.Append"))
			case fn == "append" && len(call.Args) == 4:
				out = append(out, "HEADER")
			case fn == "append" && len(call.Args) == 2 && !call.Ellipsis.IsValid():
				out = append(out, "BYTE1")
			case strings.HasSuffix(fn, ".FastAppend"):
				out = append(out, "STRUCT")
			}
		case *ast.RangeStmt:
			out = append(out, "LOOP{"+appendEvents(x.Body.List)+"}")
		case *ast.IfStmt:
			out = append(out, appendEvents(x.Body.List))
		case *ast.BlockStmt:
			out = append(out, appendEvents(x.List))
		}
	}
	return strings.Join(out, " ")
}

func readEvents(stmts []ast.Stmt) string {
	var out []string
	for _, s := range stmts {
		switch x := s.(type) {
		case *ast.AssignStmt:
			if len(x.Rhs) != 1 {
				continue
			}
			call, ok := x.Rhs[0].(*ast.CallExpr)
			if !ok {
				continue
			}
			fn := rules.ExprText(call.Fun)
			switch {
			case fn == "x.ReadString" || fn == "x.ReadBinary":
				out = append(out, "BYTES")
			case fn == "x.ReadBool" || fn == "x.ReadByte":
				out = append(out, "BYTE1")
			case strings.HasPrefix(fn, "x.Read"):
				out = append(out, strings.TrimPrefix(fn, "x.Read"))
			case strings.HasSuffix(fn, ".FastRead"):
				out = append(out, "STRUCT")
			}
		case *ast.ForStmt:
			out = append(out, "LOOP{"+readEvents(x.Body.List)+"}")
		case *ast.BlockStmt:
			out = append(out, readEvents(x.List))
		case *ast.IfStmt:
			// allocation guards `if p == nil { p = new(T) }` and error gotos carry no wire event
		}
	}
	return strings.Join(out, " ")
}

func c10genpair(c *core.Check, st *tmpl.Static) {
	cfg := tmplConfig(c.Tier)
	cfg.Categories = allCats
	cfg.LeafCats = allLeaf
	if c.Tier != "thorough" {
		cfg.MaxDepth = 1
	}
	cfg.MaxRuns = 200000
	cfg.TypedefRefs = true
	agg := newAggregate()
	shapes := map[string]bool{}
	issetClass := c10issetTable(c, st)
	runs, trunc, err := st.EnumerateWorlds(cfg, func(w *tmpl.World) error {
		fT := w.NamedType("generator/golang", "Field")
		cwT := w.NamedType(fastgoRel, "codewriter")
		if fT == nil || cwT == nil {
			return fmt.Errorf("types golang.Field / fastgo.codewriter missing")
		}
		f := w.NewObj(fT, "f", true)
		// a concrete id exercising both header bytes
		pf, _ := w.FieldOf(f, "Field")
		if po, ok := pf.(*tmpl.Obj); ok {
			po.Fields["ID"] = int64(258)
		}
		ctxV, err := w.MkRWCtx(f)
		if err != nil {
			return err
		}
		ctx := ctxV.(*tmpl.Obj)
		cw := w.NewObj(cwT, "w", true)
		bl, e1 := w.RunGoFunc(fastgoRel, "genBLengthField", cw, ctx, f)
		ap, e2 := w.RunGoFunc(fastgoRel, "genFastAppendField", cw, ctx, f)
		target, _ := ctx.Fields["Target"].(*tmpl.Text)
		rd, e3 := w.RunGoFunc(fastgoRel, "genFastReadAny", cw, ctx, target, int64(0))
		val := w.Valuation()
		var sh *shape
		if t, ok := po(pf).Peek("Type").(*tmpl.Obj); ok {
			sh = shapeOf(w, t)
		}
		shapes[sh.String()] = true
		for _, e := range []error{e1, e2, e3} {
			if e != nil {
				agg.check("emitters-interpreted", fastgoRel)
				agg.fail("emitters-interpreted", fastgoRel, fmt.Sprintf("under [%s]: the emitters use a construct outside the interpreted Go subset (%v); the pairing cannot be decided", val, e))
				return nil
			}
		}
		agg.check("emitters-interpreted", fastgoRel)
		bs, perr1 := parseStmts(bl)
		as, perr2 := parseStmts(ap)
		rs, perr3 := parseStmts(rd)
		agg.check("emitted-code-parses", fastgoRel)
		if perr1 != nil || perr2 != nil || perr3 != nil {
			agg.fail("emitted-code-parses", fastgoRel, fmt.Sprintf("under [%s] shape %s: emitted statements do not parse: %v %v %v", val, sh, perr1, perr2, perr3))
			return nil
		}
		// the emitted statements must not declare variables they never use (loop variables around constant increments)
		agg.check("emitted-code-typechecks", fastgoRel)
		for which, lines := range map[string][]string{"BLength": bl, "FastAppend": ap, "FastRead": rd} {
			if pg, perr := tmpl.ParseGo(strings.Join(lines, "\n"), true); perr == nil {
				for _, d := range pg.Diag {
					if strings.Contains(d, "declared and not used") || strings.Contains(d, "redeclared") || strings.Contains(d, "no new variables") {
						agg.fail("emitted-code-typechecks", fastgoRel, fmt.Sprintf("under [%s] shape %s: the %s code emitted for this field does not compile: %s", val, sh, which, d))
					}
				}
			}
		}
		// a variable declared `var k string` must be filled by the string reader and `var b []byte` by the binary reader
		agg.check("read-var-type-matches-reader", fastgoRel)
		decl := map[string]string{}
		for _, ln := range rd {
			f := strings.Fields(strings.TrimSpace(ln))
			if len(f) == 3 && f[0] == "var" {
				decl[f[1]] = f[2]
			}
			if i := strings.Index(ln, ", l, err = x.Read"); i > 0 {
				v := strings.TrimSpace(ln[:i])
				reader := ln[i+len(", l, err = x."):]
				reader = reader[:strings.Index(reader, "(")]
				switch {
				case decl[v] == "string" && reader == "ReadBinary", decl[v] == "[]byte" && reader == "ReadString":
					agg.fail("read-var-type-matches-reader", fastgoRel, fmt.Sprintf("under [%s] shape %s: %s is declared %s but filled by x.%s: the generated FastRead does not compile (a binary map key is a string in Go)", val, sh, v, decl[v], reader))
				}
			}
		}
		// a struct-like value is decoded into storage that already carries the declared defaults: FastRead assigns only
		// the fields present in the data, and the standard Read starts every struct from NewT() / InitDefault()
		agg.check("fast-read-struct-initialised", fastgoRel+"/genFastReadAny")
		{
			var flat []ast.Stmt
			var walk func(list []ast.Stmt)
			walk = func(list []ast.Stmt) {
				for _, st := range list {
					flat = append(flat, st)
					switch x := st.(type) {
					case *ast.BlockStmt:
						walk(x.List)
					case *ast.ForStmt:
						walk(x.Body.List)
					case *ast.RangeStmt:
						walk(x.Body.List)
					case *ast.IfStmt:
						walk(x.Body.List)
					}
				}
			}
			walk(rs)
			prepared := map[string]bool{}
			for _, st := range flat {
				switch x := st.(type) {
				case *ast.AssignStmt:
					if len(x.Lhs) >= 1 && len(x.Rhs) == 1 {
						if call, ok := x.Rhs[0].(*ast.CallExpr); ok {
							fn := rules.ExprText(call.Fun)
							if i := strings.LastIndex(fn, "."); i >= 0 {
								fn = fn[i+1:]
							}
							// TypeName.NewFunc() of an abstract type name renders as a placeholder ending in NewFunc
							if (strings.HasPrefix(fn, "New") || strings.HasSuffix(fn, "_NewFunc")) && len(call.Args) == 0 {
								prepared[rules.ExprText(x.Lhs[0])] = true
								continue
							}
							if _, name, _, ok := rules.SelectorCall(call); ok && name == "FastRead" {
								recv := rules.ExprText(call.Fun.(*ast.SelectorExpr).X)
								if !prepared[recv] {
									agg.fail("fast-read-struct-initialised", fastgoRel+"/genFastReadAny", fmt.Sprintf("under [%s] shape %s: %s.FastRead decodes into storage that was neither made by New<T>() nor given InitDefault(): fields absent from the data keep Go's zero value instead of the declared default, so FastRead and the standard Read disagree (optional fields equal to their default are never on the wire)", val, sh, recv))
								}
								continue
							}
						}
						// any other assignment to the name forgets the preparation
						delete(prepared, rules.ExprText(x.Lhs[0]))
					}
				case *ast.ExprStmt:
					if recvT, name, _, ok := rules.SelectorCall(x.X); ok && name == "InitDefault" {
						prepared[recvT] = true
					}
				}
			}
		}
		// byte counts
		agg.check("blength-equals-append", fastgoRel+"/genBLengthField~genFastAppendField")
		cb, eb := sizeOfStmts(bs, "blength", loopVars{}, 0)
		ca, ea := sizeOfStmts(as, "append", loopVars{}, 0)
		if eb != "" || ea != "" {
			agg.fail("blength-equals-append", fastgoRel+"/genBLengthField~genFastAppendField", fmt.Sprintf("under [%s] shape %s: cannot size the emitted code: %s %s", val, sh, eb, ea))
		} else {
			cb.normalize()
			ca.normalize()
			if cb.String() != ca.String() {
				agg.fail("blength-equals-append", fastgoRel+"/genBLengthField~genFastAppendField", fmt.Sprintf("under [%s] shape %s: BLength counts %s but FastAppend writes %s", val, sh, cb, ca))
			}
		}
		// an optional field is written iff the standard code's IsSet says so: the guard the emitters put around the
		// field must be of the same kind as the IsSet body the go templates render for this kind of field
		if rq, ok := po(pf).Peek("Requiredness").(int64); ok && strings.HasSuffix(w.EnumName("parser", "FieldType", rq), "Optional") && sh != nil {
			_, hasDef := po(pf).Peek("Default").(*tmpl.Obj)
			// the Go type of the field is a free symbol of the abstract world; only worlds in which its pointer-ness is what
			// NeedRedirect (interpreted from its own body) says for this field exist
			feasible := true
			if nr, ok := w.Prog.Pkg("generator/golang").Types.Scope().Lookup("NeedRedirect").(*types.Func); ok {
				if res, err := w.CallGo(nr, nil, []tmpl.Value{pf}, 0); err == nil && len(res) == 1 {
					if b, ok := res[0].(bool); ok {
						for ck, cv := range w.Or.Valuation() {
							if strings.HasPrefix(ck, "ispointer:") && strings.Contains(ck, "f_typeName") && (cv == 1) != b {
								feasible = false
							}
						}
					}
				}
			}
			if !feasible {
				return nil
			}
			want, known := issetClass[issetKey(sh, hasDef)]
			gk := fastgoRel + "/genBLengthField~genFastAppendField~FieldIsSet"
			agg.check("optional-guard-agrees-with-isset", gk)
			if !known {
				agg.fail("optional-guard-agrees-with-isset", gk, fmt.Sprintf("under [%s] shape %s: the go templates' IsSet for this kind of field was not rendered (table %v)", val, sh, issetClass))
			} else {
				for which, stmts := range map[string][]ast.Stmt{"BLength": bs, "FastAppend": as} {
					got := guardClass(stmts)
					if got != want && got != "isset" {
						agg.fail("optional-guard-agrees-with-isset", gk, fmt.Sprintf("under [%s] shape %s (default %v): %s guards the optional field with a %s test, the standard IsSet is a %s test: a value on which the two differ (nil with a default, for instance) is written by one codec and not by the other", val, sh, hasDef, which, got, want))
					}
				}
			}
		}
		// header
		agg.check("append-header", fastgoRel+"/genFastAppendField")
		hdrOK := false
		ast.Inspect(&ast.BlockStmt{List: as}, func(n ast.Node) bool {
			if call, ok := n.(*ast.CallExpr); ok && rules.ExprText(call.Fun) == "append" && len(call.Args) == 4 && !hdrOK {
				want := fmt.Sprintf("%d 1 2", specByCategory[sh.Cat].Wire)
				got := rules.ExprText(call.Args[1]) + " " + rules.ExprText(call.Args[2]) + " " + rules.ExprText(call.Args[3])
				if got == want {
					hdrOK = true
				} else {
					agg.fail("append-header", fastgoRel+"/genFastAppendField", fmt.Sprintf("under [%s] shape %s: field header is (%s), the binary protocol needs (%s) for id 258", val, sh, got, want))
					hdrOK = true
				}
			}
			return true
		})
		if !hdrOK {
			agg.fail("append-header", fastgoRel+"/genFastAppendField", fmt.Sprintf("under [%s] shape %s: no 3-byte field header emitted", val, sh))
		}
		// events
		agg.check("read-consumes-what-append-writes", fastgoRel+"/genFastAppendAny~genFastReadAny")
		ae := strings.TrimSpace(strings.TrimPrefix(strings.TrimSpace(appendEvents(as)), "HEADER"))
		re := strings.TrimSpace(readEvents(rs))
		if normEvents(ae) != normEvents(re) {
			agg.fail("read-consumes-what-append-writes", fastgoRel+"/genFastAppendAny~genFastReadAny", fmt.Sprintf("under [%s] shape %s: FastAppend produces [%s] but FastRead consumes [%s]", val, sh, ae, re))
		}
		return nil
	})
	if err != nil {
		c.Unknown("genpair", fastgoRel, "", err.Error())
	}
	c.Analysed["emitter_valuations"] = runs
	c.Analysed["emitter_shapes"] = len(shapes)
	if trunc {
		c.Note("emitter enumeration truncated at %d valuations", runs)
	}
	agg.flush(c, map[string]string{
		"emitters-interpreted":             "the emitters stay inside the interpreted Go subset",
		"emitted-code-parses":              "emitted statements parse as Go",
		"emitted-code-typechecks":          "emitted statements declare no unused or duplicate variables",
		"read-var-type-matches-reader":     "string variables are filled by ReadString, []byte variables by ReadBinary",
		"blength-equals-append":            "symbolic byte count of BLength = bytes FastAppend writes",
		"append-header":                    "3-byte header (spec wire type, id high, id low)",
		"fast-read-struct-initialised":     "every FastRead receiver was made by New<T>() or given InitDefault()",
		"optional-guard-agrees-with-isset": "the guard around an optional field is of the same kind (nil / default / content) as the rendered IsSet",
		"read-consumes-what-append-writes": "FastRead's wire-event tree equals FastAppend's",
	})
	c.Min("read-consumes-what-append-writes", 1)
}

func issetKey(sh *shape, hasDef bool) string {
	cat := sh.Cat
	switch {
	case sh.isStructLike():
		cat = "Struct"
	case sh.isContainer():
		cat = "Container"
	case cat != "Binary" && cat != "String":
		cat = "Scalar"
	}
	return fmt.Sprintf("%s/%v", cat, hasDef)
}

// guardClass classifies the statement list emitted for one field: "always" (no enclosing if), "nil" (X != nil),
// "isset" (a call of an IsSet method), "content" (string(X) != string(D) or bytes.Equal), "default" (X != D).
func guardClass(stmts []ast.Stmt) string {
	var is *ast.IfStmt
	for _, s := range stmts {
		if x, ok := s.(*ast.IfStmt); ok {
			is = x
			break
		}
		if _, ok := s.(*ast.EmptyStmt); ok {
			continue
		}
		return "always"
	}
	if is == nil {
		return "always"
	}
	return condClass(is.Cond)
}

func condClass(cond ast.Expr) string {
	switch x := ast.Unparen(cond).(type) {
	case *ast.CallExpr:
		return "isset"
	case *ast.UnaryExpr:
		if _, ok := ast.Unparen(x.X).(*ast.CallExpr); ok {
			return "content"
		}
	case *ast.BinaryExpr:
		if x.Op == token.NEQ {
			if rules.ExprText(x.Y) == "nil" {
				return "nil"
			}
			if _, ok := ast.Unparen(x.X).(*ast.CallExpr); ok {
				return "content"
			}
			return "default"
		}
	}
	return "other:" + rules.ExprText(cond)
}

// c10issetTable renders the go templates' FieldIsSet for every kind of optional field and records of which kind the
// IsSet body is.
func c10issetTable(c *core.Check, st *tmpl.Static) map[string]string {
	out := map[string]string{}
	var mu sync2
	units := []unit{{Set: "default", Def: "FieldIsSet", DotRel: "generator/golang", DotType: "StructLike", Lists: []int{1}}}
	runUnits(c, st, units, func(r *rendered) {
		if r.R.Err != nil || r.ParseErr != nil {
			return
		}
		fields := fieldsOf(r)
		if len(fields) != 1 || fields[0].Shape == nil {
			return
		}
		f := fields[0]
		fd := findFunc(r.P.File, f.IsSet)
		if fd == nil || len(fd.Body.List) != 1 {
			return
		}
		rs, ok := fd.Body.List[0].(*ast.ReturnStmt)
		if !ok || len(rs.Results) != 1 {
			return
		}
		k := issetKey(f.Shape, f.HasDefault)
		cl := condClass(rs.Results[0])
		mu.Lock()
		if prev, ok := out[k]; ok && prev != cl {
			out[k] = "ambiguous(" + prev + "," + cl + ")"
		} else if !ok {
			out[k] = cl
		}
		mu.Unlock()
	})
	return out
}

func po(v tmpl.Value) *tmpl.Obj {
	o, _ := v.(*tmpl.Obj)
	return o
}

func normEvents(s string) string {
	r := strings.NewReplacer("SetBegin", "ListBegin")
	return strings.Join(strings.Fields(r.Replace(s)), " ")
}

// ---- checked-in generated files
func c10checkedIn(c *core.Check, rel, file string) {
	pk := c.Prog.Pkg(rel)
	if pk == nil {
		return
	}
	for _, f := range pk.Syntax {
		if !strings.HasSuffix(c.Prog.Fset.File(f.Pos()).Name(), "/"+file) {
			continue
		}
		bl := map[string]*ast.FuncDecl{}
		ap := map[string]*ast.FuncDecl{}
		for _, d := range f.Decls {
			fd, ok := d.(*ast.FuncDecl)
			if !ok || fd.Recv == nil {
				continue
			}
			switch fd.Name.Name {
			case "BLength":
				bl[core.RecvName(fd)] = fd
			case "FastAppend":
				ap[core.RecvName(fd)] = fd
			}
		}
		var names []string
		for n := range bl {
			names = append(names, n)
		}
		sort.Strings(names)
		for _, n := range names {
			key := rel + "." + n + ".BLength~FastAppend"
			a, ok := ap[n]
			if !ok {
				c.Bad("blength-equals-append", key, c.Prog.Rel(bl[n].Pos()), "BLength without FastAppend")
				continue
			}
			cb, eb := sizeOfStmts(bl[n].Body.List, "blength", loopVars{}, 0)
			ca, ea := sizeOfStmts(a.Body.List, "append", loopVars{}, 0)
			if eb != "" || ea != "" {
				c.Unknown("blength-equals-append", key, c.Prog.Rel(bl[n].Pos()), "cannot size: "+eb+" "+ea)
				continue
			}
			cb.normalize()
			ca.normalize()
			c.Decide(cb.String() == ca.String(), "blength-equals-append", key, c.Prog.Rel(bl[n].Pos()), "both account for "+cb.String(), "BLength counts "+cb.String()+" but FastAppend writes "+ca.String())
		}
	}
}

// ---- required-field bitset pairing in genFastRead
func c10bitset(c *core.Check) {
	c10visitsAll(c)
	c10caseKey(c)
	c10elemTypes(c)
	fd := c.Prog.FuncDecl(fastgoRel, "FastGoBackend.genFastRead")
	key := fastgoRel + ".(FastGoBackend).genFastRead"
	if fd == nil {
		c.Unknown("anchor", key, "", "missing")
		return
	}
	info := c.Prog.Pkg(fastgoRel).TypesInfo
	type site struct {
		guard string
		pos   token.Pos
	}
	var adds, sets []site
	ifnotset := false
	ast.Inspect(fd.Body, func(n ast.Node) bool {
		is, ok := n.(*ast.IfStmt)
		if ok {
			for _, call := range rules.Calls(is.Body, false) {
				if fn := rules.Callee(info, call); fn != nil {
					switch fn.Name() {
					case "Add":
						adds = append(adds, site{rules.ExprString(is.Cond), call.Pos()})
					case "GenSetbit":
						sets = append(sets, site{rules.ExprString(is.Cond), call.Pos()})
					}
				}
			}
		}
		if call, ok := n.(*ast.CallExpr); ok {
			if fn := rules.Callee(info, call); fn != nil && fn.Name() == "GenIfNotSet" {
				ifnotset = true
			}
		}
		return true
	})
	okPair := len(adds) == 1 && len(sets) == 1 && adds[0].guard == sets[0].guard && strings.Contains(adds[0].guard, "FieldType_Required")
	c.Decide(okPair, "required-bitset", key+"/Add~GenSetbit", c.Prog.Rel(fd.Pos()), "required fields are registered and set under the same condition", fmt.Sprintf("bitset registration %v and setting %v are not guarded by the same requiredness test: a required field is never reported missing (or always)", adds, sets))
	c.Decide(ifnotset, "required-bitset", key+"/GenIfNotSet", c.Prog.Rel(fd.Pos()), "the bitset is tested after the field loop", "the required-field bitset is never tested: FastRead accepts messages without required fields")
	// default arm skips
	skips := false
	ast.Inspect(fd.Body, func(n ast.Node) bool {
		if call, ok := n.(*ast.CallExpr); ok && len(call.Args) >= 1 {
			if s, ok := rules.ConstString(info, call.Args[0]); ok && strings.Contains(s, "x.Skip(b[off:], ftyp)") {
				skips = true
			}
		}
		return true
	})
	c.Decide(skips, "unknown-field-skipped", key+"/default", c.Prog.Rel(fd.Pos()), "the default arm skips the value by its wire type", "FastRead no longer skips unknown or mistyped fields")
	// the case key itself is decided by c10caseKey (read-case-label-equals-switch), exhaustively over ids and wire types
}
