package props

import (
	"bytes"
	"fmt"
	"go/ast"
	"go/printer"
	"go/token"
	"go/types"
	"regexp"
	"sort"
	"strings"

	"golang.org/x/tools/go/ssa"

	"verif/checker/core"
	"verif/checker/rules"
)

func init() { register("C14", c14) }

const fmRel = "fieldmask"

func c14(c *core.Check) {
	c.Explain = "ORDER + SIB + EXIT (narrow claim). (1) ORDER over the call-graph closure of FieldMask.MarshalJSON / Marshal: every map iteration is a collect-then-sort or another order-insensitive idiom (JSON text is stable). " +
		"(2) SIB: the three queries Field / Int / Str are alpha-equivalent modulo the storage accessor (compared with each other), and the intMap / strMap method sets (Reset, Get, SetIfNotExist, Unset) are alpha-equivalent modulo the key type. " +
		"(3) EXIT: every explicit panic(...) call site of the package that is reachable from an exported function or method is either unreachable by construction — the checker re-verifies the guard: newPathToken's default arm (every call passes a constant token type the switch handles), pathValue.Int32 (every call is preceded by a range test of the same value) — or tabled as a programmer-error panic that no input string can trigger. " +
		"(4) the trie is a tree: every store of a node into trie storage (map element, head array, `all`) stores a node allocated for that slot, once per store (go/ssa). " +
		"(5) three run-time panic shapes are excluded for the whole package: fixed-array indexes by signed values are bounded on both sides, a scan index that a loop advances twice is clamped before it is used as a slice bound, and no pointer that is nil on some path is dereferenced without a dominating nil test (go/ssa). NOT decided: trie vs path-set equivalence, JSON round trip, acceptance of unterminated index/key brackets."
	c.RuleText = "one obligation per map-iteration site, sibling pair and reachable panic site"
	c.Assume = []string{"VTA call graph over-approximates calls", "panics inside strconv/sort/json are outside the rule (library code)"}
	prog := c.Prog
	prog.SSA()
	pkg := prog.SSAPkg(fmRel)
	if pkg == nil {
		c.Unknown("anchor", fmRel, "", "package missing")
		return
	}
	// (1)
	var roots []*ssa.Function
	for _, n := range []string{"MarshalJSON"} {
		if f := rules.Method(prog.SSA(), pkg, "FieldMask", n); f != nil {
			roots = append(roots, f)
		}
	}
	if f := rules.Func(pkg, "Marshal"); f != nil {
		roots = append(roots, f)
	}
	if len(roots) < 2 {
		c.Unknown("anchor", fmRel+".MarshalJSON|Marshal", "", "missing")
	} else {
		orderCheck(c, "json-order", roots, nil, map[string]discharge{}, nil)
		c.Min("json-order", 3)
	}
	// (2)
	pk := prog.Pkg(fmRel)
	norm := func(name string, subst func(string) string) (string, bool) {
		fd := prog.FuncDecl(fmRel, name)
		if fd == nil {
			return "", false
		}
		var buf bytes.Buffer
		_ = printer.Fprint(&buf, prog.Fset, fd.Body)
		s := strings.Join(strings.Fields(buf.String()), " ")
		return subst(s), true
	}
	storeRe := regexp.MustCompile(`self\.(fdMask|intMask|strMask)\b`)
	convRe := regexp.MustCompile(`fieldID\((\w+)\)`)
	q := func(s string) string { return convRe.ReplaceAllString(storeRe.ReplaceAllString(s, "self.STORE"), "$1") }
	a, ok1 := norm("FieldMask.Field", q)
	b, ok2 := norm("FieldMask.Int", q)
	d, ok3 := norm("FieldMask.Str", q)
	if ok1 && ok2 && ok3 {
		c.Decide(a == b, "query-siblings", fmRel+".(FieldMask).Field~Int", "", "alpha-equivalent modulo the storage accessor", "Field and Int differ:\n  Field: "+a+"\n  Int:   "+b)
		c.Decide(a == d, "query-siblings", fmRel+".(FieldMask).Field~Str", "", "alpha-equivalent modulo the storage accessor", "Field and Str differ:\n  Field: "+a+"\n  Str:   "+d)
	} else {
		c.Unknown("query-siblings", fmRel+".(FieldMask).Field|Int|Str", "", "query methods not found")
	}
	keyRe := regexp.MustCompile(`\b(int|string)\b`)
	recvRe := regexp.MustCompile(`\b(im|sm)\b`)
	mq := func(s string) string { return recvRe.ReplaceAllString(keyRe.ReplaceAllString(s, "KEY"), "M") }
	for _, m := range []string{"Reset", "Get", "SetIfNotExist", "Unset"} {
		x, okx := norm("intMap."+m, mq)
		y, oky := norm("strMap."+m, mq)
		if !okx || !oky {
			c.Unknown("storage-siblings", fmRel+".intMap~strMap."+m, "", "method missing on one of the two storages")
			continue
		}
		c.Decide(x == y, "storage-siblings", fmRel+".intMap~strMap."+m, "", "alpha-equivalent modulo the key type", "intMap."+m+" and strMap."+m+" differ:\n  int: "+x+"\n  str: "+y)
	}
	// (3) reachable panics
	var exported []*ssa.Function
	for _, mem := range pkg.Members {
		switch x := mem.(type) {
		case *ssa.Function:
			if x.Object() != nil && x.Object().Exported() {
				exported = append(exported, x)
			}
		case *ssa.Type:
			if !x.Object().Exported() {
				continue
			}
			for _, tt := range []types.Type{x.Type(), types.NewPointer(x.Type())} {
				ms := prog.SSA().MethodSets.MethodSet(tt)
				for i := 0; i < ms.Len(); i++ {
					if ms.At(i).Obj().Exported() {
						if f := prog.SSA().MethodValue(ms.At(i)); f != nil {
							exported = append(exported, f)
						}
					}
				}
			}
		}
	}
	reach, parent := prog.ReachWithParents(exported, nil)
	info := pk.TypesInfo
	type site struct {
		fn   *ssa.Function
		call *ast.CallExpr
	}
	var sites []site
	for _, fn := range core.SortedFuncs(reach) {
		if fn.Pkg != pkg && (fn.Parent() == nil || fn.Parent().Pkg != pkg) {
			continue
		}
		body := core.Body(fn)
		if body == nil {
			continue
		}
		rules.Inspect(body, false, func(n ast.Node) bool {
			if call, ok := n.(*ast.CallExpr); ok && rules.IsBuiltin(info, call, "panic") {
				sites = append(sites, site{fn, call})
			}
			return true
		})
	}
	nPer := map[string]int{}
	for _, s := range sites {
		name := core.FuncName(s.fn)
		nPer[name]++
		key := fmt.Sprintf("%s/panic#%d", name, nPer[name])
		where := prog.Rel(s.call.Pos())
		switch {
		case strings.HasSuffix(name, ".newPathToken"):
			ok, fact := newPathTokenTotal(c, s.call)
			c.Decide(ok, "no-input-panic", key, where, fact, fact+" (call path: "+core.CallPath(parent, s.fn)+")")
		case strings.HasSuffix(name, "(pathValue).Int32"):
			ok, fact := int32Guarded(c)
			c.Decide(ok, "no-input-panic", key, where, fact, fact)
		case strings.HasSuffix(name, "(FieldMask).ForEachChild"):
			fd := prog.FuncDecl(fmRel, "FieldMask.ForEachChild")
			if fd == nil {
				c.Unknown("no-input-panic", key, where, "declaration not found")
				break
			}
			ok, fact := c14closedSwitch(c, fd, s.call)
			c.Decide(ok, "no-input-panic", key, where, fact, fact)
		case strings.HasSuffix(name, "(FieldMask).print"):
			c.OK("no-input-panic", key, where, "table: programmer-error panic (mask/descriptor kind mismatch: the kind is set only by the package's own constructors from a closed enumeration); not triggered by path strings or JSON")
		default:
			c.Bad("no-input-panic", key, where, "explicit panic reachable from the exported API ("+core.CallPath(parent, s.fn)+") without a verified guard: an input string or JSON document may crash the caller")
		}
	}
	c.Analysed["exported_entries"] = len(exported)
	c.Min("no-input-panic", 3)
	c14trie(c)
	c14noFloatKeys(c)
	c14runtimePanics(c)
	c14jsonStrings(c)
	c14pooledBuffer(c)
	c14nilStorage(c)
	c14blackStar(c)
	c14descUnwrapped(c)
	c14emptySets(c)
	c14closedSets(c)
}

// newPathTokenTotal: the panic in newPathToken's default arm is unreachable: every call passes a constant pathType that
// one of the switch's cases lists; any other panic in the function is a violation.
func newPathTokenTotal(c *core.Check, panicCall *ast.CallExpr) (bool, string) {
	fd := c.Prog.FuncDecl(fmRel, "newPathToken")
	info := c.Prog.Pkg(fmRel).TypesInfo
	if fd == nil {
		return false, "newPathToken missing"
	}
	var sw *ast.SwitchStmt
	for _, s := range fd.Body.List {
		if x, ok := s.(*ast.SwitchStmt); ok {
			sw = x
		}
	}
	if sw == nil {
		return false, "newPathToken has no switch over the token type"
	}
	handled := map[string]bool{}
	inDefault := false
	for _, cc := range sw.Body.List {
		cl := cc.(*ast.CaseClause)
		if cl.List == nil {
			if cl.Pos() <= panicCall.Pos() && panicCall.End() <= cl.End() {
				inDefault = true
			}
			continue
		}
		for _, e := range cl.List {
			handled[constName(info, e)] = true
		}
		if cl.Pos() <= panicCall.Pos() && panicCall.End() <= cl.End() {
			return false, "newPathToken panics inside the arm for " + constName(info, cl.List[0]) + ": a path string can reach it"
		}
	}
	if !inDefault {
		return false, "panic outside the default arm of newPathToken"
	}
	// all call sites
	var bad []string
	n := 0
	for _, f := range c.Prog.Pkg(fmRel).Syntax {
		ast.Inspect(f, func(nd ast.Node) bool {
			call, ok := nd.(*ast.CallExpr)
			if !ok {
				return true
			}
			if fn := rules.Callee(info, call); fn == nil || fn.Name() != "newPathToken" || fn.Pkg() != c.Prog.Pkg(fmRel).Types {
				return true
			}
			n++
			if tv := info.Types[call.Args[0]]; tv.Value == nil || !handled[constName(info, call.Args[0])] {
				bad = append(bad, c.Prog.Rel(call.Pos())+" passes "+rules.ExprString(call.Args[0]))
			}
			return true
		})
	}
	sort.Strings(bad)
	if len(bad) > 0 {
		return false, fmt.Sprintf("newPathToken's default arm panics and is reachable: %v is not one of the handled token types", bad)
	}
	return true, fmt.Sprintf("default-arm panic unreachable: all %d call sites pass a constant token type that the switch handles", n)
}

// int32Guarded: every call of pathValue.Int32 is preceded, in its block, by a range test of Int() against MaxInt32/MinInt32.
func int32Guarded(c *core.Check) (bool, string) {
	info := c.Prog.Pkg(fmRel).TypesInfo
	n, guarded := 0, 0
	for _, f := range c.Prog.Pkg(fmRel).Syntax {
		ast.Inspect(f, func(nd ast.Node) bool {
			blk, ok := nd.(*ast.BlockStmt)
			if !ok {
				return true
			}
			for i, s := range blk.List {
				uses := false
				shallow(s, func(m ast.Node) {
					if call, ok := m.(*ast.CallExpr); ok {
						if fn := rules.Callee(info, call); fn != nil && fn.Name() == "Int32" && rules.IsMethod(fn, c.Prog.Pkg(fmRel).PkgPath, "pathValue", "Int32") {
							uses = true
						}
					}
				})
				if !uses {
					continue
				}
				n++
				for _, p := range blk.List[:i] {
					if is, ok := p.(*ast.IfStmt); ok {
						cond := rules.ExprString(is.Cond)
						if strings.Contains(cond, "math.MaxInt32") && strings.Contains(cond, "math.MinInt32") && endsInReturn(is.Body) {
							guarded++
							break
						}
					}
				}
			}
			return true
		})
	}
	if n > 0 && n == guarded {
		return true, fmt.Sprintf("overflow panic unreachable: all %d uses of Int32 follow an int32 range test that returns", n)
	}
	return false, fmt.Sprintf("pathValue.Int32 panics on overflow and %d of its %d uses are not preceded by a range test: a field id like $.99999999999 crashes the caller", n-guarded, n)
}

func endsInReturn(b *ast.BlockStmt) bool {
	if len(b.List) == 0 {
		return false
	}
	_, ok := b.List[len(b.List)-1].(*ast.ReturnStmt)
	return ok
}

var _ = token.NoPos
