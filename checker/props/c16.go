package props

import (
	"fmt"
	"go/ast"
	"strings"

	"golang.org/x/tools/go/ssa"

	"verif/checker/core"
	"verif/checker/rules"
)

func init() { register("C16", c16) }

const trimRel = "tool/trimmer/trim"

func c16(c *core.Check) {
	c.Explain = "COVER + SIB + PATH on tool/trimmer/trim. (1) Inside the closure of Trimmer.markAST every *parser.Type edge of the AST (Typedef.Type, Constant.Type, Field.Type, Function.FunctionType, Type.KeyType, Type.ValueType; enumerated through go/types) is read as an argument of markType; Service.Extends/Reference are read by markService; a type with a Reference marks its include (markInclude call under `Reference != nil` in markType). " +
		"(2) the three struct-like filter loops of traversal (Structs, Unions, Exceptions) are alpha-equivalent (compared with each other) and keep a node iff it is marked or checkPreserve holds; services are kept iff marked. " +
		"(3) in doTrimAST (go/cfg): traversal is followed on every nil-error path by CircleDetect, CheckAll and ResolveSymbols, each of whose failure returns an error. " +
		"(4) traversal unconditionally clears Name2Category and every include's Used flag of each AST it visits (needed for re-resolution after include indices change) and recurses into every kept include. " +
		"NOT decided: idempotence, minimality, wire behaviour after trimming; value edges (constants/defaults) are deliberately not followed because includes with constants, enums or typedefs are kept wholesale (checked: that is still the keep condition)."
	c.RuleText = "one obligation per AST edge, sibling pair, pipeline stage and unconditional store"
	c.Assume = []string{"VTA call graph over-approximates calls"}
	prog := c.Prog
	prog.SSA()
	pkg := prog.SSAPkg(trimRel)
	mark := rules.Method(prog.SSA(), pkg, "Trimmer", "markAST")
	if mark == nil {
		c.Unknown("anchor", trimRel+".(Trimmer).markAST", "", "missing")
		return
	}
	acc, nf := walkerAccesses(c, []*ssa.Function{mark}, nil)
	c.Analysed["functions_in_closure"] = nf
	for _, key := range []string{"Typedef.Type", "Constant.Type", "Field.Type", "Function.FunctionType", "Type.KeyType", "Type.ValueType"} {
		a, ok := readInto(acc, key, ".(Trimmer).markType")
		c.Decide(ok, "mark-type-edge", "trim/"+key, prog.Rel(a.Pos), "read as an argument of markType in "+a.Func, "type edge "+key+" is never marked: a struct reachable only through it is trimmed although it is needed")
	}
	// discovered edges: any other *Type-typed field of the node types must also be covered
	for _, nt := range []string{"Typedef", "Constant", "Field", "Function", "Type", "Service", "StructLike"} {
		tn := prog.Pkg("parser").Types.Scope().Lookup(nt)
		if tn == nil {
			continue
		}
		st := structOf(tn.Type())
		for i := 0; i < st.NumFields(); i++ {
			f := st.Field(i)
			if rules.IsNamed(f.Type(), parserPath, "Type") {
				key := nt + "." + f.Name()
				a, ok := readInto(acc, key, ".(Trimmer).markType")
				c.Decide(ok, "mark-type-edge", "trim/"+key, prog.Rel(a.Pos), "read as an argument of markType", "type edge "+key+" is never marked")
			}
		}
	}
	c.Min("mark-type-edge", 6)
	c16preProcessMonotone(c)
	c16baseMarkedBothWays(c)
	for _, key := range []string{"Service.Extends", "Service.Reference", "Service.Functions", "Function.Arguments", "Function.Throws", "StructLike.Fields", "Type.Reference", "Type.IsTypedef"} {
		a, ok := hasRead(acc, key)
		c.Decide(ok, "mark-reads", "trim/"+key, prog.Rel(a.Pos), "read in "+a.Func, key+" is never inspected while marking")
	}
	// markInclude under Reference != nil in markType
	if fd := prog.FuncDecl(trimRel, "Trimmer.markType"); fd != nil {
		info := prog.Pkg(trimRel).TypesInfo
		ok := false
		ast.Inspect(fd.Body, func(n ast.Node) bool {
			if is, isIf := n.(*ast.IfStmt); isIf && strings.Contains(rules.ExprString(is.Cond), "Reference != nil") {
				for _, call := range rules.Calls(is.Body, false) {
					if fn := rules.Callee(info, call); fn != nil && fn.Name() == "markInclude" {
						ok = true
					}
				}
			}
			return true
		})
		c.Decide(ok, "mark-include", trimRel+".(Trimmer).markType/Reference", prog.Rel(fd.Pos()), "a referenced type marks its include", "a type that lives in an include no longer marks that include: the include is dropped while still referenced")
	} else {
		c.Unknown("anchor", trimRel+".(Trimmer).markType", "", "missing")
	}

	// every function that follows a Reference into an included AST (Includes[x.Reference.Index]) also marks that include
	{
		tpk := prog.Pkg(trimRel)
		n := 0
		for _, file := range tpk.Syntax {
			for _, d := range file.Decls {
				fd, ok := d.(*ast.FuncDecl)
				if !ok || fd.Body == nil {
					continue
				}
				follows := map[string]bool{}
				marks := map[string]bool{}
				ast.Inspect(fd.Body, func(nd ast.Node) bool {
					switch x := nd.(type) {
					case *ast.IndexExpr:
						if strings.HasSuffix(rules.ExprString(x.X), ".Includes") && strings.HasSuffix(rules.ExprString(x.Index), ".Reference.Index") {
							follows[rules.ExprString(x)] = true
						}
					case *ast.CallExpr:
						if fn := rules.Callee(tpk.TypesInfo, x); fn != nil && fn.Name() == "markInclude" && len(x.Args) >= 1 {
							marks[rules.ExprString(x.Args[0])] = true
						}
					}
					return true
				})
				for f := range follows {
					n++
					key := fmt.Sprintf("%s/follow %s", core.FuncKey(trimRel, fd), f)
					c.Decide(marks[f], "follow-marks-include", key, prog.Rel(fd.Pos()), "the function that follows this reference into the included file also marks the include",
						"a reference is followed into "+f+" but this function never marks that include: what is kept from the included file loses its include line (invalid IDL after trimming)")
				}
			}
		}
		c.Analysed["include_follow_sites"] = n
		c.Min("follow-marks-include", 3)
	}

	// (2) siblings in traversal
	tr := prog.FuncDecl(trimRel, "Trimmer.traversal")
	if tr == nil {
		c.Unknown("anchor", trimRel+".(Trimmer).traversal", "", "missing")
		return
	}
	info := prog.Pkg(trimRel).TypesInfo
	loops := map[string]*ast.RangeStmt{}
	ast.Inspect(tr.Body, func(n ast.Node) bool {
		if rs, ok := n.(*ast.RangeStmt); ok {
			x := rules.ExprString(rs.X)
			for _, k := range []string{"ast.Structs", "ast.Unions", "ast.Exceptions", "ast.Services", "ast.Includes"} {
				if x == k {
					if _, seen := loops[k]; !seen {
						loops[k] = rs
					}
				}
			}
		}
		return true
	})
	if loops["ast.Structs"] != nil && loops["ast.Unions"] != nil && loops["ast.Exceptions"] != nil {
		a := rules.NormalizeLoop(prog.Fset, info, loops["ast.Structs"])
		for _, other := range []string{"ast.Unions", "ast.Exceptions"} {
			b := rules.NormalizeLoop(prog.Fset, info, loops[other])
			c.Decide(a == b, "filter-siblings", "trim.traversal/ast.Structs~"+other, prog.Rel(loops[other].Pos()), "alpha-equivalent filter loops",
				"the filter over "+other+" differs from the filter over ast.Structs:\n  structs: "+a+"\n  other:   "+b)
		}
		// keep predicate: marked || checkPreserve
		is := firstIf(loops["ast.Structs"].Body)
		okPred := is != nil && strings.Contains(rules.ExprString(is.Cond), "||") && strings.Contains(rules.ExprString(is.Cond), "checkPreserve")
		c.Decide(okPred, "filter-predicate", "trim.traversal/ast.Structs/keep", prog.Rel(loops["ast.Structs"].Pos()), "kept iff marked or preserved", "a struct is no longer kept iff it is marked or preserved")
	} else {
		c.Unknown("filter-siblings", "trim.traversal/loops", prog.Rel(tr.Pos()), "the three struct-like filter loops were not found")
	}
	// includes: kept iff marked or carrying constants/enums/typedefs, and recursed into
	if l := loops["ast.Includes"]; l != nil {
		is := firstIf(l.Body)
		cond := ""
		if is != nil {
			cond = rules.ExprString(is.Cond)
		}
		okc := is != nil && strings.Contains(cond, "Constants") && strings.Contains(cond, "Enums") && strings.Contains(cond, "Typedefs") && strings.Contains(cond, "||")
		rec := false
		if is != nil {
			for _, call := range rules.Calls(is.Body, false) {
				if fn := rules.Callee(info, call); fn != nil && fn.Name() == "traversal" {
					rec = true
				}
			}
		}
		c.Decide(okc && rec, "include-keep", "trim.traversal/ast.Includes/keep", prog.Rel(l.Pos()), "an include is kept (and traversed) iff marked or it declares constants, enums or typedefs",
			"the include keep condition changed: value edges are not followed by marking, so includes with constants/enums/typedefs must be kept wholesale")
	} else {
		c.Unknown("include-keep", "trim.traversal/ast.Includes", "", "loop not found")
	}
	// (4) unconditional clears
	clearsN2C, clearsUsed := false, false
	for _, s := range tr.Body.List {
		switch x := s.(type) {
		case *ast.AssignStmt:
			if len(x.Lhs) == 1 && rules.ExprString(x.Lhs[0]) == "ast.Name2Category" && rules.ExprString(x.Rhs[0]) == "nil" {
				clearsN2C = true
			}
		case *ast.RangeStmt:
			if rules.ExprString(x.X) == "ast.Includes" {
				for _, b := range x.Body.List {
					if as, ok := b.(*ast.AssignStmt); ok && len(as.Lhs) == 1 && strings.HasSuffix(rules.ExprString(as.Lhs[0]), ".Used") && rules.ExprString(as.Rhs[0]) == "nil" {
						clearsUsed = true
					}
				}
			}
		}
	}
	c.Decide(clearsN2C, "reset-resolution", "trim.traversal/Name2Category", prog.Rel(tr.Pos()), "Name2Category is cleared unconditionally", "traversal no longer clears Name2Category: re-resolution reports multiple definitions")
	c.Decide(clearsUsed, "reset-resolution", "trim.traversal/Include.Used", prog.Rel(tr.Pos()), "every remaining include's Used flag is cleared unconditionally", "traversal no longer clears Include.Used: stale flags survive re-indexing")

	// (3) pipeline in doTrimAST
	dt := prog.FuncDecl(trimRel, "doTrimAST")
	if dt == nil {
		c.Unknown("anchor", trimRel+".doTrimAST", "", "missing")
		return
	}
	g := rules.CFG(info, dt.Body, nil)
	isCall := func(name string) func(ast.Node) bool {
		return func(n ast.Node) bool {
			call, ok := n.(*ast.CallExpr)
			if !ok {
				return false
			}
			fn := rules.Callee(info, call)
			return fn != nil && fn.Name() == name
		}
	}
	nilRet := func(n ast.Node) bool {
		rs, ok := n.(*ast.ReturnStmt)
		return ok && len(rs.Results) == 2 && rules.IsNil(info, rs.Results[1])
	}
	for _, ev := range []string{"markAST", "traversal", "CircleDetect", "CheckAll", "ResolveSymbols"} {
		missed, targets := rules.MustPass(g, isCall(ev), nilRet)
		c.Decide(targets > 0 && len(missed) == 0, "trim-pipeline", trimRel+".doTrimAST/"+ev, prog.Rel(dt.Pos()), fmt.Sprintf("on every success path (%d return)", targets),
			"doTrimAST can succeed without "+ev+": the trimmed AST is returned unchecked / unresolved")
	}
	for _, ev := range []string{"CheckAll", "ResolveSymbols"} {
		c.Decide(errReturnedAfter(info, dt.Body, ev), "trim-pipeline", trimRel+".doTrimAST/"+ev+"-error", prog.Rel(dt.Pos()), "its error is returned", "the error of "+ev+" after trimming is ignored")
	}
	// order: traversal before the checks
	var posT, posC ast.Node
	ast.Inspect(dt.Body, func(n ast.Node) bool {
		if isCall("traversal")(n) && posT == nil {
			posT = n
		}
		if isCall("CheckAll")(n) && posC == nil {
			posC = n
		}
		return true
	})
	c.Decide(posT != nil && posC != nil && posT.Pos() < posC.Pos(), "trim-pipeline", trimRel+".doTrimAST/order", prog.Rel(dt.Pos()), "checks run after traversal", "semantic checks run before the AST is trimmed")
}

func firstIf(b *ast.BlockStmt) *ast.IfStmt {
	for _, s := range b.List {
		if is, ok := s.(*ast.IfStmt); ok {
			return is
		}
	}
	return nil
}

var _ = core.Module
