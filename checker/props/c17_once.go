package props

import (
	"go/ast"
	"go/types"
	"strings"

	"verif/checker/core"
	"verif/checker/rules"
)

// c17escapedOnce: writeString escapes '&' and DumpIDL unescapes the finished text once, so a piece of text must pass through
// writeString exactly once. A helper that assembles a string in a *local* stringBuilder and returns it hands out text that is
// already escaped; every caller then writes it through writeString again, the final UnescapeString removes only one layer
// and an annotation value `x&y` on a type re-parses as `x&amp;y`. Rule: in every function of the dump package (other than
// the ones that return the finished dump) that declares a local stringBuilder and whose result contains that builder's
// String(), the String() value is passed through the inverse of the escaping (strings.ReplaceAll(_, "&amp;", "&") or
// html.UnescapeString) before it is returned.
func c17escapedOnce(c *core.Check) {
	rel := "tool/trimmer/dump"
	pk := c.Prog.Pkg(rel)
	if pk == nil {
		c.Unknown("anchor", rel, "", "package missing")
		return
	}
	info := pk.TypesInfo
	// armed only while writeString escapes
	esc := false
	if fd := c.Prog.FuncDecl(rel, "stringBuilder.writeString"); fd != nil {
		for _, call := range rules.Calls(fd.Body, true) {
			if fn := rules.Callee(info, call); fn != nil && fn.Name() == "ReplaceAll" && len(call.Args) == 3 {
				if a, ok := rules.ConstString(info, call.Args[1]); ok && a == "&" {
					esc = true
				}
			}
		}
	}
	n := 0
	c.Prog.AllFuncDecls(rel, func(file *ast.File, fd *ast.FuncDecl) {
		if fd.Body == nil || fd.Recv != nil || strings.HasSuffix(c.Prog.Fset.File(fd.Pos()).Name(), "_test.go") {
			return
		}
		// local builders
		local := map[types.Object]bool{}
		ast.Inspect(fd.Body, func(m ast.Node) bool {
			if vs, ok := m.(*ast.ValueSpec); ok {
				for _, nm := range vs.Names {
					if obj := info.Defs[nm]; obj != nil && strings.HasSuffix(obj.Type().String(), "dump.stringBuilder") {
						local[obj] = true
					}
				}
			}
			return true
		})
		if len(local) == 0 {
			return
		}
		// does the function unescape the whole text itself (it returns the finished dump)?
		for _, call := range rules.Calls(fd.Body, true) {
			if fn := rules.Callee(info, call); fn != nil && fn.Pkg() != nil && fn.Pkg().Path() == "html" && fn.Name() == "UnescapeString" {
				return
			}
		}
		// String() calls on a local builder and what wraps them
		var stack []ast.Node
		ast.Inspect(fd.Body, func(m ast.Node) bool {
			if m == nil {
				stack = stack[:len(stack)-1]
				return true
			}
			stack = append(stack, m)
			call, ok := m.(*ast.CallExpr)
			if !ok {
				return true
			}
			sel, ok := call.Fun.(*ast.SelectorExpr)
			if !ok || sel.Sel.Name != "String" {
				return true
			}
			id, ok := sel.X.(*ast.Ident)
			if !ok || !local[info.Uses[id]] {
				return true
			}
			n++
			key := core.FuncKey(rel, fd) + "/" + id.Name + ".String()"
			where := c.Prog.Rel(call.Pos())
			if !esc {
				c.OKTrivial("text-escaped-once", key, where, "writeString does not escape")
				return true
			}
			undone := false
			for _, p := range stack {
				pc, ok := p.(*ast.CallExpr)
				if !ok || pc == call {
					continue
				}
				fn := rules.Callee(info, pc)
				if fn == nil || fn.Pkg() == nil {
					continue
				}
				if fn.Pkg().Path() == "html" && fn.Name() == "UnescapeString" {
					undone = true
				}
				if fn.Pkg().Path() == "strings" && fn.Name() == "ReplaceAll" && len(pc.Args) == 3 {
					a, ok1 := rules.ConstString(info, pc.Args[1])
					b, ok2 := rules.ConstString(info, pc.Args[2])
					if ok1 && ok2 && a == "&amp;" && b == "&" {
						undone = true
					}
				}
			}
			c.Decide(undone, "text-escaped-once", key, where,
				"the locally assembled text is unescaped before it is handed to the caller, which writes it through writeString",
				"the text of the local builder "+id.Name+" has '&' escaped already and is returned as it is; the callers write it through writeString again and the final UnescapeString removes one layer only: an annotation `(a = \"x&y\")` on a type is dumped as `x&amp;y`")
			return true
		})
	})
	c.Min("text-escaped-once", 1)
}
