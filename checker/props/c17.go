package props

import (
	"fmt"
	"go/ast"
	"go/types"
	"sort"

	"golang.org/x/tools/go/ssa"

	"verif/checker/core"
	"verif/checker/rules"
)

func init() { register("C17", c17) }

// attributes of AST nodes that DumpIDL legitimately does not print, each with the reason.
var c17Ignore = map[string]string{
	"Thrift.Filename":      "identity of the file, not content of it",
	"Thrift.Name2Category": "resolution result (rebuilt by semantic analysis after re-parsing)",
	"Include.Reference":    "resolution result",
	"Include.Used":         "resolution result",
	"StructLike.Category":  "implied by the list the node is printed from (keyword argument of printStruct)",
	"Service.Reference":    "resolution result",
	"Function.Void":        "implied by FunctionType.Name == \"void\"",
	"Type.Category":        "resolution result",
	"Type.Reference":       "resolution result",
	"Type.IsTypedef":       "resolution result",
	"ConstValue.Extra":     "resolution result",
}

var c17Nodes = []string{"Thrift", "Include", "Namespace", "Typedef", "Constant", "Enum", "EnumValue", "StructLike", "Field", "Service", "Function", "Type", "ConstValue", "ConstTypedValue", "MapConstValue", "Annotation"}

func c17(c *core.Check) {
	c17scalarPrinted(c)
	c.Explain = "COVER + LINT + SIB on tool/trimmer/dump. (1) Every attribute of every AST node type (fields enumerated through go/types; resolution-only attributes on a reasoned ignore list) is read somewhere in the call-graph closure of DumpIDL: an attribute that is never read cannot be printed, so the re-parsed AST would differ in it. " +
		"(2) index/len lint: inside `for i, x := range S` a comparison of i with len(T)±c must have T = S (separator placement). " +
		"(3) argument printing and throws printing are alpha-equivalent loops (compared with each other after renaming loop variables and abstracting the ranged slice). " +
		"(4) every formatting call in the dumper (fmt.*f and package functions that forward a format parameter) has a constant format string: IDL text is never interpreted as verbs. " +
		"NOT decided: escaping of literals, numeric formatting, re-parse equality as behaviour; (1b) additionally every loop that prints a list of fields (struct fields, arguments, throws) reads id, name, requiredness, type, default and annotations."
	c.RuleText = "one obligation per (node type, attribute), per index/len comparison, per sibling pair"
	c.Assume = []string{"VTA call graph over-approximates calls"}
	prog := c.Prog
	prog.SSA()
	dump := rules.Func(prog.SSAPkg("tool/trimmer/dump"), "DumpIDL")
	if dump == nil {
		c.Unknown("anchor", "tool/trimmer/dump.DumpIDL", "", "missing")
		return
	}
	// exclude the legacy V1 path (template-driven), selected only by a manual switch
	v1 := rules.Func(prog.SSAPkg("tool/trimmer/dump"), "DumpIDL_V1")
	acc, nf := walkerAccesses(c, []*ssa.Function{dump}, func(f *ssa.Function) bool { return f == v1 })
	c.Analysed["functions_in_closure"] = nf
	for _, nt := range c17Nodes {
		fields := astFields(c, nt)
		if len(fields) == 0 {
			c.Unknown("anchor", "parser."+nt, "", "node type missing")
			continue
		}
		for _, f := range fields {
			key := nt + "." + f
			if why, ok := c17Ignore[key]; ok {
				c.OKTrivial("dump-covers", "dump/"+key, "", "not printed by design: "+why)
				continue
			}
			a, ok := hasRead(acc, key)
			c.Decide(ok, "dump-covers", "dump/"+key, prog.Rel(a.Pos), "read in "+a.Func+" ("+a.Via+")", "attribute "+key+" is never read by DumpIDL: it is lost when an AST is dumped and parsed back")
		}
	}
	c.Min("dump-covers", 60)
	// (2) lint over the package
	pk := prog.Pkg("tool/trimmer/dump")
	n := 0
	var loops []*ast.RangeStmt
	for _, file := range pk.Syntax {
		for _, d := range file.Decls {
			fd, ok := d.(*ast.FuncDecl)
			if !ok || fd.Body == nil {
				continue
			}
			for _, s := range rules.IndexLenSites(pk.TypesInfo, fd.Body) {
				n++
				key := fmt.Sprintf("dump.%s/range %s", fd.Name.Name, s.S)
				c.Decide(s.S == s.T, "index-len", key, prog.Rel(s.Cmp.Pos()), "index compared with len of the ranged slice",
					fmt.Sprintf("inside `range %s` the index is compared with len(%s): separators are placed by the length of a different list", s.S, s.T))
			}
			if fd.Name.Name == "DumpIDL" {
				ast.Inspect(fd.Body, func(nd ast.Node) bool {
					if rs, ok := nd.(*ast.RangeStmt); ok {
						x := rules.ExprString(rs.X)
						if x == "f.Arguments" || x == "f.Throws" {
							loops = append(loops, rs)
						}
					}
					return true
				})
			}
		}
	}
	// (1b) every place that prints a list of fields reads every printable Field attribute
	nLists := 0
	for _, file := range pk.Syntax {
		for _, d := range file.Decls {
			fd, ok := d.(*ast.FuncDecl)
			if !ok || fd.Body == nil || fd.Name.Name == "DumpIDL_V1" {
				continue
			}
			ast.Inspect(fd.Body, func(nd ast.Node) bool {
				rs, ok := nd.(*ast.RangeStmt)
				if !ok {
					return true
				}
				tv, ok := pk.TypesInfo.Types[rs.X]
				if !ok {
					return true
				}
				sl, ok := tv.Type.Underlying().(*types.Slice)
				if !ok || !rules.IsNamed(sl.Elem(), parserPath, "Field") {
					return true
				}
				nLists++
				reads := map[string]bool{}
				for _, a := range rules.CollectAccesses(pk.TypesInfo, rs.Body, parserPath, fd.Name.Name) {
					if a.Type == "Field" && !a.Write {
						reads[a.Field] = true
					}
				}
				var missing []string
				for _, f := range []string{"ID", "Name", "Requiredness", "Type", "Default", "Annotations"} {
					if !reads[f] {
						missing = append(missing, f)
					}
				}
				key := fmt.Sprintf("dump.%s/range %s", fd.Name.Name, rules.ExprString(rs.X))
				c.Decide(len(missing) == 0, "field-list-printer", key, prog.Rel(rs.Pos()), "prints id, name, requiredness, type, default and annotations of each field",
					fmt.Sprintf("fields of %s are printed without %v: these attributes are lost on dump/re-parse", rules.ExprString(rs.X), missing))
				return true
			})
		}
	}
	c.Min("field-list-printer", 3)
	c.Analysed["index_len_sites"] = n
	c.Min("index-len", 4)
	c17formats(c)
	c17ampEscaped(c)
	c17escapedOnce(c)
	c17doubleReparsable(c)
	// (3) siblings
	if len(loops) == 2 {
		a := rules.NormalizeLoop(prog.Fset, pk.TypesInfo, loops[0])
		b := rules.NormalizeLoop(prog.Fset, pk.TypesInfo, loops[1])
		c.Decide(a == b, "sibling-args-throws", "dump.DumpIDL/arguments~throws", prog.Rel(loops[0].Pos()), "the two loops are alpha-equivalent modulo the ranged list",
			"argument printing and throws printing differ:\n  args:   "+a+"\n  throws: "+b)
	} else {
		var xs []string
		for _, l := range loops {
			xs = append(xs, rules.ExprString(l.X))
		}
		sort.Strings(xs)
		c.Unknown("sibling-args-throws", "dump.DumpIDL/arguments~throws", "", fmt.Sprintf("expected one loop over f.Arguments and one over f.Throws, found %v", xs))
	}
}
