package props

import (
	"go/types"
	"sort"

	"golang.org/x/tools/go/ssa"

	"verif/checker/core"
	"verif/checker/rules"
)

const parserPath = core.Module + "/parser"

// walkerAccesses collects every access to parser AST node fields in the call-graph closure of the entries.
func walkerAccesses(c *core.Check, roots []*ssa.Function, stop func(*ssa.Function) bool) (map[string][]rules.FieldAccess, int) {
	reach := c.Prog.Reach(roots, stop)
	fns := core.SortedFuncs(reach)
	out := map[string][]rules.FieldAccess{}
	for _, fn := range fns {
		info := c.Prog.InfoAt(fn.Pos())
		body := core.Body(fn)
		if info == nil || body == nil {
			continue
		}
		// nested literals are separate functions of the closure; avoid double counting by scanning only top-level functions' own syntax
		if fn.Parent() != nil {
			continue
		}
		for _, a := range rules.CollectAccesses(info, body, parserPath, core.FuncName(fn)) {
			k := a.Type + "." + a.Field
			out[k] = append(out[k], a)
		}
	}
	return out, len(fns)
}

// astFields lists the fields of a parser node type (through go/types, so a new field is a new obligation).
func astFields(c *core.Check, typ string) []string {
	pk := c.Prog.Pkg("parser")
	if pk == nil {
		return nil
	}
	tn := pk.Types.Scope().Lookup(typ)
	if tn == nil {
		return nil
	}
	st, ok := tn.Type().Underlying().(interface {
		NumFields() int
	})
	_ = st
	_ = ok
	var out []string
	if s, ok := tn.Type().Underlying().(interface{}); ok {
		_ = s
	}
	if s := structOf(tn.Type()); s != nil {
		for i := 0; i < s.NumFields(); i++ {
			out = append(out, s.Field(i).Name())
		}
	}
	sort.Strings(out)
	return out
}

func hasRead(acc map[string][]rules.FieldAccess, key string) (rules.FieldAccess, bool) {
	for _, a := range acc[key] {
		if !a.Write {
			return a, true
		}
	}
	return rules.FieldAccess{}, false
}

// readInto: some read of key sits (transitively) in the argument list of a call to a function whose id ends with sinkSuffix.
func readInto(acc map[string][]rules.FieldAccess, key, sinkSuffix string) (rules.FieldAccess, bool) {
	for _, a := range acc[key] {
		if a.Write {
			continue
		}
		for _, id := range a.InCalls {
			if len(id) >= len(sinkSuffix) && id[len(id)-len(sinkSuffix):] == sinkSuffix {
				return a, true
			}
		}
	}
	return rules.FieldAccess{}, false
}

func structOf(t types.Type) *types.Struct {
	s, _ := t.Underlying().(*types.Struct)
	return s
}
