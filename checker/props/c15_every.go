package props

import (
	"fmt"
	"go/ast"
	"go/token"
	"go/types"
	"strings"

	"verif/checker/core"
	"verif/checker/rules"
)

// c15everyElement (after seed C15-7): the descriptor builders turn each list of AST nodes into a list or map of
// descriptors with `for _, x := range <list> { …; out = append(out, d) }` / `m[k] = v`. A descriptor "states what
// the IDL states" only if no element is left out.
//
// Rule (AST + types, thrift_reflection/descriptor_creater.go): in every range loop over *parser.<Node> elements whose
// body records into a collection (append to, or index-assignment into, a variable declared outside the loop), a
// recording statement is a direct statement of the body and no continue/break/goto/return of this loop precedes it.
func c15everyElement(c *core.Check) {
	const rule = "every-element-described"
	rel := "thrift_reflection"
	pk := c.Prog.Pkg(rel)
	if pk == nil {
		c.Unknown("anchor", rel, "", "package missing")
		return
	}
	info := pk.TypesInfo
	n := 0
	c.Prog.AllFuncDecls(rel, func(file *ast.File, fd *ast.FuncDecl) {
		if fd.Body == nil || !strings.HasSuffix(c.Prog.Fset.File(fd.Pos()).Name(), "descriptor_creater.go") {
			return
		}
		ast.Inspect(fd.Body, func(m ast.Node) bool {
			rs, ok := m.(*ast.RangeStmt)
			if !ok {
				return true
			}
			vid, ok := rs.Value.(*ast.Ident)
			if !ok {
				return true
			}
			elem := info.ObjectOf(vid)
			if elem == nil || !c17isParserNode(elem.Type()) {
				return true
			}
			records := func(st ast.Stmt) bool {
				as, ok := st.(*ast.AssignStmt)
				if !ok || as.Tok == token.DEFINE {
					return false
				}
				for i, l := range as.Lhs {
					switch x := l.(type) {
					case *ast.IndexExpr:
						if id, ok := x.X.(*ast.Ident); ok {
							if o := info.ObjectOf(id); o != nil && (o.Pos() < rs.Pos() || o.Pos() > rs.End()) {
								return true
							}
						}
					case *ast.Ident:
						if i < len(as.Rhs) {
							if call, ok := as.Rhs[i].(*ast.CallExpr); ok && rules.IsBuiltin(info, call, "append") {
								if o := info.ObjectOf(x); o != nil && (o.Pos() < rs.Pos() || o.Pos() > rs.End()) {
									return true
								}
							}
						}
					}
				}
				return false
			}
			any := false
			ast.Inspect(rs.Body, func(k ast.Node) bool {
				if st, ok := k.(ast.Stmt); ok && records(st) {
					any = true
				}
				return !any
			})
			if !any {
				return true
			}
			n++
			var skip ast.Node
			direct := false
			for _, st := range rs.Body.List {
				if records(st) {
					direct = true
					break
				}
				ast.Inspect(st, func(k ast.Node) bool {
					switch x := k.(type) {
					case *ast.ForStmt, *ast.RangeStmt, *ast.FuncLit, *ast.SwitchStmt, *ast.SelectStmt:
						return false
					case *ast.BranchStmt:
						if skip == nil {
							skip = x
						}
					case *ast.ReturnStmt:
						if skip == nil {
							skip = x
						}
					}
					return skip == nil
				})
				if skip != nil {
					break
				}
			}
			key := fmt.Sprintf("thrift_reflection.%s/range %s", fd.Name.Name, types.ExprString(rs.X))
			why := ""
			if skip != nil {
				why = fmt.Sprintf("the iteration can be left at %s before the element is recorded: an element the IDL states (an include that nothing refers to, say) is missing from the descriptor", c.Prog.Rel(skip.Pos()))
			} else if !direct {
				why = "the element is recorded only under a condition: an element the IDL states can be missing from the descriptor"
			}
			c.Decide(why == "", rule, key, c.Prog.Rel(rs.Pos()), "every iteration records its element", why)
			return true
		})
	})
	if n < 6 {
		c.Unknown(rule, rel, "", fmt.Sprintf("expected at least six descriptor-collecting loops, found %d", n))
	}
}
