package props

import (
	"fmt"
	"go/ast"
	"go/token"
	"go/types"
	"strings"

	"golang.org/x/tools/go/cfg"

	"golang.org/x/tools/go/ssa"

	"verif/checker/core"
	"verif/checker/rules"
)

// c12patchTarget: unnamed patches are filed under the loop-carried variable `last`. Whenever an iteration stores a file
// (fm.index[K] = len(fm.files)), the value `last` carries into the next iteration on every path through that store must be
// the very key K the file was stored under — otherwise the patches that follow a renamed file are attached to another file.
// Decided on go/ssa: the header phi of the variable used as key of fm.patch is resolved backwards through the phis that lie
// downstream of the store; every value found must be K (the same SSA value, or a load of the same variable with no store
// to it downstream of the index update).
func c12patchTarget(c *core.Check) {
	prog := c.Prog
	prog.SSA()
	pkg := prog.SSAPkg("generator")
	fn := rules.Method(prog.SSA(), pkg, "FileManager", "Feed")
	key := "generator.(FileManager).Feed"
	if fn == nil {
		c.Unknown("anchor", key, "", "missing")
		return
	}
	fieldOf := func(v ssa.Value) string { // load of fm.<field>
		u, ok := v.(*ssa.UnOp)
		if !ok || u.Op != token.MUL {
			return ""
		}
		fa, ok := u.X.(*ssa.FieldAddr)
		if !ok {
			return ""
		}
		st, ok := fa.X.Type().Underlying().(*types.Pointer).Elem().Underlying().(*types.Struct)
		if !ok {
			return ""
		}
		return st.Field(fa.Field).Name()
	}
	var last *ssa.Phi
	type upd struct {
		ins *ssa.MapUpdate
	}
	var updates []*ssa.MapUpdate
	for _, b := range fn.Blocks {
		for _, ins := range b.Instrs {
			mu, ok := ins.(*ssa.MapUpdate)
			if !ok {
				continue
			}
			switch fieldOf(mu.Map) {
			case "patch":
				if ph, ok := mu.Key.(*ssa.Phi); ok && rules.InCycle(ph.Block()) {
					if k, ok := ph.Edges[0].(*ssa.Const); ok && k.Value != nil {
						last = ph
					} else {
						for _, e := range ph.Edges {
							if k, ok := e.(*ssa.Const); ok && k.Value != nil {
								last = ph
							}
						}
					}
				}
			case "index":
				updates = append(updates, mu)
			}
		}
	}
	if last == nil {
		c.Unknown("patch-target-is-stored-name", key+"/last", "", "the loop-carried key of fm.patch for unnamed patches was not found")
		return
	}
	header := last.Block()
	// reach(M): blocks reachable from M without passing through the loop header (same iteration)
	reachFrom := func(m *ssa.BasicBlock) map[*ssa.BasicBlock]bool {
		return rules.ReachableFrom(m, func(b *ssa.BasicBlock) bool { return b == header })
	}
	n := 0
	for _, mu := range updates {
		n++
		m := mu.Block()
		down := reachFrom(m)
		down[m] = true
		ukey := fmt.Sprintf("%s/index-update#%d", key, n)
		where := prog.Rel(mu.Pos())
		// collect the values flowing into `last` along paths through m
		found := map[ssa.Value]bool{}
		seen := map[ssa.Value]bool{}
		var resolve func(v ssa.Value)
		resolve = func(v ssa.Value) {
			if seen[v] {
				return
			}
			seen[v] = true
			if ph, ok := v.(*ssa.Phi); ok && ph != last && down[ph.Block()] && ph.Block() != m {
				for i, e := range ph.Edges {
					if down[ph.Block().Preds[i]] {
						resolve(e)
					}
				}
				return
			}
			found[v] = true
		}
		any := false
		for i, e := range last.Edges {
			if down[header.Preds[i]] {
				any = true
				resolve(e)
			}
		}
		if !any {
			c.Unknown("patch-target-is-stored-name", ukey, where, "the store is not followed by the next iteration")
			continue
		}
		same := func(a, b ssa.Value) bool {
			if a == b {
				return true
			}
			la, ok1 := a.(*ssa.UnOp)
			lb, ok2 := b.(*ssa.UnOp)
			if !ok1 || !ok2 || la.Op != token.MUL || lb.Op != token.MUL || la.X != lb.X {
				return false
			}
			al, ok := la.X.(*ssa.Alloc)
			if !ok {
				return false
			}
			// no store to the variable downstream of the index update
			for _, ref := range *al.Referrers() {
				if st, ok := ref.(*ssa.Store); ok && st.Addr == al {
					if down[st.Block()] && !(st.Block() == m && rules.InstrIndex(st) < rules.InstrIndex(mu)) {
						return false
					}
				}
			}
			return true
		}
		var bad []string
		for v := range found {
			if !same(v, mu.Key) {
				name := v.Name()
				if v == ssa.Value(last) {
					name = "the previous iteration's target (unchanged)"
				}
				bad = append(bad, name+" = "+v.String())
			}
		}
		c.Decide(len(bad) == 0, "patch-target-is-stored-name", ukey, where,
			fmt.Sprintf("after the file is stored under %s, the target of following unnamed patches is that same value on every path", mu.Key.Name()),
			fmt.Sprintf("the file is stored under %s = %s but the following unnamed patches are filed under %v: after a rename they are attached to the earlier file of the original name and the renamed file gets none", mu.Key.Name(), mu.Key.String(), bad))
	}
	c.Min("patch-target-is-stored-name", 2)
}

var _ = core.Module

// c12freshName: a conflicting file is "kept under a fresh, unique name". Rule (go/cfg of Feed): every store
// `fm.index[K] = len(fm.files)` whose key K was built in Feed itself (a renamed file, not the submitted name) is only
// reachable through the not-present branch of a comma-ok lookup of fm.index[K] made after the last assignment to K.
func c12freshName(c *core.Check) {
	fd := c.Prog.FuncDecl("generator", "FileManager.Feed")
	key := "generator.(FileManager).Feed/fresh-name"
	if fd == nil {
		c.Unknown("anchor", "generator.(FileManager).Feed", "", "missing")
		return
	}
	info := c.Prog.Pkg("generator").TypesInfo
	g := rules.CFG(info, fd.Body, nil)
	// keys assigned from a formatted string inside Feed
	built := map[string]bool{}
	ast.Inspect(fd.Body, func(n ast.Node) bool {
		as, ok := n.(*ast.AssignStmt)
		if !ok || len(as.Lhs) != 1 || len(as.Rhs) != 1 {
			return true
		}
		if call, ok := as.Rhs[0].(*ast.CallExpr); ok {
			if fn := rules.Callee(info, call); fn != nil && fn.Pkg() != nil && fn.Pkg().Path() == "fmt" && fn.Name() == "Sprintf" {
				built[rules.ExprString(as.Lhs[0])] = true
			}
		}
		return true
	})
	n := 0
	for k := range built {
		// the store under this key
		var store ast.Node
		ast.Inspect(fd.Body, func(nd ast.Node) bool {
			if as, ok := nd.(*ast.AssignStmt); ok && len(as.Lhs) == 1 {
				if ix, ok := as.Lhs[0].(*ast.IndexExpr); ok && rules.ExprString(ix.X) == recvNameOf(fd, "fm")+".index" && rules.ExprString(ix.Index) == k {
					store = as
				}
			}
			return true
		})
		if store == nil {
			continue
		}
		n++
		// flag variables of comma-ok lookups of fm.index[k]
		okVars := map[string]bool{}
		ast.Inspect(fd.Body, func(nd ast.Node) bool {
			if as, ok := nd.(*ast.AssignStmt); ok && len(as.Lhs) == 2 && len(as.Rhs) == 1 {
				if ix, ok := as.Rhs[0].(*ast.IndexExpr); ok && rules.ExprString(ix.X) == recvNameOf(fd, "fm")+".index" && rules.ExprString(ix.Index) == k {
					okVars[rules.ExprString(as.Lhs[1])] = true
				}
			}
			return true
		})
		type st struct {
			b   int32
			est bool
		}
		seen := map[st]bool{}
		bad := false
		var visit func(b *cfg.Block, est bool)
		visit = func(b *cfg.Block, est bool) {
			if seen[st{b.Index, est}] {
				return
			}
			seen[st{b.Index, est}] = true
			for _, nd := range b.Nodes {
				if nd == store && !est {
					bad = true
				}
				if as, ok := nd.(*ast.AssignStmt); ok && len(as.Lhs) == 1 && rules.ExprString(as.Lhs[0]) == k {
					est = false // a new candidate name
				}
			}
			if len(b.Succs) == 2 && len(b.Nodes) > 0 {
				if cond, ok := b.Nodes[len(b.Nodes)-1].(ast.Expr); ok {
					t := strings.ReplaceAll(rules.ExprString(cond), " ", "")
					for v := range okVars {
						if t == "!"+v {
							visit(b.Succs[0], true)
							visit(b.Succs[1], est)
							return
						}
						if t == v {
							visit(b.Succs[0], est)
							visit(b.Succs[1], true)
							return
						}
					}
				}
			}
			for _, s := range b.Succs {
				visit(s, est)
			}
		}
		if len(g.Blocks) > 0 {
			visit(g.Blocks[0], false)
		}
		c.Decide(!bad && len(okVars) > 0, "fresh-name-not-taken", fmt.Sprintf("%s/%s", key, k), c.Prog.Rel(store.Pos()),
			"the name "+k+" is stored only after a lookup showed it is not in the index",
			"the renamed file is stored under "+k+" without checking that this name is free: a file submitted under that very name is overwritten in the index and two files of the same name are emitted")
	}
	if n == 0 {
		c.Unknown("fresh-name-not-taken", key, c.Prog.Rel(fd.Pos()), "no store of a generated name into fm.index found")
	}
}
