package props

import (
	"fmt"
	"go/ast"
	"go/token"
	"go/types"
	"strings"

	"golang.org/x/tools/go/cfg"

	"golang.org/x/tools/go/ssa"

	"verif/checker/core"
	"verif/checker/rules"
)

// c12patchTarget: unnamed patches are filed under the loop-carried variable `last`. Whenever an iteration stores a file
// (fm.index[K] = len(fm.files)), the value `last` carries into the next iteration on every path through that store must be
// the very key K the file was stored under — otherwise the patches that follow a renamed file are attached to another file.
// Decided on go/ssa: the header phi of the variable used as key of fm.patch is resolved backwards through the phis that lie
// downstream of the store; every value found must be K (the same SSA value, or a load of the same variable with no store
// to it downstream of the index update).
func c12patchTarget(c *core.Check) {
	prog := c.Prog
	prog.SSA()
	pkg := prog.SSAPkg("generator")
	fn := rules.Method(prog.SSA(), pkg, "FileManager", "Feed")
	key := "generator.(FileManager).Feed"
	if fn == nil {
		c.Unknown("anchor", key, "", "missing")
		return
	}
	fieldOf := func(v ssa.Value) string { // load of fm.<field>
		u, ok := v.(*ssa.UnOp)
		if !ok || u.Op != token.MUL {
			return ""
		}
		fa, ok := u.X.(*ssa.FieldAddr)
		if !ok {
			return ""
		}
		st, ok := fa.X.Type().Underlying().(*types.Pointer).Elem().Underlying().(*types.Struct)
		if !ok {
			return ""
		}
		return st.Field(fa.Field).Name()
	}
	var last *ssa.Phi
	type upd struct {
		ins *ssa.MapUpdate
	}
	var updates []*ssa.MapUpdate
	for _, b := range fn.Blocks {
		for _, ins := range b.Instrs {
			mu, ok := ins.(*ssa.MapUpdate)
			if !ok {
				continue
			}
			switch fieldOf(mu.Map) {
			case "patch":
				if ph, ok := mu.Key.(*ssa.Phi); ok && rules.InCycle(ph.Block()) {
					if k, ok := ph.Edges[0].(*ssa.Const); ok && k.Value != nil {
						last = ph
					} else {
						for _, e := range ph.Edges {
							if k, ok := e.(*ssa.Const); ok && k.Value != nil {
								last = ph
							}
						}
					}
				}
			case "index":
				updates = append(updates, mu)
			}
		}
	}
	if last == nil {
		c.Unknown("patch-target-is-stored-name", key+"/last", "", "the loop-carried key of fm.patch for unnamed patches was not found")
		return
	}
	header := last.Block()
	// reach(M): blocks reachable from M without passing through the loop header (same iteration)
	reachFrom := func(m *ssa.BasicBlock) map[*ssa.BasicBlock]bool {
		return rules.ReachableFrom(m, func(b *ssa.BasicBlock) bool { return b == header })
	}
	n := 0
	for _, mu := range updates {
		n++
		m := mu.Block()
		down := reachFrom(m)
		down[m] = true
		ukey := fmt.Sprintf("%s/index-update#%d", key, n)
		where := prog.Rel(mu.Pos())
		// collect the values flowing into `last` along paths through m
		found := map[ssa.Value]bool{}
		seen := map[ssa.Value]bool{}
		var resolve func(v ssa.Value)
		resolve = func(v ssa.Value) {
			if seen[v] {
				return
			}
			seen[v] = true
			if ph, ok := v.(*ssa.Phi); ok && ph != last && down[ph.Block()] && ph.Block() != m {
				for i, e := range ph.Edges {
					if down[ph.Block().Preds[i]] {
						resolve(e)
					}
				}
				return
			}
			found[v] = true
		}
		any := false
		for i, e := range last.Edges {
			if down[header.Preds[i]] {
				any = true
				resolve(e)
			}
		}
		if !any {
			c.Unknown("patch-target-is-stored-name", ukey, where, "the store is not followed by the next iteration")
			continue
		}
		same := func(a, b ssa.Value) bool {
			if a == b {
				return true
			}
			la, ok1 := a.(*ssa.UnOp)
			lb, ok2 := b.(*ssa.UnOp)
			if !ok1 || !ok2 || la.Op != token.MUL || lb.Op != token.MUL || la.X != lb.X {
				return false
			}
			al, ok := la.X.(*ssa.Alloc)
			if !ok {
				return false
			}
			// no store to the variable downstream of the index update
			for _, ref := range *al.Referrers() {
				if st, ok := ref.(*ssa.Store); ok && st.Addr == al {
					if down[st.Block()] && !(st.Block() == m && rules.InstrIndex(st) < rules.InstrIndex(mu)) {
						return false
					}
				}
			}
			return true
		}
		var bad []string
		for v := range found {
			if !same(v, mu.Key) {
				name := v.Name()
				if v == ssa.Value(last) {
					name = "the previous iteration's target (unchanged)"
				}
				bad = append(bad, name+" = "+v.String())
			}
		}
		c.Decide(len(bad) == 0, "patch-target-is-stored-name", ukey, where,
			fmt.Sprintf("after the file is stored under %s, the target of following unnamed patches is that same value on every path", mu.Key.Name()),
			fmt.Sprintf("the file is stored under %s = %s but the following unnamed patches are filed under %v: after a rename they are attached to the earlier file of the original name and the renamed file gets none", mu.Key.Name(), mu.Key.String(), bad))
	}
	c.Min("patch-target-is-stored-name", 2)
}

var _ = core.Module

// c12freshName: a conflicting file is "kept under a fresh, unique name". Rule (go/cfg of Feed): every store
// `fm.index[K] = len(fm.files)` whose key K was built in Feed itself (a renamed file, not the submitted name) is only
// reachable through the not-present branch of a comma-ok lookup of fm.index[K] made after the last assignment to K.
func c12freshName(c *core.Check) {
	fd := c.Prog.FuncDecl("generator", "FileManager.Feed")
	key := "generator.(FileManager).Feed/fresh-name"
	if fd == nil {
		c.Unknown("anchor", "generator.(FileManager).Feed", "", "missing")
		return
	}
	info := c.Prog.Pkg("generator").TypesInfo
	g := rules.CFG(info, fd.Body, nil)
	// keys assigned from a formatted string inside Feed
	built := map[string]bool{}
	ast.Inspect(fd.Body, func(n ast.Node) bool {
		as, ok := n.(*ast.AssignStmt)
		if !ok || len(as.Lhs) != 1 || len(as.Rhs) != 1 {
			return true
		}
		if call, ok := as.Rhs[0].(*ast.CallExpr); ok {
			if fn := rules.Callee(info, call); fn != nil && fn.Pkg() != nil && fn.Pkg().Path() == "fmt" && fn.Name() == "Sprintf" {
				built[rules.ExprString(as.Lhs[0])] = true
			}
		}
		return true
	})
	n := 0
	for k := range built {
		// the store under this key
		var store ast.Node
		ast.Inspect(fd.Body, func(nd ast.Node) bool {
			if as, ok := nd.(*ast.AssignStmt); ok && len(as.Lhs) == 1 {
				if ix, ok := as.Lhs[0].(*ast.IndexExpr); ok && rules.ExprString(ix.X) == recvNameOf(fd, "fm")+".index" && rules.ExprString(ix.Index) == k {
					store = as
				}
			}
			return true
		})
		if store == nil {
			continue
		}
		n++
		// flag variables of comma-ok lookups of fm.index[k]
		okVars := map[string]bool{}
		ast.Inspect(fd.Body, func(nd ast.Node) bool {
			if as, ok := nd.(*ast.AssignStmt); ok && len(as.Lhs) == 2 && len(as.Rhs) == 1 {
				if ix, ok := as.Rhs[0].(*ast.IndexExpr); ok && rules.ExprString(ix.X) == recvNameOf(fd, "fm")+".index" && rules.ExprString(ix.Index) == k {
					okVars[rules.ExprString(as.Lhs[1])] = true
				}
			}
			return true
		})
		type st struct {
			b   int32
			est bool
		}
		seen := map[st]bool{}
		bad := false
		var visit func(b *cfg.Block, est bool)
		visit = func(b *cfg.Block, est bool) {
			if seen[st{b.Index, est}] {
				return
			}
			seen[st{b.Index, est}] = true
			for _, nd := range b.Nodes {
				if nd == store && !est {
					bad = true
				}
				if as, ok := nd.(*ast.AssignStmt); ok && len(as.Lhs) == 1 && rules.ExprString(as.Lhs[0]) == k {
					est = false // a new candidate name
				}
			}
			if len(b.Succs) == 2 && len(b.Nodes) > 0 {
				if cond, ok := b.Nodes[len(b.Nodes)-1].(ast.Expr); ok {
					t := strings.ReplaceAll(rules.ExprString(cond), " ", "")
					for v := range okVars {
						if t == "!"+v {
							visit(b.Succs[0], true)
							visit(b.Succs[1], est)
							return
						}
						if t == v {
							visit(b.Succs[0], est)
							visit(b.Succs[1], true)
							return
						}
					}
				}
			}
			for _, s := range b.Succs {
				visit(s, est)
			}
		}
		if len(g.Blocks) > 0 {
			visit(g.Blocks[0], false)
		}
		c.Decide(!bad && len(okVars) > 0, "fresh-name-not-taken", fmt.Sprintf("%s/%s", key, k), c.Prog.Rel(store.Pos()),
			"the name "+k+" is stored only after a lookup showed it is not in the index",
			"the renamed file is stored under "+k+" without checking that this name is free: a file submitted under that very name is overwritten in the index and two files of the same name are emitted")
	}
	if n == 0 {
		c.Unknown("fresh-name-not-taken", key, c.Prog.Rel(fd.Pos()), "no store of a generated name into fm.index found")
	}
}

// c12nameStorage: a renamed file keeps its new name in `f.Name = &v`. The files of one Feed call are handled by one loop,
// so the storage v must be created once per stored file: a variable declared inside the body of the loop that iterates the
// files (Go 1.22 per-iteration semantics apply to body-declared variables anyway), or a fresh pointer from a call. A
// variable declared outside that loop is shared by every file renamed in the same call: all of them end up with the name
// of the last one, i.e. the assembled output contains the same name twice and loses the others.
func c12nameStorage(c *core.Check) {
	fd := c.Prog.FuncDecl("generator", "FileManager.Feed")
	key := "generator.(FileManager).Feed/name-storage"
	if fd == nil {
		c.Unknown("anchor", "generator.(FileManager).Feed", "", "missing")
		return
	}
	info := c.Prog.Pkg("generator").TypesInfo
	// outermost loops of Feed
	var loops []ast.Stmt
	ast.Inspect(fd.Body, func(n ast.Node) bool {
		switch n.(type) {
		case *ast.ForStmt, *ast.RangeStmt:
			loops = append(loops, n.(ast.Stmt))
			return false
		}
		return true
	})
	n := 0
	for _, loop := range loops {
		var body *ast.BlockStmt
		switch l := loop.(type) {
		case *ast.ForStmt:
			body = l.Body
		case *ast.RangeStmt:
			body = l.Body
		}
		ast.Inspect(body, func(nd ast.Node) bool {
			as, ok := nd.(*ast.AssignStmt)
			if !ok || len(as.Lhs) != 1 || len(as.Rhs) != 1 {
				return true
			}
			sel, ok := as.Lhs[0].(*ast.SelectorExpr)
			if !ok || sel.Sel.Name != "Name" {
				return true
			}
			if tv, ok := info.Types[sel.X]; !ok || !strings.HasSuffix(tv.Type.String(), "plugin.Generated") {
				return true
			}
			n++
			k := fmt.Sprintf("%s#%d", key, n)
			where := c.Prog.Rel(as.Pos())
			switch rhs := ast.Unparen(as.Rhs[0]).(type) {
			case *ast.UnaryExpr:
				id, ok := ast.Unparen(rhs.X).(*ast.Ident)
				if rhs.Op != token.AND || !ok {
					c.Unknown("renamed-name-storage-per-file", k, where, "stored pointer "+rules.ExprString(rhs)+" not recognised")
					return true
				}
				obj := info.Uses[id]
				inside := obj != nil && obj.Pos() >= body.Pos() && obj.Pos() < body.End()
				c.Decide(inside, "renamed-name-storage-per-file", k, where,
					"the stored name points to a variable declared inside the per-file loop (fresh storage for every file)",
					"the stored name points to variable "+id.Name+" declared outside the per-file loop: every file renamed in the same Feed call shares it, so they all carry the last new name and the output contains that name more than once")
			case *ast.CallExpr:
				c.OK("renamed-name-storage-per-file", k, where, "the stored name is the result of a call (fresh pointer per evaluation)")
			default:
				c.Unknown("renamed-name-storage-per-file", k, where, "stored value "+rules.ExprString(as.Rhs[0])+" not recognised")
			}
			return true
		})
	}
	c.Min("renamed-name-storage-per-file", 1)
}

// c12discardLineage: "a later file with an existing name and identical content is dropped; with different content it is
// kept under a fresh name". While looking for a free name Feed walks over names that are taken — by earlier renames of the
// same name, but also by files that were submitted under such a name directly. Only the former are "the same file again":
// a content comparison with whatever file the probe landed on drops a file because an unrelated file happens to have the
// same content (Feed(a_1.go X, a.go Y, a.go X) loses the third file). Rule (AST def-use inside Feed): when the index
// variable of the compared file `fm.files[IDX]` can be assigned from a lookup of fm.index under a name built in Feed, the
// condition that leads to the discard is a conjunction, and one conjunct other than the content comparison is (or is a
// variable assigned, inside the probe loop, from) an expression that mentions the submitted name.
func c12discardLineage(c *core.Check) {
	fd := c.Prog.FuncDecl("generator", "FileManager.Feed")
	key := "generator.(FileManager).Feed/discard"
	if fd == nil {
		c.Unknown("anchor", "generator.(FileManager).Feed", "", "missing")
		return
	}
	info := c.Prog.Pkg("generator").TypesInfo
	recv := recvNameOf(fd, "fm")
	// names built in Feed, and the variable holding the submitted name (assigned from a GetName call)
	built := map[string]bool{}
	submitted := map[string]bool{}
	ast.Inspect(fd.Body, func(n ast.Node) bool {
		as, ok := n.(*ast.AssignStmt)
		if !ok || len(as.Lhs) != 1 || len(as.Rhs) != 1 {
			return true
		}
		if call, ok := as.Rhs[0].(*ast.CallExpr); ok {
			if fn := rules.Callee(info, call); fn != nil {
				if fn.Pkg() != nil && fn.Pkg().Path() == "fmt" && fn.Name() == "Sprintf" {
					built[rules.ExprString(as.Lhs[0])] = true
				}
				if fn.Name() == "GetName" && as.Tok == token.DEFINE {
					submitted[rules.ExprString(as.Lhs[0])] = true
				}
			}
		}
		return true
	})
	isIndexOfBuilt := func(e ast.Expr) bool {
		ix, ok := ast.Unparen(e).(*ast.IndexExpr)
		return ok && rules.ExprString(ix.X) == recv+".index" && built[rules.ExprString(ix.Index)]
	}
	// variables assigned from fm.index[built] (directly or by copy)
	fromProbe := map[string]bool{}
	for changed := true; changed; {
		changed = false
		ast.Inspect(fd.Body, func(n ast.Node) bool {
			as, ok := n.(*ast.AssignStmt)
			if !ok || len(as.Rhs) != 1 {
				return true
			}
			src := false
			if isIndexOfBuilt(as.Rhs[0]) {
				src = true
			} else if id, ok := ast.Unparen(as.Rhs[0]).(*ast.Ident); ok && fromProbe[id.Name] {
				src = true
			}
			if src {
				if id, ok := as.Lhs[0].(*ast.Ident); ok && !fromProbe[id.Name] {
					fromProbe[id.Name] = true
					changed = true
				}
			}
			return true
		})
	}
	mentionsSubmitted := func(e ast.Node) bool {
		found := false
		ast.Inspect(e, func(n ast.Node) bool {
			if id, ok := n.(*ast.Ident); ok && submitted[id.Name] {
				found = true
			}
			return !found
		})
		return found
	}
	var conjuncts func(e ast.Expr) []ast.Expr
	conjuncts = func(e ast.Expr) []ast.Expr {
		if be, ok := ast.Unparen(e).(*ast.BinaryExpr); ok && be.Op == token.LAND {
			return append(conjuncts(be.X), conjuncts(be.Y)...)
		}
		return []ast.Expr{ast.Unparen(e)}
	}
	n := 0
	ast.Inspect(fd.Body, func(nd ast.Node) bool {
		is, ok := nd.(*ast.IfStmt)
		if !ok {
			return true
		}
		// a branch that abandons the current file
		abandons := false
		ast.Inspect(is.Body, func(m ast.Node) bool {
			if br, ok := m.(*ast.BranchStmt); ok && br.Tok == token.CONTINUE && br.Label != nil {
				abandons = true
			}
			return true
		})
		if !abandons {
			return true
		}
		cs := conjuncts(is.Cond)
		var idxVar string
		var others []ast.Expr
		for _, cj := range cs {
			be, ok := cj.(*ast.BinaryExpr)
			if ok && be.Op == token.EQL {
				l, r := rules.ExprString(be.X), rules.ExprString(be.Y)
				if strings.HasSuffix(l, ".Content") && strings.HasSuffix(r, ".Content") {
					for _, side := range []ast.Expr{be.X, be.Y} {
						ast.Inspect(side, func(m ast.Node) bool {
							if ix, ok := m.(*ast.IndexExpr); ok && rules.ExprString(ix.X) == recv+".files" {
								idxVar = rules.ExprString(ix.Index)
							}
							return true
						})
					}
					continue
				}
			}
			others = append(others, cj)
		}
		if idxVar == "" {
			return true
		}
		n++
		k := fmt.Sprintf("%s#%d", key, n)
		where := c.Prog.Rel(is.Pos())
		if !fromProbe[idxVar] {
			c.OK("discard-only-own-lineage", k, where, "the compared file is always the one stored under the submitted name")
			return true
		}
		tied := false
		for _, o := range others {
			if mentionsSubmitted(o) {
				tied = true
			}
			// a variable assigned in Feed from an expression that mentions the submitted name
			ast.Inspect(o, func(m ast.Node) bool {
				id, ok := m.(*ast.Ident)
				if !ok {
					return true
				}
				ast.Inspect(fd.Body, func(a ast.Node) bool {
					as, ok := a.(*ast.AssignStmt)
					if !ok || len(as.Lhs) != 1 || len(as.Rhs) != 1 {
						return true
					}
					if l, ok := as.Lhs[0].(*ast.Ident); ok && l.Name == id.Name && mentionsSubmitted(as.Rhs[0]) {
						tied = true
					}
					return true
				})
				return true
			})
		}
		c.Decide(tied, "discard-only-own-lineage", k, where,
			"the discard additionally requires that the compared file descends from the submitted name",
			"the file is discarded as a duplicate whenever its content equals that of "+recv+".files["+idxVar+"], and "+idxVar+" may come from probing a built name in "+recv+".index: a file that was submitted under that name directly is unrelated, yet equal content makes Feed drop the new file (Feed(a_1.go X, a.go Y, a.go X) loses the third file)")
		return true
	})
	c.Min("discard-only-own-lineage", 1)
}

// c12namedPatch: "a patch with no target is an error" also holds for a patch that names its target: an item with an
// insertion point whose name is not (yet) in the index has nothing to be inserted into; storing it as a file emits a file
// that consists of the patch text. Rule (go/cfg of Feed): every `fm.files = append(fm.files, X)` is reached only through the
// empty-insertion-point outcome of a test of X.GetInsertionPoint() made after X was last assigned.
func c12namedPatch(c *core.Check) {
	fd := c.Prog.FuncDecl("generator", "FileManager.Feed")
	key := "generator.(FileManager).Feed/named-patch"
	if fd == nil {
		c.Unknown("anchor", "generator.(FileManager).Feed", "", "missing")
		return
	}
	info := c.Prog.Pkg("generator").TypesInfo
	recv := recvNameOf(fd, "fm")
	g := rules.CFG(info, fd.Body, nil)
	type site struct {
		node ast.Node
		item string
	}
	var sites []site
	ast.Inspect(fd.Body, func(n ast.Node) bool {
		as, ok := n.(*ast.AssignStmt)
		if !ok || len(as.Lhs) != 1 || len(as.Rhs) != 1 || rules.ExprString(as.Lhs[0]) != recv+".files" {
			return true
		}
		if call, ok := as.Rhs[0].(*ast.CallExpr); ok && rules.IsBuiltin(info, call, "append") && len(call.Args) == 2 {
			sites = append(sites, site{as, rules.ExprString(call.Args[1])})
		}
		return true
	})
	// classify a branch condition: +1 = true edge means "insertion point empty", -1 = false edge does, 0 = unrelated
	classify := func(cond ast.Expr, item string) int {
		be, ok := ast.Unparen(cond).(*ast.BinaryExpr)
		if !ok || (be.Op != token.EQL && be.Op != token.NEQ) {
			return 0
		}
		l, r := strings.ReplaceAll(rules.ExprString(be.X), " ", ""), strings.ReplaceAll(rules.ExprString(be.Y), " ", "")
		if r == item+".GetInsertionPoint()" {
			l, r = r, l
		}
		if l != item+".GetInsertionPoint()" || r != `""` {
			return 0
		}
		if be.Op == token.EQL {
			return 1
		}
		return -1
	}
	for i, s := range sites {
		type st struct {
			b   int32
			est bool
		}
		seen := map[st]bool{}
		bad := false
		var visit func(b *cfg.Block, est bool)
		visit = func(b *cfg.Block, est bool) {
			if seen[st{b.Index, est}] {
				return
			}
			seen[st{b.Index, est}] = true
			for _, nd := range b.Nodes {
				if nd == s.node && !est {
					bad = true
				}
				if as, ok := nd.(*ast.AssignStmt); ok {
					for _, l := range as.Lhs {
						if rules.ExprString(l) == s.item {
							est = false // another item
						}
					}
				}
			}
			if len(b.Succs) == 2 && len(b.Nodes) > 0 {
				if cond, ok := b.Nodes[len(b.Nodes)-1].(ast.Expr); ok {
					switch classify(cond, s.item) {
					case 1:
						visit(b.Succs[0], true)
						visit(b.Succs[1], est)
						return
					case -1:
						visit(b.Succs[0], est)
						visit(b.Succs[1], true)
						return
					}
				}
			}
			for _, sc := range b.Succs {
				visit(sc, est)
			}
		}
		if len(g.Blocks) > 0 {
			visit(g.Blocks[0], false)
		}
		c.Decide(!bad, "patch-without-target", fmt.Sprintf("%s/append#%d", key, i+1), c.Prog.Rel(s.node.Pos()),
			"the item is stored as a file only after its insertion point was found empty",
			"an item is stored as a new file on a path that never established that its insertion point is empty: a patch that names a target which does not exist is emitted as a file consisting of the patch text instead of being reported")
	}
	if len(sites) == 0 {
		c.Unknown("patch-without-target", key, c.Prog.Rel(fd.Pos()), "no append to "+recv+".files found")
	}
}

// everyPathPasses reports whether every path from the entry of fd to one of its exits passes a node for which pred holds
// (sub-expressions included); escape is the exit reached without it.
func everyPathPasses(info *types.Info, fd *ast.FuncDecl, pred func(ast.Node) bool) (bool, ast.Node) {
	g := rules.CFG(info, fd.Body, nil)
	seen := map[int32]bool{}
	var escape ast.Node
	escaped := false
	var visit func(b *cfg.Block)
	visit = func(b *cfg.Block) {
		if seen[b.Index] || escaped {
			return
		}
		seen[b.Index] = true
		for _, nd := range b.Nodes {
			hit := false
			ast.Inspect(nd, func(m ast.Node) bool {
				if m != nil && pred(m) {
					hit = true
				}
				return !hit
			})
			if hit {
				return
			}
			if _, ok := nd.(*ast.ReturnStmt); ok {
				escaped, escape = true, nd
				return
			}
		}
		if len(b.Succs) == 0 {
			if !b.Live {
				return
			}
			escaped = true
			if len(b.Nodes) > 0 {
				escape = b.Nodes[len(b.Nodes)-1]
			}
			return
		}
		for _, s := range b.Succs {
			visit(s)
		}
	}
	if len(g.Blocks) > 0 {
		visit(g.Blocks[0])
	}
	return !escaped, escape
}

// c12replacerAdd: BuildResponse hands every pending patch of a file to insertionPointReplacer.Add; "a patch is inserted at
// each occurrence of its insertion point" can only hold if Add records every patch it is given — whether the marker occurs
// is decided by the replacement itself (strings.Replacer over the file's text), not by the table the constructor pre-fills
// from a regular expression with a narrower alphabet. Rule (go/cfg): every path through Add stores into the replacer's
// table under the marker it was given.
func c12replacerAdd(c *core.Check) {
	fd := c.Prog.FuncDecl("generator", "insertionPointReplacer.Add")
	key := "generator.(insertionPointReplacer).Add/store"
	if fd == nil || fd.Body == nil {
		c.Unknown("anchor", "generator.(insertionPointReplacer).Add", "", "missing")
		return
	}
	info := c.Prog.Pkg("generator").TypesInfo
	var params []types.Object
	for _, f := range fd.Type.Params.List {
		for _, nm := range f.Names {
			params = append(params, info.Defs[nm])
		}
	}
	if len(params) != 2 {
		c.Unknown("replacer-records-every-patch", key, c.Prog.Rel(fd.Pos()), "Add does not take (marker, content)")
		return
	}
	marker := params[0]
	ok, escape := everyPathPasses(info, fd, func(m ast.Node) bool {
		as, isAs := m.(*ast.AssignStmt)
		if !isAs {
			return false
		}
		for _, l := range as.Lhs {
			ix, isIx := l.(*ast.IndexExpr)
			if !isIx {
				continue
			}
			if tv, ok := info.Types[ix.X]; !ok || func() bool { _, isMap := tv.Type.Underlying().(*types.Map); return !isMap }() {
				continue
			}
			if id, isID := ast.Unparen(ix.Index).(*ast.Ident); isID && info.Uses[id] == marker {
				return true
			}
		}
		return false
	})
	where := c.Prog.Rel(fd.Pos())
	if escape != nil {
		where = c.Prog.Rel(escape.Pos())
	}
	c.Decide(ok, "replacer-records-every-patch", key, where,
		"every path through Add stores under the marker it was given",
		"Add can return without storing the patch: a patch for a marker that is not in the pre-filled table (the table is filled from a regular expression that only knows names over [$.0-9a-zA-Z_]) is dropped and the marker stays in the file, although Feed accepted the patch")
}

// c12patchFollowsMove: a named patch belongs to the file of that name *in the same submission*. When that file was stored
// under a fresh name (or dropped as a duplicate) earlier in the same Feed call, filing the patch under the submitted name
// attaches it to the older, unrelated file — the two files merge, which the property excludes. Rule: Feed keeps a record,
// keyed by the submitted name, that the rename branch (the block that assigns the item's Name) writes, and the branch that
// files a named patch (fm.patch[K] = append(…) with K not the carried "last" variable) reads that record first.
func c12patchFollowsMove(c *core.Check) {
	fd := c.Prog.FuncDecl("generator", "FileManager.Feed")
	key := "generator.(FileManager).Feed/named-patch-after-rename"
	if fd == nil {
		c.Unknown("anchor", "generator.(FileManager).Feed", "", "missing")
		return
	}
	info := c.Prog.Pkg("generator").TypesInfo
	recv := recvNameOf(fd, "fm")
	isLocalMap := func(e ast.Expr) (types.Object, bool) {
		id, ok := ast.Unparen(e).(*ast.Ident)
		if !ok {
			return nil, false
		}
		o := info.Uses[id]
		if o == nil {
			o = info.Defs[id]
		}
		if o == nil {
			return nil, false
		}
		_, isMap := o.Type().Underlying().(*types.Map)
		return o, isMap && o.Parent() != nil && o.Parent() != c.Prog.Pkg("generator").Types.Scope()
	}
	// blocks
	var renameBlock, patchBlock *ast.BlockStmt
	ast.Inspect(fd.Body, func(m ast.Node) bool {
		b, ok := m.(*ast.BlockStmt)
		if !ok {
			return true
		}
		for _, st := range b.List {
			as, ok := st.(*ast.AssignStmt)
			if !ok || len(as.Lhs) != 1 || len(as.Rhs) != 1 {
				continue
			}
			if sel, ok := as.Lhs[0].(*ast.SelectorExpr); ok && sel.Sel.Name == "Name" {
				if tv, ok := info.Types[sel.X]; ok && strings.HasSuffix(tv.Type.String(), "plugin.Generated") {
					renameBlock = b
				}
			}
			if ix, ok := as.Lhs[0].(*ast.IndexExpr); ok && rules.ExprString(ix.X) == recv+".patch" {
				// the named-patch branch: the key is a name taken from the item (not the variable carried across iterations)
				if o, isID := ast.Unparen(ix.Index).(*ast.Ident); isID {
					if obj := info.Uses[o]; obj != nil && obj.Pos() > b.Pos()-1 || obj != nil && declaredInLoopBody(fd, obj) {
						patchBlock = b
					}
				}
			}
		}
		return true
	})
	if renameBlock == nil || patchBlock == nil {
		c.Unknown("named-patch-follows-its-file", key, c.Prog.Rel(fd.Pos()), "the rename branch or the named-patch branch of Feed was not found")
		return
	}
	written := map[types.Object]bool{}
	ast.Inspect(renameBlock, func(m ast.Node) bool {
		if as, ok := m.(*ast.AssignStmt); ok {
			for _, l := range as.Lhs {
				if ix, ok := l.(*ast.IndexExpr); ok {
					if o, ok := isLocalMap(ix.X); ok {
						written[o] = true
					}
				}
			}
		}
		return true
	})
	read := false
	ast.Inspect(patchBlock, func(m ast.Node) bool {
		if ix, ok := m.(*ast.IndexExpr); ok {
			if o, ok := isLocalMap(ix.X); ok && written[o] {
				read = true
			}
		}
		return true
	})
	c.Decide(read, "named-patch-follows-its-file", key, c.Prog.Rel(patchBlock.Pos()),
		"the named-patch branch consults the record of this call's renames before it files the patch",
		"a named patch is filed under the submitted name without looking whether the file of that name was renamed earlier in the same call: Feed([a=\"y…\" (renamed a_1), {Name:a, InsertionPoint:p}]) inserts the patch into the older file a, so the two files' contents mix")
}

// declaredInLoopBody reports whether obj is declared inside the body of a for/range statement of fd.
func declaredInLoopBody(fd *ast.FuncDecl, obj types.Object) bool {
	in := false
	ast.Inspect(fd.Body, func(m ast.Node) bool {
		switch x := m.(type) {
		case *ast.ForStmt:
			if x.Body.Pos() <= obj.Pos() && obj.Pos() < x.Body.End() {
				in = true
			}
		case *ast.RangeStmt:
			if x.Body.Pos() <= obj.Pos() && obj.Pos() < x.Body.End() {
				in = true
			}
		}
		return true
	})
	return in
}
