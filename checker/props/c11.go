package props

import (
	"fmt"
	"go/ast"
	"go/token"
	"go/types"
	"reflect"
	"sort"
	"strconv"
	"strings"

	"verif/checker/core"
	"verif/checker/rules"
)

func init() { register("C11", c11) }

// wire type of a Go field of the tagged AST / protocol structs.
func goWire(t types.Type, frugalType string) (int, bool) {
	switch u := t.(type) {
	case *types.Pointer:
		if _, ok := u.Elem().Underlying().(*types.Struct); ok {
			return 12, true
		}
		return goWire(u.Elem(), frugalType)
	case *types.Slice:
		if b, ok := u.Elem().(*types.Basic); ok && b.Kind() == types.Byte {
			return 11, true
		}
		if strings.HasPrefix(frugalType, "set<") {
			return 14, true
		}
		return 15, true
	case *types.Map:
		return 13, true
	case *types.Named:
		switch b := u.Underlying().(type) {
		case *types.Struct:
			return 12, true
		case *types.Basic:
			if b.Info()&types.IsInteger != 0 {
				return 8, true // enums travel as i32
			}
			return goWire(b, frugalType)
		default:
			return goWire(u.Underlying(), frugalType)
		}
	case *types.Basic:
		switch u.Kind() {
		case types.Bool:
			return 2, true
		case types.Int8:
			return 3, true
		case types.Float64:
			return 4, true
		case types.Int16:
			return 6, true
		case types.Int32:
			return 8, true
		case types.Int64:
			return 10, true
		case types.String:
			return 11, true
		}
	}
	return 0, false
}

type taggedField struct {
	Name string
	ID   int
	Wire int
}

func c11(c *core.Check) {
	c.Explain = "CODEC + PATH + LINT. (1) For every struct of parser/AST.go and plugin/protocol.go whose fields carry thrift:\"Name,id\" tags (ids and names from the tags, wire types from the Go field types per the binary protocol, set/list from the frugal tag): the checked-in fast codec's FastAppend has exactly one 3-byte header append(b, wire, idHi, idLo) per tagged field and the statements up to the next header touch that field only; FastRead's switch has exactly the cases id<<8|wire of the tagged fields, each assigning its own field; BLength adds one 3-byte header per field. A field added to the AST struct but not to the codec (or with a different id/type) is a violation. " +
		"(2) external.Execute: include compression is reverted by a deferred decompress on the same arguments inside the same condition; the data trailer is appended under the same condition; a failed cmd.Run and a failed UnmarshalResponse return BuildErrorResponse; exec.CommandContext receives the context that WithTimeout(MaxExecutionTime) produced. " +
		"(3) Generator.Generate: every backend/SDK/plugin response's GetError is tested before its contents are fed; plugin parameters are taken from out.UsedPlugins[i] with i ranging over g.plugins, and preparePlugins (called before, with out.UsedPlugins) resets g.plugins and appends exactly one plugin per descriptor on every non-error path (lockstep of the two slices). " +
		"NOT decided: node-for-node equality of the decoded AST, plugin process behaviour."
	c.RuleText = "one obligation per (struct, method), per path rule; non-trivial = header/case set equality with the tag-derived expectation, dominance, or per-iteration append counting"
	c.Assume = []string{"cloudwego/gopkg BinaryProtocol helpers encode what their names say", "os/exec kills the process when the context expires"}
	c11codec(c, "parser", "AST.go", "k-AST.go")
	c11codec(c, "plugin", "protocol.go", "k-protocol.go")
	c.Min("codec-append", 18)
	c.Min("codec-read", 18)
	c.Min("codec-blength", 18)
	c11execute(c)
	c11generate(c)
}

func c11codec(c *core.Check, rel, declFile, codecFile string) {
	pk := c.Prog.Pkg(rel)
	if pk == nil {
		c.Unknown("anchor", rel, "", "package missing")
		return
	}
	info := pk.TypesInfo
	// tagged structs declared in declFile
	structs := map[string][]taggedField{}
	for _, f := range pk.Syntax {
		if !strings.HasSuffix(c.Prog.Fset.File(f.Pos()).Name(), "/"+declFile) {
			continue
		}
		for _, d := range f.Decls {
			gd, ok := d.(*ast.GenDecl)
			if !ok || gd.Tok != token.TYPE {
				continue
			}
			for _, s := range gd.Specs {
				ts := s.(*ast.TypeSpec)
				tn, _ := info.Defs[ts.Name].(*types.TypeName)
				if tn == nil {
					continue
				}
				st := structOf(tn.Type())
				if st == nil {
					continue
				}
				var fields []taggedField
				for i := 0; i < st.NumFields(); i++ {
					tag := reflect.StructTag(st.Tag(i))
					tt, ok := tag.Lookup("thrift")
					if !ok {
						continue
					}
					parts := strings.Split(tt, ",")
					if len(parts) < 2 {
						continue
					}
					id, err := strconv.Atoi(parts[1])
					if err != nil {
						continue
					}
					fr := strings.SplitN(tag.Get("frugal"), ",", 3)
					ftype := ""
					if len(fr) == 3 {
						ftype = fr[2]
					}
					w, ok := goWire(st.Field(i).Type(), ftype)
					if !ok {
						c.Unknown("codec-tags", rel+"."+ts.Name.Name+"."+st.Field(i).Name(), c.Prog.Rel(st.Field(i).Pos()), "cannot derive the wire type of the Go field type "+st.Field(i).Type().String())
						continue
					}
					fields = append(fields, taggedField{st.Field(i).Name(), id, w})
				}
				if len(fields) > 0 {
					structs[ts.Name.Name] = fields
				}
			}
		}
	}
	var names []string
	for n := range structs {
		names = append(names, n)
	}
	sort.Strings(names)
	for _, n := range names {
		want := structs[n]
		key := rel + "." + n
		// FastAppend
		if fd := c.Prog.FuncDecl(rel, n+".FastAppend"); fd != nil {
			segs := appendSegments(info, fd.Body)
			var diffs []string
			got := map[string]bool{}
			for _, s := range segs {
				got[fmt.Sprintf("%d:%d", s.wire, s.id)] = true
				var f *taggedField
				for i := range want {
					if want[i].ID == s.id {
						f = &want[i]
					}
				}
				if f == nil {
					diffs = append(diffs, fmt.Sprintf("header (wire %d, id %d) matches no tagged field", s.wire, s.id))
					continue
				}
				if f.Wire != s.wire {
					diffs = append(diffs, fmt.Sprintf("field %s (id %d) is announced with wire type %d, its Go type needs %d", f.Name, f.ID, s.wire, f.Wire))
				}
				if len(s.fields) != 1 || !s.fields[f.Name] {
					diffs = append(diffs, fmt.Sprintf("the block after header id %d touches %v instead of p.%s only", s.id, keys(s.fields), f.Name))
				}
			}
			for _, f := range want {
				if !got[fmt.Sprintf("%d:%d", f.Wire, f.ID)] {
					if !hasID(segs, f.ID) {
						diffs = append(diffs, fmt.Sprintf("field %s (id %d) is never written", f.Name, f.ID))
					}
				}
			}
			c.Decide(len(diffs) == 0, "codec-append", key+".FastAppend", c.Prog.Rel(fd.Pos()), fmt.Sprintf("%d headers = %d tagged fields, each followed by its own field", len(segs), len(want)), strings.Join(diffs, "; "))
		} else {
			c.Bad("codec-append", key+".FastAppend", "", "tagged struct has no FastAppend in "+codecFile+": it cannot be sent to plugins")
		}
		// FastRead
		if fd := c.Prog.FuncDecl(rel, n+".FastRead"); fd != nil {
			cases := readCases(info, fd.Body)
			var diffs []string
			seen := map[int]bool{}
			for _, cs := range cases {
				id, wire := cs.key>>8, cs.key&0xff
				seen[id] = true
				var f *taggedField
				for i := range want {
					if want[i].ID == id {
						f = &want[i]
					}
				}
				if f == nil {
					diffs = append(diffs, fmt.Sprintf("case id %d matches no tagged field", id))
					continue
				}
				if f.Wire != wire {
					diffs = append(diffs, fmt.Sprintf("field %s (id %d) is accepted with wire type %d, its Go type needs %d", f.Name, id, wire, f.Wire))
				}
				if !cs.assigned[f.Name] || len(cs.assigned) != 1 {
					diffs = append(diffs, fmt.Sprintf("case id %d assigns %v instead of p.%s", id, keys(cs.assigned), f.Name))
				}
			}
			for _, f := range want {
				if !seen[f.ID] {
					diffs = append(diffs, fmt.Sprintf("field %s (id %d) is never read", f.Name, f.ID))
				}
			}
			c.Decide(len(diffs) == 0, "codec-read", key+".FastRead", c.Prog.Rel(fd.Pos()), fmt.Sprintf("%d cases = %d tagged fields, each assigning its own field", len(cases), len(want)), strings.Join(diffs, "; "))
		} else {
			c.Bad("codec-read", key+".FastRead", "", "tagged struct has no FastRead in "+codecFile)
		}
		// BLength
		if fd := c.Prog.FuncDecl(rel, n+".BLength"); fd != nil {
			n3 := 0
			ast.Inspect(fd.Body, func(nd ast.Node) bool {
				if as, ok := nd.(*ast.AssignStmt); ok && as.Tok == token.ADD_ASSIGN && len(as.Lhs) == 1 && rules.ExprString(as.Lhs[0]) == "off" {
					if v, ok := rules.ConstInt(info, as.Rhs[0]); ok && v == 3 {
						n3++
					}
				}
				return true
			})
			c.Decide(n3 == len(want), "codec-blength", key+".BLength", c.Prog.Rel(fd.Pos()), fmt.Sprintf("%d field headers counted", n3), fmt.Sprintf("BLength counts %d field headers, the struct has %d tagged fields: the buffer is mis-sized", n3, len(want)))
		} else {
			c.Bad("codec-blength", key+".BLength", "", "tagged struct has no BLength in "+codecFile)
		}
	}
}

func keys(m map[string]bool) []string {
	var out []string
	for k := range m {
		out = append(out, k)
	}
	sort.Strings(out)
	return out
}

type appendSeg struct {
	wire, id int
	fields   map[string]bool
}

func hasID(segs []appendSeg, id int) bool {
	for _, s := range segs {
		if s.id == id {
			return true
		}
	}
	return false
}

// headerOf recognises `b = append(b, c1, c2, c3)` with three constant arguments.
func headerOf(info *types.Info, s ast.Stmt) (wire, id int, ok bool) {
	as, isAs := s.(*ast.AssignStmt)
	if !isAs || len(as.Rhs) != 1 {
		return
	}
	call, isCall := as.Rhs[0].(*ast.CallExpr)
	if !isCall || !rules.IsBuiltin(info, call, "append") || len(call.Args) != 4 {
		return
	}
	var v [3]int64
	for i := 0; i < 3; i++ {
		x, okc := rules.ConstInt(info, call.Args[i+1])
		if !okc {
			return
		}
		v[i] = x
	}
	return int(v[0]), int(v[1])<<8 | int(v[2]), true
}

func selectorsOnP(n ast.Node) map[string]bool {
	out := map[string]bool{}
	ast.Inspect(n, func(x ast.Node) bool {
		if sel, ok := x.(*ast.SelectorExpr); ok {
			if id, ok := sel.X.(*ast.Ident); ok && id.Name == "p" {
				out[sel.Sel.Name] = true
			}
		}
		return true
	})
	return out
}

func appendSegments(info *types.Info, body *ast.BlockStmt) []appendSeg {
	var segs []appendSeg
	cur := -1
	for _, s := range body.List {
		// a header directly, or inside `if p.X != nil { header … }`
		var hw, hid int
		found := false
		ast.Inspect(s, func(n ast.Node) bool {
			if st, ok := n.(ast.Stmt); ok && !found {
				if w, id, ok := headerOf(info, st); ok {
					hw, hid, found = w, id, true
				}
			}
			return !found
		})
		if found {
			segs = append(segs, appendSeg{wire: hw, id: hid, fields: map[string]bool{}})
			cur = len(segs) - 1
		}
		if cur >= 0 {
			if rs, isRet := s.(*ast.ReturnStmt); isRet {
				_ = rs
				continue
			}
			for f := range selectorsOnP(s) {
				segs[cur].fields[f] = true
			}
		}
	}
	return segs
}

type readCase struct {
	key      int
	assigned map[string]bool
}

func readCases(info *types.Info, body *ast.BlockStmt) []readCase {
	var out []readCase
	ast.Inspect(body, func(n ast.Node) bool {
		sw, ok := n.(*ast.SwitchStmt)
		if !ok || sw.Tag == nil || !strings.Contains(rules.ExprString(sw.Tag), "fid") {
			return true
		}
		for _, cc := range sw.Body.List {
			cl := cc.(*ast.CaseClause)
			if cl.List == nil {
				continue
			}
			k, ok := rules.ConstInt(info, cl.List[0])
			if !ok {
				continue
			}
			rc := readCase{key: int(k), assigned: map[string]bool{}}
			for _, s := range cl.Body {
				ast.Inspect(s, func(x ast.Node) bool {
					if as, ok := x.(*ast.AssignStmt); ok {
						for _, l := range as.Lhs {
							for f := range selectorsOnP(l) {
								rc.assigned[f] = true
							}
						}
					}
					return true
				})
			}
			out = append(out, rc)
		}
		return false
	})
	return out
}

func c11execute(c *core.Check) {
	fd := c.Prog.FuncDecl("plugin", "external.Execute")
	key := "plugin.(external).Execute"
	if fd == nil {
		c.Unknown("anchor", key, "", "missing")
		return
	}
	info := c.Prog.Pkg("plugin").TypesInfo
	where := c.Prog.Rel(fd.Pos())
	var compressIf, trailerIf *ast.IfStmt
	ast.Inspect(fd.Body, func(n ast.Node) bool {
		is, ok := n.(*ast.IfStmt)
		if !ok {
			return true
		}
		for _, call := range rules.Calls(is.Body, false) {
			if fn := rules.Callee(info, call); fn != nil {
				switch fn.Name() {
				case "compressThriftInclude":
					compressIf = is
				case "appendDataTrailer":
					trailerIf = is
				}
			}
		}
		return true
	})
	if compressIf == nil {
		c.Note("external.Execute no longer compresses includes; revert/trailer rules not applicable")
	} else {
		var cArgs, dArgs string
		deferred := false
		for _, s := range compressIf.Body.List {
			switch x := s.(type) {
			case *ast.ExprStmt:
				if call, ok := x.X.(*ast.CallExpr); ok {
					if fn := rules.Callee(info, call); fn != nil && fn.Name() == "compressThriftInclude" {
						cArgs = argText(call)
					}
				}
			case *ast.DeferStmt:
				if fn := rules.Callee(info, x.Call); fn != nil && fn.Name() == "decompressThriftInclude" {
					dArgs, deferred = argText(x.Call), true
				}
			}
		}
		c.Decide(deferred && cArgs == dArgs && cArgs != "", "plugin-compress-reverted", key+"/compress", c.Prog.Rel(compressIf.Pos()), "deferred decompressThriftInclude("+dArgs+") in the same block",
			"include compression of the request AST is not reverted by a deferred decompress on the same arguments: the compiler's own AST stays truncated for the following plugins/backends")
		c.Decide(trailerIf != nil && rules.ExprString(trailerIf.Cond) == rules.ExprString(compressIf.Cond), "plugin-compress-reverted", key+"/trailer", where, "the trailer is appended under the same condition as the compression",
			"compressed requests are not marked with the data trailer under the same condition: the plugin cannot know it must decompress")
	}
	// error paths
	for _, callee := range []string{"Run", "UnmarshalResponse", "MarshalRequest"} {
		ok := false
		ast.Inspect(fd.Body, func(n ast.Node) bool {
			is, isIf := n.(*ast.IfStmt)
			if !isIf {
				return true
			}
			matches := false
			if is.Init != nil {
				for _, call := range rules.Calls(is.Init, false) {
					if fn := rules.Callee(info, call); fn != nil && fn.Name() == callee {
						matches = true
					}
				}
			}
			if !matches {
				// `x, err = callee(); if err != nil {`: previous statement form handled by position: accept an if testing err right after
				return true
			}
			ok = returnsErrorResponse(info, is.Body)
			return true
		})
		if !ok {
			// statement form
			for i, s := range fd.Body.List {
				as, isAs := s.(*ast.AssignStmt)
				if !isAs || len(as.Rhs) != 1 {
					continue
				}
				if call, isC := as.Rhs[0].(*ast.CallExpr); isC {
					if fn := rules.Callee(info, call); fn != nil && fn.Name() == callee && i+1 < len(fd.Body.List) {
						if is, isIf := fd.Body.List[i+1].(*ast.IfStmt); isIf && strings.Contains(rules.ExprString(is.Cond), "err != nil") {
							ok = returnsErrorResponse(info, is.Body)
						}
					}
				}
			}
		}
		c.Decide(ok, "plugin-failure-is-error", key+"/"+callee, where, "a failure of "+callee+" returns BuildErrorResponse", "a failed "+callee+" does not produce an error response: thriftgo would carry on as if the plugin had succeeded")
	}
	// timeout wiring
	ctxFromTimeout, cmdUsesCtx, guarded := false, false, false
	ast.Inspect(fd.Body, func(n ast.Node) bool {
		switch x := n.(type) {
		case *ast.IfStmt:
			if strings.Contains(rules.ExprString(x.Cond), "MaxExecutionTime > 0") {
				for _, call := range rules.Calls(x.Body, false) {
					if fn := rules.Callee(info, call); rules.IsPkgFunc(fn, "context", "WithTimeout") && len(call.Args) == 2 && rules.ExprString(call.Args[1]) == "MaxExecutionTime" {
						guarded = true
					}
				}
				ast.Inspect(x.Body, func(m ast.Node) bool {
					if as, ok := m.(*ast.AssignStmt); ok && len(as.Lhs) >= 1 && rules.ExprString(as.Lhs[0]) == "ctx" && as.Tok == token.ASSIGN {
						ctxFromTimeout = true
					}
					return true
				})
			}
		case *ast.CallExpr:
			if fn := rules.Callee(info, x); rules.IsPkgFunc(fn, "os/exec", "CommandContext") && len(x.Args) >= 1 && rules.ExprString(x.Args[0]) == "ctx" {
				cmdUsesCtx = true
			}
		}
		return true
	})
	c.Decide(guarded && ctxFromTimeout && cmdUsesCtx, "plugin-timeout", key+"/timeout", where, "ctx = WithTimeout(ctx, MaxExecutionTime) when the limit is positive; exec.CommandContext(ctx, …)",
		"the plugin process is not started with the context carrying --plugin-time-limit: a hanging plugin is never killed")
	// exec.CommandContext kills the process (os.Process.Kill) when the context ends — unless Cmd.Cancel is replaced. A
	// replacement has to kill as well, or a WaitDelay must bound the wait; a polite signal alone leaves a plugin that
	// ignores it running for ever while thriftgo blocks in Wait.
	cancelOK, cancelWhere, cancelWhat := true, where, "Cmd.Cancel is not replaced: the context's end kills the plugin process"
	waitDelay := false
	ast.Inspect(fd.Body, func(n ast.Node) bool {
		as, ok := n.(*ast.AssignStmt)
		if !ok || len(as.Lhs) != 1 || len(as.Rhs) != 1 {
			return true
		}
		sel, ok := as.Lhs[0].(*ast.SelectorExpr)
		if !ok {
			return true
		}
		tv, ok := info.Types[sel.X]
		if !ok || !strings.HasSuffix(tv.Type.String(), "os/exec.Cmd") {
			return true
		}
		switch sel.Sel.Name {
		case "WaitDelay":
			waitDelay = true
		case "Cancel":
			kills := false
			for _, call := range rules.Calls(as.Rhs[0], true) {
				if fn := rules.Callee(info, call); fn != nil && fn.Name() == "Kill" {
					kills = true
				}
			}
			if !kills {
				cancelOK, cancelWhere = false, c.Prog.Rel(as.Pos())
			} else {
				cancelWhat = "the replaced Cmd.Cancel kills the process"
			}
		}
		return true
	})
	if !cancelOK && waitDelay {
		cancelOK, cancelWhat = true, "Cmd.Cancel is replaced by a signal and Cmd.WaitDelay bounds the wait (the process is killed when it expires)"
	}
	c.Decide(cancelOK, "plugin-killed-at-limit", key+"/cancel", cancelWhere, cancelWhat,
		"Cmd.Cancel is replaced by a function that does not kill the process and no WaitDelay is set: a plugin that handles or ignores the signal keeps running past --plugin-time-limit and thriftgo waits for it indefinitely")
}

func argText(call *ast.CallExpr) string {
	var a []string
	for _, x := range call.Args {
		a = append(a, rules.ExprString(x))
	}
	return strings.Join(a, ", ")
}

func returnsErrorResponse(info *types.Info, body *ast.BlockStmt) bool {
	if len(body.List) == 0 {
		return false
	}
	rs, ok := body.List[len(body.List)-1].(*ast.ReturnStmt)
	if !ok || len(rs.Results) != 1 {
		return false
	}
	call, ok := rs.Results[0].(*ast.CallExpr)
	if !ok {
		return false
	}
	fn := rules.Callee(info, call)
	return fn != nil && fn.Name() == "BuildErrorResponse"
}

func c11generate(c *core.Check) {
	fd := c.Prog.FuncDecl("generator", "Generator.Generate")
	key := "generator.(Generator).Generate"
	if fd == nil {
		c.Unknown("anchor", key, "", "missing")
		return
	}
	info := c.Prog.Pkg("generator").TypesInfo
	g := rules.CFG(info, fd.Body, nil)
	// every Feed(x, Y.Contents) is preceded by a test of Y.GetError()
	nFeed := 0
	ast.Inspect(fd.Body, func(n ast.Node) bool {
		call, ok := n.(*ast.CallExpr)
		if !ok {
			return true
		}
		fn := rules.Callee(info, call)
		if fn == nil || fn.Name() != "Feed" || len(call.Args) != 2 {
			return true
		}
		sel, ok := call.Args[1].(*ast.SelectorExpr)
		if !ok {
			return true
		}
		resp := rules.ExprString(sel.X)
		nFeed++
		missed, targets := rules.MustPass(g, func(x ast.Node) bool {
			c2, ok := x.(*ast.CallExpr)
			if !ok {
				return false
			}
			f2 := rules.Callee(info, c2)
			if f2 == nil || f2.Name() != "GetError" {
				return false
			}
			s2, ok := c2.Fun.(*ast.SelectorExpr)
			return ok && rules.ExprString(s2.X) == resp
		}, func(x ast.Node) bool { return x == ast.Node(call) })
		c.Decide(targets > 0 && len(missed) == 0, "response-error-checked", fmt.Sprintf("%s/Feed(%s)#%d", key, resp, nFeed), c.Prog.Rel(call.Pos()), resp+".GetError() is tested on every path to the Feed",
			"contents of "+resp+" are fed without looking at its error: a failed plugin/backend is treated as success")
		return true
	})
	c.Min("response-error-checked", 3)
	// "its warnings are shown": every response whose contents are fed has its Warnings handed to the logger on every path
	// to that Feed
	nWarn := 0
	ast.Inspect(fd.Body, func(n ast.Node) bool {
		call, ok := n.(*ast.CallExpr)
		if !ok {
			return true
		}
		fn := rules.Callee(info, call)
		if fn == nil || fn.Name() != "Feed" || len(call.Args) != 2 {
			return true
		}
		sel, ok := call.Args[1].(*ast.SelectorExpr)
		if !ok {
			return true
		}
		resp := rules.ExprString(sel.X)
		nWarn++
		missed, targets := rules.MustPass(g, func(x ast.Node) bool {
			c2, ok := x.(*ast.CallExpr)
			if !ok {
				return false
			}
			for _, a := range c2.Args {
				if s2, ok := ast.Unparen(a).(*ast.SelectorExpr); ok && s2.Sel.Name == "Warnings" && rules.ExprString(s2.X) == resp {
					return true
				}
			}
			return false
		}, func(x ast.Node) bool { return x == ast.Node(call) })
		c.Decide(targets > 0 && len(missed) == 0, "response-warnings-shown", fmt.Sprintf("%s/Feed(%s)#%d", key, resp, nWarn), c.Prog.Rel(call.Pos()), resp+".Warnings are passed to the logger on every path to the Feed",
			"the contents of "+resp+" are taken over but its Warnings are never passed to the logger: what this plugin/backend warns about is not shown")
		return true
	})
	c.Min("response-warnings-shown", 3)
	// lockstep
	var loop *ast.RangeStmt
	ast.Inspect(fd.Body, func(n ast.Node) bool {
		if rs, ok := n.(*ast.RangeStmt); ok && rules.ExprString(rs.X) == recvNameOf(fd, "g")+".plugins" {
			loop = rs
		}
		return true
	})
	if loop == nil {
		c.Unknown("plugin-lockstep", key+"/range g.plugins", "", "loop not found")
		return
	}
	idx := rules.ExprString(loop.Key)
	indexed := ""
	ast.Inspect(loop.Body, func(n ast.Node) bool {
		if ix, ok := n.(*ast.IndexExpr); ok && rules.ExprString(ix.Index) == idx {
			indexed = rules.ExprString(ix.X)
		}
		return true
	})
	prepArg := ""
	var prepCall *ast.CallExpr
	ast.Inspect(fd.Body, func(n ast.Node) bool {
		if call, ok := n.(*ast.CallExpr); ok {
			if fn := rules.Callee(info, call); fn != nil && fn.Name() == "preparePlugins" && len(call.Args) == 2 {
				prepArg, prepCall = rules.ExprString(call.Args[1]), call
			}
		}
		return true
	})
	okDom := false
	if prepCall != nil {
		missed, targets := rules.MustPass(g, func(x ast.Node) bool { return x == ast.Node(prepCall) }, func(x ast.Node) bool { return x == ast.Node(loop.X) })
		okDom = targets > 0 && len(missed) == 0
	}
	// the request object is shared by all iterations: its per-plugin field must be assigned on every path of the loop body
	// that reaches Execute, otherwise a plugin sees the parameters of the plugin (or language) processed before it
	nExec := 0
	ast.Inspect(fd.Body, func(n ast.Node) bool {
		rs, ok := n.(*ast.RangeStmt)
		if !ok {
			return true
		}
		var exec *ast.CallExpr
		var reqName string
		for _, call := range rules.Calls(rs.Body, false) {
			if fn := rules.Callee(info, call); fn != nil && (fn.Name() == "Execute" || fn.Name() == "Invoke") && len(call.Args) == 1 {
				exec, reqName = call, rules.ExprString(call.Args[0])
			}
		}
		if exec == nil {
			return true
		}
		nExec++
		lg := rules.CFG(info, rs.Body, nil)
		missed, targets := rules.MustPass(lg, func(x ast.Node) bool {
			as, ok := x.(*ast.AssignStmt)
			if !ok {
				return false
			}
			for _, l := range as.Lhs {
				if rules.ExprString(l) == reqName+".PluginParameters" {
					return true
				}
			}
			return false
		}, func(x ast.Node) bool { return x == ast.Node(exec) })
		c.Decide(targets > 0 && len(missed) == 0, "plugin-params-per-iteration", fmt.Sprintf("%s/range %s/%s(%s)", key, rules.ExprString(rs.X), rules.ExprString(exec.Fun), reqName), c.Prog.Rel(exec.Pos()),
			reqName+".PluginParameters is assigned on every path of an iteration before the plugin runs",
			"some path through the loop body reaches the plugin call without assigning "+reqName+".PluginParameters: the request is reused, so that plugin receives the parameters left by the previous plugin")
		return true
	})
	c.Min("plugin-params-per-iteration", 2)
	c.Decide(indexed != "" && indexed == prepArg && okDom, "plugin-lockstep", key+"/range g.plugins", c.Prog.Rel(loop.Pos()),
		"parameters come from "+indexed+"[i]; g.plugins was built from the same slice by preparePlugins on every path to the loop",
		fmt.Sprintf("plugin i takes its parameters from %s[i] but g.plugins is built from %q", indexed, prepArg))
	// preparePlugins: reset + one append per descriptor
	pp := c.Prog.FuncDecl("generator", "Generator.preparePlugins")
	if pp == nil {
		c.Unknown("plugin-lockstep", "generator.(Generator).preparePlugins", "", "missing")
		return
	}
	reset := false
	var ploop *ast.RangeStmt
	for _, s := range pp.Body.List {
		switch x := s.(type) {
		case *ast.AssignStmt:
			if len(x.Lhs) == 1 && rules.ExprString(x.Lhs[0]) == recvNameOf(pp, "g")+".plugins" && ploop == nil {
				if rules.IsNil(info, x.Rhs[0]) || strings.HasSuffix(rules.ExprString(x.Rhs[0]), "[:0]") || strings.HasPrefix(rules.ExprString(x.Rhs[0]), "make(") {
					reset = true
				}
			}
		case *ast.RangeStmt:
			ploop = x
		}
	}
	c.Decide(reset, "plugin-lockstep", "generator.(Generator).preparePlugins/reset", c.Prog.Rel(pp.Pos()), "g.plugins is emptied before the descriptors are processed",
		"g.plugins is only ever appended to: a second Generate call (second -g language) sees plugins of the first call and indexes out.UsedPlugins out of range")
	if ploop == nil {
		c.Unknown("plugin-lockstep", "generator.(Generator).preparePlugins/loop", "", "no loop over the descriptors")
		return
	}
	paramName := ""
	if len(pp.Type.Params.List) == 2 && len(pp.Type.Params.List[1].Names) == 1 {
		paramName = pp.Type.Params.List[1].Names[0].Name
	}
	counts := appendCounts(info, ploop.Body.List, recvNameOf(pp, "g")+".plugins")
	okCount := rules.ExprString(ploop.X) == paramName && len(counts) > 0
	for _, n := range counts {
		if n != 1 {
			okCount = false
		}
	}
	c.Decide(okCount, "plugin-lockstep", "generator.(Generator).preparePlugins/one-per-descriptor", c.Prog.Rel(ploop.Pos()), fmt.Sprintf("every non-error path through the loop body appends exactly one plugin (%d paths)", len(counts)),
		fmt.Sprintf("paths through the loop body append %v plugin(s) per descriptor: g.plugins and the descriptor list fall out of step", counts))
}

// appendCounts enumerates the paths through a loop body (if/else, continue, return) and returns, for every path
// that reaches the next iteration, how many times `target = append(target, …)` is executed.
func appendCounts(info *types.Info, stmts []ast.Stmt, target string) []int {
	type st struct {
		n    int
		done bool // left the iteration (continue)
		ret  bool
	}
	var run func(stmts []ast.Stmt, in []st) []st
	run = func(stmts []ast.Stmt, in []st) []st {
		cur := in
		for _, s := range stmts {
			var next []st
			for _, p := range cur {
				if p.done || p.ret {
					next = append(next, p)
					continue
				}
				switch x := s.(type) {
				case *ast.AssignStmt:
					if len(x.Lhs) == 1 && rules.ExprString(x.Lhs[0]) == target {
						if call, ok := x.Rhs[0].(*ast.CallExpr); ok && rules.IsBuiltin(info, call, "append") {
							p.n++
						}
					}
					next = append(next, p)
				case *ast.BranchStmt:
					if x.Tok == token.CONTINUE {
						p.done = true
					}
					next = append(next, p)
				case *ast.ReturnStmt:
					p.ret = true
					next = append(next, p)
				case *ast.IfStmt:
					start := []st{p}
					if x.Init != nil {
						start = run([]ast.Stmt{x.Init}, start)
					}
					next = append(next, run(x.Body.List, start)...)
					if x.Else != nil {
						if b, ok := x.Else.(*ast.BlockStmt); ok {
							next = append(next, run(b.List, start)...)
						} else {
							next = append(next, run([]ast.Stmt{x.Else}, start)...)
						}
					} else {
						next = append(next, start...)
					}
				default:
					next = append(next, p)
				}
			}
			cur = next
		}
		return cur
	}
	var out []int
	for _, p := range run(stmts, []st{{}}) {
		if !p.ret {
			out = append(out, p.n)
		}
	}
	return out
}

var _ = core.Module
