package props

import (
	"fmt"
	"go/ast"
	"go/parser"
	"go/token"
	"go/types"
	"strconv"
	"strings"

	"verif/checker/core"
	"verif/checker/rules"
)

// tint is a typed integer value of the Go integer model (two's complement, wrap on conversion).
type tint struct {
	v      int64 // value, already wrapped to the type
	bits   int
	signed bool
	untyp  bool // untyped constant (takes the type of the other operand)
}

func wrap(v int64, bits int, signed bool) int64 {
	if bits >= 64 {
		return v
	}
	m := int64(1) << uint(bits)
	v &= m - 1
	if signed && v >= m/2 {
		v -= m
	}
	return v
}

func basicInt(name string) (int, bool, bool) {
	switch name {
	case "uint32":
		return 32, false, true
	case "int32":
		return 32, true, true
	case "uint16":
		return 16, false, true
	case "int16":
		return 16, true, true
	case "uint8", "byte":
		return 8, false, true
	case "int8":
		return 8, true, true
	case "int", "int64":
		return 64, true, true
	case "uint", "uint64":
		return 64, false, true
	}
	return 0, false, false
}

// evalInt evaluates a Go integer expression made of identifiers (from env), integer literals, conversions to basic integer
// types, shifts, |, &, + and parentheses. leaf resolves anything else (selector, index expression) by its text.
func evalInt(e ast.Expr, env map[string]tint) (tint, error) {
	switch x := ast.Unparen(e).(type) {
	case *ast.BasicLit:
		if x.Kind == token.INT {
			n, err := strconv.ParseInt(x.Value, 0, 64)
			return tint{v: n, bits: 64, signed: true, untyp: true}, err
		}
	case *ast.Ident:
		if v, ok := env[x.Name]; ok {
			return v, nil
		}
	case *ast.SelectorExpr, *ast.IndexExpr:
		if v, ok := env[rules.ExprString(x)]; ok {
			return v, nil
		}
	case *ast.CallExpr:
		if id, ok := x.Fun.(*ast.Ident); ok && len(x.Args) == 1 {
			if id.Name == "len" {
				if v, ok := env[rules.ExprString(x)]; ok {
					return v, nil
				}
			}
			if bits, signed, ok := basicInt(id.Name); ok {
				a, err := evalInt(x.Args[0], env)
				if err != nil {
					return tint{}, err
				}
				return tint{v: wrap(a.v, bits, signed), bits: bits, signed: signed}, nil
			}
		}
	case *ast.BinaryExpr:
		a, err := evalInt(x.X, env)
		if err != nil {
			return tint{}, err
		}
		b, err := evalInt(x.Y, env)
		if err != nil {
			return tint{}, err
		}
		switch x.Op {
		case token.SHL:
			return tint{v: wrap(a.v<<uint(b.v), a.bits, a.signed), bits: a.bits, signed: a.signed, untyp: a.untyp}, nil
		case token.OR, token.AND, token.ADD, token.SUB:
			t := a
			if a.untyp {
				t = b
			}
			var r int64
			switch x.Op {
			case token.OR:
				r = a.v | b.v
			case token.AND:
				r = a.v & b.v
			case token.SUB:
				r = a.v - b.v
			default:
				r = a.v + b.v
			}
			return tint{v: wrap(r, t.bits, t.signed), bits: t.bits, signed: t.signed, untyp: a.untyp && b.untyp}, nil
		}
	}
	return tint{}, fmt.Errorf("expression %s is outside the integer subset", rules.ExprString(e))
}

// c10caseKey: FastRead dispatches with `switch <expr over fid, ftyp>` and one `case <label>` per field, where the label is
// computed by the generator from the field id and the wire type. For every 16-bit field id (negative ids are legal Thrift)
// and every wire type the label must equal the value of the switch expression. Both expressions are closed integer
// arithmetic, so the comparison is exhaustive over the whole domain (65536 ids x the wire types of the table).
func c10caseKey(c *core.Check) {
	fd := c.Prog.FuncDecl(fastgoRel, "FastGoBackend.genFastRead")
	key := fastgoRel + ".(FastGoBackend).genFastRead/case-label~switch"
	if fd == nil {
		c.Unknown("anchor", fastgoRel+".(FastGoBackend).genFastRead", "", "missing")
		return
	}
	info := c.Prog.Pkg(fastgoRel).TypesInfo
	var switchSrc string
	var label ast.Expr
	decl := map[string]string{} // emitted `var x T`
	for _, call := range rules.Calls(fd.Body, true) {
		fn := rules.Callee(info, call)
		if fn == nil || fn.Name() != "f" || len(call.Args) == 0 {
			continue
		}
		s, ok := rules.ConstString(info, call.Args[0])
		if !ok {
			continue
		}
		t := strings.TrimSpace(s)
		switch {
		case strings.HasPrefix(t, "switch ") && strings.HasSuffix(t, "{"):
			switchSrc = strings.TrimSpace(strings.TrimSuffix(strings.TrimPrefix(t, "switch "), "{"))
		case strings.HasPrefix(t, "case ") && len(call.Args) >= 2:
			// the first verb must print the label as an integer literal
			if i := strings.Index(t, "%"); i >= 0 && strings.HasPrefix(t[:i], "case ") {
				label = call.Args[1]
			}
		case strings.HasPrefix(t, "var "):
			f := strings.Fields(t)
			if len(f) == 3 {
				decl[f[1]] = f[2]
			}
		}
	}
	if switchSrc == "" || label == nil {
		c.Unknown("read-case-label-equals-switch", key, c.Prog.Rel(fd.Pos()), "the emitted switch header or case label was not found")
		return
	}
	// a label computed by a package-local helper whose body is a single return is read through the helper (three levels)
	for depth := 0; depth < 3; depth++ {
		call, ok := ast.Unparen(label).(*ast.CallExpr)
		if !ok {
			break
		}
		fn := rules.Callee(info, call)
		if fn == nil || fn.Pkg() == nil || fn.Pkg() != c.Prog.Pkg(fastgoRel).Types || fn.Type().(*types.Signature).Recv() != nil {
			break
		}
		hd := c.Prog.FuncDecl(fastgoRel, fn.Name())
		if hd == nil || hd.Body == nil || len(hd.Body.List) != 1 {
			break
		}
		ret, ok := hd.Body.List[0].(*ast.ReturnStmt)
		if !ok || len(ret.Results) != 1 {
			break
		}
		label = ret.Results[0]
	}
	sw, err := parser.ParseExpr(switchSrc)
	if err != nil {
		c.Unknown("read-case-label-equals-switch", key, c.Prog.Rel(fd.Pos()), "switch expression does not parse: "+switchSrc)
		return
	}
	// runtime variable types from the emitted declarations
	typeOf := func(name string) (int, bool, bool) {
		t := decl[name]
		if t == "thrift.TType" {
			t = "uint8" // gopkg: type TType byte
		}
		return basicInt(t)
	}
	fb, fs, ok1 := typeOf("fid")
	tb, ts, ok2 := typeOf("ftyp")
	if !ok1 || !ok2 {
		c.Unknown("read-case-label-equals-switch", key, c.Prog.Rel(fd.Pos()), fmt.Sprintf("emitted declarations of fid/ftyp not recognised: %v", decl))
		return
	}
	// generator-side leaf types
	var idLeaf, wireLeaf string
	var idBits, wireBits int
	var idSigned, wireSigned bool
	ast.Inspect(label, func(n ast.Node) bool {
		switch x := n.(type) {
		case *ast.SelectorExpr:
			if x.Sel.Name == "ID" {
				if b, ok := info.Types[x].Type.Underlying().(*types.Basic); ok {
					idLeaf = rules.ExprString(x)
					idBits, idSigned, _ = basicInt(b.Name())
				}
				return false
			}
		case *ast.IndexExpr:
			if strings.Contains(rules.ExprString(x.X), "category2ThriftWireType") {
				if b, ok := info.Types[x].Type.Underlying().(*types.Basic); ok {
					wireLeaf = rules.ExprString(x)
					wireBits, wireSigned, _ = basicInt(b.Name())
				}
				return false
			}
		}
		return true
	})
	if idLeaf == "" || wireLeaf == "" || idBits == 0 || wireBits == 0 {
		c.Bad("read-case-label-equals-switch", key, c.Prog.Rel(label.Pos()), "the case label "+rules.ExprString(label)+" is not computed from the field id and the wire-type table")
		return
	}
	wires := map[int]bool{}
	for _, s := range specByCategory {
		wires[s.Wire] = true
	}
	bad := ""
	n := 0
	for id := -32768; id <= 32767 && bad == ""; id++ {
		for w := range wires {
			n++
			l, e1 := evalInt(label, map[string]tint{idLeaf: {v: wrap(int64(id), idBits, idSigned), bits: idBits, signed: idSigned}, wireLeaf: {v: int64(w), bits: wireBits, signed: wireSigned}})
			r, e2 := evalInt(sw, map[string]tint{"fid": {v: wrap(int64(id), fb, fs), bits: fb, signed: fs}, "ftyp": {v: int64(w), bits: tb, signed: ts}})
			if e1 != nil || e2 != nil {
				c.Unknown("read-case-label-equals-switch", key, c.Prog.Rel(label.Pos()), fmt.Sprintf("cannot evaluate: %v %v", e1, e2))
				return
			}
			// the label is printed as an integer literal and converted to the switch expression's type
			lv := wrap(l.v, r.bits, r.signed)
			if l.v < 0 && !r.signed || lv != r.v {
				bad = fmt.Sprintf("for field id %d and wire type %d the label %s evaluates to %#x but the emitted `switch %s` evaluates to %#x", id, w, rules.ExprString(label), uint64(l.v), switchSrc, uint64(r.v))
				break
			}
		}
	}
	c.Analysed["case_label_evaluations"] = n
	c.Decide(bad == "", "read-case-label-equals-switch", key, c.Prog.Rel(label.Pos()),
		fmt.Sprintf("label %s equals `%s` for all 65536 field ids x %d wire types", rules.ExprString(label), switchSrc, len(wires)),
		bad+": the field's case is never taken, FastRead skips the field as unknown (or reports a required field missing)")
}

var _ = core.Module
