package props

import (
	"go/ast"
	"go/types"
	"sort"
	"strings"

	"verif/checker/core"
	"verif/checker/rules"
)

// c01fastgoValueElems: the README says fastgo accepts the go backend's options. One of them, value_type_in_container,
// changes the Go type of container elements that are struct-likes ([]Foo instead of []*Foo; decided in the resolver,
// function getContainerTypeName). The fastgo read emitters build such elements with New<T>() — a pointer — so to produce
// compiling code under both settings they have to tell the settings apart: by reading the option, or by reading a
// ReadWriteContext field that package golang computes from the option. Reading neither means one of the two settings
// yields `cannot use NewFoo() (value of type *Foo) as Foo value`.
func c01fastgoValueElems(c *core.Check) {
	const opt = "ValueTypeForSIC"
	key := fastgoRel + "/container-element-kind"
	gpk := c.Prog.Pkg("generator/golang")
	fpk := c.Prog.Pkg(fastgoRel)
	if gpk == nil || fpk == nil {
		c.Unknown("anchor", key, "", "package missing")
		return
	}
	mentions := func(n ast.Node) bool {
		found := false
		ast.Inspect(n, func(m ast.Node) bool {
			if sel, ok := m.(*ast.SelectorExpr); ok && sel.Sel.Name == opt {
				found = true
			}
			return !found
		})
		return found
	}
	// premise: the resolver's container type name depends on the option
	premise := false
	if fd := c.Prog.FuncDecl("generator/golang", "Resolver.getContainerTypeName"); fd != nil && fd.Body != nil {
		premise = mentions(fd.Body)
	}
	if !premise {
		c.OKTrivial("fastgo-value-elements-distinguished", key, "generator/golang/resolver.go", "the container type name does not depend on value_type_in_container")
		return
	}
	// ReadWriteContext fields computed from the option in package golang
	disc := map[string]bool{}
	c.Prog.AllFuncDecls("generator/golang", func(file *ast.File, fd *ast.FuncDecl) {
		if fd.Body == nil {
			return
		}
		var stack []ast.Node
		ast.Inspect(fd.Body, func(n ast.Node) bool {
			if n == nil {
				stack = stack[:len(stack)-1]
				return true
			}
			stack = append(stack, n)
			underOpt := func() bool {
				for _, p := range stack {
					if is, ok := p.(*ast.IfStmt); ok && mentions(is.Cond) {
						return true
					}
				}
				return false
			}
			switch x := n.(type) {
			case *ast.AssignStmt:
				for i, l := range x.Lhs {
					sel, ok := l.(*ast.SelectorExpr)
					if !ok {
						continue
					}
					tv, ok := gpk.TypesInfo.Types[sel.X]
					if !ok || !strings.HasSuffix(strings.TrimPrefix(tv.Type.String(), "*"), "golang.ReadWriteContext") {
						continue
					}
					if underOpt() || i < len(x.Rhs) && mentions(x.Rhs[i]) {
						disc[sel.Sel.Name] = true
					}
				}
			case *ast.KeyValueExpr:
				if id, ok := x.Key.(*ast.Ident); ok {
					if obj, ok := gpk.TypesInfo.Uses[id].(*types.Var); ok && obj.IsField() && mentions(x.Value) {
						disc[id.Name] = true
					}
				}
			}
			return true
		})
	})
	var readers []string
	c.Prog.AllFuncDecls(fastgoRel, func(file *ast.File, fd *ast.FuncDecl) {
		if fd.Body == nil || strings.HasSuffix(c.Prog.Fset.File(fd.Pos()).Name(), "_test.go") {
			return
		}
		ast.Inspect(fd.Body, func(n ast.Node) bool {
			sel, ok := n.(*ast.SelectorExpr)
			if !ok {
				return true
			}
			if sel.Sel.Name == opt {
				readers = append(readers, fd.Name.Name+" reads the option")
				return true
			}
			if disc[sel.Sel.Name] {
				if tv, ok := fpk.TypesInfo.Types[sel.X]; ok && strings.HasSuffix(strings.TrimPrefix(tv.Type.String(), "*"), "golang.ReadWriteContext") {
					readers = append(readers, fd.Name.Name+" reads ReadWriteContext."+sel.Sel.Name)
				}
			}
			return true
		})
	})
	sort.Strings(readers)
	c.Analysed["fastgo_option_discriminators"] = len(disc) + 1
	c.Decide(len(readers) > 0, "fastgo-value-elements-distinguished", key, fastgoRel+"/gen_fastread.go",
		"the fastgo emitters distinguish value and pointer elements: "+strings.Join(readers, "; "),
		"no fastgo emitter reads value_type_in_container (nor a ReadWriteContext field derived from it) although the element type of containers of struct-likes depends on it: -g fastgo:value_type_in_container assigns New<T>() (*T) to elements of type T and the generated package does not compile")
}

var _ = rules.ExprString

// c01astSurgery: which includes a generated file imports is decided by the Used flags the semantic pass leaves on the
// AST's includes. A backend function that takes definitions out of the AST after that pass (the removal of streaming
// functions when thrift_streaming is off) can take away the last reference into an include; the flag then still says
// "used", the import is emitted, and the file does not compile (imported and not used). Rule: a function of the Go backend
// that assigns the Functions list of a *parser.Service (or the Services/Structs lists of the AST) also has the usage
// recomputed — it calls semantic.ResolveSymbols after clearing the flags.
func c01astSurgery(c *core.Check) {
	pk := c.Prog.Pkg("generator/golang")
	if pk == nil {
		c.Unknown("anchor", "generator/golang", "", "package missing")
		return
	}
	info := pk.TypesInfo
	n := 0
	c.Prog.AllFuncDecls("generator/golang", func(file *ast.File, fd *ast.FuncDecl) {
		if fd.Body == nil || strings.HasSuffix(c.Prog.Fset.File(fd.Pos()).Name(), "_test.go") {
			return
		}
		var surgery ast.Node
		ast.Inspect(fd.Body, func(m ast.Node) bool {
			as, ok := m.(*ast.AssignStmt)
			if !ok {
				return true
			}
			for _, l := range as.Lhs {
				sel, ok := l.(*ast.SelectorExpr)
				if !ok {
					continue
				}
				tv, ok := info.Types[sel.X]
				if !ok {
					continue
				}
				t := strings.TrimPrefix(tv.Type.String(), "*")
				if strings.HasSuffix(t, "parser.Service") && sel.Sel.Name == "Functions" ||
					strings.HasSuffix(t, "parser.Thrift") && (sel.Sel.Name == "Services" || sel.Sel.Name == "Structs" || sel.Sel.Name == "Typedefs") {
					surgery = as
				}
			}
			return true
		})
		if surgery == nil {
			return
		}
		n++
		resolves, clears := false, false
		ast.Inspect(fd.Body, func(m ast.Node) bool {
			switch x := m.(type) {
			case *ast.CallExpr:
				if fn := rules.Callee(info, x); fn != nil && fn.Name() == "ResolveSymbols" {
					resolves = true
				}
			case *ast.AssignStmt:
				for _, l := range x.Lhs {
					if sel, ok := l.(*ast.SelectorExpr); ok && sel.Sel.Name == "Used" {
						clears = true
					}
				}
			}
			return true
		})
		c.Decide(resolves && clears, "ast-surgery-recomputes-include-usage", core.FuncKey("generator/golang", fd)+"/"+rules.ExprString(surgery.(*ast.AssignStmt).Lhs[0]), c.Prog.Rel(surgery.Pos()),
			"after the definitions are removed the Used flags are cleared and the symbols resolved again",
			"definitions are taken out of the AST after the semantic pass, but the Used flags of the includes are not recomputed: an include that was only referenced by a removed definition (`base.Req f(1: base.Req r) (streaming.mode=\"bidirectional\")` with default options) is still imported — imported and not used, the generated package does not compile")
	})
	if n == 0 {
		c.OKTrivial("ast-surgery-recomputes-include-usage", "generator/golang/ast-surgery", "generator/golang", "the Go backend never removes definitions from the AST")
	}
}
