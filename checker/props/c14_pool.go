package props

import (
	"fmt"
	"go/types"
	"sort"

	"golang.org/x/tools/go/ssa"

	"verif/checker/core"
)

// c14pooledBuffer: the JSON writer borrows its output buffer from a sync.Pool. Once the buffer is given back with Put, the
// next (possibly concurrent) MarshalJSON call appends into the same backing array, so no value returned to the caller may
// share that array: otherwise the caller's bytes change after the call returned (marshalling is no longer a function of
// the mask). Decided on go/ssa: in every function that calls (*sync.Pool).Put(p), each returned value is traced backwards
// through slicing, conversions between slice types, phis and the first operand of append; reaching a load of p (or p
// itself) is a violation; make/copy, string conversions and constants are fresh storage.
func c14pooledBuffer(c *core.Check) {
	prog := c.Prog
	prog.SSA()
	pkg := prog.SSAPkg(fmRel)
	if pkg == nil {
		c.Unknown("anchor", fmRel, "", "package missing")
		return
	}
	var fns []*ssa.Function
	for fn := range ssautilAllFunctions(prog, pkg) {
		fns = append(fns, fn)
	}
	sort.Slice(fns, func(i, j int) bool { return fns[i].Pos() < fns[j].Pos() })
	for _, fn := range fns {
		if fn.Blocks == nil {
			continue
		}
		pooled := map[ssa.Value]bool{}
		for _, b := range fn.Blocks {
			for _, in := range b.Instrs {
				call, ok := in.(ssa.CallInstruction)
				if !ok {
					continue
				}
				cf := call.Common().StaticCallee()
				if cf == nil || cf.Name() != "Put" || cf.Signature.Recv() == nil || cf.Pkg == nil || cf.Pkg.Pkg.Path() != "sync" {
					continue
				}
				args := call.Common().Args
				v := args[len(args)-1]
				if mi, ok := v.(*ssa.MakeInterface); ok {
					v = mi.X
				}
				pooled[v] = true
			}
		}
		if len(pooled) == 0 {
			continue
		}
		fk := fmRel + "." + fn.RelString(pkg.Pkg)
		n := 0
		var alias func(v ssa.Value, seen map[ssa.Value]bool) (bool, string)
		alias = func(v ssa.Value, seen map[ssa.Value]bool) (bool, string) {
			if seen[v] {
				return false, ""
			}
			seen[v] = true
			if pooled[v] {
				return true, v.Name()
			}
			switch x := v.(type) {
			case *ssa.Slice:
				return alias(x.X, seen)
			case *ssa.ChangeType:
				return alias(x.X, seen)
			case *ssa.Convert:
				// []byte <-> string copies; slice -> slice of the same underlying type keeps the array
				if _, ok := x.Type().Underlying().(*types.Slice); ok {
					if _, ok := x.X.Type().Underlying().(*types.Slice); ok {
						return alias(x.X, seen)
					}
				}
				return false, ""
			case *ssa.Phi:
				for _, e := range x.Edges {
					if a, w := alias(e, seen); a {
						return a, w
					}
				}
			case *ssa.UnOp:
				// load through the pooled pointer
				if pooled[x.X] {
					return true, "*" + x.X.Name()
				}
			case *ssa.Call:
				if b, ok := x.Call.Value.(*ssa.Builtin); ok && b.Name() == "append" && len(x.Call.Args) > 0 {
					return alias(x.Call.Args[0], seen)
				}
			case *ssa.MakeInterface:
				return alias(x.X, seen)
			}
			return false, ""
		}
		for _, b := range fn.Blocks {
			for _, in := range b.Instrs {
				ret, ok := in.(*ssa.Return)
				if !ok {
					continue
				}
				for i, r := range ret.Results {
					switch r.Type().Underlying().(type) {
					case *types.Slice, *types.Pointer, *types.Interface:
					default:
						continue
					}
					n++
					a, w := alias(r, map[ssa.Value]bool{})
					c.Decide(!a, "pooled-buffer-not-returned", fmt.Sprintf("%s/return#%d.%d", fk, n, i), prog.Rel(ret.Pos()),
						"the returned value does not share storage with the buffer handed back to the pool",
						"the returned value shares the backing array of "+w+", which is handed back to the sync.Pool: the next MarshalJSON call (in any goroutine) overwrites the caller's bytes")
				}
			}
		}
	}
	c.Min("pooled-buffer-not-returned", 1)
}

var _ = core.Module
