package props

import (
	"fmt"
	"go/ast"
	"go/token"
	"go/types"
	"os"
	"path/filepath"
	"reflect"
	"regexp"
	"strings"

	"verif/checker/core"
	"verif/checker/rules"
)

func init() { register("C20", c20) }

const golangRel = "generator/golang"

// c20: TABLE — the option table of the go backend.
func c20(c *core.Check) {
	c.Explain = "TABLE: the ordered option-name list (codeUtilsParams literal ++ first struct-tag key of each Features field) is read from the source; " +
		"because param.match is a prefix test and HandleOptions takes the first match, 'each listed name selects its own entry' is equivalent to: no earlier name is a prefix of a later one " +
		"(all ordered pairs enumerated). Also decided: names unique and well-formed, every Features field is a bool with one tag, the reflective action closure captures per-iteration copies and indexes the field with the index its name came from, " +
		"checkBool accepts exactly \"\",\"true\",\"false\", validateOptions lies on every nil-return path of HandleOptions after the slim=>no-deep-equal assignment, option action errors are returned, " +
		"prepareUtilities stores HandleOptions' error and buildResponse reports it, README rows are options of the code with the same defaults. " +
		"(+) args.checkOptions: if the nested-struct adaptation can write the template option at all, its guard is false for template=slim and template=raw_struct (evaluated over the template names). NOT decided: what each flag does to generated code."
	c.RuleText = "one obligation per ordered name pair, per Features field, per option action, per return path of HandleOptions, per README row; non-trivial = needed a path, dataflow or table argument"
	c.Assume = []string{"strings.HasPrefix, reflect.Type.Field/Value.Field behave as documented", "options reach HandleOptions split at the first '=' (read from its body)"}
	pk := c.Prog.Pkg(golangRel)
	if pk == nil {
		c.Unknown("anchor", golangRel, "", "package missing")
		return
	}
	info := pk.TypesInfo
	scope := pk.Types.Scope()

	// ---- Features struct
	featObj, _ := scope.Lookup("Features").(*types.TypeName)
	if featObj == nil {
		c.Unknown("anchor", "generator/golang.Features", "", "type missing")
		return
	}
	st, ok := featObj.Type().Underlying().(*types.Struct)
	if !ok {
		c.Unknown("anchor", "generator/golang.Features", "", "not a struct")
		return
	}
	var names []opt

	// ---- codeUtilsParams literal
	var cupLit *ast.CompositeLit
	var allParamsInit ast.Expr
	var defaultLit *ast.CompositeLit
	for _, f := range pk.Syntax {
		for _, d := range f.Decls {
			gd, ok := d.(*ast.GenDecl)
			if !ok || gd.Tok != token.VAR {
				continue
			}
			for _, s := range gd.Specs {
				vs := s.(*ast.ValueSpec)
				for i, n := range vs.Names {
					if i >= len(vs.Values) {
						continue
					}
					switch n.Name {
					case "codeUtilsParams":
						cupLit, _ = vs.Values[i].(*ast.CompositeLit)
					case "allParams":
						allParamsInit = vs.Values[i]
					case "defaultFeatures":
						defaultLit, _ = vs.Values[i].(*ast.CompositeLit)
					}
				}
			}
		}
	}
	if cupLit == nil || allParamsInit == nil || defaultLit == nil {
		c.Unknown("anchor", "generator/golang.codeUtilsParams|allParams|defaultFeatures", "", "package variable missing or not a literal")
		return
	}
	actions := map[string]*ast.FuncLit{}
	for _, el := range cupLit.Elts {
		lit, ok := el.(*ast.CompositeLit)
		if !ok {
			if u, ok2 := el.(*ast.UnaryExpr); ok2 {
				lit, ok = u.X.(*ast.CompositeLit)
			}
		}
		if lit == nil {
			c.Unknown("table", "codeUtilsParams/element", c.Prog.Rel(el.Pos()), "element is not a composite literal")
			continue
		}
		nm := ""
		for _, kv := range lit.Elts {
			k, ok := kv.(*ast.KeyValueExpr)
			if !ok {
				continue
			}
			switch k.Key.(*ast.Ident).Name {
			case "name":
				s, ok := rules.ConstString(info, k.Value)
				if !ok {
					c.Unknown("table", "codeUtilsParams/name", c.Prog.Rel(k.Pos()), "name is not a constant string")
				}
				nm = s
			case "action":
				if fl, ok := k.Value.(*ast.FuncLit); ok {
					actions[nm] = fl
				}
			}
		}
		names = append(names, opt{name: nm, where: c.Prog.Rel(lit.Pos())})
	}
	// allParams = append(codeUtilsParams, defaultFeatures.params()...)
	{
		okShape := false
		if call, ok := allParamsInit.(*ast.CallExpr); ok && rules.IsBuiltin(info, call, "append") && len(call.Args) == 2 && call.Ellipsis.IsValid() {
			a0 := rules.ObjOf(info, call.Args[0])
			if a0 != nil && a0.Name() == "codeUtilsParams" {
				if c2, ok := call.Args[1].(*ast.CallExpr); ok {
					if fn := rules.Callee(info, c2); fn != nil && fn.Name() == "params" && rules.IsMethod(fn, pk.PkgPath, "Features", "params") {
						if sel, ok := c2.Fun.(*ast.SelectorExpr); ok {
							if o := rules.ObjOf(info, sel.X); o != nil && o.Name() == "defaultFeatures" {
								okShape = true
							}
						}
					}
				}
			}
		}
		c.Decide(okShape, "table-order", "generator/golang.allParams/init", c.Prog.Rel(allParamsInit.Pos()),
			"allParams = append(codeUtilsParams, defaultFeatures.params()...): literal entries first, then Features fields in declaration order",
			"allParams is no longer codeUtilsParams followed by defaultFeatures.params(); the order model of the pair table does not apply")
	}
	// Features fields
	nameRe := regexp.MustCompile(`^[a-z][a-z0-9_]*$`)
	for i := 0; i < st.NumFields(); i++ {
		f := st.Field(i)
		tag := st.Tag(i)
		key := strings.SplitN(tag, ":", 2)[0] // the rule Features.params applies (verified below)
		where := c.Prog.Rel(f.Pos())
		kk := "generator/golang.Features." + f.Name()
		b, isBasic := f.Type().Underlying().(*types.Basic)
		if !isBasic || b.Kind() != types.Bool {
			c.Bad("feature-field", kk, where, "Features field is not a bool: the reflective action calls SetBool and would panic")
			continue
		}
		// exactly one key:"value" pair
		v, found := reflect.StructTag(tag).Lookup(key)
		rest := strings.TrimSpace(strings.TrimPrefix(tag, key+":"+quote(v)))
		if !found || key == "" || rest != "" {
			c.Bad("feature-field", kk, where, fmt.Sprintf("tag %q is not exactly one well-formed key:\"desc\" pair, the option name cannot be derived", tag))
			continue
		}
		if !nameRe.MatchString(key) {
			c.Bad("feature-field", kk, where, fmt.Sprintf("option name %q contains characters that cannot be passed on the command line (',', '=', ':')", key))
			continue
		}
		c.OKTrivial("feature-field", kk, where, "bool field, single tag, name "+key)
		names = append(names, opt{name: key, where: where, field: f.Name(), feature: true})
	}
	c.Min("feature-field", 40)
	for _, o := range names[:len(cupLit.Elts)] {
		if !nameRe.MatchString(o.name) {
			c.Bad("table", "codeUtilsParams/name/"+o.name, o.where, "malformed option name")
		}
	}

	// ---- param.match shape
	matchKind := ""
	if fd := c.Prog.FuncDecl(golangRel, "param.match"); fd != nil && len(fd.Body.List) == 1 {
		if rs, ok := fd.Body.List[0].(*ast.ReturnStmt); ok && len(rs.Results) == 1 {
			switch e := rs.Results[0].(type) {
			case *ast.CallExpr:
				if fn := rules.Callee(info, e); rules.IsPkgFunc(fn, "strings", "HasPrefix") && len(e.Args) == 2 {
					a0 := rules.ObjOf(info, e.Args[0])
					f1 := rules.FieldOf(info, e.Args[1])
					if a0 != nil && a0 == info.Defs[fd.Type.Params.List[0].Names[0]] && f1 != nil && f1.Name() == "name" {
						matchKind = "prefix"
					}
				}
			case *ast.BinaryExpr:
				if e.Op == token.EQL {
					matchKind = "equal"
				}
			}
		}
	}
	if matchKind == "" {
		c.Unknown("match-shape", "generator/golang.(param).match", "", "match is neither strings.HasPrefix(value, p.name) nor an equality; selection semantics not modelled")
		return
	}
	c.OK("match-shape", "generator/golang.(param).match", "", "match is a "+matchKind+" test")

	// ---- HandleOptions: first match wins
	ho := c.Prog.FuncDecl(golangRel, "CodeUtils.HandleOptions")
	if ho == nil {
		c.Unknown("anchor", "generator/golang.(CodeUtils).HandleOptions", "", "missing")
		return
	}
	firstMatch := false
	ast.Inspect(ho.Body, func(n ast.Node) bool {
		rs, ok := n.(*ast.RangeStmt)
		if !ok {
			return true
		}
		if o := rules.ObjOf(info, rs.X); o == nil || o.Name() != "allParams" {
			return true
		}
		// body: if p.match(name) { ...; continue <outer> }  (or return / break)
		for _, s := range rs.Body.List {
			is, ok := s.(*ast.IfStmt)
			if !ok {
				continue
			}
			call, ok := is.Cond.(*ast.CallExpr)
			if !ok {
				continue
			}
			if fn := rules.Callee(info, call); fn == nil || fn.Name() != "match" {
				continue
			}
			if len(is.Body.List) > 0 {
				switch last := is.Body.List[len(is.Body.List)-1].(type) {
				case *ast.BranchStmt:
					if (last.Tok == token.CONTINUE && last.Label != nil) || last.Tok == token.BREAK {
						firstMatch = true
					}
				case *ast.ReturnStmt:
					firstMatch = true
				}
			}
		}
		return true
	})
	c.Decide(firstMatch, "first-match", "generator/golang.(CodeUtils).HandleOptions/range allParams", c.Prog.Rel(ho.Pos()),
		"the scan over allParams leaves the loop at the first matching entry",
		"the scan over allParams no longer stops at the first match: several entries may act on one option")

	// ---- pair table (exhaustive)
	seen := map[string]int{}
	for i, o := range names {
		if j, dup := seen[o.name]; dup {
			c.Bad("name-unique", "option/"+o.name, o.where, fmt.Sprintf("option name %q is listed twice (entries %d and %d): the second can never be selected", o.name, j, i))
		} else {
			c.OKTrivial("name-unique", "option/"+o.name, o.where, "unique")
		}
		seen[o.name] = i
	}
	pairs := 0
	for j := range names {
		shadow := ""
		for i := 0; i < j; i++ {
			pairs++
			if matchKind == "prefix" && names[i].name != names[j].name && strings.HasPrefix(names[j].name, names[i].name) {
				shadow = names[i].name
				break
			}
		}
		key := "option/" + names[j].name
		if shadow != "" {
			c.Bad("prefix-shadow", key, names[j].where, fmt.Sprintf("earlier option %q is a prefix of %q: `%s` (and `%s=false`) is handled by %q's action and never reaches its own feature", shadow, names[j].name, names[j].name, names[j].name, shadow))
		} else {
			c.OK("prefix-shadow", key, names[j].where, fmt.Sprintf("no earlier entry (of %d) is a prefix of this name", j))
		}
	}
	c.Analysed["ordered_name_pairs"] = pairs
	c.Analysed["option_names"] = len(names)
	c.Min("prefix-shadow", 50)
	c.Exhaustive = true

	// ---- Features.params: closure and index discipline
	c20params(c, info, pk.PkgPath)

	// ---- checkBool
	c20checkBool(c, info)

	// ---- HandleOptions: validateOptions on every nil-return path; slim rule precedes it
	{
		g := rules.CFG(info, ho.Body, nil)
		isValidate := func(n ast.Node) bool {
			call, ok := n.(*ast.CallExpr)
			return ok && rules.IsMethod(rules.Callee(info, call), pk.PkgPath, "CodeUtils", "validateOptions")
		}
		isNilRet := func(n ast.Node) bool {
			rs, ok := n.(*ast.ReturnStmt)
			return ok && rules.ReturnsNilError(info, rs)
		}
		missed, targets := rules.MustPass(g, isValidate, isNilRet)
		for _, m := range missed {
			c.Bad("validate-on-success", "generator/golang.(CodeUtils).HandleOptions/return-nil", c.Prog.Rel(m.Pos()), "a nil return of HandleOptions is reachable without validateOptions: invalid option combinations would be accepted")
		}
		if len(missed) == 0 && targets > 0 {
			c.OK("validate-on-success", "generator/golang.(CodeUtils).HandleOptions/return-nil", c.Prog.Rel(ho.Pos()), fmt.Sprintf("%d nil-return(s), each dominated by validateOptions", targets))
		}
		if targets == 0 {
			c.Unknown("validate-on-success", "generator/golang.(CodeUtils).HandleOptions/return-nil", "", "no nil return found")
		}
		// validateOptions' error must be returned: its call is in `if err := …; err != nil { return err }` or `return cu.validateOptions()`
		okRet := false
		ast.Inspect(ho.Body, func(n ast.Node) bool {
			switch x := n.(type) {
			case *ast.IfStmt:
				if as, ok := x.Init.(*ast.AssignStmt); ok && len(as.Rhs) == 1 {
					if call, ok := as.Rhs[0].(*ast.CallExpr); ok && isValidate(call) && returnsVar(info, x.Body, as.Lhs[0]) {
						okRet = true
					}
				}
			case *ast.ReturnStmt:
				if len(x.Results) == 1 && isValidate(x.Results[0]) {
					okRet = true
				}
			}
			return true
		})
		c.Decide(okRet, "validate-error-returned", "generator/golang.(CodeUtils).HandleOptions/validateOptions", c.Prog.Rel(ho.Pos()),
			"validateOptions' error is returned to the caller", "validateOptions' error result is not returned")
		// slim => GenDeepEqual=false must precede validateOptions and every nil return
		isSlimAssign := func(n ast.Node) bool {
			as, ok := n.(*ast.AssignStmt)
			if !ok || len(as.Lhs) != 1 {
				return false
			}
			f := rules.FieldOf(info, as.Lhs[0])
			if f == nil || f.Name() != "GenDeepEqual" {
				return false
			}
			tv := info.Types[as.Rhs[0]]
			return tv.Value != nil && tv.Value.String() == "false"
		}
		var slimIf *ast.IfStmt
		ast.Inspect(ho.Body, func(n ast.Node) bool {
			if is, ok := n.(*ast.IfStmt); ok {
				if be, ok := is.Cond.(*ast.BinaryExpr); ok && be.Op == token.EQL {
					s, ok1 := rules.ConstString(info, be.Y)
					f := rules.FieldOf(info, be.X)
					if ok1 && s == "slim" && f != nil && f.Name() == "useTemplate" {
						for _, st := range is.Body.List {
							if isSlimAssign(st) {
								slimIf = is
							}
						}
					}
				}
			}
			return true
		})
		if slimIf == nil {
			c.Bad("slim-implies-no-deep-equal", "generator/golang.(CodeUtils).HandleOptions/slim", c.Prog.Rel(ho.Pos()), "documented implication 'template=slim disables gen_deep_equal' has no assignment in HandleOptions")
		} else {
			// the `if useTemplate == "slim"` statement must lie on every path to a nil return
			isIfCond := func(n ast.Node) bool { return n == slimIf.Cond }
			missed, _ := rules.MustPass(g, isIfCond, isNilRet)
			c.Decide(len(missed) == 0, "slim-implies-no-deep-equal", "generator/golang.(CodeUtils).HandleOptions/slim", c.Prog.Rel(slimIf.Pos()),
				"`if useTemplate == \"slim\" { features.GenDeepEqual = false }` lies on every nil-return path, after the option loop",
				"a nil return is reachable without the slim => no-deep-equal adjustment")
			// and the loop over args precedes it (the adjustment is applied after all options were read)
			var loopPos token.Pos
			for _, s := range ho.Body.List {
				if ls, ok := s.(*ast.LabeledStmt); ok {
					if _, ok := ls.Stmt.(*ast.RangeStmt); ok {
						loopPos = ls.Pos()
					}
				}
				if _, ok := s.(*ast.RangeStmt); ok {
					loopPos = s.Pos()
				}
			}
			c.Decide(loopPos.IsValid() && loopPos < slimIf.Pos(), "slim-after-options", "generator/golang.(CodeUtils).HandleOptions/slim", c.Prog.Rel(slimIf.Pos()),
				"the adjustment follows the option loop, so a later gen_deep_equal cannot undo it", "the slim adjustment precedes the option loop: `template=slim,gen_deep_equal` would re-enable deep-equal")
		}
	}

	// ---- option actions: error results are not dropped
	for nm, fl := range actions {
		dropped := droppedErrors(info, fl.Body)
		key := "generator/golang.codeUtilsParams/" + nm + "/action"
		if len(dropped) > 0 {
			c.Bad("action-error", key, c.Prog.Rel(dropped[0].Pos()), "an error-typed call result is dropped inside the option action: invalid values are accepted silently")
		} else {
			c.OK("action-error", key, c.Prog.Rel(fl.Pos()), "every error-typed call result in the action is returned or tested")
		}
	}
	c.Min("action-error", 5)
	c20nestedTemplate(c)
	c20rememberedDefaults(c)
	// the reject paths named by the statement: use_package (len(parts)<2), naming_style (nil style), template (UseTemplate error)
	c20rejects(c, info, actions)

	// ---- prepareUtilities stores the error; buildResponse reports it
	c20errFlow(c, info, pk.PkgPath)

	// ---- README
	c20readme(c, names2map(names), defaultLit, info, st)
}

func quote(s string) string { return fmt.Sprintf("%q", s) }

type optInfo struct {
	field   string
	feature bool
}

type opt struct {
	name, where, field string
	feature            bool
}

func names2map(n []opt) map[string]optInfo {
	m := map[string]optInfo{}
	for _, o := range n {
		m[o.name] = optInfo{o.field, o.feature}
	}
	return m
}

func returnsVar(info *types.Info, body *ast.BlockStmt, v ast.Expr) bool {
	obj := rules.ObjOf(info, v)
	ok := false
	ast.Inspect(body, func(n ast.Node) bool {
		if rs, isR := n.(*ast.ReturnStmt); isR {
			for _, r := range rs.Results {
				if rules.ObjOf(info, r) == obj && obj != nil {
					ok = true
				}
				// wrapped: fmt.Errorf("…%w", err)
				if call, isC := r.(*ast.CallExpr); isC {
					for _, a := range call.Args {
						if rules.ObjOf(info, a) == obj && obj != nil {
							ok = true
						}
					}
				}
			}
		}
		return true
	})
	return ok
}

// droppedErrors lists calls whose error-typed result is discarded: expression
// statements, or assignments of the error position to the blank identifier.
func droppedErrors(info *types.Info, body ast.Node) []*ast.CallExpr {
	var out []*ast.CallExpr
	hasErr := func(call *ast.CallExpr) (int, bool) {
		tv, ok := info.Types[call]
		if !ok {
			return 0, false
		}
		switch t := tv.Type.(type) {
		case *types.Tuple:
			for i := 0; i < t.Len(); i++ {
				if rules.IsErrorType(t.At(i).Type()) {
					return i, true
				}
			}
		default:
			if rules.IsErrorType(t) {
				return 0, true
			}
		}
		return 0, false
	}
	rules.Inspect(body, true, func(n ast.Node) bool {
		switch x := n.(type) {
		case *ast.ExprStmt:
			if call, ok := x.X.(*ast.CallExpr); ok {
				if _, e := hasErr(call); e {
					out = append(out, call)
				}
			}
		case *ast.AssignStmt:
			if len(x.Rhs) == 1 {
				if call, ok := x.Rhs[0].(*ast.CallExpr); ok {
					if i, e := hasErr(call); e && i < len(x.Lhs) {
						if id, ok := x.Lhs[i].(*ast.Ident); ok && id.Name == "_" {
							out = append(out, call)
						}
					}
				}
			}
		}
		return true
	})
	return out
}

func c20params(c *core.Check, info *types.Info, pkgPath string) {
	fd := c.Prog.FuncDecl(golangRel, "Features.params")
	key := "generator/golang.(Features).params"
	if fd == nil {
		c.Unknown("anchor", key, "", "missing")
		return
	}
	var loop *ast.ForStmt
	for _, s := range fd.Body.List {
		if f, ok := s.(*ast.ForStmt); ok {
			loop = f
		}
	}
	if loop == nil {
		c.Unknown("closure-capture", key, c.Prog.Rel(fd.Pos()), "no counting loop over the struct fields found")
		return
	}
	// the induction variable
	var idx types.Object
	if as, ok := loop.Init.(*ast.AssignStmt); ok && len(as.Lhs) == 1 {
		idx = info.Defs[as.Lhs[0].(*ast.Ident)]
	}
	// bound is t.NumField() with t = reflect.TypeOf(receiver)
	boundOK := false
	if be, ok := loop.Cond.(*ast.BinaryExpr); ok && be.Op == token.LSS {
		if call, ok := be.Y.(*ast.CallExpr); ok {
			if fn := rules.Callee(info, call); fn != nil && fn.Name() == "NumField" {
				boundOK = true
			}
		}
	}
	c.Decide(boundOK && idx != nil, "reflect-loop", key+"/for", c.Prog.Rel(loop.Pos()), "loop runs the index over 0..NumField()-1", "loop does not visit every field of Features")

	// variables assigned in the loop body and declared outside it, plus the induction variable, are "shared"
	shared := map[types.Object]bool{}
	if idx != nil {
		shared[idx] = true
	}
	declaredInBody := map[types.Object]bool{}
	ast.Inspect(loop.Body, func(n ast.Node) bool {
		if id, ok := n.(*ast.Ident); ok {
			if o := info.Defs[id]; o != nil {
				declaredInBody[o] = true
			}
		}
		return true
	})
	rules.Inspect(loop.Body, false, func(n ast.Node) bool {
		if as, ok := n.(*ast.AssignStmt); ok && as.Tok != token.DEFINE {
			for _, l := range as.Lhs {
				if o := rules.ObjOf(info, l); o != nil && !declaredInBody[o] {
					shared[o] = true
				}
			}
		}
		return true
	})
	// definitions in the loop body: var -> defining expr
	defs := map[types.Object]ast.Expr{}
	ast.Inspect(loop.Body, func(n ast.Node) bool {
		if as, ok := n.(*ast.AssignStmt); ok && as.Tok == token.DEFINE {
			if len(as.Lhs) == len(as.Rhs) {
				for i, l := range as.Lhs {
					if id, ok := l.(*ast.Ident); ok {
						if o := info.Defs[id]; o != nil {
							defs[o] = as.Rhs[i]
						}
					}
				}
			}
		}
		return true
	})
	var lit *ast.FuncLit
	var nameExpr ast.Expr
	ast.Inspect(loop.Body, func(n ast.Node) bool {
		if cl, ok := n.(*ast.CompositeLit); ok {
			for _, e := range cl.Elts {
				if kv, ok := e.(*ast.KeyValueExpr); ok {
					if id, ok := kv.Key.(*ast.Ident); ok {
						if id.Name == "action" {
							lit, _ = kv.Value.(*ast.FuncLit)
						}
						if id.Name == "name" {
							nameExpr = kv.Value
						}
					}
				}
			}
		}
		return true
	})
	if lit == nil || nameExpr == nil {
		c.Unknown("closure-capture", key+"/action", c.Prog.Rel(loop.Pos()), "param literal with name/action not found in the loop")
		return
	}
	// free variables of the closure
	var bad []string
	ast.Inspect(lit.Body, func(n ast.Node) bool {
		if id, ok := n.(*ast.Ident); ok {
			if o := info.Uses[id]; o != nil && shared[o] {
				bad = append(bad, o.Name())
			}
		}
		return true
	})
	c.Decide(len(bad) == 0, "closure-capture", key+"/action", c.Prog.Rel(lit.Pos()),
		"the action closure references only per-iteration variables (go.mod go 1.20: loop variables are per-loop)",
		fmt.Sprintf("the action closure captures loop-shared variable(s) %v: with go 1.20 semantics every option would act on the last field", bad))

	// index discipline: the Field(k) inside the closure uses a copy of the loop index; the name comes from Field(<loop index>).Tag
	var traceIdx func(e ast.Expr, depth int) bool
	traceIdx = func(e ast.Expr, depth int) bool {
		if depth > 4 {
			return false
		}
		o := rules.ObjOf(info, e)
		if o == nil {
			return false
		}
		if o == idx {
			return true
		}
		if d, ok := defs[o]; ok {
			return traceIdx(d, depth+1)
		}
		return false
	}
	fieldIdxOK := false
	ast.Inspect(lit.Body, func(n ast.Node) bool {
		if call, ok := n.(*ast.CallExpr); ok {
			if fn := rules.Callee(info, call); rules.IsMethod(fn, "reflect", "Value", "Field") && len(call.Args) == 1 {
				fieldIdxOK = traceIdx(call.Args[0], 0)
			}
		}
		return true
	})
	// name: trace nameExpr → strings.SplitN(string(f.Tag), ":", 2)[0] with f := t.Field(idx)
	var mentionsTagOfIdx func(e ast.Expr, depth int) bool
	mentionsTagOfIdx = func(e ast.Expr, depth int) bool {
		if depth > 6 || e == nil {
			return false
		}
		found := false
		ast.Inspect(e, func(n ast.Node) bool {
			switch x := n.(type) {
			case *ast.CallExpr:
				if fn := rules.Callee(info, x); fn != nil && fn.Name() == "Field" && len(x.Args) == 1 && traceIdx(x.Args[0], 0) {
					found = true
				}
			case *ast.Ident:
				if o := info.Uses[x]; o != nil {
					if d, ok := defs[o]; ok && mentionsTagOfIdx(d, depth+1) {
						found = true
					}
				}
			}
			return !found
		})
		return found
	}
	// the split rule must be SplitN(tag, ":", 2)[0]
	splitOK := false
	var findSplit func(e ast.Expr, depth int)
	findSplit = func(e ast.Expr, depth int) {
		if depth > 6 || e == nil {
			return
		}
		ast.Inspect(e, func(n ast.Node) bool {
			switch x := n.(type) {
			case *ast.IndexExpr:
				if call, ok := x.X.(*ast.CallExpr); ok {
					if fn := rules.Callee(info, call); rules.IsPkgFunc(fn, "strings", "SplitN") || rules.IsPkgFunc(fn, "strings", "Split") {
						sep, _ := rules.ConstString(info, call.Args[1])
						i0, okI := rules.ConstInt(info, x.Index)
						if sep == ":" && okI && i0 == 0 {
							splitOK = true
						}
					}
				}
			case *ast.Ident:
				if o := info.Uses[x]; o != nil {
					if d, ok := defs[o]; ok {
						findSplit(d, depth+1)
					}
				}
			}
			return true
		})
	}
	findSplit(nameExpr, 0)
	c.Decide(fieldIdxOK && mentionsTagOfIdx(nameExpr, 0) && splitOK, "name-index-agreement", key+"/action", c.Prog.Rel(lit.Pos()),
		"entry i takes its name from the tag of Field(i) (text before the first ':') and its action sets Field(i) through a per-iteration copy of i",
		"the name and the field set by the action are no longer derived from the same field index (or the tag-splitting rule changed)")

	// the closure reads the current features, sets one field, stores them back
	var sawGet, sawSet, sawSetBool bool
	ast.Inspect(lit.Body, func(n ast.Node) bool {
		if call, ok := n.(*ast.CallExpr); ok {
			fn := rules.Callee(info, call)
			switch {
			case rules.IsMethod(fn, pkgPath, "CodeUtils", "Features"):
				sawGet = true
			case rules.IsMethod(fn, pkgPath, "CodeUtils", "SetFeatures"):
				sawSet = true
			case rules.IsMethod(fn, "reflect", "Value", "SetBool"):
				sawSetBool = true
			}
		}
		return true
	})
	c.Decide(sawGet && sawSet && sawSetBool && len(droppedErrors(info, lit.Body)) == 0, "feature-read-modify-write", key+"/action", c.Prog.Rel(lit.Pos()),
		"action = read current Features, SetBool on one field, write back; checkBool's error is returned",
		"the action no longer reads the current features, sets one bool and stores the result (other settings may be reset or the value ignored)")
}

func c20checkBool(c *core.Check, info *types.Info) {
	fd := c.Prog.FuncDecl(golangRel, "checkBool")
	key := "generator/golang.checkBool"
	if fd == nil {
		c.Unknown("anchor", key, "", "missing")
		return
	}
	accept := map[string]string{}
	var sw *ast.SwitchStmt
	for _, s := range fd.Body.List {
		if x, ok := s.(*ast.SwitchStmt); ok {
			sw = x
		}
	}
	if sw == nil || len(fd.Type.Params.List) == 0 {
		c.Unknown("bool-values", key, c.Prog.Rel(fd.Pos()), "no switch over the value found")
		return
	}
	// the tag must be the value parameter (the last parameter name)
	var valueParam types.Object
	for _, f := range fd.Type.Params.List {
		for _, n := range f.Names {
			valueParam = info.Defs[n]
		}
	}
	if rules.ObjOf(info, sw.Tag) != valueParam {
		c.Bad("bool-values", key, c.Prog.Rel(sw.Pos()), "checkBool does not switch on the option's value")
		return
	}
	defaultErr := false
	for _, cc := range sw.Body.List {
		cl := cc.(*ast.CaseClause)
		res := "?"
		for _, s := range cl.Body {
			if rs, ok := s.(*ast.ReturnStmt); ok && len(rs.Results) == 2 {
				tv := info.Types[rs.Results[0]]
				if tv.Value != nil && rules.IsNil(info, rs.Results[1]) {
					res = tv.Value.String()
				} else if !rules.IsNil(info, rs.Results[1]) {
					res = "error"
				}
			}
		}
		if cl.List == nil {
			defaultErr = res == "error"
			continue
		}
		for _, e := range cl.List {
			if s, ok := rules.ConstString(info, e); ok {
				accept[s] = res
			}
		}
	}
	// fallthrough after the switch: must return error
	if !defaultErr {
		last := fd.Body.List[len(fd.Body.List)-1]
		if rs, ok := last.(*ast.ReturnStmt); ok && len(rs.Results) == 2 && !rules.IsNil(info, rs.Results[1]) {
			defaultErr = true
		}
	}
	want := map[string]string{"": "true", "true": "true", "false": "false"}
	c.Decide(reflect.DeepEqual(accept, want) && defaultErr, "bool-values", key, c.Prog.Rel(fd.Pos()),
		`accepts exactly "" and "true" as true, "false" as false; everything else returns an error`,
		fmt.Sprintf("checkBool's accepted values are %v (default is error: %v); documented: empty/true/false only", accept, defaultErr))
}

func c20rejects(c *core.Check, info *types.Info, actions map[string]*ast.FuncLit) {
	hasErrReturn := func(n ast.Node) bool {
		found := false
		ast.Inspect(n, func(x ast.Node) bool {
			if rs, ok := x.(*ast.ReturnStmt); ok && len(rs.Results) == 1 && !rules.IsNil(info, rs.Results[0]) {
				found = true
			}
			return true
		})
		return found
	}
	// use_package: an `if len(parts) < 2 { return error }`
	if fl := actions["use_package"]; fl != nil {
		ok := false
		ast.Inspect(fl.Body, func(n ast.Node) bool {
			if is, isIf := n.(*ast.IfStmt); isIf && hasErrReturn(is.Body) {
				if be, isB := is.Cond.(*ast.BinaryExpr); isB {
					if call, isC := be.X.(*ast.CallExpr); isC && rules.IsBuiltin(info, call, "len") {
						if v, okI := rules.ConstInt(info, be.Y); okI && ((be.Op == token.LSS && v == 2) || (be.Op == token.NEQ && v == 2) || (be.Op == token.LEQ && v == 1)) {
							ok = true
						}
					}
				}
			}
			return true
		})
		c.Decide(ok, "reject", "generator/golang.codeUtilsParams/use_package/malformed", c.Prog.Rel(fl.Pos()), "a value without '=' is rejected with an error", "malformed use_package (no '=') is no longer rejected")
	} else {
		c.Bad("reject", "generator/golang.codeUtilsParams/use_package/malformed", "", "use_package option missing")
	}
	if fl := actions["naming_style"]; fl != nil {
		ok := false
		ast.Inspect(fl.Body, func(n ast.Node) bool {
			if is, isIf := n.(*ast.IfStmt); isIf && hasErrReturn(is.Body) {
				if be, isB := is.Cond.(*ast.BinaryExpr); isB && be.Op == token.EQL && (rules.IsNil(info, be.Y) || rules.IsNil(info, be.X)) {
					ok = true
				}
			}
			return true
		})
		c.Decide(ok, "reject", "generator/golang.codeUtilsParams/naming_style/unknown", c.Prog.Rel(fl.Pos()), "an unknown style (NewNamingStyle == nil) is rejected with an error", "unknown naming style is no longer rejected")
	} else {
		c.Bad("reject", "generator/golang.codeUtilsParams/naming_style/unknown", "", "naming_style option missing")
	}
	// template: UseTemplate must end in an error for unknown names
	if fd := c.Prog.FuncDecl(golangRel, "CodeUtils.UseTemplate"); fd != nil {
		// the store to useTemplate is dominated by a test of the alternative-template table
		// whose "absent" arm returns an error
		ok := false
		var guard *ast.IfStmt
		ast.Inspect(fd.Body, func(n ast.Node) bool {
			is, isIf := n.(*ast.IfStmt)
			if !isIf || !hasErrReturn(is.Body) {
				return true
			}
			ast.Inspect(is.Cond, func(x ast.Node) bool {
				if be, isB := x.(*ast.BinaryExpr); isB && be.Op == token.EQL && rules.IsNil(info, be.Y) {
					if ix, isIx := be.X.(*ast.IndexExpr); isIx {
						if f := rules.FieldOf(info, ix.X); f != nil && f.Name() == "alternative" {
							guard = is
						}
					}
				}
				return true
			})
			return true
		})
		if guard != nil {
			g := rules.CFG(info, fd.Body, nil)
			missed, targets := rules.MustPass(g, func(n ast.Node) bool { return n == guard.Cond }, func(n ast.Node) bool {
				as, isA := n.(*ast.AssignStmt)
				if !isA {
					return false
				}
				f := rules.FieldOf(info, as.Lhs[0])
				return f != nil && f.Name() == "useTemplate"
			})
			ok = len(missed) == 0 && targets > 0
		}
		c.Decide(ok, "reject", "generator/golang.(CodeUtils).UseTemplate/unknown", c.Prog.Rel(fd.Pos()), "the store to useTemplate is dominated by the alternative-table test whose miss arm returns an error", "an unknown template name is no longer rejected")
	} else {
		c.Unknown("anchor", "generator/golang.(CodeUtils).UseTemplate", "", "missing")
	}
}

func c20errFlow(c *core.Check, info *types.Info, pkgPath string) {
	pu := c.Prog.FuncDecl(golangRel, "GoBackend.prepareUtilities")
	if pu == nil {
		c.Unknown("anchor", "generator/golang.(GoBackend).prepareUtilities", "", "missing")
		return
	}
	stored := false
	var errField *types.Var
	ast.Inspect(pu.Body, func(n ast.Node) bool {
		if as, ok := n.(*ast.AssignStmt); ok && len(as.Rhs) == 1 && len(as.Lhs) == 1 {
			if call, ok := as.Rhs[0].(*ast.CallExpr); ok && rules.IsMethod(rules.Callee(info, call), pkgPath, "CodeUtils", "HandleOptions") {
				if f := rules.FieldOf(info, as.Lhs[0]); f != nil && rules.IsErrorType(f.Type()) {
					stored, errField = true, f
				}
			}
		}
		return true
	})
	c.Decide(stored, "options-error-stored", "generator/golang.(GoBackend).prepareUtilities/HandleOptions", c.Prog.Rel(pu.Pos()),
		"HandleOptions' error is stored in the backend's error field", "HandleOptions' error is not stored in the backend")
	if !stored {
		return
	}
	br := c.Prog.FuncDecl(golangRel, "GoBackend.buildResponse")
	if br == nil {
		c.Unknown("anchor", "generator/golang.(GoBackend).buildResponse", "", "missing")
		return
	}
	reads := false
	ast.Inspect(br.Body, func(n ast.Node) bool {
		if is, ok := n.(*ast.IfStmt); ok {
			ast.Inspect(is.Cond, func(x ast.Node) bool {
				if e, ok := x.(ast.Expr); ok && rules.FieldOf(info, e) == errField {
					// body must build an error response
					for _, call := range rules.Calls(is.Body, false) {
						if fn := rules.Callee(info, call); fn != nil && fn.Name() == "BuildErrorResponse" {
							reads = true
						}
					}
				}
				return true
			})
		}
		return true
	})
	c.Decide(reads, "options-error-reported", "generator/golang.(GoBackend).buildResponse/err", c.Prog.Rel(br.Pos()),
		"buildResponse turns the stored error into an error response", "the stored option error is not turned into an error response")
	// Generate: prepareUtilities is called and buildResponse is on every return
	gen := c.Prog.FuncDecl(golangRel, "GoBackend.Generate")
	if gen == nil {
		c.Unknown("anchor", "generator/golang.(GoBackend).Generate", "", "missing")
		return
	}
	allRet, n := true, 0
	ast.Inspect(gen.Body, func(x ast.Node) bool {
		if rs, ok := x.(*ast.ReturnStmt); ok {
			n++
			okR := false
			if len(rs.Results) == 1 {
				if call, ok := rs.Results[0].(*ast.CallExpr); ok && rules.IsMethod(rules.Callee(info, call), pkgPath, "GoBackend", "buildResponse") {
					okR = true
				}
			}
			allRet = allRet && okR
		}
		return true
	})
	c.Decide(allRet && n > 0, "options-error-reported", "generator/golang.(GoBackend).Generate/returns", c.Prog.Rel(gen.Pos()),
		fmt.Sprintf("all %d returns of Generate go through buildResponse", n), "a return of Generate bypasses buildResponse (and with it the stored error)")
	// steps after prepareUtilities must not run with a failed option parse: Features() is read right after.
	// g.utils is assigned before HandleOptions, so the read is nil-safe (checked: assignment precedes call in prepareUtilities).
}

func c20readme(c *core.Check, opts map[string]optInfo, defaultLit *ast.CompositeLit, info *types.Info, st *types.Struct) {
	defaults := map[string]bool{}
	for _, e := range defaultLit.Elts {
		if kv, ok := e.(*ast.KeyValueExpr); ok {
			if id, ok := kv.Key.(*ast.Ident); ok {
				tv := info.Types[kv.Value]
				if tv.Value != nil {
					defaults[id.Name] = tv.Value.String() == "true"
				} else {
					c.Unknown("default-literal", "generator/golang.defaultFeatures/"+id.Name, c.Prog.Rel(kv.Pos()), "default is not a constant")
				}
			}
		}
	}
	b, err := os.ReadFile(filepath.Join(core.RepoDir(), "README.md"))
	if err != nil {
		c.Note("README.md not readable; documentation rows not compared")
		return
	}
	rowRe := regexp.MustCompile("^\\|\\s*`([a-z_0-9]+)(=[^`]*)?`\\s*\\|\\s*([^|]*)\\|")
	inTable := false
	rows := 0
	for i, line := range strings.Split(string(b), "\n") {
		if strings.HasPrefix(line, "### Go backend options") {
			inTable = true
			continue
		}
		if inTable && strings.HasPrefix(line, "## ") {
			break
		}
		if !inTable {
			continue
		}
		m := rowRe.FindStringSubmatch(line)
		if m == nil {
			continue
		}
		rows++
		name, def := m[1], strings.Trim(strings.TrimSpace(m[3]), "*")
		where := fmt.Sprintf("README.md:%d", i+1)
		o, ok := opts[name]
		if !ok {
			c.Bad("readme-row", "README/option/"+name, where, "documented option is not in the backend's option table")
			continue
		}
		if o.feature && (def == "true" || def == "false") {
			if defaults[o.field] != (def == "true") {
				c.Bad("readme-row", "README/option/"+name, where, fmt.Sprintf("documented default %s, defaultFeatures.%s = %v", def, o.field, defaults[o.field]))
				continue
			}
			c.OK("readme-row", "README/option/"+name, where, "listed in the option table; default equals defaultFeatures."+o.field)
		} else {
			c.OKTrivial("readme-row", "README/option/"+name, where, "listed in the option table")
		}
	}
	if rows == 0 {
		c.Note("README option table not found (format changed); documentation rows not compared")
	}
	c.Analysed["readme_rows"] = rows
	_ = st
}
