package props

import (
	"fmt"
	"go/ast"
	"go/token"
	"sort"
	"strings"

	"verif/checker/core"
	"verif/checker/rules"
	"verif/checker/tmpl"
)

func init() { register("C02", c02) }

// serialisation-affecting feature atoms: a flag that starts to influence the Read/Write units must be added consciously.
var c02SerialFlags = map[string]string{
	"Features.ApacheWarning":         "adds a warning call, no protocol event",
	"Features.ApacheAdaptor":         "delegates to the apache adaptor",
	"Features.KeepUnknownFields":     "unknown fields are stored and re-written (C09)",
	"Features.WithFieldMask":         "field-mask filtering (C13)",
	"Features.FieldMaskHalfway":      "field-mask propagation mode (C13)",
	"Features.FieldMaskZeroRequired": "zero value for masked required fields (C13)",
	"Features.ValidateSet":           "adds an error exit for duplicate set elements",
	"Features.GenDeepEqual":          "selects the comparison used by validate_set",
	"Features.ValueTypeForSIC":       "Go-level representation of struct elements in containers",
}

func c02(c *core.Check) {
	c.Explain = "ENUM + TMPL/PATH. (1) Wire tables: category2TypeID (suffix) + GetTypeIDConstant (upper-casing, BINARY->STRING; interpreted from its body) map every category to the binary protocol's wire type; fastgo's three tables, the gopkg constant names and ZeroWriter agree with the same oracle table (external standard). " +
		"(2) On every abstract rendering of StructLikeRead (go/cfg typestate): ReadStructBegin, then per loop iteration ReadFieldBegin, exactly one consumption (p.ReadFieldN | Skip | _unknownFields.Append), ReadFieldEnd; STOP leaves the loop; ReadStructEnd; return nil only then. Each reader call is guarded by fieldTypeId == thrift.<wire type of that field's category per spec>, the else arm skips, the default arm consumes; isset<F> = true follows the reader for required fields and !isset<F> is tested on every path to return nil. " +
		"(3) StructLikeWrite: [union: CountSetFields != 1 error dominates] WriteStructBegin, one writeFieldN call per field in order, [_unknownFields.Write], WriteFieldStop, WriteStructEnd, return nil. " +
		"(4) StructLikeWriteField / StructLikeReadField for every type shape of the domain: WriteFieldBegin(name, thrift.<spec const>, id) .. value .. WriteFieldEnd, the value's protocol-event sequence equals the one prescribed by the shape (scalar method per spec, struct Read/Write, container Begin/elements/End with spec element types and len(target) as count); optional fields are wrapped in IsSet and only they may return without writing; " +
		"(5) the feature atoms consulted inside the Read/Write units are a subset of the frozen serialisation-affecting table. " +
		"NOT decided: byte equality with a reference codec, conversions (int32(enum)), pointer handling, value fidelity."
	c.RuleText = "one obligation per (rule, unit) over all distinct renderings, plus one per table entry; non-trivial = path/typestate/table argument"
	c.Assume = []string{"apache/thrift TProtocol methods implement the binary protocol", "templates are recursive in one context parameter beyond the container-nesting bound"}
	c02tables(c)
	st := tmplEngine(c)
	if st == nil {
		return
	}
	g := "generator/golang"
	noMask := map[string]int{"Features.WithFieldMask": 0, "Features.ApacheAdaptor": 0}
	units := []unit{
		{Set: "default", Def: "StructLikeRead", DotRel: g, DotType: "StructLike", Lists: []int{0, 1, 2}, Fixed: map[string]int{"Features.ApacheAdaptor": 0}},
		{Set: "default", Def: "StructLikeWrite", DotRel: g, DotType: "StructLike", Lists: []int{0, 1, 2}, Cats: []string{"I32", "Struct"}, Fixed: map[string]int{"Features.ApacheAdaptor": 0}},
		{Set: "default", Def: "StructLikeReadField", DotRel: g, DotType: "StructLike", Lists: []int{1}, Fixed: noMask},
		{Set: "default", Def: "StructLikeWriteField", DotRel: g, DotType: "StructLike", Lists: []int{1}, Fixed: noMask},
		// elements of containers are read into storage prepared by InitDefault(), top-level values into NewX(): both must
		// start from the same declared defaults, otherwise Read(ref) shows different values depending on where the struct sits
		{Set: "default", Def: "StructLike", Name: "StructLike(shell)", DotRel: g, DotType: "StructLike", Stub: c02shellStubs, Lists: []int{0, 1, 2}, Cats: []string{"I32", "Struct"}, Fixed: c02shellQuiet},
		{Set: "slim", Def: "StructLike", Name: "StructLike(shell)", DotRel: g, DotType: "StructLike", Stub: c02shellStubs, Lists: []int{0, 1, 2}, Cats: []string{"I32", "Struct"}, Fixed: c02shellQuiet},
	}
	agg := newAggregate()
	atoms := map[string]map[string]bool{}
	var mu sync2
	runUnits(c, st, units, func(r *rendered) {
		k := r.U.key()
		if _, gf := r.R.Err.(*tmpl.GenFailure); gf {
			return // the generator itself refuses this input: no generated code to judge
		}
		if r.R.Err != nil || r.ParseErr != nil {
			agg.check("renders", k)
			agg.fail("renders", k, fmt.Sprintf("under [%s]: %v %v", r.R.Valuation, r.R.Err, r.ParseErr))
			return
		}
		mu.Lock()
		if atoms[k] == nil {
			atoms[k] = map[string]bool{}
		}
		for ck := range r.R.Choices {
			if strings.HasPrefix(ck, "Features.") {
				atoms[k][ck] = true
			}
		}
		mu.Unlock()
		switch r.U.Def {
		case "StructLikeRead":
			c02read(agg, r)
		case "StructLikeWrite":
			c02write(agg, r)
		case "StructLikeWriteField":
			c02writeField(agg, r)
		case "StructLikeReadField":
			c02readField(agg, r)
		case "StructLike":
			sub := newAggregate()
			c06defaults(sub, r)
			relay(sub, agg, "read-storage-defaults-agree", k, []string{"default-siblings"})
			// Write calls CountSetFields<T>() on a union before its own `if p != nil` guard, so the count has to work for a nil
			// receiver: a nil union in a default or required field must be refused ("exactly one member"), not crash
			for _, d := range r.P.File.Decls {
				cf, ok := d.(*ast.FuncDecl)
				if !ok || r.U.Set != "default" || cf.Recv == nil || !strings.HasPrefix(cf.Name.Name, "CountSetFields") || len(cf.Recv.List[0].Names) == 0 {
					continue
				}
				agg.check("union-count-nil-safe", k)
				recv := cf.Recv.List[0].Names[0].Name
				guarded := false
				usesRecv := false
				for _, st := range cf.Body.List {
					if is, ok := st.(*ast.IfStmt); ok && !usesRecv && strings.ReplaceAll(rules.ExprText(is.Cond), " ", "") == recv+"==nil" {
						if len(is.Body.List) > 0 {
							if _, isRet := is.Body.List[len(is.Body.List)-1].(*ast.ReturnStmt); isRet {
								guarded = true
							}
						}
						continue
					}
					ast.Inspect(st, func(m ast.Node) bool {
						if id, ok := m.(*ast.Ident); ok && id.Name == recv {
							usesRecv = true
						}
						return true
					})
					if usesRecv {
						break
					}
				}
				if usesRecv && !guarded {
					agg.fail("union-count-nil-safe", k, "under ["+r.R.Valuation+"]: "+cf.Name.Name+" dereferences its receiver without a nil guard, and the union's Write calls it before testing `p != nil`: writing a struct whose union-typed field is nil (what New<T>() leaves there) panics instead of returning 'exactly one field must be set'")
				}
			}
		}
	})
	agg.flush(c, map[string]string{
		"read-typestate":                   "field loop consumes exactly one value per header; StructBegin..StructEnd..return nil",
		"read-guard":                       "reader guarded by the spec wire type of its field; else arm skips; default arm consumes",
		"read-required":                    "isset set after the reader; tested before return nil",
		"write-typestate":                  "StructBegin, fields in order, [unknown], FieldStop, StructEnd, return nil",
		"write-union-count":                "CountSetFields != 1 error dominates WriteStructBegin",
		"writefield-frame":                 "FieldBegin(name, spec const, id) .. value events of the shape .. FieldEnd; only optional fields may skip",
		"readfield-value":                  "value events equal the shape's prescription; result assigned to the field",
		"container-header":                 "element wire types per spec; count is len(target)",
		"read-struct-initialised":          "struct elements read into zero storage get InitDefault() before Read",
		"read-storage-defaults-agree":      "InitDefault() (container elements) and NewX() (everything else) prepare the same declared defaults",
		"read-present-container-allocated": "a container present on the wire is allocated whatever its size",
		"union-count-nil-safe":             "CountSetFields works on a nil receiver (Write calls it before its nil guard)",
	})
	for _, k := range []string{"read-typestate", "read-guard", "write-typestate", "writefield-frame", "readfield-value", "read-struct-initialised", "read-storage-defaults-agree"} {
		c.Min(k, 1)
	}
	// (5) flags
	var ks []string
	for k := range atoms {
		ks = append(ks, k)
	}
	sort.Strings(ks)
	for _, k := range ks {
		var extra []string
		for a := range atoms[k] {
			if _, ok := c02SerialFlags[a]; !ok {
				extra = append(extra, a)
			}
		}
		sort.Strings(extra)
		c.Decide(len(extra) == 0, "presentation-flags", k, "generator/golang/templates",
			fmt.Sprintf("consults %d feature atoms, all in the serialisation-affecting table", len(atoms[k])),
			fmt.Sprintf("feature(s) %v now influence the Read/Write code although documented as presentation-only", extra))
	}
}

var c02shellStubs = []string{"FieldGetOrSet", "FieldIsSet", "StructLikeRead", "StructLikeReadField", "StructLikeWrite", "StructLikeWriteField", "StructLikeDeepEqual", "StructLikeDeepEqualField"}
var c02shellQuiet = map[string]int{"Features.KeepUnknownFields": 0, "Features.WithFieldMask": 0, "Features.GenerateTypeMeta": 0, "Features.JSONStringer": 0, "Features.ReserveComments": 0, "Features.GenDeepEqual": 0}

// ---- tables
func c02tables(c *core.Check) {
	all := valueCategories
	checkCategoryTable(c, "wire-table", "generator/golang", "category2TypeID", all, func(cat string) (string, bool) { return specByCategory[cat].Method, true })
	num := func(cat string) (string, bool) { return fmt.Sprint(specByCategory[cat].Wire), true }
	checkCategoryTable(c, "wire-table", "generator/fastgo", "category2ThriftWireType", all, num)
	checkCategoryTable(c, "wire-table", "generator/fastgo", "category2WireSize", []string{"Bool", "Byte", "I16", "I32", "I64", "Double", "Enum"}, func(cat string) (string, bool) { return fmt.Sprint(specByCategory[cat].Size), true })
	// gopkg constant names: thrift.X must denote the spec number
	gopkgConst := gopkgThriftConsts(c)
	pk := c.Prog.Pkg("generator/fastgo")
	if pk != nil {
		if init := pkgVarInit(pk, "category2GopkgConsts"); init != nil {
			tab, ok := keyedLiteral(pk.TypesInfo, init)
			cats := categoryValues(c)
			if ok {
				for _, cat := range all {
					key := "generator/fastgo.category2GopkgConsts[" + cat + "]"
					v, present := tab[cats[cat]]
					if !present {
						c.Bad("wire-table", key, c.Prog.Rel(init.Pos()), "no entry")
						continue
					}
					name := strings.TrimPrefix(strings.Trim(v.ExactString(), "\""), "thrift.")
					n, known := gopkgConst[name]
					if !known {
						c.Bad("wire-table", key, c.Prog.Rel(init.Pos()), "thrift."+name+" is not a TType constant of cloudwego/gopkg")
						continue
					}
					c.Decide(n == int64(specByCategory[cat].Wire), "wire-table", key, c.Prog.Rel(init.Pos()), fmt.Sprintf("thrift.%s = %d", name, n), fmt.Sprintf("thrift.%s = %d, the spec requires %d", name, n, specByCategory[cat].Wire))
				}
			} else {
				c.Unknown("wire-table", "generator/fastgo.category2GopkgConsts", "", "not a constant literal")
			}
		}
	}
	// GetTypeIDConstant: interpreted per category through the engine in the renderings (read-guard rule); here its shape
	c02zeroWriter(c)
	c.Min("wire-table", 50)
}

func gopkgThriftConsts(c *core.Check) map[string]int64 {
	out := map[string]int64{}
	for _, pk := range c.Prog.All {
		if pk.PkgPath == "github.com/cloudwego/gopkg/protocol/thrift" && pk.Types != nil {
			sc := pk.Types.Scope()
			for _, n := range sc.Names() {
				if k, ok := sc.Lookup(n).(interface {
					Val() interface{ String() string }
				}); ok {
					_ = k
				}
			}
			for _, n := range sc.Names() {
				if k := sc.Lookup(n); k != nil {
					if kc, ok := k.(interface{ Val() any }); ok {
						_ = kc
					}
				}
			}
			for _, n := range sc.Names() {
				if k, ok := constInt(sc.Lookup(n)); ok {
					out[n] = k
				}
			}
		}
	}
	return out
}

// c02zeroWriter: each arm of ZeroWriter's switch writes with the method of its own category.
func c02zeroWriter(c *core.Check) {
	fd := c.Prog.FuncDecl("generator/golang", "ZeroWriter")
	if fd == nil {
		c.Unknown("anchor", "generator/golang.ZeroWriter", "", "missing")
		return
	}
	info := c.Prog.Pkg("generator/golang").TypesInfo
	sw := firstSwitchOn(fd, "Category")
	if sw == nil {
		c.Unknown("zero-writer", "generator/golang.ZeroWriter", c.Prog.Rel(fd.Pos()), "no switch over the category")
		return
	}
	arms, _ := switchArms(info, sw)
	for _, a := range arms {
		var lits []string
		for _, s := range a.Body {
			ast.Inspect(s, func(n ast.Node) bool {
				if bl, ok := n.(*ast.BasicLit); ok && bl.Kind == token.STRING {
					lits = append(lits, strings.Trim(bl.Value, "\"`"))
				}
				return true
			})
		}
		text := strings.Join(lits, " ")
		for _, n := range a.Names {
			cat := strings.TrimPrefix(n, "Category_")
			sp, ok := specByCategory[cat]
			if !ok {
				continue
			}
			key := "generator/golang.ZeroWriter/case " + cat
			want := ".Write" + sp.Method
			if sp.Method == "Map" || sp.Method == "List" || sp.Method == "Set" || sp.Method == "Struct" {
				want += "Begin"
			}
			c.Decide(strings.Contains(text, want+"("), "zero-writer", key, c.Prog.Rel(a.Pos), "writes with "+want, "the zero value of a "+cat+" is not written with "+want+": wrong wire encoding for a masked required field")
		}
	}
}

// ---- StructLikeRead
var readAutomaton = rules.NewAutomaton("S0",
	"S0 ReadStructBegin S1", "S1 ReadFieldBegin S2",
	"S2 FIELD-READ S3", "S2 Skip S3", "S2 UNKNOWN-APPEND S3", "S2 ReadStructEnd S4",
	"S3 ReadFieldEnd S1", "S4 RETNIL S5")

func c02read(agg *aggregate, r *rendered) {
	k := r.U.key()
	fd := findFunc(r.P.File, "Read")
	agg.check("read-typestate", k)
	if fd == nil {
		agg.fail("read-typestate", k, "no Read method rendered under ["+r.R.Valuation+"]")
		return
	}
	g := rules.CFG(r.P.Info, fd.Body, nil)
	for _, v := range rules.RunTypestate(g, readAutomaton, protoEvents) {
		agg.fail("read-typestate", k, fmt.Sprintf("under [%s]: %s (protocol: StructBegin (FieldBegin consume FieldEnd)* StructEnd return-nil)", r.R.Valuation, v))
	}
	fields := fieldsOf(r)
	// per field case
	var sw *ast.SwitchStmt
	ast.Inspect(fd.Body, func(n ast.Node) bool {
		if s, ok := n.(*ast.SwitchStmt); ok && sw == nil {
			sw = s
		}
		return true
	})
	agg.check("read-guard", k)
	keep := r.R.Choices["Features.KeepUnknownFields"] == 1
	if len(fields) > 0 || keep {
		if sw == nil {
			agg.fail("read-guard", k, "under ["+r.R.Valuation+"]: no switch over the field id although the struct has fields")
			return
		}
		seen := map[string]bool{}
		hasDefault := false
		for _, cc := range sw.Body.List {
			cl := cc.(*ast.CaseClause)
			if cl.List == nil {
				hasDefault = true
				evs := nodeEvents(cl.Body)
				want := "Skip"
				if keep {
					want = "UNKNOWN-APPEND"
				}
				if len(evs) != 1 || evs[0] != want {
					agg.fail("read-guard", k, fmt.Sprintf("under [%s]: the unknown-id arm performs %v, expected exactly %s", r.R.Valuation, evs, want))
				}
				continue
			}
			id := rules.ExprText(cl.List[0])
			var f *fieldInfo
			for i := range fields {
				if fields[i].ID == id {
					f = &fields[i]
				}
			}
			if f == nil {
				agg.fail("read-guard", k, fmt.Sprintf("under [%s]: case %s matches no field id", r.R.Valuation, id))
				continue
			}
			seen[id] = true
			// if fieldTypeId == thrift.CONST { reader } else if Skip
			okShape := false
			if len(cl.Body) == 1 {
				if is, ok := cl.Body[0].(*ast.IfStmt); ok {
					if be, ok := is.Cond.(*ast.BinaryExpr); ok && be.Op == token.EQL && rules.ExprText(be.X) == "fieldTypeId" {
						got := thriftConstArg(be.Y)
						want := specByCategory[f.Shape.Cat].Const
						if got != want && !(got == "I08" && want == "BYTE") {
							agg.fail("read-guard", k, fmt.Sprintf("under [%s]: field of category %s is read when fieldTypeId == thrift.%s, the binary protocol says thrift.%s", r.R.Valuation, f.Shape.Cat, got, want))
						}
						thenEv := nodeEvents(is.Body.List)
						var elseEv []string
						if is.Else != nil {
							elseEv = nodeEvents([]ast.Stmt{is.Else})
						}
						readerOK := len(thenEv) == 1 && thenEv[0] == "FIELD-READ" && len(callsNamed(is.Body, "p", f.Reader)) == 1
						if readerOK && len(elseEv) == 1 && elseEv[0] == "Skip" {
							okShape = true
						}
						// required: isset = true after the reader inside the then-arm
						if f.Req == "Required" {
							agg.check("read-required", k)
							set := false
							ast.Inspect(is.Body, func(n ast.Node) bool {
								if as, ok := n.(*ast.AssignStmt); ok && len(as.Lhs) == 1 && rules.ExprText(as.Lhs[0]) == "isset"+f.GoName && rules.ExprText(as.Rhs[0]) == "true" {
									set = true
								}
								return true
							})
							if !set {
								agg.fail("read-required", k, fmt.Sprintf("under [%s]: isset%s is not set to true after the reader: a present required field is reported missing", r.R.Valuation, f.GoName))
							}
						}
					}
				}
			}
			if !okShape {
				agg.fail("read-guard", k, fmt.Sprintf("under [%s]: case %s is not `if fieldTypeId == thrift.T { p.reader(iprot) } else Skip`: a field with a mismatching wire type is not skipped", r.R.Valuation, id))
			}
		}
		for _, f := range fields {
			if !seen[f.ID] {
				agg.fail("read-guard", k, fmt.Sprintf("under [%s]: field %d has no case in the id switch", r.R.Valuation, f.Idx))
			}
		}
		if !hasDefault {
			agg.fail("read-guard", k, "under ["+r.R.Valuation+"]: the id switch has no default arm: unknown fields are not consumed")
		}
	}
	// required fields: !isset test on every path to return nil
	for _, f := range fields {
		if f.Req != "Required" {
			continue
		}
		agg.check("read-required", k)
		name := "isset" + f.GoName
		missed, targets := rules.MustPass(g, func(n ast.Node) bool {
			u, ok := n.(*ast.UnaryExpr)
			return ok && u.Op == token.NOT && rules.ExprText(u.X) == name
		}, isNilReturn)
		if targets == 0 || len(missed) > 0 {
			agg.fail("read-required", k, fmt.Sprintf("under [%s]: return nil is reachable without testing %s: a missing required field is not reported", r.R.Valuation, name))
		}
	}
}

func nodeEvents(stmts []ast.Stmt) []string {
	var out []string
	for _, s := range stmts {
		out = append(out, protoEvents(s)...)
	}
	return out
}

// ---- StructLikeWrite
var writeAutomaton = rules.NewAutomaton("W0",
	"W0 WriteStructBegin W1", "W1 FIELD-WRITE W1", "W1 UNKNOWN-WRITE W2", "W1 WriteFieldStop W3", "W2 WriteFieldStop W3",
	"W3 WriteStructEnd W4", "W4 RETNIL W5")

func c02write(agg *aggregate, r *rendered) {
	k := r.U.key()
	fd := findFunc(r.P.File, "Write")
	agg.check("write-typestate", k)
	if fd == nil {
		agg.fail("write-typestate", k, "no Write method rendered under ["+r.R.Valuation+"]")
		return
	}
	g := rules.CFG(r.P.Info, fd.Body, nil)
	for _, v := range rules.RunTypestate(g, writeAutomaton, protoEvents) {
		agg.fail("write-typestate", k, fmt.Sprintf("under [%s]: %s", r.R.Valuation, v))
	}
	fields := fieldsOf(r)
	// one writer call per field, in order
	var got []string
	ast.Inspect(fd.Body, func(n ast.Node) bool {
		if recv, name, call, ok := rules.SelectorCall(n); ok && recv == "p" && strings.HasPrefix(name, "Φ") && len(call.Args) == 1 && rules.ExprText(call.Args[0]) == "oprot" {
			got = append(got, name)
		}
		return true
	})
	var want []string
	for _, f := range fields {
		want = append(want, f.Writer)
	}
	if strings.Join(got, ",") != strings.Join(want, ",") {
		agg.fail("write-typestate", k, fmt.Sprintf("under [%s]: Write calls writers %v, the struct's fields are %v: a field is dropped, duplicated or reordered", r.R.Valuation, got, want))
	}
	if r.R.Choices["Features.KeepUnknownFields"] == 1 {
		if len(callsNamed(fd.Body, "p._unknownFields", "Write")) != 1 {
			agg.fail("write-typestate", k, "under ["+r.R.Valuation+"]: keep_unknown_fields is on but Write does not emit _unknownFields exactly once")
		}
	}
	// union: count check dominates WriteStructBegin
	isUnion := false
	for ck, v := range r.R.Choices {
		if strings.HasPrefix(ck, "eq:") && strings.HasSuffix(ck, "==union") && v == 1 {
			isUnion = true
		}
	}
	if isUnion {
		agg.check("write-union-count", k)
		missed, targets := rules.MustPass(g, func(n ast.Node) bool {
			be, ok := n.(*ast.BinaryExpr)
			if !ok || be.Op != token.NEQ || rules.ExprText(be.Y) != "1" {
				return false
			}
			return true
		}, func(n ast.Node) bool {
			_, name, _, ok := rules.SelectorCall(n)
			return ok && name == "WriteStructBegin"
		})
		cnt := 0
		ast.Inspect(fd.Body, func(n ast.Node) bool {
			if _, name, _, ok := rules.SelectorCall(n); ok && strings.HasPrefix(name, "CountSetFields") {
				cnt++
			}
			return true
		})
		if targets == 0 || len(missed) > 0 || cnt == 0 {
			agg.fail("write-union-count", k, "under ["+r.R.Valuation+"]: a union is written without first rejecting a set-field count != 1")
		}
	}
}

// ---- StructLikeWriteField
func c02writeField(agg *aggregate, r *rendered) {
	k := r.U.key()
	fields := fieldsOf(r)
	if len(fields) != 1 || fields[0].Shape == nil {
		return
	}
	f := fields[0]
	fd := findFunc(r.P.File, f.Writer)
	agg.check("writefield-frame", k)
	if fd == nil {
		agg.fail("writefield-frame", k, "under ["+r.R.Valuation+"]: writer method not rendered")
		return
	}
	a := rules.NewAutomaton("F0", "F0 WriteFieldBegin F1")
	n := 0
	end := valueAutomaton(a, "F1", f.Shape, "W", &n)
	a.Trans[end] = mergeTrans(a.Trans[end], map[string]string{"WriteFieldEnd": "F2"})
	a.Alphabet["WriteFieldEnd"] = true
	a.Trans["F2"] = map[string]string{"RETNIL": "F3"}
	a.Alphabet["RETNIL"] = true
	if f.Req == "Optional" {
		a.Trans["F0"]["RETNIL"] = "F3"
	}
	// every W:* / WB / WE event is in the alphabet so that a wrong method is a violation
	for _, m := range []string{"Bool", "Byte", "I16", "I32", "I64", "Double", "String", "Binary", "Struct"} {
		a.Alphabet["W:"+m] = true
	}
	for _, m := range []string{"Map", "List", "Set"} {
		a.Alphabet["WB:"+m] = true
		a.Alphabet["WE:"+m] = true
	}
	g := rules.CFG(r.P.Info, fd.Body, nil)
	for _, v := range rules.RunTypestate(g, a, protoEvents) {
		agg.fail("writefield-frame", k, fmt.Sprintf("under [%s] shape %s %s: %s", r.R.Valuation, f.Shape, f.Req, v))
	}
	// header
	fbs := callsNamed(fd.Body, "oprot", "WriteFieldBegin")
	if len(fbs) == 0 {
		agg.fail("writefield-frame", k, "under ["+r.R.Valuation+"]: no WriteFieldBegin")
	}
	for _, fb := range fbs {
		if len(fb.Args) != 3 {
			agg.fail("writefield-frame", k, "WriteFieldBegin arity")
			continue
		}
		got := thriftConstArg(fb.Args[1])
		want := specByCategory[f.Shape.Cat].Const
		if got != want && !(got == "I08" && want == "BYTE") {
			agg.fail("writefield-frame", k, fmt.Sprintf("under [%s]: field of category %s is announced as thrift.%s, the binary protocol says thrift.%s", r.R.Valuation, f.Shape.Cat, got, want))
		}
		if rules.ExprText(fb.Args[2]) != f.ID {
			agg.fail("writefield-frame", k, fmt.Sprintf("under [%s]: WriteFieldBegin id argument is %s, the field's id is %s", r.R.Valuation, rules.ExprText(fb.Args[2]), f.ID))
		}
		if !strings.Contains(rules.ExprText(fb.Args[0]), f.Name) {
			agg.fail("writefield-frame", k, fmt.Sprintf("under [%s]: WriteFieldBegin name argument %s is not the field's IDL name", r.R.Valuation, rules.ExprText(fb.Args[0])))
		}
	}
	// optional <=> wrapped in IsSet
	wrapped := false
	ast.Inspect(fd.Body, func(nd ast.Node) bool {
		if is, ok := nd.(*ast.IfStmt); ok {
			if recv, name, _, ok := rules.SelectorCall(is.Cond); ok && recv == "p" && name == f.IsSet {
				wrapped = true
			}
		}
		return true
	})
	if (f.Req == "Optional") != wrapped {
		agg.fail("writefield-frame", k, fmt.Sprintf("under [%s]: requiredness %s but IsSet guard present=%v (optional fields are written iff set; others always)", r.R.Valuation, f.Req, wrapped))
	}
	c02containerHeaders(agg, r, fd, f.Shape, "W")
}

func mergeTrans(a, b map[string]string) map[string]string {
	if a == nil {
		a = map[string]string{}
	}
	for k, v := range b {
		a[k] = v
	}
	return a
}

// c02containerHeaders: element wire-type constants of every container header match the shape (pre-order), and on write the
// count argument is len(<something>) when no mask is involved.
func c02containerHeaders(agg *aggregate, r *rendered, fd *ast.FuncDecl, s *shape, dir string) {
	k := r.U.key()
	var want [][]string
	var walk func(s *shape)
	walk = func(s *shape) {
		if s == nil || !s.isContainer() {
			return
		}
		if s.Cat == "Map" {
			want = append(want, []string{"Map", specByCategory[s.Key.Cat].Const, specByCategory[s.Val.Cat].Const})
			walk(s.Key)
		} else {
			want = append(want, []string{s.Cat, specByCategory[s.Val.Cat].Const})
		}
		walk(s.Val)
	}
	walk(s)
	if dir != "W" || len(want) == 0 {
		return
	}
	agg.check("container-header", k)
	var got [][]string
	ast.Inspect(fd.Body, func(n ast.Node) bool {
		recv, name, call, ok := rules.SelectorCall(n)
		if !ok || recv != "oprot" || !strings.HasSuffix(name, "Begin") || name == "WriteFieldBegin" || name == "WriteStructBegin" {
			return true
		}
		kind := strings.TrimSuffix(strings.TrimPrefix(name, "Write"), "Begin")
		row := []string{kind}
		for _, a := range call.Args[:len(call.Args)-1] {
			row = append(row, thriftConstArg(a))
		}
		cnt := rules.ExprText(call.Args[len(call.Args)-1])
		if !strings.HasPrefix(cnt, "len()") && !strings.HasPrefix(cnt, "len") {
			agg.fail("container-header", k, fmt.Sprintf("under [%s]: %s count argument is %s, expected len(target) when no mask applies", r.R.Valuation, name, cnt))
		}
		got = append(got, row)
		return true
	})
	norm := func(rows [][]string) string {
		var ss []string
		for _, r := range rows {
			ss = append(ss, strings.ReplaceAll(strings.Join(r, ":"), "I08", "BYTE"))
		}
		return strings.Join(ss, " ")
	}
	if norm(got) != norm(want) {
		agg.fail("container-header", k, fmt.Sprintf("under [%s] shape %s: container headers announce %s, the shape requires %s", r.R.Valuation, s, norm(got), norm(want)))
	}
}

// ---- StructLikeReadField
func c02readField(agg *aggregate, r *rendered) {
	k := r.U.key()
	fields := fieldsOf(r)
	if len(fields) != 1 || fields[0].Shape == nil {
		return
	}
	f := fields[0]
	fd := findFunc(r.P.File, f.Reader)
	agg.check("readfield-value", k)
	if fd == nil {
		agg.fail("readfield-value", k, "under ["+r.R.Valuation+"]: reader method not rendered")
		return
	}
	a := rules.NewAutomaton("V0")
	n := 0
	end := valueAutomaton(a, "V0", f.Shape, "R", &n)
	a.Trans[end] = mergeTrans(a.Trans[end], map[string]string{"RETNIL": "DONE"})
	a.Alphabet["RETNIL"] = true
	for _, m := range []string{"Bool", "Byte", "I16", "I32", "I64", "Double", "String", "Binary", "Struct"} {
		a.Alphabet["R:"+m] = true
	}
	for _, m := range []string{"Map", "List", "Set"} {
		a.Alphabet["RB:"+m] = true
		a.Alphabet["RE:"+m] = true
	}
	g := rules.CFG(r.P.Info, fd.Body, nil)
	for _, v := range rules.RunTypestate(g, a, protoEvents) {
		agg.fail("readfield-value", k, fmt.Sprintf("under [%s] shape %s: %s", r.R.Valuation, f.Shape, v))
	}
	// a struct element that is read into freshly allocated zero storage (`x := &values[i]`) must be given its declared
	// defaults before Read fills in what is on the wire: fields absent from the data would otherwise hold zero instead of the
	// default (and optional ones would report themselves set). Elements made by NewT() already carry the defaults.
	ast.Inspect(fd.Body, func(nd ast.Node) bool {
		var list []ast.Stmt
		switch b := nd.(type) {
		case *ast.BlockStmt:
			list = b.List
		case *ast.CaseClause:
			list = b.Body
		default:
			return true
		}
		for i, s := range list {
			as, ok := s.(*ast.AssignStmt)
			if !ok || as.Tok != token.DEFINE || len(as.Lhs) != 1 || len(as.Rhs) != 1 {
				continue
			}
			id, ok := as.Lhs[0].(*ast.Ident)
			if !ok {
				continue
			}
			ue, ok := as.Rhs[0].(*ast.UnaryExpr)
			if !ok || ue.Op != token.AND {
				continue
			}
			if _, ok := ue.X.(*ast.IndexExpr); !ok {
				continue
			}
			reads, inits := false, false
			for _, later := range list[i+1:] {
				for _, call := range rules.NodeCalls(later) {
					if se, ok := call.Fun.(*ast.SelectorExpr); ok && rules.ExprText(se.X) == id.Name {
						switch se.Sel.Name {
						case "InitDefault":
							if !reads {
								inits = true
							}
						case "Read":
							reads = true
						}
					}
				}
			}
			if reads {
				agg.check("read-struct-initialised", k)
				if !inits {
					agg.fail("read-struct-initialised", k, fmt.Sprintf("under [%s] shape %s: %s is read into zero storage (%s) without InitDefault(): fields absent on the wire end up zero instead of their declared default", r.R.Valuation, f.Shape, id.Name, rules.ExprText(as.Rhs[0])))
				}
			}
		}
		return true
	})
	// a container that is present on the wire is allocated whatever its size: IsSet of an optional container is `!= nil`, so
	// an empty map left nil reads back as "unset" (and a getter answers the declared default instead of the empty value).
	// In the statement list that holds a Read<Map|List|Set>Begin call, a `make(…)` is assigned unconditionally afterwards.
	ast.Inspect(fd.Body, func(nd ast.Node) bool {
		var list []ast.Stmt
		switch b := nd.(type) {
		case *ast.BlockStmt:
			list = b.List
		case *ast.CaseClause:
			list = b.Body
		default:
			return true
		}
		for i, st := range list {
			begins := false
			if as, ok := st.(*ast.AssignStmt); ok && len(as.Rhs) == 1 {
				if _, name, _, ok := rules.SelectorCall(as.Rhs[0]); ok && (name == "ReadMapBegin" || name == "ReadListBegin" || name == "ReadSetBegin") {
					begins = true
				}
			}
			if !begins {
				continue
			}
			agg.check("read-present-container-allocated", k)
			made := false
			for _, later := range list[i+1:] {
				var rhs []ast.Expr
				switch x := later.(type) {
				case *ast.AssignStmt:
					if len(x.Lhs) == 1 && rules.ExprText(x.Lhs[0]) != "values" {
						rhs = x.Rhs
					}
				case *ast.DeclStmt:
					if gd, ok := x.Decl.(*ast.GenDecl); ok {
						for _, sp := range gd.Specs {
							if vs, ok := sp.(*ast.ValueSpec); ok {
								rhs = append(rhs, vs.Values...)
							}
						}
					}
				}
				for _, e := range rhs {
					if call, ok := e.(*ast.CallExpr); ok && rules.ExprText(call.Fun) == "make" {
						made = true
					}
				}
			}
			if !made {
				agg.fail("read-present-container-allocated", k, fmt.Sprintf("under [%s] shape %s: after %s the container is not allocated unconditionally: an empty container that is present in the data is left nil, so an optional field reads back as unset and Write(Read(x)) drops it", r.R.Valuation, f.Shape, rules.ExprText(st.(*ast.AssignStmt).Rhs[0])))
			}
		}
		return true
	})
	// the value read is stored into the field
	assigned := false
	ast.Inspect(fd.Body, func(nd ast.Node) bool {
		if as, ok := nd.(*ast.AssignStmt); ok && len(as.Lhs) == 1 && rules.ExprText(as.Lhs[0]) == "p."+f.GoName {
			assigned = true
		}
		return true
	})
	if !assigned {
		agg.fail("readfield-value", k, fmt.Sprintf("under [%s]: the reader never assigns p.%s", r.R.Valuation, f.GoName))
	}
}

var _ = core.Module
