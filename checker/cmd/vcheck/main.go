// vcheck decides one property of cloudwego/thriftgo by static analysis of the
// current /repo working tree.
package main

import (
	"encoding/json"
	"flag"
	"fmt"
	"os"
	"runtime/debug"
	"sort"

	"verif/checker/core"
	"verif/checker/props"
)

func main() {
	tier := flag.String("tier", "", "quick|thorough")
	explain := flag.String("explain", "", "print a violations file in readable form")
	flag.CommandLine.Parse(reorder(os.Args[1:]))
	if *tier == "" {
		*tier = os.Getenv("VERIF_TIER")
	}
	if *tier != "thorough" {
		*tier = "quick"
	}
	args := flag.Args()
	if *explain != "" {
		b, err := os.ReadFile(*explain)
		if err != nil {
			fmt.Println(err)
			os.Exit(2)
		}
		var v struct {
			Property   string
			Violations []core.Obligation
		}
		_ = json.Unmarshal(b, &v)
		for _, o := range v.Violations {
			fmt.Printf("%s %s\n  at %s\n  %s\n", o.StatusText, o.Key, o.Where, o.Fact)
		}
		if len(args) == 0 {
			return
		}
	}
	if len(args) == 0 {
		fmt.Println("usage: vcheck <Cxx>|all [--tier quick|thorough]")
		os.Exit(2)
	}
	var ids []string
	if args[0] == "all" {
		for id := range props.Registry {
			ids = append(ids, id)
		}
		sort.Strings(ids)
	} else {
		ids = args
	}
	if args[0] == "render" {
		prog, err := core.Load()
		if err != nil {
			fmt.Println(err)
			os.Exit(2)
		}
		max, filter := 3, ""
		if len(args) > 3 {
			fmt.Sscan(args[3], &max)
		}
		if len(args) > 4 {
			filter = args[4]
		}
		props.RenderDebug(prog, args[1], args[2], max, filter)
		return
	}
	prog, err := core.Load()
	if err != nil {
		// fail closed for each requested property
		for _, id := range ids {
			c := core.NewCheck(id, *tier, nil)
			c.Explain = "repository failed to load"
			c.Unknown("load", "repository", "", err.Error())
			c.Finish()
		}
		os.Exit(1)
	}
	code := 0
	for _, id := range ids {
		f, ok := props.Registry[id]
		if !ok {
			fmt.Println("unknown property", id)
			os.Exit(2)
		}
		c := core.NewCheck(id, *tier, prog)
		func() {
			defer func() {
				if r := recover(); r != nil {
					c.Unknown("panic", "checker", "", fmt.Sprintf("checker panic: %v\n%s", r, debug.Stack()))
				}
			}()
			f(c)
		}()
		if rc := c.Finish(); rc != 0 {
			code = 1
		}
	}
	os.Exit(code)
}

// reorder lets flags follow positional arguments.
func reorder(a []string) []string {
	var fl, pos []string
	for i := 0; i < len(a); i++ {
		if len(a[i]) > 1 && a[i][0] == '-' {
			fl = append(fl, a[i])
			if i+1 < len(a) && !contains(a[i], '=') {
				fl = append(fl, a[i+1])
				i++
			}
		} else {
			pos = append(pos, a[i])
		}
	}
	return append(fl, pos...)
}

func contains(s string, c byte) bool {
	for i := 0; i < len(s); i++ {
		if s[i] == c {
			return true
		}
	}
	return false
}
