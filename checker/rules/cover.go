package rules

import (
	"go/ast"
	"go/token"
	"go/types"
	"strings"
)

// FieldAccess is one read (or write) of a struct field found in a function.
type FieldAccess struct {
	Type, Field string
	Write       bool
	Pos         token.Pos
	Func        string
	InCalls     []string // FuncID of every call whose argument list (transitively) contains the access
	Via         string   // "field" or the getter method name
}

// CollectAccesses lists accesses to fields of named struct types declared in package pkgPath inside body.
// Getter methods GetX / IsSetX on those types count as reads of X.
func CollectAccesses(info *types.Info, body ast.Node, pkgPath, fn string) []FieldAccess {
	var out []FieldAccess
	var stack []ast.Node
	writes := map[*ast.SelectorExpr]bool{}
	ast.Inspect(body, func(n ast.Node) bool {
		if as, ok := n.(*ast.AssignStmt); ok {
			for _, l := range as.Lhs {
				if sel, ok := ast.Unparen(l).(*ast.SelectorExpr); ok {
					writes[sel] = true
				}
			}
		}
		return true
	})
	enclosingCalls := func() []string {
		var ids []string
		for _, s := range stack {
			if c, ok := s.(*ast.CallExpr); ok {
				if f := Callee(info, c); f != nil {
					ids = append(ids, FuncID(f))
				}
			}
		}
		return ids
	}
	ast.Inspect(body, func(n ast.Node) bool {
		if n == nil {
			stack = stack[:len(stack)-1]
			return false
		}
		switch x := n.(type) {
		case *ast.SelectorExpr:
			if sel, ok := info.Selections[x]; ok {
				switch sel.Kind() {
				case types.FieldVal:
					v := sel.Obj().(*types.Var)
					if owner := fieldOwner(sel); owner != nil && owner.Obj().Pkg() != nil && owner.Obj().Pkg().Path() == pkgPath {
						out = append(out, FieldAccess{Type: owner.Obj().Name(), Field: v.Name(), Write: writes[x], Pos: x.Pos(), Func: fn, InCalls: enclosingCalls(), Via: "field"})
					}
				case types.MethodVal:
					m := sel.Obj().(*types.Func)
					rt := NamedOf(sel.Recv())
					if rt != nil && rt.Obj().Pkg() != nil && rt.Obj().Pkg().Path() == pkgPath {
						for _, p := range []string{"Get", "IsSet"} {
							if strings.HasPrefix(m.Name(), p) {
								f := strings.TrimPrefix(m.Name(), p)
								if st, ok := rt.Underlying().(*types.Struct); ok {
									for i := 0; i < st.NumFields(); i++ {
										if st.Field(i).Name() == f {
											out = append(out, FieldAccess{Type: rt.Obj().Name(), Field: f, Pos: x.Pos(), Func: fn, InCalls: enclosingCalls(), Via: m.Name()})
										}
									}
								}
							}
						}
					}
				}
			}
		}
		stack = append(stack, n)
		return true
	})
	return out
}

// fieldOwner returns the named struct type that declares the selected field (through embedding).
func fieldOwner(sel *types.Selection) *types.Named {
	t := sel.Recv()
	idx := sel.Index()
	for i, ix := range idx {
		n := NamedOf(t)
		if n == nil {
			return nil
		}
		st, ok := n.Underlying().(*types.Struct)
		if !ok {
			return nil
		}
		if i == len(idx)-1 {
			return n
		}
		t = st.Field(ix).Type()
	}
	return nil
}
