// Package rules holds the generic, repository-independent rule engines.
package rules

import (
	"go/ast"
	"go/constant"
	"go/token"
	"go/types"
	"strings"

	"golang.org/x/tools/go/cfg"
	"golang.org/x/tools/go/types/typeutil"
)

// Callee resolves a call through type information (never by name alone).
func Callee(info *types.Info, call *ast.CallExpr) *types.Func {
	if f, ok := typeutil.Callee(info, call).(*types.Func); ok {
		return f
	}
	return nil
}

// IsBuiltin reports whether call invokes the named builtin.
func IsBuiltin(info *types.Info, call *ast.CallExpr, name string) bool {
	id, ok := ast.Unparen(call.Fun).(*ast.Ident)
	if !ok {
		return false
	}
	b, ok := info.Uses[id].(*types.Builtin)
	return ok && b.Name() == name
}

// IsPkgFunc reports whether fn is the package-level function pkgPath.name.
func IsPkgFunc(fn *types.Func, pkgPath, name string) bool {
	if fn == nil || fn.Pkg() == nil {
		return false
	}
	sig := fn.Type().(*types.Signature)
	return sig.Recv() == nil && fn.Pkg().Path() == pkgPath && fn.Name() == name
}

// IsMethod reports whether fn is method name on named type pkgPath.typ (pointer or value receiver).
func IsMethod(fn *types.Func, pkgPath, typ, name string) bool {
	if fn == nil || fn.Name() != name {
		return false
	}
	sig := fn.Type().(*types.Signature)
	if sig.Recv() == nil {
		return false
	}
	t := sig.Recv().Type()
	if p, ok := t.(*types.Pointer); ok {
		t = p.Elem()
	}
	n, ok := t.(*types.Named)
	if !ok || n.Obj().Pkg() == nil {
		return false
	}
	return n.Obj().Pkg().Path() == pkgPath && n.Obj().Name() == typ
}

// Inspect walks n without descending into function literals (unless lits).
func Inspect(n ast.Node, lits bool, f func(ast.Node) bool) {
	if n == nil {
		return
	}
	ast.Inspect(n, func(x ast.Node) bool {
		if x == nil {
			return false
		}
		if _, ok := x.(*ast.FuncLit); ok && !lits && x != n {
			return false
		}
		return f(x)
	})
}

// Calls lists call expressions under n in source order.
func Calls(n ast.Node, lits bool) []*ast.CallExpr {
	var out []*ast.CallExpr
	Inspect(n, lits, func(x ast.Node) bool {
		if c, ok := x.(*ast.CallExpr); ok {
			out = append(out, c)
		}
		return true
	})
	return out
}

// ConstString returns the constant string value of e.
func ConstString(info *types.Info, e ast.Expr) (string, bool) {
	tv, ok := info.Types[e]
	if !ok || tv.Value == nil || tv.Value.Kind() != constant.String {
		return "", false
	}
	return constant.StringVal(tv.Value), true
}

// ConstInt returns the constant integer value of e.
func ConstInt(info *types.Info, e ast.Expr) (int64, bool) {
	tv, ok := info.Types[e]
	if !ok || tv.Value == nil {
		return 0, false
	}
	v := constant.ToInt(tv.Value)
	if v.Kind() != constant.Int {
		return 0, false
	}
	return constant.Int64Val(v)
}

// IsNil reports whether e is the predeclared nil.
func IsNil(info *types.Info, e ast.Expr) bool {
	tv, ok := info.Types[e]
	return ok && tv.IsNil()
}

// IsErrorType reports whether t is the predeclared error interface.
func IsErrorType(t types.Type) bool {
	return t != nil && types.Identical(t, types.Universe.Lookup("error").Type())
}

// NoReturn reports whether a call never returns: panic, os.Exit, log.Fatal*,
// and any extra functions named by key (rules.FuncID).
func NoReturn(info *types.Info, extra map[string]bool) func(*ast.CallExpr) bool {
	return func(call *ast.CallExpr) bool {
		if IsBuiltin(info, call, "panic") {
			return true
		}
		fn := Callee(info, call)
		if fn == nil {
			return false
		}
		if IsPkgFunc(fn, "os", "Exit") {
			return true
		}
		if fn.Pkg() != nil && fn.Pkg().Path() == "log" && strings.HasPrefix(fn.Name(), "Fatal") {
			return true
		}
		return extra[FuncID(fn)]
	}
}

// FuncID renders pkgpath.(Recv).Name.
func FuncID(fn *types.Func) string {
	if fn == nil {
		return ""
	}
	p := ""
	if fn.Pkg() != nil {
		p = fn.Pkg().Path()
	}
	sig := fn.Type().(*types.Signature)
	if sig.Recv() != nil {
		t := sig.Recv().Type()
		if pt, ok := t.(*types.Pointer); ok {
			t = pt.Elem()
		}
		if n, ok := t.(*types.Named); ok {
			return p + ".(" + n.Obj().Name() + ")." + fn.Name()
		}
	}
	return p + "." + fn.Name()
}

// CFG builds the control-flow graph of a function body.
func CFG(info *types.Info, body *ast.BlockStmt, extraNoReturn map[string]bool) *cfg.CFG {
	nr := NoReturn(info, extraNoReturn)
	return cfg.New(body, func(c *ast.CallExpr) bool { return !nr(c) })
}

// MustPass computes, for every node for which isTarget holds, whether every
// path from the entry to it passes a node for which isEvent holds. It returns
// the targets that can be reached without the event. Nodes are visited in
// execution order within a block; sub-expressions of a node are searched
// (function literals excluded).
func MustPass(g *cfg.CFG, isEvent, isTarget func(ast.Node) bool) (missed []ast.Node, targets int) {
	n := len(g.Blocks)
	in := make([]bool, n) // true = event seen on all paths reaching block entry
	for i := range in {
		in[i] = true
	}
	if n == 0 {
		return nil, 0
	}
	in[0] = false
	reach := make([]bool, n)
	reach[0] = true
	hasEvent := func(nd ast.Node) bool {
		found := false
		Inspect(nd, false, func(x ast.Node) bool {
			if isEvent(x) {
				found = true
			}
			return !found
		})
		return found
	}
	blockOut := func(b *cfg.Block, st bool) bool {
		for _, nd := range b.Nodes {
			if !st && hasEvent(nd) {
				st = true
			}
		}
		return st
	}
	preds := make([][]int, n)
	for _, b := range g.Blocks {
		for _, s := range b.Succs {
			preds[s.Index] = append(preds[s.Index], int(b.Index))
		}
	}
	for changed := true; changed; {
		changed = false
		for _, b := range g.Blocks {
			i := int(b.Index)
			if i != 0 {
				r, v := false, true
				for _, p := range preds[i] {
					if reach[p] {
						r = true
						v = v && blockOut(g.Blocks[p], in[p])
					}
				}
				if r != reach[i] || (r && v != in[i]) {
					reach[i], changed = r, true
					if r {
						in[i] = v
					}
				}
			}
		}
	}
	for _, b := range g.Blocks {
		if !reach[b.Index] {
			continue
		}
		st := in[b.Index]
		for _, nd := range b.Nodes {
			// target inside the node is evaluated before/with the event of the same node only
			// if the target is a sub-node preceding it; we treat a node as event-first unless
			// the node itself is the target.
			tgt := false
			Inspect(nd, false, func(x ast.Node) bool {
				if isTarget(x) {
					tgt = true
				}
				return !tgt
			})
			if tgt {
				targets++
				evInside := false
				if rs, ok := nd.(*ast.ReturnStmt); ok {
					for _, r := range rs.Results {
						if hasEvent(r) {
							evInside = true
						}
					}
				}
				if !st && !evInside {
					missed = append(missed, nd)
				}
			}
			if !st && hasEvent(nd) {
				st = true
			}
		}
	}
	return missed, targets
}

// ReturnsNilError reports whether a return statement returns a nil (or no) error
// in its last result; named-result bare returns count as possibly nil.
func ReturnsNilError(info *types.Info, rs *ast.ReturnStmt) bool {
	if len(rs.Results) == 0 {
		return true
	}
	last := rs.Results[len(rs.Results)-1]
	return IsNil(info, last)
}

// ObjOf returns the object an identifier expression denotes.
func ObjOf(info *types.Info, e ast.Expr) types.Object {
	if id, ok := ast.Unparen(e).(*ast.Ident); ok {
		if o := info.Uses[id]; o != nil {
			return o
		}
		return info.Defs[id]
	}
	return nil
}

// FieldOf resolves a selector to the struct field it selects (nil otherwise).
func FieldOf(info *types.Info, e ast.Expr) *types.Var {
	sel, ok := ast.Unparen(e).(*ast.SelectorExpr)
	if !ok {
		return nil
	}
	if s, ok := info.Selections[sel]; ok && s.Kind() == types.FieldVal {
		return s.Obj().(*types.Var)
	}
	return nil
}

// NamedOf strips pointers and returns the named type.
func NamedOf(t types.Type) *types.Named {
	for {
		switch x := t.(type) {
		case *types.Pointer:
			t = x.Elem()
		case *types.Named:
			return x
		case *types.Alias:
			t = types.Unalias(x)
		default:
			return nil
		}
	}
}

// IsNamed reports whether t (through pointers) is the named type pkgPath.name.
func IsNamed(t types.Type, pkgPath, name string) bool {
	n := NamedOf(t)
	return n != nil && n.Obj().Pkg() != nil && n.Obj().Pkg().Path() == pkgPath && n.Obj().Name() == name
}

// ExprString is types.ExprString.
func ExprString(e ast.Expr) string { return types.ExprString(e) }

// PosOf is a convenience for nil-safe positions.
func PosOf(n ast.Node) token.Pos {
	if n == nil {
		return token.NoPos
	}
	return n.Pos()
}
