package rules

import (
	"go/ast"
	"go/token"
	"go/types"
	"sort"
	"strings"
)

// PureFunc, when set, decides whether a repository function is free of side effects (checked on its SSA body).
var PureFunc func(*types.Func) bool

// OrderSite is one source of run-to-run variation found in a function body.
type OrderSite struct {
	Kind   string // "range-map", "MapRange", "MapKeys", "time.Now", "rand", "pid/env", "%p", "select", "go"
	Node   ast.Node
	Expr   string // the ranged expression / callee
	Class  string // "" = obligation; otherwise the idiom that makes it order-insensitive
	Reason string
}

// FindOrderSites scans one function body (nested literals excluded: they are
// separate functions of the closure).
func FindOrderSites(info *types.Info, body *ast.BlockStmt) []OrderSite {
	var out []OrderSite
	if body == nil {
		return nil
	}
	Inspect(body, false, func(n ast.Node) bool {
		switch x := n.(type) {
		case *ast.RangeStmt:
			tv, ok := info.Types[x.X]
			if !ok {
				return true
			}
			if _, isMap := tv.Type.Underlying().(*types.Map); isMap {
				s := OrderSite{Kind: "range-map", Node: x, Expr: types.ExprString(x.X)}
				s.Class, s.Reason = classifyRange(info, body, x)
				out = append(out, s)
			}
		case *ast.SelectStmt:
			n := 0
			for _, c := range x.Body.List {
				if cc, ok := c.(*ast.CommClause); ok && cc.Comm != nil {
					n++
				}
			}
			if n > 1 {
				out = append(out, OrderSite{Kind: "select", Node: x, Expr: "select"})
			}
		case *ast.GoStmt:
			out = append(out, OrderSite{Kind: "go", Node: x, Expr: "go " + types.ExprString(x.Call.Fun)})
		case *ast.CallExpr:
			fn := Callee(info, x)
			if fn == nil {
				return true
			}
			switch {
			case IsMethod(fn, "reflect", "Value", "MapRange"):
				out = append(out, OrderSite{Kind: "MapRange", Node: x, Expr: types.ExprString(x.Fun)})
			case IsMethod(fn, "reflect", "Value", "MapKeys"):
				out = append(out, OrderSite{Kind: "MapKeys", Node: x, Expr: types.ExprString(x.Fun)})
			case IsPkgFunc(fn, "time", "Now") || IsPkgFunc(fn, "time", "Since"):
				out = append(out, OrderSite{Kind: "time.Now", Node: x, Expr: fn.Name()})
			case fn.Pkg() != nil && (fn.Pkg().Path() == "math/rand" || fn.Pkg().Path() == "math/rand/v2" || fn.Pkg().Path() == "crypto/rand"):
				out = append(out, OrderSite{Kind: "rand", Node: x, Expr: fn.Pkg().Path() + "." + fn.Name()})
			case IsPkgFunc(fn, "os", "Getpid") || IsPkgFunc(fn, "os", "Environ") || IsPkgFunc(fn, "os", "Hostname") || IsPkgFunc(fn, "os", "Getppid"):
				out = append(out, OrderSite{Kind: "pid/env", Node: x, Expr: "os." + fn.Name()})
			case fn.Pkg() != nil && fn.Pkg().Path() == "fmt":
				for _, a := range x.Args {
					if s, ok := ConstString(info, a); ok && strings.Contains(s, "%p") {
						out = append(out, OrderSite{Kind: "%p", Node: x, Expr: "fmt." + fn.Name()})
					}
				}
			}
		}
		return true
	})
	return out
}

// classifyRange recognises the repository's order-insensitive loop idioms.
func classifyRange(info *types.Info, fnBody *ast.BlockStmt, rs *ast.RangeStmt) (class, reason string) {
	keyObj := ObjOf(info, rs.Key)
	var appended []types.Object // slices appended to
	appendedExpr := map[types.Object]ast.Expr{}
	onlyMapStores, onlyAppends, onlyFold, onlyErr := true, true, true, true
	nStmts := 0
	var walk func(stmts []ast.Stmt) bool
	pureExpr := func(e ast.Expr) bool { return exprPure(info, e) }
	walk = func(stmts []ast.Stmt) bool {
		for _, s := range stmts {
			switch x := s.(type) {
			case *ast.AssignStmt:
				nStmts++
				for _, r := range x.Rhs {
					if !pureExpr(r) && !isAppendCall(info, r) {
						return false
					}
				}
				for i, l := range x.Lhs {
					switch lx := l.(type) {
					case *ast.IndexExpr:
						// m[k] = v with k the range key (distinct per iteration) or any pure key when the value
						// does not depend on the iteration order
						if _, isMap := info.Types[lx.X].Type.Underlying().(*types.Map); !isMap {
							return false
						}
						if !pureExpr(lx.Index) {
							return false
						}
						// keyed by the range key: distinct keys, no overwrite between iterations
						if keyObj == nil || !mentions(info, lx.Index, keyObj) {
							// value-keyed store (e.g. map inversion / set building): insensitive only if the
							// stored value is a constant (set semantics)
							if i < len(x.Rhs) {
								if tv := info.Types[x.Rhs[i]]; tv.Value == nil && !isEmptyStructLit(x.Rhs[i]) {
									return false
								}
							}
						}
						onlyAppends, onlyFold, onlyErr = false, false, false
					case *ast.Ident:
						o := ObjOf(info, lx)
						if x.Tok == token.DEFINE {
							continue // local temp
						}
						if i < len(x.Rhs) && isAppendTo(info, x.Rhs[i], o) {
							appended = append(appended, o)
							if call, ok := x.Rhs[i].(*ast.CallExpr); ok && len(call.Args) == 2 {
								appendedExpr[o] = call.Args[1]
							}
							onlyMapStores, onlyFold, onlyErr = false, false, false
							continue
						}
						if x.Tok == token.ADD_ASSIGN || x.Tok == token.OR_ASSIGN || x.Tok == token.AND_ASSIGN {
							if b, ok := info.Types[lx].Type.Underlying().(*types.Basic); ok && b.Info()&(types.IsInteger|types.IsBoolean) != 0 {
								onlyMapStores, onlyAppends, onlyErr = false, false, false
								continue
							}
						}
						// x = x || e ; x = true
						if i < len(x.Rhs) {
							if tv := info.Types[x.Rhs[i]]; tv.Value != nil {
								onlyMapStores, onlyAppends, onlyErr = false, false, false
								continue // assigning a constant flag
							}
						}
						return false
					default:
						return false
					}
				}
			case *ast.IncDecStmt:
				nStmts++
				if _, ok := x.X.(*ast.Ident); !ok {
					return false
				}
				onlyMapStores, onlyAppends, onlyErr = false, false, false
			case *ast.ExprStmt:
				nStmts++
				call, ok := x.X.(*ast.CallExpr)
				if !ok || !IsBuiltin(info, call, "delete") {
					return false
				}
				onlyAppends, onlyFold, onlyErr = false, false, false
			case *ast.IfStmt:
				if x.Init != nil {
					if as, ok := x.Init.(*ast.AssignStmt); !ok || as.Tok != token.DEFINE {
						return false
					} else {
						for _, r := range as.Rhs {
							if !pureExpr(r) {
								return false
							}
						}
					}
				}
				if !pureExpr(x.Cond) {
					return false
				}
				if !walk(x.Body.List) {
					return false
				}
				switch e := x.Else.(type) {
				case nil:
				case *ast.BlockStmt:
					if !walk(e.List) {
						return false
					}
				case *ast.IfStmt:
					if !walk([]ast.Stmt{e}) {
						return false
					}
				}
			case *ast.BranchStmt:
				if x.Tok != token.CONTINUE || x.Label != nil {
					return false
				}
			case *ast.ReturnStmt:
				nStmts++
				// error-choice: returns an error (last result non-nil, others zero/constant)
				if len(x.Results) == 0 {
					return false
				}
				last := x.Results[len(x.Results)-1]
				if !IsErrorType(info.Types[last].Type) && !implementsError(info.Types[last].Type) {
					return false
				}
				if IsNil(info, last) {
					return false
				}
				onlyMapStores, onlyAppends, onlyFold = false, false, false
			case *ast.DeclStmt:
				// var x T
			case *ast.BlockStmt:
				if !walk(x.List) {
					return false
				}
			default:
				return false
			}
		}
		return true
	}
	if !walk(rs.Body.List) {
		return "", ""
	}
	if nStmts == 0 {
		return "empty", "loop body has no effect"
	}
	switch {
	case onlyMapStores:
		return "into-map", "body only stores into maps under the (distinct) range key, stores constants, or deletes"
	case onlyErr:
		return "error-choice", "body only continues or returns an error: file contents cannot depend on the order"
	case onlyFold:
		return "commutative-fold", "body only counts / ors / sets constant flags"
	case onlyAppends && len(appended) > 0:
		// collect-then-sort: every appended slice is passed to a sort call after the loop before any other use
		for _, o := range appended {
			if !sortedAfter(info, fnBody, rs, o) {
				return "", ""
			}
			if why := sortKeyUnique(info, fnBody, rs, o, appendedExpr[o]); why != "" {
				return "", "collected elements are sorted, but " + why
			}
		}
		return "collect-then-sort", "body only appends to slice(s) that are sorted right after the loop by a key that is unique per map entry"
	}
	// mixtures of insensitive effects (map stores + folds + error returns) are still insensitive
	if len(appended) == 0 {
		return "mixed-insensitive", "body combines map stores under the range key, commutative folds and error returns"
	}
	for _, o := range appended {
		if !sortedAfter(info, fnBody, rs, o) {
			return "", ""
		}
		if why := sortKeyUnique(info, fnBody, rs, o, appendedExpr[o]); why != "" {
			return "", "collected elements are sorted, but " + why
		}
	}
	return "mixed-insensitive+sort", "appends are sorted after the loop; other effects are order-insensitive"
}

func isEmptyStructLit(e ast.Expr) bool {
	cl, ok := e.(*ast.CompositeLit)
	return ok && len(cl.Elts) == 0
}

func implementsError(t types.Type) bool {
	if t == nil {
		return false
	}
	errI := types.Universe.Lookup("error").Type().Underlying().(*types.Interface)
	return types.Implements(t, errI)
}

func mentions(info *types.Info, e ast.Expr, o types.Object) bool {
	found := false
	ast.Inspect(e, func(n ast.Node) bool {
		if id, ok := n.(*ast.Ident); ok && info.Uses[id] == o {
			found = true
		}
		return !found
	})
	return found
}

func isAppendCall(info *types.Info, e ast.Expr) bool {
	call, ok := e.(*ast.CallExpr)
	if !ok || !IsBuiltin(info, call, "append") {
		return false
	}
	for _, a := range call.Args[1:] {
		if !exprPure(info, a) {
			return false
		}
	}
	return true
}

func isAppendTo(info *types.Info, e ast.Expr, o types.Object) bool {
	call, ok := e.(*ast.CallExpr)
	if !ok || !IsBuiltin(info, call, "append") || len(call.Args) < 1 {
		return false
	}
	return ObjOf(info, call.Args[0]) == o && o != nil
}

// exprPure: no calls except builtins len/cap, conversions, and method/func calls
// that only read (approximated: selector getters named Get*/Is*/Has*/String/Name/Lookup* and
// strings./strconv./fmt.Sprint* /errors. / filepath. functions).
func exprPure(info *types.Info, e ast.Expr) bool {
	pure := true
	ast.Inspect(e, func(n ast.Node) bool {
		switch x := n.(type) {
		case *ast.FuncLit:
			pure = false
		case *ast.UnaryExpr:
			if x.Op == token.ARROW {
				pure = false
			}
		case *ast.CallExpr:
			if tv, ok := info.Types[x.Fun]; ok && tv.IsType() {
				return true
			}
			if id, ok := ast.Unparen(x.Fun).(*ast.Ident); ok {
				if b, ok := info.Uses[id].(*types.Builtin); ok {
					switch b.Name() {
					case "len", "cap", "min", "max", "new", "make":
						return true
					}
					pure = false
					return false
				}
			}
			fn := Callee(info, x)
			if fn == nil {
				pure = false
				return false
			}
			if fn.Pkg() != nil {
				switch fn.Pkg().Path() {
				case "strings", "strconv", "errors", "path/filepath", "path", "unicode", "bytes", "sort":
					if fn.Pkg().Path() == "sort" && !strings.HasPrefix(fn.Name(), "Search") {
						pure = false
					}
					return true
				case "fmt":
					if strings.HasPrefix(fn.Name(), "Sprint") || fn.Name() == "Errorf" {
						return true
					}
					pure = false
					return false
				}
			}
			if PureFunc != nil && PureFunc(fn) {
				return true
			}
			nm := fn.Name()
			for _, p := range []string{"Get", "Is", "Has", "String", "Name", "Lookup", "Len", "Error", "get", "is", "has"} {
				if strings.HasPrefix(nm, p) {
					return true
				}
			}
			pure = false
			return false
		}
		return pure
	})
	return pure
}

// sortedAfter: after the range statement, the first use of slice o in the
// enclosing function body is as an argument of a sort call.
func sortedAfter(info *types.Info, fnBody *ast.BlockStmt, rs *ast.RangeStmt, o types.Object) bool {
	var firstUse ast.Node
	var sortCall *ast.CallExpr
	// collect sort calls mentioning o after the loop
	Inspect(fnBody, false, func(n ast.Node) bool {
		if n.Pos() < rs.End() {
			return true
		}
		switch x := n.(type) {
		case *ast.CallExpr:
			if fn := Callee(info, x); fn != nil && fn.Pkg() != nil && (fn.Pkg().Path() == "sort" || fn.Pkg().Path() == "slices") && (strings.HasPrefix(fn.Name(), "S") || strings.HasPrefix(fn.Name(), "Ints") || strings.HasPrefix(fn.Name(), "Float")) {
				if len(x.Args) > 0 && isWhole(info, x.Args[0], o) && sortCall == nil {
					sortCall = x
				}
			}
		case *ast.Ident:
			if info.Uses[x] == o && firstUse == nil {
				firstUse = x
			}
		}
		return true
	})
	if sortCall == nil || firstUse == nil {
		return false
	}
	return firstUse.Pos() >= sortCall.Pos() && firstUse.End() <= sortCall.End()
}

// isWhole: e is the slice variable o itself, or a conversion / single-argument wrapper of it
// (sort.Sort(byName(o))): a sub-slice like o[:0] does not count.
func isWhole(info *types.Info, e ast.Expr, o types.Object) bool {
	e = ast.Unparen(e)
	if ObjOf(info, e) == o && o != nil {
		return true
	}
	if call, ok := e.(*ast.CallExpr); ok && len(call.Args) == 1 {
		return isWhole(info, call.Args[0], o)
	}
	return false
}

// accessors lists the method / field names applied (transitively) to identifiers for which isBase holds.
func accessors(info *types.Info, e ast.Expr, isBase func(ast.Expr) bool) map[string]bool {
	out := map[string]bool{}
	var walk func(x ast.Expr) bool // returns true if x is rooted at a base
	walk = func(x ast.Expr) bool {
		switch v := ast.Unparen(x).(type) {
		case *ast.SelectorExpr:
			if walk(v.X) {
				out[v.Sel.Name] = true
				return true
			}
		case *ast.CallExpr:
			if tv, ok := info.Types[v.Fun]; ok && tv.IsType() && len(v.Args) == 1 {
				return walk(v.Args[0]) // conversion
			}
			return walk(v.Fun)
		case *ast.IndexExpr:
			if isBase(v) {
				return true
			}
			return walk(v.X)
		case *ast.StarExpr:
			return walk(v.X)
		default:
			return isBase(x)
		}
		return false
	}
	ast.Inspect(e, func(n ast.Node) bool {
		if x, ok := n.(ast.Expr); ok {
			walk(x)
		}
		return true
	})
	delete(out, "String")
	return out
}

// sortKeyUnique checks that the comparison used to sort the collected slice orders by the map key (which is unique per
// entry); otherwise equal-keyed elements keep map-iteration order. It returns "" when the sort is total, else the reason.
func sortKeyUnique(info *types.Info, fnBody *ast.BlockStmt, rs *ast.RangeStmt, slice types.Object, elem ast.Expr) string {
	if elem == nil {
		return "the appended element is not a single expression"
	}
	keyObj := ObjOf(info, rs.Key)
	valObj := types.Object(nil)
	if rs.Value != nil {
		valObj = ObjOf(info, rs.Value)
	}
	// locate the sort call
	var sortCall *ast.CallExpr
	Inspect(fnBody, false, func(n ast.Node) bool {
		if call, ok := n.(*ast.CallExpr); ok && n.Pos() >= rs.End() && sortCall == nil {
			if fn := Callee(info, call); fn != nil && fn.Pkg() != nil && (fn.Pkg().Path() == "sort" || fn.Pkg().Path() == "slices") && len(call.Args) > 0 && isWhole(info, call.Args[0], slice) {
				sortCall = call
			}
		}
		return true
	})
	if sortCall == nil {
		return "no sort call found"
	}
	sortFn := Callee(info, sortCall)
	// (A) elements are the keys themselves
	stripConv := func(e ast.Expr) ast.Expr {
		for {
			c, ok := ast.Unparen(e).(*ast.CallExpr)
			if !ok || len(c.Args) != 1 {
				return ast.Unparen(e)
			}
			if tv, ok := info.Types[c.Fun]; ok && tv.IsType() {
				e = c.Args[0]
				continue
			}
			return ast.Unparen(e)
		}
	}
	if keyObj != nil && ObjOf(info, stripConv(elem)) == keyObj {
		switch sortFn.Name() {
		case "Strings", "Ints", "Float64s", "Sort", "Stable", "Slice", "SliceStable":
			return ""
		}
	}
	// which accessor of an element carries the key?
	var keyAcc map[string]bool
	if cl, ok := ast.Unparen(elem).(*ast.CompositeLit); ok && keyObj != nil {
		// (B) a record built from the entry: the field fed by the map key
		st, _ := info.Types[cl].Type.Underlying().(*types.Struct)
		for i, e := range cl.Elts {
			var fname string
			val := e
			if kv, ok := e.(*ast.KeyValueExpr); ok {
				fname = ExprString(kv.Key)
				val = kv.Value
			} else if st != nil && i < st.NumFields() {
				fname = st.Field(i).Name()
			}
			if ObjOf(info, stripConv(val)) == keyObj && fname != "" {
				keyAcc = map[string]bool{fname: true}
			}
		}
		if keyAcc == nil {
			return "the collected records do not carry the map key"
		}
	} else if valObj != nil && ObjOf(info, stripConv(elem)) == valObj {
		// (C) elements are the map values: the map must have been filled as m[K(x)] = x in this function
		mapText := types.ExprString(rs.X)
		Inspect(fnBody, false, func(n ast.Node) bool {
			as, ok := n.(*ast.AssignStmt)
			if !ok || len(as.Lhs) != 1 || len(as.Rhs) != 1 {
				return true
			}
			ix, ok := as.Lhs[0].(*ast.IndexExpr)
			if !ok || types.ExprString(ix.X) != mapText {
				return true
			}
			src := ObjOf(info, as.Rhs[0])
			if src == nil {
				return true
			}
			acc := accessors(info, ix.Index, func(e ast.Expr) bool { return ObjOf(info, e) == src })
			if len(acc) > 0 {
				keyAcc = acc
			}
			return true
		})
		if keyAcc == nil {
			return "the map's key cannot be related to its values in this function"
		}
	} else {
		return "the appended element is neither the key, a record carrying the key, nor the value"
	}
	// the comparison
	var less ast.Node
	switch sortFn.Name() {
	case "Slice", "SliceStable":
		if len(sortCall.Args) == 2 {
			less = sortCall.Args[1]
		}
	case "Sort", "Stable":
		// sort.Interface: find Less of the slice's named type
		if nt := NamedOf(info.Types[sortCall.Args[0]].Type); nt != nil {
			for i := 0; i < nt.NumMethods(); i++ {
				if nt.Method(i).Name() == "Less" {
					less = lessDecl[nt.Method(i)]
				}
			}
		}
	}
	if less == nil {
		return "the comparison function of the sort could not be found"
	}
	// elements in less are s[i] / s[j] (index expressions)
	cmpAcc := map[string]bool{}
	ast.Inspect(less, func(n ast.Node) bool {
		be, ok := n.(*ast.BinaryExpr)
		if !ok || (be.Op != token.LSS && be.Op != token.GTR) {
			return true
		}
		for _, side := range []ast.Expr{be.X, be.Y} {
			for a := range accessors(info, side, func(e ast.Expr) bool { _, ok := ast.Unparen(e).(*ast.IndexExpr); return ok }) {
				cmpAcc[a] = true
			}
		}
		return true
	})
	for a := range keyAcc {
		if !cmpAcc[a] {
			return "the sort compares " + setString(cmpAcc) + " while the map entries are distinguished by " + setString(keyAcc) + ": entries that tie keep map-iteration order"
		}
	}
	for a := range cmpAcc {
		if !keyAcc[a] {
			return "the sort compares " + setString(cmpAcc) + " while the map entries are distinguished by " + setString(keyAcc) + ": entries that tie keep map-iteration order"
		}
	}
	return ""
}

func setString(m map[string]bool) string {
	var ks []string
	for k := range m {
		ks = append(ks, k)
	}
	sort.Strings(ks)
	return "{" + strings.Join(ks, ",") + "}"
}

// lessDecl maps Less methods of sort.Interface implementations to their declarations (filled by RegisterDecls).
var lessDecl = map[*types.Func]*ast.FuncDecl{}

// RegisterDecls makes method declarations available to the ORDER rules.
func RegisterDecls(info *types.Info, files []*ast.File) {
	for _, f := range files {
		for _, d := range f.Decls {
			if fd, ok := d.(*ast.FuncDecl); ok && fd.Recv != nil && fd.Name.Name == "Less" {
				if fo, ok := info.Defs[fd.Name].(*types.Func); ok {
					lessDecl[fo] = fd
				}
			}
		}
	}
}
