package rules

import (
	"go/token"
	"go/types"

	"golang.org/x/tools/go/ssa"
)

// Method finds the SSA function of method name on named type typ (pointer receiver tried first).
func Method(prog *ssa.Program, pkg *ssa.Package, typ, name string) *ssa.Function {
	if pkg == nil {
		return nil
	}
	m := pkg.Members[typ]
	t, ok := m.(*ssa.Type)
	if !ok {
		return nil
	}
	for _, tt := range []types.Type{types.NewPointer(t.Type()), t.Type()} {
		ms := prog.MethodSets.MethodSet(tt)
		for i := 0; i < ms.Len(); i++ {
			if ms.At(i).Obj().Name() == name {
				return prog.MethodValue(ms.At(i))
			}
		}
	}
	return nil
}

// Func finds a package-level SSA function.
func Func(pkg *ssa.Package, name string) *ssa.Function {
	if pkg == nil {
		return nil
	}
	return pkg.Func(name)
}

// Root follows free variables of closures back to the value bound in the
// enclosing function (an Alloc for captured variables).
func Root(v ssa.Value) ssa.Value {
	for i := 0; i < 8; i++ {
		fv, ok := v.(*ssa.FreeVar)
		if !ok {
			return v
		}
		fn := fv.Parent()
		par := fn.Parent()
		if par == nil {
			return v
		}
		idx := -1
		for k, f := range fn.FreeVars {
			if f == fv {
				idx = k
			}
		}
		var bound ssa.Value
		for _, b := range par.Blocks {
			for _, ins := range b.Instrs {
				if mc, ok := ins.(*ssa.MakeClosure); ok && mc.Fn == fn && idx >= 0 && idx < len(mc.Bindings) {
					bound = mc.Bindings[idx]
				}
			}
		}
		if bound == nil {
			return v
		}
		v = bound
	}
	return v
}

// StoresTo lists the stores into cell (an Alloc), searching the allocating
// function and all its nested closures (through their free variables).
func StoresTo(cell ssa.Value) []*ssa.Store {
	al, ok := cell.(*ssa.Alloc)
	if !ok {
		return nil
	}
	var out []*ssa.Store
	var visit func(fn *ssa.Function)
	visit = func(fn *ssa.Function) {
		for _, b := range fn.Blocks {
			for _, ins := range b.Instrs {
				if st, ok := ins.(*ssa.Store); ok && Root(st.Addr) == ssa.Value(al) {
					out = append(out, st)
				}
			}
		}
		for _, a := range fn.AnonFuncs {
			visit(a)
		}
	}
	visit(al.Parent())
	return out
}

// Deref resolves a load `*cell` to the unique value ever stored in the cell
// (nil if the cell has zero or several stores, or v is not such a load).
func Deref(v ssa.Value) ssa.Value {
	u, ok := v.(*ssa.UnOp)
	if !ok || u.Op != token.MUL {
		return nil
	}
	root := Root(u.X)
	st := StoresTo(root)
	if len(st) != 1 {
		return nil
	}
	return st[0].Val
}

// Resolve strips loads from single-store cells, ChangeType/Convert/MakeInterface wrappers.
func Resolve(v ssa.Value) ssa.Value {
	for i := 0; i < 16; i++ {
		switch x := v.(type) {
		case *ssa.UnOp:
			if d := Deref(x); d != nil {
				v = d
				continue
			}
			return v
		case *ssa.ChangeType:
			v = x.X
		case *ssa.FreeVar:
			r := Root(x)
			if r == v {
				return v
			}
			v = r
		default:
			return v
		}
	}
	return v
}

// CalleeOf returns the static callee of a call instruction (nil for dynamic calls).
func CalleeOf(c ssa.CallInstruction) *ssa.Function {
	return c.Common().StaticCallee()
}

// IsMethodCall reports whether the call statically invokes pkgPath.(typ).name.
func IsMethodCall(c ssa.CallInstruction, pkgPath, typ, name string) bool {
	f := CalleeOf(c)
	if f == nil || f.Object() == nil {
		return false
	}
	fo, ok := f.Object().(*types.Func)
	return ok && IsMethod(fo, pkgPath, typ, name)
}

// InCycle reports whether block b lies on a CFG cycle.
func InCycle(b *ssa.BasicBlock) bool {
	seen := map[*ssa.BasicBlock]bool{}
	var dfs func(x *ssa.BasicBlock) bool
	dfs = func(x *ssa.BasicBlock) bool {
		for _, s := range x.Succs {
			if s == b {
				return true
			}
			if !seen[s] {
				seen[s] = true
				if dfs(s) {
					return true
				}
			}
		}
		return false
	}
	return dfs(b)
}

// ReachableFrom returns the blocks reachable from the successors of b (b itself
// only if on a cycle), not passing through blocks for which stop holds.
func ReachableFrom(b *ssa.BasicBlock, stop func(*ssa.BasicBlock) bool) map[*ssa.BasicBlock]bool {
	seen := map[*ssa.BasicBlock]bool{}
	var dfs func(x *ssa.BasicBlock)
	dfs = func(x *ssa.BasicBlock) {
		for _, s := range x.Succs {
			if seen[s] || (stop != nil && stop(s)) {
				continue
			}
			seen[s] = true
			dfs(s)
		}
	}
	dfs(b)
	return seen
}

// InstrIndex returns the index of ins within its block.
func InstrIndex(ins ssa.Instruction) int {
	for i, x := range ins.Block().Instrs {
		if x == ins {
			return i
		}
	}
	return -1
}

// Paths enumerates all acyclic entry-to-exit block paths of fn (exit = block
// without successors), skipping the recover block. It returns ok=false when
// the function has more than limit paths or contains a cycle.
func Paths(fn *ssa.Function, limit int) (paths [][]*ssa.BasicBlock, ok bool) {
	if len(fn.Blocks) == 0 {
		return nil, false
	}
	ok = true
	var cur []*ssa.BasicBlock
	on := map[*ssa.BasicBlock]bool{}
	var dfs func(b *ssa.BasicBlock)
	dfs = func(b *ssa.BasicBlock) {
		if !ok {
			return
		}
		if on[b] {
			ok = false
			return
		}
		on[b] = true
		cur = append(cur, b)
		if len(b.Succs) == 0 {
			if len(paths) >= limit {
				ok = false
			} else {
				paths = append(paths, append([]*ssa.BasicBlock(nil), cur...))
			}
		}
		for _, s := range b.Succs {
			dfs(s)
		}
		cur = cur[:len(cur)-1]
		on[b] = false
	}
	dfs(fn.Blocks[0])
	return paths, ok
}
