package rules

import (
	"fmt"
	"go/ast"
	"sort"
	"strings"

	"golang.org/x/tools/go/cfg"
)

// Automaton is a finite typestate protocol. Events outside Alphabet are ignored.
// A missing transition for an event of the alphabet is a violation.
type Automaton struct {
	Start    string
	Trans    map[string]map[string]string // state -> event -> state
	Alphabet map[string]bool
	// Final lists the events at which the run ends (e.g. "ret-nil"); the state in which they may occur is
	// given by the presence of a transition for them.
}

// NewAutomaton builds an automaton from "state event state" triples.
func NewAutomaton(start string, triples ...string) *Automaton {
	a := &Automaton{Start: start, Trans: map[string]map[string]string{}, Alphabet: map[string]bool{}}
	for _, t := range triples {
		f := strings.Fields(t)
		if len(f) != 3 {
			panic("bad triple " + t)
		}
		if a.Trans[f[0]] == nil {
			a.Trans[f[0]] = map[string]string{}
		}
		a.Trans[f[0]][f[1]] = f[2]
		a.Alphabet[f[1]] = true
	}
	return a
}

// RunTypestate runs the automaton over every path of the CFG (set-of-states dataflow to a fixpoint) and
// reports each (state, event) pair without a transition. events returns the events of one CFG node in
// evaluation order.
func RunTypestate(g *cfg.CFG, a *Automaton, events func(n ast.Node) []string) []string {
	n := len(g.Blocks)
	in := make([]map[string]bool, n)
	for i := range in {
		in[i] = map[string]bool{}
	}
	if n == 0 {
		return nil
	}
	in[0][a.Start] = true
	viol := map[string]bool{}
	work := []int{0}
	queued := map[int]bool{0: true}
	for len(work) > 0 {
		bi := work[0]
		work = work[1:]
		queued[bi] = false
		b := g.Blocks[bi]
		cur := map[string]bool{}
		for s := range in[bi] {
			cur[s] = true
		}
		for _, nd := range b.Nodes {
			for _, ev := range events(nd) {
				if !a.Alphabet[ev] {
					continue
				}
				next := map[string]bool{}
				for s := range cur {
					if s == "⊥" {
						continue
					}
					if t, ok := a.Trans[s][ev]; ok {
						next[t] = true
					} else {
						viol[fmt.Sprintf("event %s in state %s", ev, s)] = true
					}
				}
				cur = next
			}
		}
		for _, succ := range b.Succs {
			changed := false
			for s := range cur {
				if !in[succ.Index][s] {
					in[succ.Index][s] = true
					changed = true
				}
			}
			if changed && !queued[int(succ.Index)] {
				queued[int(succ.Index)] = true
				work = append(work, int(succ.Index))
			}
		}
	}
	var out []string
	for v := range viol {
		out = append(out, v)
	}
	sort.Strings(out)
	return out
}

// SelectorCall matches `recv.Name(...)` textually on an untyped AST: returns (recv expression string, method name).
func SelectorCall(n ast.Node) (recv, name string, call *ast.CallExpr, ok bool) {
	c, isCall := n.(*ast.CallExpr)
	if !isCall {
		return "", "", nil, false
	}
	sel, isSel := c.Fun.(*ast.SelectorExpr)
	if !isSel {
		return "", "", nil, false
	}
	return exprText(sel.X), sel.Sel.Name, c, true
}

func exprText(e ast.Expr) string {
	switch x := e.(type) {
	case *ast.Ident:
		return x.Name
	case *ast.SelectorExpr:
		return exprText(x.X) + "." + x.Sel.Name
	case *ast.StarExpr:
		return "*" + exprText(x.X)
	case *ast.ParenExpr:
		return exprText(x.X)
	case *ast.CallExpr:
		var as []string
		for _, a := range x.Args {
			as = append(as, exprText(a))
		}
		return exprText(x.Fun) + "(" + strings.Join(as, ", ") + ")"
	case *ast.IndexExpr:
		return exprText(x.X) + "[" + exprText(x.Index) + "]"
	case *ast.UnaryExpr:
		return x.Op.String() + exprText(x.X)
	case *ast.BasicLit:
		return x.Value
	case *ast.BinaryExpr:
		return exprText(x.X) + " " + x.Op.String() + " " + exprText(x.Y)
	}
	return "?"
}

// ExprText renders simple expressions of an untyped AST.
func ExprText(e ast.Expr) string { return exprText(e) }

// NodeCalls lists selector calls under a node in source order (function literals excluded).
func NodeCalls(n ast.Node) []*ast.CallExpr {
	var out []*ast.CallExpr
	Inspect(n, false, func(x ast.Node) bool {
		if c, ok := x.(*ast.CallExpr); ok {
			out = append(out, c)
		}
		return true
	})
	// evaluation order: arguments before the call itself; ast.Inspect is pre-order, so reverse nested ones
	sort.SliceStable(out, func(i, j int) bool {
		// a call that contains another is evaluated after it
		if out[i].Pos() <= out[j].Pos() && out[j].End() <= out[i].End() && out[i] != out[j] {
			return false
		}
		if out[j].Pos() <= out[i].Pos() && out[i].End() <= out[j].End() && out[i] != out[j] {
			return true
		}
		return out[i].Pos() < out[j].Pos()
	})
	return out
}
